From Coq Require Import NArith List Bool Lia Sorting.Sorted.
From WV Require Import C08.Model.
Import ListNotations.
Open Scope N_scope.

Section Proofs.
  Variable name : Type.
  Variable name_eqb : name -> name -> bool.
  Hypothesis name_eqb_refl : forall n, name_eqb n n = true.
  Variable nb symbase : N.
  Hypothesis symbase_pos : 0 < symbase.

  Notation bucket := (bucket nb).
  Notation chains_of := (chains_of nb).
  Notation buckets_loop := (buckets_loop nb symbase).
  Notation buckets_of := (buckets_of nb symbase).
  Notation walk := (walk name name_eqb).

  (* ---------- bloom filter: no false negatives ---------- *)
  Lemma testbit_shiftl_1 k : N.testbit (N.shiftl 1 k) k = true.
  Proof. rewrite N.shiftl_1_l. apply N.pow2_bits_true. Qed.

  Lemma bloom_mono hs : forall w k, N.testbit w k = true ->
    N.testbit (fold_left (fun w h => N.lor w (bloom_bits h)) hs w) k = true.
  Proof.
    induction hs as [|h t IH]; intros w k H; cbn [fold_left]; [assumption|].
    apply IH. rewrite N.lor_spec, H. reflexivity.
  Qed.

  Lemma bloom_in hs : forall w h, In h hs ->
    N.testbit (fold_left (fun w h => N.lor w (bloom_bits h)) hs w) (h mod 64) = true /\
    N.testbit (fold_left (fun w h => N.lor w (bloom_bits h)) hs w) ((N.shiftr h 6) mod 64) = true.
  Proof.
    induction hs as [|h0 t IH]; intros w h Hin; [contradiction|].
    cbn [fold_left]. destruct Hin as [->|Hin]; [|apply IH; assumption].
    split; apply bloom_mono; unfold bloom_bits; rewrite !N.lor_spec, testbit_shiftl_1;
      rewrite ?orb_true_r; reflexivity.
  Qed.

  (* ---------- bucket array ---------- *)
  Fixpoint first_ix (hs : list N) (b : N) : option N :=
    match hs with
    | [] => None
    | h :: t => if bucket h =? b then Some 0 else option_map N.succ (first_ix t b)
    end.

  Definition bsorted (hs : list N) : Prop := StronglySorted N.le (map bucket hs).

  Lemma first_ix_none_all l b : (forall x, In x l -> b < bucket x) -> first_ix l b = None.
  Proof.
    induction l as [|h t IH]; intros H; [reflexivity|]. cbn [first_ix].
    destruct (N.eqb_spec (bucket h) b) as [E|E].
    - specialize (H h (or_introl eq_refl)). lia.
    - rewrite IH; [reflexivity|]. intros x Hx. apply H. right. assumption.
  Qed.

  Lemma first_ix_none_above h t b :
    bsorted (h :: t) -> b < bucket h -> first_ix (h :: t) b = None.
  Proof.
    intros Hs Hb. apply first_ix_none_all. intros x [<-|Hx]; [assumption|].
    unfold bsorted in Hs. cbn [map] in Hs. inversion Hs as [|? ? _ Hall]; subst.
    rewrite Forall_forall in Hall. specialize (Hall (bucket x) (in_map _ _ _ Hx)). lia.
  Qed.

  Lemma loop_spec r : bsorted r -> forall bk start i b,
    buckets_loop r bk start i b =
    if negb start && match r with h :: _ => bucket h =? b | [] => false end then bk b
    else match first_ix r b with Some k => i + k + symbase | None => bk b end.
  Proof.
    induction r as [|h t IH]; intros Hs bk start i b.
    - cbn. rewrite andb_false_r. reflexivity.
    - assert (Hst : bsorted t) by (unfold bsorted in *; cbn [map] in Hs; inversion Hs; assumption).
      cbn [Model.buckets_loop]. rewrite (IH Hst). clear IH.
      (* no later element has bucket (bucket h) once the run of h has ended *)
      assert (Hnone : forall h' t', t = h' :: t' -> bucket h' <> bucket h -> first_ix t (bucket h) = None).
      { intros h' t' -> Hne. apply first_ix_none_above; [assumption|].
        unfold bsorted in Hs. cbn [map] in Hs. inversion Hs as [|? ? _ Hall]; subst.
        inversion Hall; subst. lia. }
      cbn [first_ix].
      destruct t as [|h' t'].
      + (* h is the last element *)
        cbn [negb andb first_ix]. destruct start; cbn [negb andb].
        * unfold upd. rewrite (N.eqb_sym b). destruct (N.eqb_spec (bucket h) b); [f_equal; lia|reflexivity].
        * destruct (N.eqb_spec (bucket h) b); reflexivity.
      + destruct (N.eqb_spec (bucket h') (bucket h)) as [Eb|Eb]; cbn [negb andb].
        * (* the run continues: the recursive call is in "not start" form with the same bucket *)
          rewrite Eb.
          destruct (N.eqb_spec (bucket h) b) as [Ehb|Ehb].
          -- destruct start; cbn [negb andb]; [|reflexivity].
             unfold upd. rewrite <- Ehb, N.eqb_refl. f_equal. lia.
          -- destruct start; cbn [negb andb];
               destruct (first_ix (h' :: t') b) as [k|]; cbn [option_map];
               unfold upd; try (destruct (N.eqb_spec b (bucket h)); [congruence|]); try reflexivity; lia.
        * (* the run of h ends here *)
          specialize (Hnone h' t' eq_refl Eb).
          destruct (N.eqb_spec (bucket h) b) as [Ehb|Ehb].
          -- rewrite <- Ehb, Hnone.
             destruct start; cbn [negb andb]; [|reflexivity].
             unfold upd. rewrite N.eqb_refl. f_equal. lia.
          -- destruct start; cbn [negb andb];
               destruct (first_ix (h' :: t') b) as [k|]; cbn [option_map];
               unfold upd; try (destruct (N.eqb_spec b (bucket h)); [congruence|]); try reflexivity; lia.
  Qed.

  Lemma buckets_of_spec hs b : bsorted hs ->
    buckets_of hs b = match first_ix hs b with Some k => k + symbase | None => 0 end.
  Proof.
    intros Hs. unfold Model.buckets_of. rewrite (loop_spec hs Hs). cbn [negb andb].
    destruct (first_ix hs b); [f_equal|reflexivity].
  Qed.

  (* ---------- chain words ---------- *)
  Lemma chains_skipn hs : forall s, chains_of (skipn s hs) = skipn s (chains_of hs).
  Proof.
    induction hs as [|h t IH]; intros [|s]; cbn [skipn Model.chains_of]; try reflexivity. apply IH.
  Qed.

  Lemma chain_word_match h (s : bool) : N.shiftr (N.lxor (N.lor (clear0 h) (if s then 1 else 0)) h) 1 = 0.
  Proof.
    apply N.bits_inj. intros i. rewrite N.shiftr_spec', N.bits_0, N.lxor_spec, N.lor_spec.
    unfold clear0. rewrite N.ldiff_spec.
    assert (H1 : N.testbit 1 (i + 1) = false).
    { change 1 with (2 ^ 0). apply N.pow2_bits_false. lia. }
    assert (Hs : N.testbit (if s then 1 else 0) (i + 1) = false) by (destruct s; [exact H1|apply N.bits_0]).
    rewrite H1, Hs. cbn [negb]. rewrite andb_true_r, orb_false_r. apply xorb_nilpotent.
  Qed.

  Lemma chain_word_stop h (s : bool) : N.testbit (N.lor (clear0 h) (if s then 1 else 0)) 0 = s.
  Proof.
    rewrite N.lor_spec. unfold clear0. rewrite N.ldiff_spec.
    change (N.testbit 1 0) with true. cbn [negb]. rewrite andb_false_r. destruct s; reflexivity.
  Qed.

  (* walking a run: if the k-th entry from here matches and the k entries before it all continue
     the same bucket, the walk returns an entry at or before it whose name matches *)
  Lemma walk_finds : forall k hs ns idx h nm n,
    nth_error hs k = Some h -> nth_error ns k = Some n -> name_eqb n nm = true ->
    (forall j, (j < k)%nat -> exists a c, nth_error hs j = Some a /\ nth_error hs (S j) = Some c /\ bucket c = bucket a) ->
    exists j n', walk (combine (chains_of hs) ns) idx h nm = Some (idx + N.of_nat j) /\ (j <= k)%nat /\
                 nth_error ns j = Some n' /\ name_eqb n' nm = true.
  Proof.
    induction k as [|k IH]; intros hs ns idx h nm n Hh Hn Hnm Hrun.
    - destruct hs as [|h0 t]; [discriminate|]. destruct ns as [|n0 tn]; [discriminate|].
      cbn in Hh, Hn. injection Hh as ->. injection Hn as ->.
      cbn [Model.chains_of combine Model.walk]. rewrite chain_word_match, N.eqb_refl, Hnm. cbn [andb].
      exists 0%nat, n. split; [f_equal; lia|]. split; [lia|]. split; [reflexivity|assumption].
    - destruct hs as [|h0 t]; [discriminate|]. destruct ns as [|n0 tn]; [discriminate|].
      cbn [nth_error] in Hh, Hn.
      cbn [Model.chains_of combine Model.walk].
      destruct ((N.shiftr (N.lxor _ h) 1 =? 0) && name_eqb n0 nm) eqn:Em.
      + apply andb_prop in Em. destruct Em as [_ En0].
        exists 0%nat, n0. split; [f_equal; lia|]. split; [lia|]. split; [reflexivity|assumption].
      + (* stop bit of the head is 0: the next entry has the same bucket *)
        destruct (Hrun 0%nat ltac:(lia)) as (a & c & Ha & Hc & Hbc).
        cbn in Ha. injection Ha as <-. destruct t as [|h1 t']; [discriminate|]. cbn in Hc. injection Hc as <-.
        rewrite chain_word_stop. rewrite Hbc, N.eqb_refl. cbn [negb].
        destruct (IH (h1 :: t') tn (idx + 1) h nm n Hh Hn Hnm) as (j & n' & Hw & Hj & Hnj & Hnn).
        { intros j Hj. destruct (Hrun (S j) ltac:(lia)) as (a & c & Ha & Hc & E). exists a, c. auto. }
        exists (S j), n'. split; [rewrite Hw; f_equal; lia|]. split; [lia|]. split; assumption.
  Qed.

  (* ---------- first index facts under sortedness ---------- *)
  Lemma first_ix_some hs : forall i h, nth_error hs i = Some h ->
    exists s, first_ix hs (bucket h) = Some (N.of_nat s) /\ (s <= i)%nat.
  Proof.
    induction hs as [|h0 t IH]; intros [|i] h H; try discriminate; cbn in H; cbn [first_ix].
    - injection H as ->. rewrite N.eqb_refl. exists 0%nat. split; [reflexivity|lia].
    - destruct (N.eqb_spec (bucket h0) (bucket h)).
      + exists 0%nat. split; [reflexivity|lia].
      + destruct (IH i h H) as (s & Hs & Hle). rewrite Hs. exists (S s). split; [|lia].
        cbn [option_map]. f_equal. lia.
  Qed.

  Lemma first_ix_bucket hs : forall b s, first_ix hs b = Some (N.of_nat s) ->
    exists a, nth_error hs s = Some a /\ bucket a = b.
  Proof.
    induction hs as [|h0 t IH]; intros b s H; [discriminate|]. cbn [first_ix] in H.
    destruct (N.eqb_spec (bucket h0) b).
    - injection H as H. assert (Hs0 : s = 0%nat) by lia. rewrite Hs0. exists h0. split; [reflexivity|assumption].
    - destruct (first_ix t b) as [k|] eqn:Ek; [|discriminate]. cbn in H. injection H as H.
      destruct s as [|s]; [lia|]. destruct (IH b s) as (a & Ha & Hb).
      { rewrite Ek. f_equal. lia. }
      exists a. split; assumption.
  Qed.

  Lemma sorted_nth hs : bsorted hs -> forall i j a c, (i <= j)%nat ->
    nth_error hs i = Some a -> nth_error hs j = Some c -> bucket a <= bucket c.
  Proof.
    induction hs as [|h t IH]; intros Hs i j a c Hij Ha Hc; [destruct i; discriminate|].
    unfold bsorted in Hs. cbn [map] in Hs. inversion Hs as [|? ? Hst Hall]; subst.
    destruct i as [|i], j as [|j]; cbn in Ha, Hc.
    - injection Ha as <-. injection Hc as <-. lia.
    - injection Ha as <-. rewrite Forall_forall in Hall. apply Hall.
      apply in_map. eapply nth_error_In; eassumption.
    - lia.
    - apply (IH Hst i j); try assumption; lia.
  Qed.

  Lemma nth_error_skipn' {A} (l : list A) : forall s k, nth_error (skipn s l) k = nth_error l (s + k).
  Proof. induction l as [|a t IH]; intros [|s] k; cbn; try reflexivity; [destruct k; reflexivity|apply IH]. Qed.

  Lemma combine_skipn' {A B} (l : list A) : forall (m : list B) s,
    skipn s (combine l m) = combine (skipn s l) (skipn s m).
  Proof.
    induction l as [|a t IH]; intros m s.
    - cbn [combine]. rewrite !skipn_nil. reflexivity.
    - destruct m as [|b m'].
      + cbn [combine]. rewrite !skipn_nil. destruct (skipn s (a :: t)); reflexivity.
      + destruct s as [|s]; cbn [skipn combine]; [reflexivity|apply IH].
  Qed.

  Theorem gnu_lookup_finds (ds : list (name * N)) :
    0 < nb -> bsorted (map snd ds) ->
    forall i nm h, nth_error ds i = Some (nm, h) ->
    exists j n', gnu_lookup name name_eqb nb symbase (build_gnu name nb symbase ds) (map fst ds) h nm = Some (N.of_nat j)
                 /\ (j <= i)%nat /\ nth_error (map fst ds) j = Some n' /\ name_eqb n' nm = true.
  Proof.
    intros Hnb Hs i nm h Hi.
    set (hs := map snd ds) in *. set (ns := map fst ds).
    assert (Hh : nth_error hs i = Some h) by (unfold hs; rewrite (map_nth_error snd i ds Hi); reflexivity).
    assert (Hn : nth_error ns i = Some nm) by (unfold ns; rewrite (map_nth_error fst i ds Hi); reflexivity).
    unfold gnu_lookup, build_gnu. cbn [g_bloom g_buckets g_chains]. fold hs. fold ns.
    destruct (bloom_in hs 0 h (nth_error_In _ _ Hh)) as [B1 B2].
    unfold bloom_word. rewrite B1, B2. cbn [andb].
    rewrite (buckets_of_spec hs (bucket h) Hs).
    destruct (first_ix_some hs i h Hh) as (s & Hfs & Hsi). rewrite Hfs.
    assert (Hne : (N.of_nat s + symbase =? 0) = false) by (apply N.eqb_neq; lia).
    rewrite Hne. replace (N.of_nat s + symbase - symbase) with (N.of_nat s) by lia.
    rewrite Nat2N.id, combine_skipn', <- chains_skipn.
    destruct (first_ix_bucket hs _ _ Hfs) as (a & Ha & Hab).
    destruct (walk_finds (i - s) (skipn s hs) (skipn s ns) (N.of_nat s) h nm nm) as (j & n' & Hw & Hj & Hnj & Hnn).
    - rewrite nth_error_skipn'. replace (s + (i - s))%nat with i by lia. assumption.
    - rewrite nth_error_skipn'. replace (s + (i - s))%nat with i by lia. assumption.
    - apply name_eqb_refl.
    - intros j Hj. rewrite !nth_error_skipn'.
      assert (Hlt : (s + S j < length hs)%nat).
      { assert (i < length hs)%nat by (apply nth_error_Some; congruence). lia. }
      destruct (nth_error hs (s + j)) as [x|] eqn:Ex; [|apply nth_error_None in Ex; lia].
      destruct (nth_error hs (s + S j)) as [y|] eqn:Ey; [|apply nth_error_None in Ey; lia].
      exists x, y. split; [reflexivity|]. split; [reflexivity|].
      pose proof (sorted_nth hs Hs s (s + j) a x ltac:(lia) Ha Ex).
      pose proof (sorted_nth hs Hs (s + j) (s + S j) x y ltac:(lia) Ex Ey).
      pose proof (sorted_nth hs Hs (s + S j) i y h ltac:(lia) Ey Hh).
      lia.
    - exists (s + j)%nat, n'. split; [rewrite Hw; f_equal; lia|]. split; [lia|].
      rewrite nth_error_skipn' in Hnj. split; assumption.
  Qed.

  (* a lookup never returns a symbol with a different name *)
  Lemma walk_only_same_name : forall rest idx h nm j,
    walk rest idx h nm = Some j -> exists k c n, nth_error rest k = Some (c, n) /\ j = idx + N.of_nat k /\ name_eqb n nm = true.
  Proof.
    induction rest as [|[c n] t IH]; intros idx h nm j H; [discriminate|]. cbn [Model.walk] in H.
    destruct ((N.shiftr (N.lxor c h) 1 =? 0) && name_eqb n nm) eqn:E.
    - injection H as <-. apply andb_prop in E. destruct E as [_ E].
      exists 0%nat, c, n. split; [reflexivity|]. split; [lia|assumption].
    - destruct (N.testbit c 0); [discriminate|].
      destruct (IH _ _ _ _ H) as (k & c' & n' & Hk & Hj & Hn).
      exists (S k), c', n'. split; [assumption|]. split; [lia|assumption].
  Qed.
End Proofs.
