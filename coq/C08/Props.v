(* C08 — property theorems only. *)
From Coq Require Import NArith List Bool Sorting.Sorted.
From WV Require Import C08.Model C08.Proofs.
Open Scope N_scope.

(* GNU hash: for every list of definitions (any number, any names, any hash values) that is sorted by bucket — the order
   create_gnu_hash_layout establishes — with symbol_base >= 1, glibc's lookup of the i-th definition's (name, hash) through
   the tables write_gnu_hash_tables emits (bloom filter, bucket, chain walk) returns an entry whose name is equal. *)
Theorem C08_gnu_lookup_finds :
  forall (name : Type) (name_eqb : name -> name -> bool), (forall n, name_eqb n n = true) ->
  forall nb symbase, 0 < symbase -> 0 < nb ->
  forall ds : list (name * N), bsorted nb (map snd ds) ->
  forall i nm h, nth_error ds i = Some (nm, h) ->
  exists j n', gnu_lookup name name_eqb nb symbase (build_gnu name nb symbase ds) (map fst ds) h nm = Some (N.of_nat j)
               /\ (j <= i)%nat /\ nth_error (map fst ds) j = Some n' /\ name_eqb n' nm = true.
Proof. intros name name_eqb Hr nb symbase Hs Hn ds. exact (gnu_lookup_finds name name_eqb Hr nb symbase Hs ds Hn). Qed.

(* no lookup returns a symbol with a different name *)
Theorem C08_gnu_walk_only_same_name :
  forall (name : Type) (name_eqb : name -> name -> bool) rest idx h nm j,
  walk name name_eqb rest idx h nm = Some j ->
  exists k c n, nth_error rest k = Some (c, n) /\ j = idx + N.of_nat k /\ name_eqb n nm = true.
Proof. intros name name_eqb. exact (walk_only_same_name name name_eqb 1 eq_refl). Qed.

Print Assumptions C08_gnu_lookup_finds.
Print Assumptions C08_gnu_walk_only_same_name.
