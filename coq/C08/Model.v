(* C08 — .gnu.hash / .hash construction (libwild/src/elf.rs create_gnu_hash_layout, allocate_sysv_hash;
   libwild/src/elf_writer.rs write_gnu_hash_tables, write_sysv_hash_table) and the lookups of the
   glibc dynamic loader (elf/dl-lookup.c do_lookup_x), over an abstract type of symbol names. *)
From Coq Require Import NArith List Bool.
Import ListNotations.
Open Scope N_scope.

(* hash functions: gnu_hash (dl_new_hash) and the SysV ELF hash, on byte strings *)
Definition gnu_hash (s : list N) : N := fold_left (fun h c => (h * 33 + c) mod 2 ^ 32) s 5381.
Definition sysv_hash (s : list N) : N :=
  fold_left (fun h c =>
               let h1 := (N.shiftl h 4 + c) mod 2 ^ 32 in
               let g := N.land h1 0xf0000000 in
               N.land (N.lxor h1 (N.shiftr g 24)) (N.lxor g 0xffffffff)) s 0.

Definition next_pow2 (n : N) : N := if n <=? 1 then 1 else 2 ^ (N.log2 (n - 1) + 1).
Definition gnu_bucket_count (num_defs : N) : N := next_pow2 (num_defs / 2).
Definition sysv_bucket_count (num_defs : N) : N := next_pow2 (N.max (num_defs / 2) 1).

Section Tables.
  Variable name : Type.
  Variable name_eqb : name -> name -> bool.

  Definition def := (name * N)%type.        (* symbol name, its hash *)

  Variable nb : N.                          (* bucket count *)
  Variable symbase : N.                     (* index in .dynsym of the first definition *)
  Definition bucket (h : N) : N := h mod nb.

  (* ---------- write_gnu_hash_tables ---------- *)
  Definition bloom_bits (h : N) : N := N.lor (N.shiftl 1 (h mod 64)) (N.shiftl 1 ((N.shiftr h 6) mod 64)).
  Definition bloom_word (hs : list N) : N := fold_left (fun w h => N.lor w (bloom_bits h)) hs 0.

  Definition clear0 (h : N) : N := N.ldiff h 1.
  Fixpoint chains_of (hs : list N) : list N :=
    match hs with
    | [] => []
    | h :: t =>
        let last := match t with [] => true | h' :: _ => negb (bucket h' =? bucket h) end in
        N.lor (clear0 h) (if last then 1 else 0) :: chains_of t
    end.

  (* the bucket array as the loop leaves it: (buckets, start_of_chain, i) folded over the list *)
  Definition upd (f : N -> N) (k v : N) : N -> N := fun x => if x =? k then v else f x.
  Fixpoint buckets_loop (hs : list N) (bk : N -> N) (start : bool) (i : N) : N -> N :=
    match hs with
    | [] => bk
    | h :: t =>
        let bk' := if start then upd bk (bucket h) (i + symbase) else bk in
        let last := match t with [] => true | h' :: _ => negb (bucket h' =? bucket h) end in
        buckets_loop t bk' last (i + 1)
    end.
  Definition buckets_of (hs : list N) : N -> N := buckets_loop hs (fun _ => 0) true 0.

  Record gnu_table := { g_bloom : N; g_buckets : N -> N; g_chains : list N }.
  Definition build_gnu (ds : list def) : gnu_table :=
    let hs := map snd ds in
    {| g_bloom := bloom_word hs; g_buckets := buckets_of hs; g_chains := chains_of hs |}.

  (* ---------- glibc do_lookup_x, new-hash path (bitmask_nwords = 1, shift = 6) ---------- *)
  (* walk the chain: [rest] = chain words and names from the current position, [idx] = its index among the definitions *)
  Fixpoint walk (rest : list (N * name)) (idx : N) (h : N) (nm : name) : option N :=
    match rest with
    | [] => None                                   (* would run off the table *)
    | (c, n) :: t =>
        if (N.shiftr (N.lxor c h) 1 =? 0) && name_eqb n nm then Some idx
        else if N.testbit c 0 then None
        else walk t (idx + 1) h nm
    end.

  Definition gnu_lookup (t : gnu_table) (names : list name) (h : N) (nm : name) : option N :=
    let w := g_bloom t in
    if N.testbit w (h mod 64) && N.testbit w ((N.shiftr h 6) mod 64) then
      let b := g_buckets t (bucket h) in
      if b =? 0 then None
      else
        let start := b - symbase in             (* chain_zero = chains - symbias *)
        walk (skipn (N.to_nat start) (combine (g_chains t) names)) start h nm
    else None.

  (* ---------- write_sysv_hash_table ---------- *)
  (* defs in dynsym order; symbol index of definition i is symbase + i.
     state: bucket array, chain array (as functions), last symbol index per bucket *)
  Fixpoint sysv_loop (hs : list N) (i : N) (bk ch last : N -> N) : (N -> N) * (N -> N) :=
    match hs with
    | [] => (bk, ch)
    | h :: t =>
        let b := bucket h in
        let idx := symbase + i in
        if bk b =? 0 then sysv_loop t (i + 1) (upd bk b idx) ch (upd last b idx)
        else sysv_loop t (i + 1) bk (upd ch (last b) idx) (upd last b idx)
    end.
  Definition build_sysv (hs : list N) := sysv_loop hs 0 (fun _ => 0) (fun _ => 0) (fun _ => 0).

  (* glibc old-hash path: for (i = bucket[h % nb]; i != STN_UNDEF; i = chain[i]) *)
  Fixpoint sysv_walk (fuel : nat) (ch : N -> N) (name_at : N -> option name) (i : N) (nm : name) : option N :=
    match fuel with
    | O => None
    | S f =>
        if i =? 0 then None
        else match name_at i with
             | Some n => if name_eqb n nm then Some i else sysv_walk f ch name_at (ch i) nm
             | None => None
             end
    end.
  Definition sysv_lookup (tbl : (N -> N) * (N -> N)) (nchain : N) (name_at : N -> option name) (h : N) (nm : name) : option N :=
    sysv_walk (N.to_nat nchain) (snd tbl) name_at (fst tbl (bucket h)) nm.
End Tables.
