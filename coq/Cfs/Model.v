(* Cfs — an abstract file system and the sequence of file operations one link performs on it, transcribed from
   libwild/src/file_writer.rs (Output::new / set_size / write / remove_after_failed_link, default_file_write_mode,
   SizedOutput::new with its ETXTBSY fallback, delete_old_output) and libwild/src/lib.rs (link_for_arch).
   Shared by C18 (failed links), C19 (only declared outputs change) and C21 (running programs).
   Kernel rules used: rename replaces its target (and needs write permission on the directory, as unlink does); unlink removes a name, the inode lives on while it is mapped or
   executing; opening an inode that is being executed for writing fails with ETXTBSY; a process that executes or
   maps an inode sees in-place modifications of it. *)
From Coq Require Import NArith List Bool.
Import ListNotations.
Open Scope N_scope.

Inductive path := Out | Side (n : N) | Other (n : N).
Definition path_eqb (a b : path) : bool :=
  match a, b with
  | Out, Out => true
  | Side x, Side y | Other x, Other y => x =? y
  | _, _ => false
  end.

Inductive content :=
| Old (c : N)            (* whatever was there before this link *)
| OldModified (c : N)    (* an old inode resized / partly overwritten in place *)
| Fresh (complete : bool).  (* written by this link *)

Record fs := { names : path -> option N; data : N -> content; next_ino : N }.

Definition bind_name (s : fs) (p : path) (i : option N) : fs :=
  {| names := fun q => if path_eqb q p then i else names s q; data := data s; next_ino := next_ino s |}.
Definition set_data (s : fs) (i : N) (c : content) : fs :=
  {| names := names s; data := fun j => if j =? i then c else data s j; next_ino := next_ino s |}.

Definition rename (s : fs) (p q : path) : fs * bool :=
  match names s p with
  | Some i => (bind_name (bind_name s q (Some i)) p None, true)
  | None => (s, false)
  end.
Definition unlink (s : fs) (p : path) : fs := bind_name s p None.
(* the same two under directory permissions: without write permission on the directory they fail and change nothing
   (file_writer.rs ignores both failures) *)
Definition rename_w (w : bool) (s : fs) (p q : path) : fs * bool := if w then rename s p q else (s, false).
Definition unlink_w (w : bool) (s : fs) (p : path) : fs := if w then unlink s p else s.
Definition new_file (s : fs) (p : path) (c : content) : fs :=
  let i := next_ino s in
  {| names := fun q => if path_eqb q p then Some i else names s q;
     data := fun j => if j =? i then c else data s j; next_ino := i + 1 |}.
Definition modified (c : content) : content :=
  match c with Old x => OldModified x | other => other end.

Inductive wmode := UnlinkAndReplace | UpdateInPlace | UpdateInPlaceWithFallback.
(* where the link stops: an error return at that point, or (crash = true) the process dying there *)
Inductive stop := Early | AfterSetSize | InWrite | AfterWrite | Success.

Record cfg := {
  shared : bool;                 (* output is a shared object *)
  forced : option wmode;         (* --update-in-place / --no-update-in-place *)
  background : bool;             (* more than one thread: the file is created from set_size *)
  busy : bool;                   (* the old output is being executed (ETXTBSY on open for write) *)
  tmp : path;                    (* unused_sibling_path: where the old output is parked before it is deleted *)
  dir_writable : bool;           (* may names in the output directory be removed / renamed *)
  stop_at : stop;
  crash : bool }.

(* default_file_write_mode, evaluated in Output::new against the file system as it is then *)
Definition mode_of (c : cfg) (s : fs) : wmode :=
  match forced c with
  | Some m => m
  | None => if shared c then UnlinkAndReplace
            else match names s Out with None => UnlinkAndReplace | Some _ => UpdateInPlaceWithFallback end
  end.

(* SizedOutput::new + OutputBuffer::new: None = the open fails (the link fails with `Failed to open`) *)
Definition create_output (c : cfg) (m : wmode) (s : fs) : option fs :=
  match names s Out with
  | None => Some (new_file s Out (Fresh false))
  | Some i =>
      if busy c then
        match m with
        | UpdateInPlaceWithFallback =>
            if dir_writable c then Some (new_file (unlink s Out) Out (Fresh false)) else None   (* remove_file(&path)? *)
        | _ => None
        end
      else
        match m with
        | UnlinkAndReplace => Some (set_data s i (Fresh false))          (* O_TRUNC on the existing inode *)
        | _ => Some (set_data s i (modified (data s i)))                  (* set_len + in-place writes *)
        end
  end.

(* set_size in background mode *)
Definition on_set_size (c : cfg) (m : wmode) (s : fs) : option fs :=
  if background c then
    let s1 := match m with
              | UnlinkAndReplace =>
                  let (s', ok) := rename_w (dir_writable c) s Out (tmp c) in
                  if ok then unlink s' (tmp c) else s'
              | _ => s
              end in
    create_output c m s1
  else Some s.

(* Output::write up to the point where write_fn starts *)
Definition on_write_start (c : cfg) (m : wmode) (s : fs) : option fs :=
  if background c then Some s else create_output c m (unlink_w (dir_writable c) s Out).

Definition fill (s : fs) (complete : bool) : fs :=
  match names s Out with Some i => set_data s i (Fresh complete) | None => s end.

(* remove_after_failed_link: only if this link has started replacing the file, and only an ordinary file *)
Definition cleanup (w started : bool) (s : fs) : fs := if started then unlink_w w s Out else s.

(* the whole link: (final file system, exit status is zero) *)
Definition link (c : cfg) (s0 : fs) : fs * bool :=
  let m := mode_of c s0 in
  let fail (started : bool) (s : fs) := (if crash c then s else cleanup (dir_writable c) started s, false) in
  match stop_at c with
  | Early => fail false s0
  | _ =>
    match on_set_size c m s0 with
    | None => fail (background c) s0
    | Some s1 =>
      match stop_at c with
      | AfterSetSize => fail (background c) s1
      | _ =>
        match on_write_start c m s1 with
        | None => fail true s1
        | Some s2 =>
          match stop_at c with
          | InWrite => fail true (fill s2 false)
          | AfterWrite => fail true (fill s2 true)
          | _ => (fill s2 true, true)
          end
        end
      end
    end
  end.

(* what an observer of the output path sees afterwards *)
Inductive seen := Absent | Untouched | Changed (c : content).
Definition observe (s0 s1 : fs) : seen :=
  match names s1 Out with
  | None => Absent
  | Some i =>
      match names s0 Out with
      | Some i0 => if i =? i0 then match data s1 i with Old _ => Untouched | c => Changed c end else Changed (data s1 i)
      | None => Changed (data s1 i)
      end
  end.
