(* C16 — property theorems only. *)
From Coq Require Import NArith ZArith List.
From WV Require Import C16.Model C16.Spec C16.Proofs.
Import ListNotations.
Open Scope Z_scope.

(* whenever GNU ld's semantics give a value, the evaluator (with signed division) gives the same 64-bit value:
   wrapping arithmetic, signed division, shift counts modulo 64, unsigned comparisons, 0/1 logic *)
Theorem C16_eval_agrees : forall e, wf e -> forall z, gnu_eval e = Some z ->
  exists x, eval true e = Some x /\ Z.of_N x = z /\ (x < W)%N.
Proof. exact eval_sound. Qed.

(* an ASSERT fails with its message exactly when its expression evaluates to zero *)
Theorem C16_assert_fails_iff : forall e, assert_eval true e = FailMsg <-> eval true e = Some 0%N.
Proof. exact assert_iff. Qed.

(* precedence: wild's level table equals GNU ld's up to the placement of the comparison operators *)
Theorem C16_levels_equal_except_known : strip_cmp wild_levels = strip_cmp c_levels.
Proof. exact levels_equal_up_to_cmp. Qed.

(* full-strength statements refuted: unsigned division (pinned tree, repaired) and comparison precedence (known finding) *)
Theorem C16_unsigned_division_refuted :
  let e := Bin Div (Bin Sub (Num 0) (Num 8)) (Num 2) in
  wf e /\ gnu_eval e = Some (M - 4) /\ eval false e = Some 9223372036854775804%N /\ eval true e = Some (W - 4)%N.
Proof. exact unsigned_div_refuted. Qed.
Theorem C16_precedence_refuted :
  let ts := [TNum 1; TOp BAnd; TNum 2; TOp Eq; TNum 2] in
  parse wild_levels ts = Some (Bin Eq (Bin BAnd (Num 1) (Num 2)) (Num 2)) /\
  parse c_levels ts = Some (Bin BAnd (Num 1) (Bin Eq (Num 2) (Num 2))).
Proof. exact precedence_refuted. Qed.

Check C16_eval_agrees : forall e, wf e -> forall z, gnu_eval e = Some z ->
  exists x, eval true e = Some x /\ Z.of_N x = z /\ (x < W)%N.
Print Assumptions C16_eval_agrees.
Print Assumptions C16_assert_fails_iff.
Print Assumptions C16_levels_equal_except_known.
Print Assumptions C16_unsigned_division_refuted.
Print Assumptions C16_precedence_refuted.
