(* C16 — linker-script expression parser (token level) and evaluator.
   Transcribed from libwild/src/linker_script.rs (parse_logical_or ... parse_primary) and
   libwild/src/expression_eval.rs (evaluate_expression, constant fragment). *)
From Coq Require Import NArith ZArith List Bool.
Import ListNotations.
Open Scope N_scope.

Inductive binop := Add | Sub | Mul | Div | Lt | Gt | Le | Ge | Eq | Ne | BAnd | BOr | BXor | Shl | Shr | LAnd | LOr.
Inductive unop := LNot | BNot | Neg.
Inductive expr :=
| Num (n : N)
| Bin (o : binop) (a b : expr)
| Un (o : unop) (a : expr)
| Min (a b : expr) | Max (a b : expr)
| Align (a : expr).

Definition binop_id (o : binop) : N :=
  match o with Add => 0 | Sub => 1 | Mul => 2 | Div => 3 | Lt => 4 | Gt => 5 | Le => 6 | Ge => 7 | Eq => 8 | Ne => 9
             | BAnd => 10 | BOr => 11 | BXor => 12 | Shl => 13 | Shr => 14 | LAnd => 15 | LOr => 16 end.
Definition binop_eqb (a b : binop) : bool := binop_id a =? binop_id b.

Fixpoint expr_eqb (a b : expr) : bool :=
  match a, b with
  | Num x, Num y => x =? y
  | Bin o a1 a2, Bin p b1 b2 => binop_eqb o p && expr_eqb a1 b1 && expr_eqb a2 b2
  | Un LNot a1, Un LNot b1 | Un BNot a1, Un BNot b1 | Un Neg a1, Un Neg b1 => expr_eqb a1 b1
  | Min a1 a2, Min b1 b2 | Max a1 a2, Max b1 b2 => expr_eqb a1 b1 && expr_eqb a2 b2
  | Align a1, Align b1 => expr_eqb a1 b1
  | _, _ => false
  end.

(* ---------------- evaluator (u64 arithmetic on N, wrap explicit) ---------------- *)
Definition W : N := 2 ^ 64.
Definition b2n (b : bool) : N := if b then 1 else 0.
Definition sgn (x : N) : Z := if x <? 2 ^ 63 then Z.of_N x else (Z.of_N x - 2 ^ 64)%Z.
Definition of_sgn (z : Z) : N := Z.to_N (z mod 2 ^ 64)%Z.

(* the `/` of evaluate_expression.  [signed_div] = true is the code after the fix
   ((l as i64).wrapping_div(r as i64)); false is the pinned tree's unsigned `/`. *)
Definition div_u (a b : N) : N := a / b.
Definition div_s (a b : N) : N := of_sgn (Z.quot (sgn a) (sgn b)).

Definition shcount (r : N) : N := (r mod 2 ^ 32) mod 64.       (* wrapping_shl(r as u32) *)

Section Eval.
  Variable signed_div : bool.
  Fixpoint eval (e : expr) : option N :=
    let bin (f : N -> N -> option N) (a b : expr) :=
      match eval a with
      | None => None
      | Some x => match eval b with None => None | Some y => f x y end
      end in
    match e with
    | Num n => Some n
    | Bin Add a b => bin (fun x y => Some ((x + y) mod W)) a b
    | Bin Sub a b => bin (fun x y => Some ((x + (W - y)) mod W)) a b
    | Bin Mul a b => bin (fun x y => Some ((x * y) mod W)) a b
    | Bin Div a b =>
        (* the divisor is evaluated first *)
        match eval b with
        | None => None
        | Some y => if y =? 0 then None
                    else match eval a with None => None
                                      | Some x => Some (if signed_div then div_s x y else div_u x y) end
        end
    | Bin Lt a b => bin (fun x y => Some (b2n (x <? y))) a b
    | Bin Gt a b => bin (fun x y => Some (b2n (y <? x))) a b
    | Bin Le a b => bin (fun x y => Some (b2n (x <=? y))) a b
    | Bin Ge a b => bin (fun x y => Some (b2n (y <=? x))) a b
    | Bin Eq a b => bin (fun x y => Some (b2n (x =? y))) a b
    | Bin Ne a b => bin (fun x y => Some (b2n (negb (x =? y)))) a b
    | Bin BAnd a b => bin (fun x y => Some (N.land x y)) a b
    | Bin BOr a b => bin (fun x y => Some (N.lor x y)) a b
    | Bin BXor a b => bin (fun x y => Some (N.lxor x y)) a b
    | Bin Shl a b => bin (fun x y => Some ((N.shiftl x (shcount y)) mod W)) a b
    | Bin Shr a b => bin (fun x y => Some (N.shiftr x (shcount y))) a b
    | Bin LAnd a b =>       (* eval(l)? != 0 && eval(r)? != 0 : short-circuit *)
        match eval a with
        | None => None
        | Some x => if x =? 0 then Some 0
                    else match eval b with None => None | Some y => Some (b2n (negb (y =? 0))) end
        end
    | Bin LOr a b =>
        match eval a with
        | None => None
        | Some x => if negb (x =? 0) then Some 1
                    else match eval b with None => None | Some y => Some (b2n (negb (y =? 0))) end
        end
    | Un LNot a => match eval a with None => None | Some x => Some (b2n (x =? 0)) end
    | Un BNot a => match eval a with None => None | Some x => Some (N.lxor x (N.ones 64)) end
    | Un Neg a => match eval a with None => None | Some x => Some ((W - x) mod W) end
    | Min a b => bin (fun x y => Some (N.min x y)) a b
    | Max a b => bin (fun x y => Some (N.max x y)) a b
    | Align a => match eval a with
                 | None => None
                 | Some x => if x =? 0 then None
                             else Some (N.land ((0 + (x - 1)) mod W) (N.lxor (x - 1) (N.ones 64)))
                 end
    end.
End Eval.

(* ASSERT(e, msg): the link fails iff evaluation fails or the value is zero *)
Inductive assert_outcome := Pass | FailMsg | EvalError.
Definition assert_eval (sd : bool) (e : expr) : assert_outcome :=
  match eval sd e with None => EvalError | Some 0 => FailMsg | Some _ => Pass end.

(* ---------------- parser (token level) ---------------- *)
Inductive tok := TNum (n : N) | TOp (o : binop) | TBang | TTilde | TL | TR | TComma | TMin | TMax | TAlign.

(* one precedence level: its operators and whether it loops (`while`) or applies at most once (`if let`) *)
Definition level := (list binop * bool)%type.
Definition mem_op (o : binop) (l : list binop) : bool := existsb (binop_eqb o) l.

Definition cmp_ops : list binop := [Le; Ge; Eq; Ne; Lt; Gt].
(* lowest precedence first, exactly the call chain parse_logical_or -> ... -> parse_multiplicative *)
Definition wild_levels : list level :=
  [([LOr], true); ([LAnd], true); (cmp_ops, false);
   ([BOr], true); ([BXor], true); ([BAnd], true); ([Shl; Shr], true); ([Add; Sub], true); ([Mul; Div], true)].
(* GNU ld, ldgram.y %left declarations (C precedence) *)
Definition c_levels : list level :=
  [([LOr], true); ([LAnd], true); ([BOr], true); ([BXor], true); ([BAnd], true);
   ([Eq; Ne], true); ([Lt; Gt; Le; Ge], true); ([Shl; Shr], true); ([Add; Sub], true); ([Mul; Div], true)].

Section Parse.
  Variable levels : list level.
  Section Inner.
    Variable rec : list tok -> option (expr * list tok).    (* parse_expression, less fuel *)
    Definition primary (ts : list tok) : option (expr * list tok) :=
      match ts with
      | TL :: r => match rec r with Some (e, TR :: r') => Some (e, r') | _ => None end
      | TNum n :: r => Some (Num n, r)
      | TAlign :: TL :: r => match rec r with Some (e, TR :: r') => Some (Align e, r') | _ => None end
      | TMin :: TL :: r =>
          match rec r with
          | Some (a, TComma :: r1) => match rec r1 with Some (b, TR :: r2) => Some (Min a b, r2) | _ => None end
          | _ => None end
      | TMax :: TL :: r =>
          match rec r with
          | Some (a, TComma :: r1) => match rec r1 with Some (b, TR :: r2) => Some (Max a b, r2) | _ => None end
          | _ => None end
      | _ => None
      end.
    Fixpoint unary (n : nat) (ts : list tok) : option (expr * list tok) :=
      match n with
      | O => None
      | S n' =>
          match ts with
          | TBang :: r => match unary n' r with Some (e, r') => Some (Un LNot e, r') | None => None end
          | TTilde :: r => match unary n' r with Some (e, r') => Some (Un BNot e, r') | None => None end
          | TOp Sub :: r => match unary n' r with Some (e, r') => Some (Un Neg e, r') | None => None end
          | _ => primary ts
          end
      end.
    Fixpoint loop (n : nat) (ops : list binop) (chain : bool) (next : list tok -> option (expr * list tok))
             (left : expr) (ts : list tok) : option (expr * list tok) :=
      match n with
      | O => None
      | S n' =>
          match ts with
          | TOp o :: r =>
              if mem_op o ops then
                match next r with
                | Some (rhs, r') => if chain then loop n' ops chain next (Bin o left rhs) r'
                                      else Some (Bin o left rhs, r')
                | None => None
                end
              else Some (left, ts)
          | _ => Some (left, ts)
          end
      end.
    Fixpoint plevel (lv : list level) (n : nat) (ts : list tok) : option (expr * list tok) :=
      match lv with
      | [] => unary n ts
      | (ops, chain) :: rest =>
          match plevel rest n ts with
          | Some (l, r) => loop n ops chain (plevel rest n) l r
          | None => None
          end
      end.
  End Inner.
  Fixpoint parse_fuel (fuel : nat) (ts : list tok) : option (expr * list tok) :=
    match fuel with
    | O => None
    | S f => plevel (parse_fuel f) levels (S (length ts)) ts
    end.
  (* whole-input parse *)
  Definition parse (ts : list tok) : option expr :=
    match parse_fuel (S (length ts)) ts with Some (e, []) => Some e | _ => None end.
End Parse.
