From Coq Require Import NArith ZArith List Bool Lia.
From WV Require Import C16.Model C16.Spec.
Import ListNotations.
Open Scope Z_scope.

(* all literals are 64-bit, and no ALIGN (outside the constant fragment) *)
Fixpoint wf (e : expr) : Prop :=
  match e with
  | Num n => (n < W)%N
  | Bin _ a b | Min a b | Max a b => wf a /\ wf b
  | Un _ a => wf a
  | Align _ => False
  end.

Lemma W_M : Z.of_N W = M. Proof. reflexivity. Qed.
Lemma M_pos : 0 < M. Proof. reflexivity. Qed.

Lemma ofN_lt x : (x < W)%N -> 0 <= Z.of_N x < M.
Proof. intros H. rewrite <- W_M. lia. Qed.

Lemma mod_lt_W x : (x mod W < W)%N.
Proof. apply N.mod_lt. discriminate. Qed.

Lemma ofN_mod x : Z.of_N (x mod W) = (Z.of_N x) mod M.
Proof. rewrite N2Z.inj_mod. reflexivity. Qed.

Lemma b2n_lt b : (b2n b < W)%N. Proof. destruct b; reflexivity. Qed.
Lemma b2n_zb b : Z.of_N (b2n b) = zb b. Proof. destruct b; reflexivity. Qed.

Lemma ltb_N_Z x y : (x <? y)%N = (Z.of_N x <? Z.of_N y).
Proof. destruct (N.ltb_spec x y); destruct (Z.ltb_spec (Z.of_N x) (Z.of_N y)); try reflexivity; lia. Qed.
Lemma leb_N_Z x y : (x <=? y)%N = (Z.of_N x <=? Z.of_N y).
Proof. destruct (N.leb_spec x y); destruct (Z.leb_spec (Z.of_N x) (Z.of_N y)); try reflexivity; lia. Qed.
Lemma eqb_N_Z x y : (x =? y)%N = (Z.of_N x =? Z.of_N y).
Proof. destruct (N.eqb_spec x y); destruct (Z.eqb_spec (Z.of_N x) (Z.of_N y)); try reflexivity; try lia. Qed.

Lemma land_ones_small x : (x < W)%N -> N.land x (N.ones 64) = x.
Proof. intros. rewrite N.land_ones. apply N.mod_small. assumption. Qed.
Lemma small_of_land x : N.land x (N.ones 64) = x -> (x < W)%N.
Proof. intros H. rewrite <- H, N.land_ones. apply mod_lt_W. Qed.

Lemma land_lt x y : (x < W)%N -> (y < W)%N -> (N.land x y < W)%N.
Proof.
  intros Hx Hy. apply small_of_land.
  rewrite <- N.land_assoc, (land_ones_small y Hy). reflexivity.
Qed.
Lemma lor_lt x y : (x < W)%N -> (y < W)%N -> (N.lor x y < W)%N.
Proof.
  intros Hx Hy. apply small_of_land.
  rewrite N.land_lor_distr_l, (land_ones_small x Hx), (land_ones_small y Hy). reflexivity.
Qed.
Lemma lxor_lt x y : (x < W)%N -> (y < W)%N -> (N.lxor x y < W)%N.
Proof.
  intros Hx Hy. apply small_of_land.
  apply N.bits_inj. intros i. rewrite N.land_spec, !N.lxor_spec.
  assert (Hxi : N.testbit x i = N.testbit x i && N.testbit (N.ones 64) i)
    by (rewrite <- N.land_spec, land_ones_small by assumption; reflexivity).
  assert (Hyi : N.testbit y i = N.testbit y i && N.testbit (N.ones 64) i)
    by (rewrite <- N.land_spec, land_ones_small by assumption; reflexivity).
  rewrite Hxi, Hyi.
  destruct (N.testbit (N.ones 64) i), (N.testbit x i), (N.testbit y i); reflexivity.
Qed.

Lemma ofN_land x y : Z.of_N (N.land x y) = Z.land (Z.of_N x) (Z.of_N y).
Proof. destruct x, y; reflexivity. Qed.
Lemma ofN_lor x y : Z.of_N (N.lor x y) = Z.lor (Z.of_N x) (Z.of_N y).
Proof. destruct x, y; reflexivity. Qed.
Lemma ofN_lxor x y : Z.of_N (N.lxor x y) = Z.lxor (Z.of_N x) (Z.of_N y).
Proof. destruct x, y; reflexivity. Qed.

Lemma shcount_eq y : shcount y = (y mod 64)%N.
Proof.
  unfold shcount.
  assert (H : (2 ^ 32 = 64 * 2 ^ 26)%N) by reflexivity.
  rewrite H. rewrite N.mod_mul_r by discriminate.
  rewrite (N.mul_comm 64 ((y / 64) mod 2 ^ 26)), N.mod_add by discriminate. apply N.mod_mod. discriminate.
Qed.

Lemma sgn_sg x : (x < W)%N -> sgn x = sg (Z.of_N x).
Proof.
  intros H. unfold sgn, sg.
  replace (Z.of_N x <? 2 ^ 63) with (x <? 2 ^ 63)%N by (rewrite ltb_N_Z; reflexivity).
  reflexivity.
Qed.

Lemma of_sgn_spec z : Z.of_N (of_sgn z) = z mod M /\ (of_sgn z < W)%N.
Proof.
  unfold of_sgn. pose proof (Z.mod_pos_bound z M M_pos) as Hb. fold M.
  rewrite Z2N.id by lia. split; [reflexivity|].
  apply N2Z.inj_lt. rewrite Z2N.id by lia. rewrite W_M. lia.
Qed.

Lemma lnot_spec x : (x < W)%N -> Z.of_N (N.lxor x (N.ones 64)) = (- Z.of_N x - 1) mod M.
Proof.
  intros H.
  assert (E : (x + N.lxor x (N.ones 64) = N.ones 64)%N).
  { destruct (N.eq_dec x 0) as [->|Hn]; [reflexivity|].
    change (N.lxor x (N.ones 64)) with (N.lnot x 64). apply N.add_lnot_diag_low.
    apply N.log2_lt_pow2; [lia|assumption]. }
  assert (E2 : Z.of_N (N.lxor x (N.ones 64)) = M - 1 - Z.of_N x).
  { assert (Z.of_N (x + N.lxor x (N.ones 64)) = Z.of_N (N.ones 64)) by (rewrite E; reflexivity).
    rewrite N2Z.inj_add in H0. change (Z.of_N (N.ones 64)) with (M - 1) in H0. lia. }
  rewrite E2. pose proof (ofN_lt x H).
  apply Z.mod_unique with (-1); lia.
Qed.

(* the main simulation lemma *)
Lemma eval_sound e : wf e -> forall z, gnu_eval e = Some z ->
  exists x, eval true e = Some x /\ Z.of_N x = z /\ (x < W)%N.
Proof.
  induction e as [n|o a IHa b IHb|o a IHa|a IHa b IHb|a IHa b IHb|a IHa]; cbn [wf]; intros Hw z Hz.
  - cbn in *. injection Hz as <-. eauto.
  - destruct Hw as [Hwa Hwb].
    (* obtain the operand values *)
    assert (Hab : exists za zb', gnu_eval a = Some za /\ gnu_eval b = Some zb').
    { destruct o; cbn in Hz; destruct (gnu_eval a), (gnu_eval b); try discriminate; eauto. }
    destruct Hab as (za & zb' & Ea & Eb).
    destruct (IHa Hwa _ Ea) as (x & Ex & Zx & Lx).
    destruct (IHb Hwb _ Eb) as (y & Ey & Zy & Ly).
    pose proof (ofN_lt x Lx) as Bx. pose proof (ofN_lt y Ly) as By.
    destruct o; cbn [gnu_eval] in Hz; rewrite Ea, Eb in Hz; cbn [eval]; rewrite ?Ex, ?Ey.
    + (* Add *) injection Hz as <-. eexists; split; [reflexivity|]. split; [|apply mod_lt_W].
      rewrite ofN_mod, N2Z.inj_add, Zx, Zy. reflexivity.
    + (* Sub *) injection Hz as <-. eexists; split; [reflexivity|]. split; [|apply mod_lt_W].
      rewrite ofN_mod, N2Z.inj_add, N2Z.inj_sub by lia. rewrite W_M, Zx, Zy. unfold wrap.
      replace (za + (M - zb')) with (za - zb' + 1 * M) by ring. apply Z_mod_plus_full.
    + (* Mul *) injection Hz as <-. eexists; split; [reflexivity|]. split; [|apply mod_lt_W].
      rewrite ofN_mod, N2Z.inj_mul, Zx, Zy. reflexivity.
    + (* Div *) rewrite (eqb_N_Z y 0), Zy. change (Z.of_N 0) with 0.
      destruct (zb' =? 0); [discriminate|]. injection Hz as <-.
      eexists; split; [reflexivity|]. unfold div_s.
      destruct (of_sgn_spec (Z.quot (sgn x) (sgn y))) as [E L]. split; [|assumption].
      rewrite E, (sgn_sg x Lx), (sgn_sg y Ly), Zx, Zy. reflexivity.
    + injection Hz as <-. eexists; split; [reflexivity|]. split; [|apply b2n_lt]. rewrite b2n_zb, ltb_N_Z, Zx, Zy. reflexivity.
    + injection Hz as <-. eexists; split; [reflexivity|]. split; [|apply b2n_lt]. rewrite b2n_zb, ltb_N_Z, Zx, Zy. reflexivity.
    + injection Hz as <-. eexists; split; [reflexivity|]. split; [|apply b2n_lt]. rewrite b2n_zb, leb_N_Z, Zx, Zy. reflexivity.
    + injection Hz as <-. eexists; split; [reflexivity|]. split; [|apply b2n_lt]. rewrite b2n_zb, leb_N_Z, Zx, Zy. reflexivity.
    + injection Hz as <-. eexists; split; [reflexivity|]. split; [|apply b2n_lt]. rewrite b2n_zb, eqb_N_Z, Zx, Zy. reflexivity.
    + injection Hz as <-. eexists; split; [reflexivity|]. split; [|apply b2n_lt]. rewrite b2n_zb, eqb_N_Z, Zx, Zy. reflexivity.
    + injection Hz as <-. eexists; split; [reflexivity|]. split; [|apply land_lt; assumption]. rewrite ofN_land, Zx, Zy. reflexivity.
    + injection Hz as <-. eexists; split; [reflexivity|]. split; [|apply lor_lt; assumption]. rewrite ofN_lor, Zx, Zy. reflexivity.
    + injection Hz as <-. eexists; split; [reflexivity|]. split; [|apply lxor_lt; assumption]. rewrite ofN_lxor, Zx, Zy. reflexivity.
    + (* Shl *) injection Hz as <-. eexists; split; [reflexivity|]. split; [|apply mod_lt_W].
      rewrite ofN_mod, shcount_eq, N.shiftl_mul_pow2, N2Z.inj_mul, N2Z.inj_pow, N2Z.inj_mod, Zx, Zy. reflexivity.
    + (* Shr *) injection Hz as <-. eexists; split; [reflexivity|].
      rewrite shcount_eq, N.shiftr_div_pow2. split.
      * rewrite N2Z.inj_div, N2Z.inj_pow, N2Z.inj_mod, Zx, Zy. reflexivity.
      * eapply N.le_lt_trans; [|exact Lx]. apply N.div_le_upper_bound; [apply N.pow_nonzero; discriminate|].
        replace x with (1 * x)%N at 1 by lia. apply N.mul_le_mono_r.
        assert (0 < 2 ^ (y mod 64))%N by (apply N.neq_0_lt_0, N.pow_nonzero; discriminate). lia.
    + (* LAnd *) injection Hz as <-. rewrite (eqb_N_Z x 0), Zx. change (Z.of_N 0) with 0.
      destruct (za =? 0) eqn:E0; cbn [negb andb].
      * eexists; split; [reflexivity|]. split; reflexivity.
      * eexists; split; [reflexivity|]. split; [|apply b2n_lt]. rewrite b2n_zb, (eqb_N_Z y 0), Zy. reflexivity.
    + (* LOr *) injection Hz as <-. rewrite (eqb_N_Z x 0), Zx. change (Z.of_N 0) with 0.
      destruct (za =? 0) eqn:E0; cbn [negb orb].
      * eexists; split; [reflexivity|]. split; [|apply b2n_lt]. rewrite b2n_zb, (eqb_N_Z y 0), Zy. reflexivity.
      * eexists; split; [reflexivity|]. split; reflexivity.
  - (* unary *)
    assert (Ha : exists za, gnu_eval a = Some za).
    { destruct o; cbn in Hz; destruct (gnu_eval a); try discriminate; eauto. }
    destruct Ha as (za & Ea). destruct (IHa Hw _ Ea) as (x & Ex & Zx & Lx).
    pose proof (ofN_lt x Lx) as Bx.
    destruct o; cbn [gnu_eval] in Hz; rewrite Ea in Hz; cbn [eval]; rewrite Ex; injection Hz as <-.
    + eexists; split; [reflexivity|]. split; [|apply b2n_lt]. rewrite b2n_zb, (eqb_N_Z x 0), Zx. reflexivity.
    + eexists; split; [reflexivity|]. split; [|apply lxor_lt; [assumption|reflexivity]].
      rewrite lnot_spec by assumption. rewrite Zx. reflexivity.
    + eexists; split; [reflexivity|]. split; [|apply mod_lt_W].
      rewrite ofN_mod, N2Z.inj_sub by lia. rewrite W_M, Zx. unfold wrap.
      replace (M - za) with (- za + 1 * M) by ring. apply Z_mod_plus_full.
  - (* Min *) destruct Hw as [Hwa Hwb]. cbn [gnu_eval] in Hz.
    destruct (gnu_eval a) as [za|] eqn:Ea; [|discriminate]. destruct (gnu_eval b) as [zb'|] eqn:Eb; [|discriminate].
    destruct (IHa Hwa _ eq_refl) as (x & Ex & Zx & Lx). destruct (IHb Hwb _ eq_refl) as (y & Ey & Zy & Ly).
    injection Hz as <-. cbn [eval]. rewrite Ex, Ey. eexists; split; [reflexivity|]. split.
    + rewrite N2Z.inj_min, Zx, Zy. reflexivity.
    + apply N.min_lt_iff. left. assumption.
  - (* Max *) destruct Hw as [Hwa Hwb]. cbn [gnu_eval] in Hz.
    destruct (gnu_eval a) as [za|] eqn:Ea; [|discriminate]. destruct (gnu_eval b) as [zb'|] eqn:Eb; [|discriminate].
    destruct (IHa Hwa _ eq_refl) as (x & Ex & Zx & Lx). destruct (IHb Hwb _ eq_refl) as (y & Ey & Zy & Ly).
    injection Hz as <-. cbn [eval]. rewrite Ex, Ey. eexists; split; [reflexivity|]. split.
    + rewrite N2Z.inj_max, Zx, Zy. reflexivity.
    + apply N.max_lub_lt; assumption.
  - contradiction.
Qed.

(* unsigned division (the pinned tree) is refuted by (0-8)/2 *)
Lemma unsigned_div_refuted :
  let e := Bin Div (Bin Sub (Num 0) (Num 8)) (Num 2) in
  wf e /\ gnu_eval e = Some (M - 4) /\ eval false e = Some 9223372036854775804%N /\ eval true e = Some (W - 4)%N.
Proof. cbn. repeat split; try reflexivity; try lia. Qed.

(* precedence tables: wild's differs from C's only by the place of the comparison operators *)
Definition is_cmp (o : binop) : bool := mem_op o cmp_ops.
Definition strip_cmp (l : list level) : list level :=
  filter (fun lv => negb (forallb is_cmp (fst lv))) l.
Lemma levels_equal_up_to_cmp : strip_cmp wild_levels = strip_cmp c_levels.
Proof. reflexivity. Qed.
Lemma levels_differ : wild_levels <> c_levels.
Proof. discriminate. Qed.
(* witness of the deviation: 1 & 2 == 2 *)
Lemma precedence_refuted :
  let ts := [TNum 1; TOp BAnd; TNum 2; TOp Eq; TNum 2] in
  parse wild_levels ts = Some (Bin Eq (Bin BAnd (Num 1) (Num 2)) (Num 2)) /\
  parse c_levels ts = Some (Bin BAnd (Num 1) (Bin Eq (Num 2) (Num 2))).
Proof. vm_compute. split; reflexivity. Qed.

Lemma assert_iff e : assert_eval true e = FailMsg <-> eval true e = Some 0%N.
Proof.
  unfold assert_eval. destruct (eval true e) as [[|p]|]; split; intros H; try reflexivity; try discriminate.
Qed.
