(* C16 — GNU ld expression semantics (ldexp.c fold_binary / fold_unary), written over Z:
   every value is a 64-bit quantity; arithmetic is exact on Z followed by reduction mod 2^64;
   `/` works on bfd_signed_vma; comparisons on bfd_vma (unsigned); shift counts modulo 64 (as the
   property fixes); && and || yield 0/1. *)
From Coq Require Import ZArith List Bool.
From WV Require Import C16.Model.
Open Scope Z_scope.

Definition M : Z := 2 ^ 64.
Definition wrap (z : Z) : Z := z mod M.
Definition sg (z : Z) : Z := if z <? 2 ^ 63 then z else z - M.
Definition zb (b : bool) : Z := if b then 1 else 0.

Fixpoint gnu_eval (e : expr) : option Z :=
  let bin (f : Z -> Z -> option Z) (a b : expr) :=
    match gnu_eval a, gnu_eval b with Some x, Some y => f x y | _, _ => None end in
  match e with
  | Num n => Some (Z.of_N n)
  | Bin Add a b => bin (fun x y => Some (wrap (x + y))) a b
  | Bin Sub a b => bin (fun x y => Some (wrap (x - y))) a b
  | Bin Mul a b => bin (fun x y => Some (wrap (x * y))) a b
  | Bin Div a b => bin (fun x y => if y =? 0 then None else Some (wrap (Z.quot (sg x) (sg y)))) a b
  | Bin Lt a b => bin (fun x y => Some (zb (x <? y))) a b
  | Bin Gt a b => bin (fun x y => Some (zb (y <? x))) a b
  | Bin Le a b => bin (fun x y => Some (zb (x <=? y))) a b
  | Bin Ge a b => bin (fun x y => Some (zb (y <=? x))) a b
  | Bin Eq a b => bin (fun x y => Some (zb (x =? y))) a b
  | Bin Ne a b => bin (fun x y => Some (zb (negb (x =? y)))) a b
  | Bin BAnd a b => bin (fun x y => Some (Z.land x y)) a b
  | Bin BOr a b => bin (fun x y => Some (Z.lor x y)) a b
  | Bin BXor a b => bin (fun x y => Some (Z.lxor x y)) a b
  | Bin Shl a b => bin (fun x y => Some (wrap (x * 2 ^ (y mod 64)))) a b
  | Bin Shr a b => bin (fun x y => Some (x / 2 ^ (y mod 64))) a b
  | Bin LAnd a b => bin (fun x y => Some (zb (negb (x =? 0) && negb (y =? 0)))) a b
  | Bin LOr a b => bin (fun x y => Some (zb (negb (x =? 0) || negb (y =? 0)))) a b
  | Un LNot a => match gnu_eval a with Some x => Some (zb (x =? 0)) | None => None end
  | Un BNot a => match gnu_eval a with Some x => Some (wrap (- x - 1)) | None => None end
  | Un Neg a => match gnu_eval a with Some x => Some (wrap (- x)) | None => None end
  | Min a b => bin (fun x y => Some (Z.min x y)) a b
  | Max a b => bin (fun x y => Some (Z.max x y)) a b
  | Align a => None      (* ALIGN(x) depends on the location counter: outside the constant fragment *)
  end.
