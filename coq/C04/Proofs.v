(* C04 — proofs about the layout core. *)
From Coq Require Import ZArith List Bool Lia.
From WV Require Import C04.Model.
Import ListNotations.
Open Scope Z_scope.

Lemma align_up_ge a x : 0 < a -> x <= align_up a x.
Proof. intros Ha. unfold align_up. pose proof (Z.div_mod (x + a - 1) a ltac:(lia)). pose proof (Z.mod_pos_bound (x + a - 1) a Ha). nia. Qed.
Lemma align_up_lt a x : 0 < a -> align_up a x < x + a.
Proof. intros Ha. unfold align_up. pose proof (Z.div_mod (x + a - 1) a ltac:(lia)). pose proof (Z.mod_pos_bound (x + a - 1) a Ha). nia. Qed.
Lemma align_up_mult a x : 0 < a -> (a | align_up a x).
Proof. intros Ha. unfold align_up. exists ((x + a - 1) / a). reflexivity. Qed.

(* if a divides f - m, rounding both up by a moves them by the same amount *)
Lemma align_up_shift a f m : 0 < a -> (a | f - m) -> align_up a f - f = align_up a m - m.
Proof.
  intros Ha [k Hk]. unfold align_up. replace (f + a - 1) with (m + a - 1 + k * a) by lia.
  rewrite Z.div_add by lia. lia.
Qed.

Lemma align_mod_congruent a ref x : 0 < a -> (a | align_mod a ref x - ref).
Proof.
  intros Ha. unfold align_mod. destruct (align_up_mult a x Ha) as [k Hk]. rewrite Hk.
  exists (k - ref / a). pose proof (Z.div_mod ref a ltac:(lia)). lia.
Qed.
Lemma align_mod_ge a ref x : 0 < a -> x <= align_mod a ref x.
Proof. intros Ha. unfold align_mod. pose proof (align_up_ge a x Ha). pose proof (Z.mod_pos_bound ref a Ha). lia. Qed.

(* every part with file data, as long as no NOBITS part came before it, is placed with address = file offset modulo A *)
Fixpoint all_data (ps : list part) : Prop := match ps with [] => True | p :: r => pdata p = true /\ all_data r end.

Lemma layout_parts_spec A : forall ps f m,
  0 < A -> (A | m - f) ->
  Forall (fun p => 0 < pa p /\ (pa p | A) /\ 0 <= psize p) ps -> all_data ps ->
  let '(pl, (f', m')) := layout_parts f m ps in
  m' - f' = m - f /\ f <= f' /\ m <= m' /\
  Forall (fun x => l_mem x - l_file x = m - f /\ (pa (l_part x) | l_file x) /\ (pa (l_part x) | l_mem x) /\
                   f <= l_file x /\ m <= l_mem x /\ l_file x + fsize (l_part x) <= f' /\ l_mem x + psize (l_part x) <= m') pl.
Proof.
  induction ps as [|p r IH]; intros f m HA Hc Hps Hd; cbn [layout_parts].
  - repeat split; try lia; constructor.
  - inversion Hps as [|? ? (Hp0 & HpA & Hsz) Hr]; subst. destruct Hd as [Hdp Hdr].
    set (f1 := align_up (pa p) f). set (m1 := align_up (pa p) m).
    assert (Hshift : m1 - m = f1 - f).
    { unfold m1, f1. symmetry. apply align_up_shift; [exact Hp0|]. destruct Hc as [k Hk]. destruct HpA as [j Hj]. exists (- k * j). nia. }
    assert (Hc1 : (A | (m1 + psize p) - (f1 + fsize p))).
    { unfold fsize. rewrite Hdp. destruct Hc as [k Hk]. exists k. lia. }
    assert (Hfs : fsize p = psize p) by (unfold fsize; rewrite Hdp; reflexivity).
    specialize (IH (f1 + fsize p) (m1 + psize p) HA Hc1 Hr Hdr).
    destruct (layout_parts (f1 + fsize p) (m1 + psize p) r) as [pl [f' m']].
    destruct IH as (I1 & I2 & I3 & I4).
    pose proof (align_up_ge (pa p) f Hp0). pose proof (align_up_ge (pa p) m Hp0).
    assert (0 <= fsize p) by (unfold fsize; destruct (pdata p); lia).
    fold f1 in H. fold m1 in H0.
    repeat split; try lia.
    constructor.
    + cbn [l_file l_mem l_part]. repeat split; try lia.
      * apply align_up_mult. exact Hp0.
      * apply align_up_mult. exact Hp0.
    + eapply Forall_impl; [|exact I4]. cbn beta. intros x (X1 & X2 & X3 & X4 & X5 & X6 & X7). repeat split; try assumption; lia.
Qed.

(* consecutive parts do not overlap, in the file or in memory *)
Fixpoint ordered (pl : list placed) : Prop :=
  match pl with
  | x :: ((y :: _) as r) => l_file x + fsize (l_part x) <= l_file y /\ l_mem x + psize (l_part x) <= l_mem y /\ ordered r
  | _ => True
  end.
Lemma layout_parts_ordered : forall ps f m,
  Forall (fun p => 0 < pa p /\ 0 <= psize p) ps -> ordered (fst (layout_parts f m ps)).
Proof.
  induction ps as [|p r IH]; intros f m Hps; cbn [layout_parts]; [exact I|].
  inversion Hps as [|? ? (Hp0 & Hsz) Hr]; subst.
  specialize (IH (align_up (pa p) f + fsize p) (align_up (pa p) m + psize p) Hr).
  destruct r as [|q r']; cbn [layout_parts] in *.
  - cbn. exact I.
  - destruct (layout_parts (align_up (pa q) (align_up (pa p) f + fsize p) + fsize q) (align_up (pa q) (align_up (pa p) m + psize p) + psize q) r') as [pl fin] eqn:E.
    cbn [fst ordered l_file l_mem l_part] in *.
    inversion Hr as [|? ? (Hq0 & _) _]; subst.
    pose proof (align_up_ge (pa q) (align_up (pa p) f + fsize p) Hq0). pose proof (align_up_ge (pa q) (align_up (pa p) m + psize p) Hq0).
    repeat split; try lia. exact IH.
Qed.

(* powers of two: the largest alignment is a multiple of every other *)
Lemma pow2_divides i j : 0 <= i <= j -> (2 ^ i | 2 ^ j).
Proof. intros H. exists (2 ^ (j - i)). rewrite <- Z.pow_add_r by lia. f_equal. lia. Qed.

Definition wf_part (p : part) : Prop := (exists e, 0 <= e /\ pa p = 2 ^ e) /\ 0 <= psize p.
Definition is_pow2 (a : Z) : Prop := exists e, 0 <= e /\ a = 2 ^ e.

Lemma pow2_pos a : is_pow2 a -> 0 < a.
Proof. intros (e & He & ->). apply Z.pow_pos_nonneg; lia. Qed.
Lemma pow2_max a b : is_pow2 a -> is_pow2 b -> is_pow2 (Z.max a b) /\ (a | Z.max a b) /\ (b | Z.max a b).
Proof.
  intros (i & Hi & ->) (j & Hj & ->). destruct (Z_le_gt_dec i j) as [Hle|Hgt].
  - rewrite Z.max_r by (apply Z.pow_le_mono_r; lia). split; [exists j; auto|]. split; [apply pow2_divides; lia|apply Z.divide_refl].
  - rewrite Z.max_l by (apply Z.pow_le_mono_r; lia). split; [exists i; auto|]. split; [apply Z.divide_refl|apply pow2_divides; lia].
Qed.

Lemma fold_max_pow2 : forall l a, is_pow2 a -> Forall is_pow2 l ->
  is_pow2 (fold_left Z.max l a) /\ (a | fold_left Z.max l a) /\ Forall (fun x => (x | fold_left Z.max l a)) l.
Proof.
  induction l as [|x r IH]; intros a Ha Hl; cbn [fold_left].
  - split; [exact Ha|]. split; [apply Z.divide_refl|constructor].
  - inversion Hl as [|? ? Hx Hr]; subst. destruct (pow2_max a x Ha Hx) as (Hm & Da & Dx).
    destruct (IH (Z.max a x) Hm Hr) as (I1 & I2 & I3). split; [exact I1|]. split; [eapply Z.divide_trans; eauto|].
    constructor; [eapply Z.divide_trans; eauto|exact I3].
Qed.

Lemma seg_alignment_spec page ps : is_pow2 page -> Forall wf_part ps ->
  let A := seg_alignment page ps in is_pow2 A /\ (page | A) /\ Forall (fun p => (pa p | A)) ps.
Proof.
  intros Hp Hps. unfold seg_alignment.
  assert (Hl : Forall is_pow2 (map pa ps)).
  { apply Forall_forall. intros x Hx. apply in_map_iff in Hx. destruct Hx as (p & <- & Hin). rewrite Forall_forall in Hps. exact (proj1 (Hps p Hin)). }
  destruct (fold_max_pow2 (map pa ps) page Hp Hl) as (I1 & I2 & I3). cbn zeta. split; [exact I1|]. split; [exact I2|].
  apply Forall_forall. intros p Hin. rewrite Forall_forall in I3. apply I3. apply in_map. exact Hin.
Qed.

Lemma layout_parts_app : forall a b f m,
  layout_parts f m (a ++ b) =
  let '(pa_, (f1, m1)) := layout_parts f m a in let '(pb, fin) := layout_parts f1 m1 b in (pa_ ++ pb, fin).
Proof.
  induction a as [|p r IH]; intros b f m; cbn [app layout_parts].
  - destruct (layout_parts f m b) as [pb fin]. reflexivity.
  - rewrite IH. destruct (layout_parts (align_up (pa p) f + fsize p) (align_up (pa p) m + psize p) r) as [pl [f1 m1]].
    destruct (layout_parts f1 m1 b) as [pb fin]. reflexivity.
Qed.

Lemma layout_parts_length : forall ps f m, length (fst (layout_parts f m ps)) = length ps.
Proof. induction ps as [|p r IH]; intros f m; cbn [layout_parts]; [reflexivity|]. specialize (IH (align_up (pa p) f + fsize p) (align_up (pa p) m + psize p)).
  destruct (layout_parts _ _ r) as [pl fin]. cbn [fst length] in *. lia. Qed.

Lemma layout_parts_parts : forall ps f m, map l_part (fst (layout_parts f m ps)) = ps.
Proof. induction ps as [|p r IH]; intros f m; cbn [layout_parts]; [reflexivity|]. specialize (IH (align_up (pa p) f + fsize p) (align_up (pa p) m + psize p)).
  destruct (layout_parts _ _ r) as [pl fin]. cbn [fst map l_part] in *. f_equal. exact IH. Qed.

(* every part, NOBITS or not, gets an aligned address at or after the running address *)
Lemma layout_parts_mem_aligned : forall ps f m, Forall (fun p => 0 < pa p /\ 0 <= psize p) ps ->
  Forall (fun x => (pa (l_part x) | l_mem x) /\ m <= l_mem x) (fst (layout_parts f m ps)).
Proof.
  induction ps as [|p r IH]; intros f m Hps; cbn [layout_parts]; [constructor|].
  inversion Hps as [|? ? (Hp0 & Hsz) Hr]; subst.
  specialize (IH (align_up (pa p) f + fsize p) (align_up (pa p) m + psize p) Hr).
  destruct (layout_parts _ _ r) as [pl fin]. cbn [fst] in *. pose proof (align_up_ge (pa p) m Hp0).
  constructor; [cbn; split; [apply align_up_mult; exact Hp0|lia]|].
  eapply Forall_impl; [|exact IH]. cbn beta. intros x (X1 & X2). split; [exact X1|lia].
Qed.

Lemma wf_weaken ps : Forall wf_part ps -> Forall (fun p => 0 < pa p /\ 0 <= psize p) ps.
Proof. intros H. eapply Forall_impl; [|exact H]. intros p ((e & He & Hp) & Hs). split; [rewrite Hp; apply Z.pow_pos_nonneg; lia|exact Hs]. Qed.

(* The LOAD segment as a whole.  ds are the parts with file contents (PROGBITS and the like, and .tbss, which wild
   backs with zero bytes in the file); ns the trailing NOBITS parts. *)
Theorem segment_well_formed page ds ns f m :
  is_pow2 page -> Forall wf_part (ds ++ ns) -> all_data ds ->
  let A := seg_alignment page (ds ++ ns) in
  let '(off, vaddr, pl, _) := layout_segment page f m (ds ++ ns) in
  off = f /\ (A | vaddr - off) /\ m <= vaddr /\ vaddr < m + 2 * A /\ (page | A) /\
  map l_part pl = ds ++ ns /\
  Forall (fun x => (pa (l_part x) | l_mem x) /\ (pa (l_part x) | A) /\ vaddr <= l_mem x) pl /\
  Forall (fun x => l_mem x - vaddr = l_file x - off /\ (pa (l_part x) | l_file x) /\ off <= l_file x) (firstn (length ds) pl) /\
  ordered pl.
Proof.
  intros Hpage Hwf Hd. cbn zeta. unfold layout_segment.
  destruct (seg_alignment_spec page (ds ++ ns) Hpage Hwf) as (HA & HpA & Hdiv). cbn zeta in HA, HpA, Hdiv.
  set (A := seg_alignment page (ds ++ ns)) in *.
  pose proof (pow2_pos A HA) as HApos.
  set (m0 := align_mod A f m).
  pose proof (align_mod_congruent A f m HApos) as Hcong. fold m0 in Hcong.
  pose proof (align_mod_ge A f m HApos) as Hge. fold m0 in Hge.
  assert (Hlt : m0 < m + 2 * A).
  { unfold m0, align_mod. pose proof (align_up_lt A m HApos). pose proof (Z.mod_pos_bound f A HApos). lia. }
  pose proof (layout_parts_parts (ds ++ ns) f m0) as Hparts.
  pose proof (layout_parts_mem_aligned (ds ++ ns) f m0 (wf_weaken _ Hwf)) as Hal.
  pose proof (layout_parts_ordered (ds ++ ns) f m0 (wf_weaken _ Hwf)) as Hord.
  pose proof (layout_parts_length ds f m0) as Hlen.
  rewrite layout_parts_app in *.
  assert (Hwfd : Forall (fun p => 0 < pa p /\ (pa p | A) /\ 0 <= psize p) ds).
  { apply Forall_forall. intros p Hin. rewrite Forall_forall in Hdiv, Hwf. assert (In p (ds ++ ns)) by (apply in_or_app; left; exact Hin).
    destruct (Hwf p H) as ((e & He & Hp) & Hs). split; [rewrite Hp; apply Z.pow_pos_nonneg; lia|]. split; [apply Hdiv; exact H|exact Hs]. }
  pose proof (layout_parts_spec A ds f m0 HApos Hcong Hwfd Hd) as Hspec.
  destruct (layout_parts f m0 ds) as [pd [f1 m1]]. destruct (layout_parts f1 m1 ns) as [pn fin].
  cbn [fst] in *. destruct Hspec as (S1 & S2 & S3 & S4).
  split; [reflexivity|]. split; [exact Hcong|]. split; [exact Hge|]. split; [exact Hlt|]. split; [exact HpA|].
  split; [exact Hparts|]. split.
  - rewrite Forall_forall in *. intros x Hx. destruct (Hal x Hx) as (X1 & X2). split; [exact X1|]. split; [|exact X2].
    apply Hdiv. rewrite <- Hparts. apply in_map. exact Hx.
  - split; [|exact Hord]. rewrite <- Hlen. rewrite firstn_app, Nat.sub_diag, firstn_all. cbn [firstn]. rewrite app_nil_r.
    eapply Forall_impl; [|exact S4]. cbn beta. intros x (X1 & X2 & X3 & X4 & X5 & X6 & X7). split; [lia|]. split; [exact X2|exact X4].
Qed.

(* a loader may place the image at any bias that is a multiple of the largest p_align; every part stays aligned *)
Lemma aligned_at_any_bias a A addr b : (a | A) -> (a | addr) -> (A | b) -> (a | addr + b).
Proof. intros H1 H2 H3. apply Z.divide_add_r; [exact H2|exact (Z.divide_trans _ _ _ H1 H3)]. Qed.

(* if NOBITS parts did not take part in the segment alignment, a valid bias would misalign one *)
Definition seg_alignment_data_only (page : Z) (ps : list part) : Z := fold_left Z.max (map pa (filter pdata ps)) page.
Lemma data_only_alignment_misaligns :
  exists page ps bias,
    is_pow2 page /\ Forall wf_part ps /\ (seg_alignment_data_only page ps | bias) /\
    exists x, In x (fst (layout_parts 0 0 ps)) /\ ~ (pa (l_part x) | l_mem x + bias).
Proof.
  exists 4096, [ {| pa := 8; psize := 8; pdata := true |}; {| pa := 65536; psize := 100; pdata := false |} ], 4096.
  split; [exists 12; split; [lia|reflexivity]|]. split.
  - repeat constructor; cbn; try lia; [exists 3|exists 16]; split; try lia; reflexivity.
  - split; [vm_compute; exists 1; reflexivity|].
    eexists. split; [right; left; reflexivity|]. intros H. apply Z.mod_divide in H; [vm_compute in H; discriminate|vm_compute; discriminate].
Qed.

(* ---- no two parts of the image overlap, in the file or in memory ---- *)
Fixpoint chain (f m : Z) (pl : list placed) : Prop :=
  match pl with
  | [] => True
  | x :: r => f <= l_file x /\ m <= l_mem x /\ chain (l_file x + fsize (l_part x)) (l_mem x + psize (l_part x)) r
  end.
Fixpoint ends (f m : Z) (pl : list placed) : Z * Z :=
  match pl with [] => (f, m) | x :: r => ends (l_file x + fsize (l_part x)) (l_mem x + psize (l_part x)) r end.

Lemma chain_weaken : forall pl f m f' m', f' <= f -> m' <= m -> chain f m pl -> chain f' m' pl.
Proof. destruct pl as [|x r]; cbn [chain]; intros; [exact I|]. destruct H1 as (A & B & C). repeat split; try lia. exact C. Qed.

Lemma chain_app : forall a b f m, chain f m a -> chain (fst (ends f m a)) (snd (ends f m a)) b -> chain f m (a ++ b).
Proof.
  induction a as [|x r IH]; intros b f m Ha Hb; cbn [app chain ends fst snd] in *; [exact Hb|].
  destruct Ha as (A & B & C). repeat split; try assumption. apply IH; assumption.
Qed.
Lemma ends_app : forall a b f m, ends f m (a ++ b) = ends (fst (ends f m a)) (snd (ends f m a)) b.
Proof. induction a as [|x r IH]; intros b f m; cbn [app ends fst snd]; [reflexivity|]. apply IH. Qed.

Lemma layout_parts_chain : forall ps f m, Forall (fun p => 0 < pa p /\ 0 <= psize p) ps ->
  chain f m (fst (layout_parts f m ps)) /\ ends f m (fst (layout_parts f m ps)) = snd (layout_parts f m ps) /\
  f <= fst (snd (layout_parts f m ps)) /\ m <= snd (snd (layout_parts f m ps)).
Proof.
  induction ps as [|p r IH]; intros f m Hps; cbn [layout_parts].
  - cbn. repeat split; lia.
  - inversion Hps as [|? ? (Hp0 & Hsz) Hr]; subst.
    specialize (IH (align_up (pa p) f + fsize p) (align_up (pa p) m + psize p) Hr).
    destruct (layout_parts _ _ r) as [pl fin]. cbn [fst snd chain ends l_file l_mem l_part] in *.
    destruct IH as (I1 & I2 & I3 & I4).
    pose proof (align_up_ge (pa p) f Hp0). pose proof (align_up_ge (pa p) m Hp0).
    assert (0 <= fsize p) by (unfold fsize; destruct (pdata p); lia).
    repeat split; try assumption; lia.
Qed.

Lemma layout_image_chain page : forall segs f m,
  is_pow2 page -> Forall (Forall wf_part) segs ->
  chain f m (image_parts (layout_image page f m segs)).
Proof.
  induction segs as [|s r IH]; intros f m Hp Hw; cbn [layout_image]; [exact I|].
  inversion Hw as [|? ? Hs Hr]; subst. unfold layout_segment.
  destruct (seg_alignment_spec page s Hp Hs) as (HA & _ & _). cbn zeta in HA. pose proof (pow2_pos _ HA) as HApos.
  pose proof (align_mod_ge (seg_alignment page s) f m HApos) as Hge.
  destruct (layout_parts_chain s f (align_mod (seg_alignment page s) f m) (wf_weaken _ Hs)) as (C1 & C2 & C3 & C4).
  destruct (layout_parts f (align_mod (seg_alignment page s) f m) s) as [pl [f' m']]. cbn [fst snd] in *.
  unfold image_parts. cbn [map snd concat]. apply chain_app.
  - eapply chain_weaken; [| |exact C1]; lia.
  - destruct pl as [|x pl'].
    + cbn [ends fst snd]. cbn [ends] in C2. inversion C2; subst. eapply chain_weaken; [| |apply IH; assumption]; lia.
    + cbn [ends] in *. rewrite C2. cbn [fst snd]. apply IH; assumption.
Qed.

Definition disjoint_pair (x y : placed) : Prop :=
  l_file x + fsize (l_part x) <= l_file y /\ l_mem x + psize (l_part x) <= l_mem y.

Lemma chain_lower : forall pl f m, Forall (fun x => 0 <= psize (l_part x)) pl -> chain f m pl ->
  Forall (fun y => f <= l_file y /\ m <= l_mem y) pl.
Proof.
  induction pl as [|x r IH]; intros f m Hs Hc; [constructor|]. inversion Hs as [|? ? Hx Hr]; subst. destruct Hc as (A & B & C).
  constructor; [split; assumption|]. specialize (IH _ _ Hr C). eapply Forall_impl; [|exact IH]. cbn beta.
  assert (0 <= fsize (l_part x)) by (unfold fsize; destruct (pdata (l_part x)); lia). intros y (Y1 & Y2). split; lia.
Qed.

Lemma chain_pairwise : forall pl f m, Forall (fun x => 0 <= psize (l_part x)) pl -> chain f m pl -> ForallOrdPairs disjoint_pair pl.
Proof.
  induction pl as [|x r IH]; intros f m Hs Hc; [constructor|]. inversion Hs as [|? ? Hx Hr]; subst. destruct Hc as (A & B & C).
  constructor; [|eapply IH; eauto]. pose proof (chain_lower r _ _ Hr C) as L. eapply Forall_impl; [|exact L]. cbn beta. intros y (Y1 & Y2). split; assumption.
Qed.

Lemma image_parts_sizes page : forall segs f m, Forall (Forall wf_part) segs ->
  Forall (fun x => 0 <= psize (l_part x)) (image_parts (layout_image page f m segs)).
Proof.
  induction segs as [|s r IH]; intros f m Hw; cbn [layout_image]; [constructor|].
  inversion Hw as [|? ? Hs Hr]; subst. unfold layout_segment.
  pose proof (layout_parts_parts s f (align_mod (seg_alignment page s) f m)) as Hp.
  destruct (layout_parts f (align_mod (seg_alignment page s) f m) s) as [pl [f' m']]. cbn [fst] in Hp.
  unfold image_parts. cbn [map snd concat]. apply Forall_app. split; [|apply IH; exact Hr].
  apply Forall_forall. intros x Hx. rewrite Forall_forall in Hs. apply (in_map l_part) in Hx. rewrite Hp in Hx. exact (proj2 (Hs _ Hx)).
Qed.

Theorem image_parts_never_overlap page segs f m :
  is_pow2 page -> Forall (Forall wf_part) segs ->
  ForallOrdPairs disjoint_pair (image_parts (layout_image page f m segs)).
Proof.
  intros Hp Hw. eapply chain_pairwise; [apply image_parts_sizes; exact Hw|apply layout_image_chain; assumption].
Qed.

(* the event stream of one LOAD segment is layout_segment *)
Lemma run_events_parts : forall ps f m rest,
  run_events f m (map EPart ps ++ rest) =
  map (fun x => OPart (l_file x) (l_mem x)) (fst (layout_parts f m ps)) ++
  run_events (fst (snd (layout_parts f m ps))) (snd (snd (layout_parts f m ps))) rest.
Proof.
  induction ps as [|p r IH]; intros f m rest; cbn [map app run_events layout_parts]; [reflexivity|].
  rewrite IH. destruct (layout_parts (align_up (pa p) f + fsize p) (align_up (pa p) m + psize p) r) as [pl [f' m']]. reflexivity.
Qed.

Lemma run_events_segment page ps f m rest :
  run_events f m (ESeg (seg_alignment page ps) :: map EPart ps ++ rest) =
  let '(off, vaddr, pl, (f', m')) := layout_segment page f m ps in
  OSeg off vaddr :: map (fun x => OPart (l_file x) (l_mem x)) pl ++ run_events f' m' rest.
Proof.
  cbn [run_events]. rewrite run_events_parts. unfold layout_segment.
  destruct (layout_parts f (align_mod (seg_alignment page ps) f m) ps) as [pl [f' m']]. reflexivity.
Qed.
