(* C04 — the core of layout_section_parts (libwild/src/layout.rs) for allocated sections of an executable or shared
   object: inside a LOAD segment the file offset and the memory address advance together; every part is aligned up in
   both spaces; a segment starts where the address is congruent to the file offset modulo the segment's alignment
   (align_load_segment_start -> Alignment::align_modulo), and that alignment is the largest alignment of anything in
   the segment, at least the page size (compute_segment_alignments).  Alignments are powers of two; align_up and
   align_modulo are the specifications C29 proves of Alignment::{align_up, align_modulo}. *)
From Coq Require Import ZArith List Bool.
Import ListNotations.
Open Scope Z_scope.

Definition align_up (a x : Z) : Z := (x + a - 1) / a * a.
(* the smallest y >= align_up a x with y = ref (mod a) *)
Definition align_mod (a ref x : Z) : Z := align_up a x + ref mod a.

Record part := { pa : Z; psize : Z; pdata : bool }.       (* alignment, size, occupies file space (not NOBITS) *)
Record placed := { l_file : Z; l_mem : Z; l_part : part }.

Definition fsize (p : part) : Z := if pdata p then psize p else 0.

Fixpoint layout_parts (f m : Z) (ps : list part) : list placed * (Z * Z) :=
  match ps with
  | [] => ([], (f, m))
  | p :: r =>
      let f1 := align_up (pa p) f in
      let m1 := align_up (pa p) m in
      let (rest, fin) := layout_parts (f1 + fsize p) (m1 + psize p) r in
      ({| l_file := f1; l_mem := m1; l_part := p |} :: rest, fin)
  end.

Definition seg_alignment (page : Z) (ps : list part) : Z := fold_left Z.max (map pa ps) page.

(* a LOAD segment that begins when the running offsets are (f, m) *)
Definition layout_segment (page : Z) (f m : Z) (ps : list part) : Z * Z * list placed * (Z * Z) :=
  let a := seg_alignment page ps in
  let m0 := align_mod a f m in
  let (pl, fin) := layout_parts f m0 ps in
  (f, m0, pl, fin).

(* the allocated part of an image: LOAD segments one after another, the running offsets carried over *)
Fixpoint layout_image (page : Z) (f m : Z) (segs : list (list part)) : list (Z * Z * list placed) :=
  match segs with
  | [] => []
  | s :: r =>
      let '(off, vaddr, pl, (f', m')) := layout_segment page f m s in
      (off, vaddr, pl) :: layout_image page f' m' r
  end.
Definition image_parts (img : list (Z * Z * list placed)) : list placed := concat (map snd img).

(* ---- the event stream layout_section_parts walks (OutputOrder), as the hook WILD_VERIF_LAYOUT records it ---- *)
Inductive event :=
| ESeg (a : Z)                      (* SegmentStart of a LOAD segment with alignment a, no pending location *)
| ESegAt (a addr : Z)               (* ... with a pending SetLocation: the address is given, the file offset follows it *)
| ESecAt (addr : Z)                 (* a section with its own location *)
| EPart (p : part)                  (* a part of an allocated section *)
| ENonAlloc (a size : Z).           (* a part of a non-allocated section: file space only *)

Inductive outrec := OSeg (f m : Z) | OPart (f m : Z) | OFile (f : Z).

Fixpoint run_events (f m : Z) (evs : list event) : list outrec :=
  match evs with
  | [] => []
  | ESeg a :: r => let m0 := align_mod a f m in OSeg f m0 :: run_events f m0 r
  | ESegAt a addr :: r => let f0 := align_mod a addr f in OSeg f0 addr :: run_events f0 addr r
  | ESecAt addr :: r => run_events f addr r
  | EPart p :: r =>
      let f1 := align_up (pa p) f in
      let m1 := align_up (pa p) m in
      OPart f1 m1 :: run_events (f1 + fsize p) (m1 + psize p) r
  | ENonAlloc a size :: r =>
      let f1 := align_up a f in OFile f1 :: run_events (f1 + size) m r
  end.
