(* C04 — output ELF images are structurally well-formed: the property theorems for the layout core. Model: C04/Model.v. *)
From Coq Require Import ZArith List Bool.
From WV Require Import C04.Model C04.Proofs.
Import ListNotations.
Open Scope Z_scope.

(* One LOAD segment.  ds: the parts with bytes in the file; ns: the trailing NOBITS parts; (f, m) the running file
   offset and address when the segment begins.  The segment's p_offset is f, its p_vaddr is congruent to it modulo
   p_align (= the largest alignment in the segment, a multiple of the page size), every part's address honours its
   alignment and the alignment divides p_align, every part with file contents sits at the same distance from the
   segment start in the file and in memory (so the loader maps it to its address), and consecutive parts do not overlap. *)
Theorem C04_load_segment_well_formed :
  forall page ds ns f m,
    is_pow2 page -> Forall wf_part (ds ++ ns) -> all_data ds ->
    let A := seg_alignment page (ds ++ ns) in
    let '(off, vaddr, pl, _) := layout_segment page f m (ds ++ ns) in
    off = f /\ (A | vaddr - off) /\ m <= vaddr /\ vaddr < m + 2 * A /\ (page | A) /\
    map l_part pl = ds ++ ns /\
    Forall (fun x => (pa (l_part x) | l_mem x) /\ (pa (l_part x) | A) /\ vaddr <= l_mem x) pl /\
    Forall (fun x => l_mem x - vaddr = l_file x - off /\ (pa (l_part x) | l_file x) /\ off <= l_file x) (firstn (length ds) pl) /\
    ordered pl.
Proof. exact segment_well_formed. Qed.
Print Assumptions C04_load_segment_well_formed.

(* The whole allocated image: no two parts overlap, in the file or in memory, whichever segments they are in. *)
Theorem C04_parts_never_overlap :
  forall page segs f m,
    is_pow2 page -> Forall (Forall wf_part) segs ->
    ForallOrdPairs disjoint_pair (image_parts (layout_image page f m segs)).
Proof. exact image_parts_never_overlap. Qed.
Print Assumptions C04_parts_never_overlap.

(* A loader may add any bias that is a multiple of p_align (position-independent outputs): alignment survives. *)
Theorem C04_alignment_survives_the_load_bias :
  forall a A addr bias, (a | A) -> (a | addr) -> (A | bias) -> (a | addr + bias).
Proof. exact aligned_at_any_bias. Qed.
Print Assumptions C04_alignment_survives_the_load_bias.

(* p_align must take NOBITS parts into account: computed from the parts with file contents only, a permitted bias
   leaves a .bss-like part misaligned. *)
Theorem C04_refuted_if_nobits_ignored_in_p_align :
  exists page ps bias,
    is_pow2 page /\ Forall wf_part ps /\ (seg_alignment_data_only page ps | bias) /\
    exists x, In x (fst (layout_parts 0 0 ps)) /\ ~ (pa (l_part x) | l_mem x + bias).
Proof. exact data_only_alignment_misaligns. Qed.
Print Assumptions C04_refuted_if_nobits_ignored_in_p_align.

(* the premises are satisfiable: a text-like segment starting at a file offset that is not page aligned *)
Example C04_example :
  layout_segment 4096 0x4c0 0x4004c0
     [ {| pa := 16; psize := 39; pdata := true |}; {| pa := 8; psize := 8; pdata := true |}; {| pa := 64; psize := 100; pdata := false |} ]
  = (0x4c0, 0x4014c0, [ {| l_file := 0x4c0; l_mem := 0x4014c0; l_part := {| pa := 16; psize := 39; pdata := true |} |};
                        {| l_file := 0x4e8; l_mem := 0x4014e8; l_part := {| pa := 8; psize := 8; pdata := true |} |};
                        {| l_file := 0x500; l_mem := 0x401500; l_part := {| pa := 64; psize := 100; pdata := false |} |} ],
     (0x500, 0x401564)).
Proof. vm_compute. reflexivity. Qed.

(* The event stream wild walks (a LOAD segment start followed by its parts) is exactly layout_segment, so the theorems
   above speak about what the correspondence check replays. *)
Theorem C04_event_stream_is_layout_segment :
  forall page ps f m rest,
    run_events f m (ESeg (seg_alignment page ps) :: map EPart ps ++ rest) =
    let '(off, vaddr, pl, (f', m')) := layout_segment page f m ps in
    OSeg off vaddr :: map (fun x => OPart (l_file x) (l_mem x)) pl ++ run_events f' m' rest.
Proof. exact run_events_segment. Qed.
Print Assumptions C04_event_stream_is_layout_segment.
