(* C36 — GNU property notes and PT_GNU_STACK.
   wild:  libwild/src/elf.rs merge_gnu_property_notes (one pass over all properties of all loaded objects with a map
          keyed by property type; a final filter), elf_x86_64.rs get_property_class, validate_stack_section, and
          elf_writer.rs (PT_GNU_STACK gets PF_X iff -z execstack).
   GNU ld: elf-properties.c elf_merge_gnu_property_list with elfxx-x86.c _bfd_x86_elf_merge_gnu_properties, stated here
          declaratively per property type (spec_merge); ldelf.c / ldlang.c for the stack (missing .note.GNU-stack => executable stack on this target unless all are missing). *)
From Coq Require Import NArith List Bool.
Import ListNotations.
Open Scope N_scope.

Inductive pclass := CAnd | COr | CAndOr.
Definition class_of (t : N) : option pclass :=
  if (3221225474 <=? t) && (t <=? 3221258239) then Some CAnd        (* c0000002 .. c0007fff *)
  else if (3221258240 <=? t) && (t <=? 3221291007) then Some COr    (* c0008000 .. c000ffff *)
  else if (3221291008 <=? t) && (t <=? 3221323775) then Some CAndOr (* c0010000 .. c0017fff *)
  else if (2952790016 <=? t) && (t <=? 2952822783) then Some CAnd   (* b0000000 .. b0007fff *)
  else if (2952822784 <=? t) && (t <=? 2952855551) then Some COr    (* b0008000 .. b000ffff *)
  else None.
Definition ISA_NEEDED : N := 3221258242.

Definition prop := (N * N)%type.
Definition file := list prop.          (* [] = the object has no .note.gnu.property *)

Definition lookup (f : file) (t : N) : option N :=
  match find (fun p => fst p =? t) f with Some p => Some (snd p) | None => None end.
Definition has (f : file) (t : N) : bool := existsb (fun p => fst p =? t) f.

(* sorted insertion of distinct keys: the order of the output note *)
Fixpoint ins (t : N) (l : list N) : list N :=
  match l with
  | [] => [t]
  | x :: r => if t <? x then t :: l else if t =? x then l else x :: ins t r
  end.
Definition types (ps : list prop) : list N := fold_left (fun acc p => ins (fst p) acc) ps [].

(* ---- wild ---- *)
Definition wmap := N -> option N.
Definition wstep (m : wmap) (p : prop) : wmap :=
  let (t, d) := p in
  fun k => if k =? t then
             match m t with
             | None => Some d
             | Some v => Some (match class_of t with Some CAnd => N.land v d | _ => N.lor v d end)
             end
           else m k.
Definition wild_merge (files : list file) (isa : N) : option (list prop) :=
  let ps := concat files in
  if forallb (fun p => match class_of (fst p) with Some _ => true | None => false end) ps then
    let m0 := fold_left wstep ps (fun _ => None) in
    let m := if isa =? 0 then m0
             else fun k => if k =? ISA_NEEDED then Some (N.lor (match m0 ISA_NEEDED with Some v => v | None => 0 end) isa) else m0 k in
    let ts := if isa =? 0 then types ps else ins ISA_NEEDED (types ps) in
    Some (flat_map (fun t =>
            match m t, class_of t with
            | Some v, Some c =>
                let in_all := forallb (fun f => has f t) files in
                if match c with
                   | COr => negb (v =? 0)
                   | CAnd => in_all && negb (v =? 0)
                   | CAndOr => in_all
                   end then [(t, v)] else []
            | _, _ => []
            end) ts)
  else None.    (* "unclassified property type": the link fails *)

(* ---- the specification (what GNU ld computes; validated against ld itself on every run) ----
   per property type: AND-class  = AND over all inputs, kept iff every input carries the type and the result is not 0;
                      OR-class   = OR over the inputs that carry it, kept iff not 0;
                      OR_AND-class (x86 "used" properties) = OR, kept iff every input carries the type;
   -z x86-64-vN ORs its bit into ISA_1_NEEDED; the note lists the surviving types in increasing order. *)
Definition op (c : pclass) (a b : N) : N := match c with CAnd => N.land a b | _ => N.lor a b end.
Definition sval (c : pclass) (files : list file) (t : N) : option N :=
  fold_left (fun acc f => match lookup f t with
                          | None => acc
                          | Some d => match acc with None => Some d | Some v => Some (op c v d) end
                          end) files None.
Definition spec_merge (files : list file) (isa : N) : list prop :=
  let ps := concat files in
  let ts := if isa =? 0 then types ps else ins ISA_NEEDED (types ps) in
  flat_map (fun t =>
    match class_of t with
    | None => []
    | Some c =>
        let v0 := sval c files t in
        let v := if (t =? ISA_NEEDED) && negb (isa =? 0) then Some (N.lor (match v0 with Some x => x | None => 0 end) isa) else v0 in
        match v with
        | None => []
        | Some x =>
            let in_all := forallb (fun f => has f t) files in
            if match c with COr => negb (x =? 0) | CAnd => in_all && negb (x =? 0) | CAndOr => in_all end then [(t, x)] else []
        end
    end) ts.
(* GNU ld merges nothing when there is a single input object: its property list is copied as parsed, and while the
   x86 parser drops zero-valued x86 properties, the generic parser keeps a zero-valued UINT32_AND / UINT32_OR entry
   (elf-properties.c).  gnu_note is the note GNU ld writes; it is spec_merge except for such entries. *)
Definition is_generic (t : N) : bool := (2952790016 <=? t) && (t <=? 2952855551).   (* b0000000 .. b000ffff *)
Definition unmerged_zero (files : list file) : list prop :=
  match files with
  | [f] => filter (fun p => is_generic (fst p) && (snd p =? 0)) f
  | _ => []
  end.
(* One more trait of the unmerged copy, observed on GNU ld 2.40 and NOT modelled: when the x86 parser removed a
   zero-valued x86 AND/OR-class property of that single object, the generic entries in front of it vanish from the output
   as well (even non-zero ones).  gnu_note is claimed to be GNU ld's note only where unmerged_irregular is false. *)
Definition x86_zero (p : prop) : bool :=
  (snd p =? 0) && negb (is_generic (fst p)) &&
  match class_of (fst p) with Some CAnd | Some COr => true | _ => false end.
Definition unmerged_irregular (files : list file) : bool :=
  match files with
  | [f] => existsb (fun p => is_generic (fst p)) f && existsb x86_zero f
  | _ => false
  end.
Fixpoint insp (p : prop) (l : list prop) : list prop :=
  match l with
  | [] => [p]
  | x :: r => if fst p <? fst x then p :: l else if fst p =? fst x then l else x :: insp p r
  end.
Definition gnu_note (files : list file) (isa : N) : list prop :=
  fold_left (fun acc p => insp p acc) (unmerged_zero files) (spec_merge files isa).
Definition well_formed (files : list file) : Prop := forall f, In f files -> NoDup (map fst f).

(* ---- the stack ---- *)
Inductive zflag := ZNone | ZExec | ZNoExec.
(* per input: None = no .note.GNU-stack, Some x = present, x = SHF_EXECINSTR *)
Definition wild_stack (notes : list (option bool)) (z : zflag) : option bool :=     (* None = link rejected *)
  let exec := match z with ZExec => true | _ => false end in
  if existsb (fun n => match n with Some true => true | _ => false end) notes && negb exec then None else Some exec.
Definition gnu_stack (notes : list (option bool)) (z : zflag) : bool :=
  match z with
  | ZExec => true
  | ZNoExec => false
  | ZNone => existsb (fun n => match n with Some true => true | _ => false end) notes
             || (existsb (fun n => match n with None => true | _ => false end) notes
                 && existsb (fun n => match n with Some _ => true | _ => false end) notes)
  end.
