(* C36 — stack and GNU property notes are merged as in GNU ld: the property theorems.
   Model: C36/Model.v (wild: merge_gnu_property_notes as one pass over all properties with a map + final filter,
   get_property_class, validate_stack_section, PF_X iff -z execstack; specification: per-type AND / OR / OR_AND with
   GNU ld's drop rules, and GNU ld's stack rule). *)
From Coq Require Import NArith List Bool.
From WV Require Import C36.Model C36.Proofs.
Import ListNotations.
Open Scope N_scope.

(* For every set of inputs (any number, with or without a note, any property types and values, one property per type
   and file) and every -z x86-64-vN: wild's note is exactly the one GNU ld writes — AND of the AND-class bits over all
   inputs (dropped unless every input has the type and a bit survives), OR of the OR-class bits (dropped if zero),
   OR of the "used" bits (dropped unless every input has the type), in type order; or the link is rejected because
   some property type has no class.  Excluded (known_findings.json): a single input object carrying a zero-valued
   generic UINT32_AND / UINT32_OR entry, which GNU ld copies unmerged; and gnu_note is GNU ld's note only where
   unmerged_irregular is false (Model.v), so that hypothesis delimits the claim although the proof does not use it. *)
Theorem C36_property_note_is_the_specified_merge :
  forall files isa, well_formed files -> unmerged_irregular files = false -> unmerged_zero files = [] ->
    wild_merge files isa =
      if forallb (fun p => match class_of (fst p) with Some _ => true | None => false end) (concat files)
      then Some (gnu_note files isa) else None.
Proof. intros files isa Hwf _. exact (wild_is_gnu_note files isa Hwf). Qed.
Print Assumptions C36_property_note_is_the_specified_merge.

(* the bits themselves (every entry that carries a bit) are the specified merge for every input, the excluded one too *)
Theorem C36_property_bits_are_the_specified_merge :
  forall files isa, well_formed files ->
    wild_merge files isa =
      if forallb (fun p => match class_of (fst p) with Some _ => true | None => false end) (concat files)
      then Some (spec_merge files isa) else None.
Proof. exact wild_is_spec. Qed.
Print Assumptions C36_property_bits_are_the_specified_merge.

Theorem C36_refuted_single_input_zero_generic_entry :
  wild_merge [[(3221225474, 3); (2952790017, 0)]] 0 = Some [(3221225474, 3)] /\
  gnu_note [[(3221225474, 3); (2952790017, 0)]] 0 = [(2952790017, 0); (3221225474, 3)].
Proof. vm_compute. split; reflexivity. Qed.
Print Assumptions C36_refuted_single_input_zero_generic_entry.

(* Every accepted link: PT_GNU_STACK is executable exactly when GNU ld's would be — provided the stack notes are not
   PARTLY missing without a -z flag (GNU ld then defaults to an executable stack; known_findings.json). *)
Theorem C36_stack_executable_iff_gnu_ld :
  forall notes z b, wild_stack notes z = Some b ->
    (z = ZNone -> some_missing notes && some_present notes = false) ->
    b = gnu_stack notes z.
Proof. exact stack_is_gnu. Qed.
Print Assumptions C36_stack_executable_iff_gnu_ld.

Theorem C36_refuted_partly_missing_stack_notes :
  wild_stack [Some false; None] ZNone = Some false /\ gnu_stack [Some false; None] ZNone = true.
Proof. vm_compute. split; reflexivity. Qed.
Print Assumptions C36_refuted_partly_missing_stack_notes.

(* the merge does not depend on the order of the inputs' AND bits reaching zero (the case a map-entry removal would break) *)
Example C36_and_stays_cleared :
  wild_merge [[(3221225474, 1)]; [(3221225474, 2)]; [(3221225474, 3)]] 0 = Some [] /\
  wild_merge [[(3221225474, 3)]; [(3221225474, 1)]; [(3221225474, 3)]] 0 = Some [(3221225474, 1)].
Proof. vm_compute. split; reflexivity. Qed.

Example C36_hypotheses_satisfiable :
  well_formed [[(3221225474, 3); (3221258242, 1)]; [(3221225474, 1)]] /\
  unmerged_zero [[(3221225474, 3); (3221258242, 1)]; [(3221225474, 1)]] = [] /\
  unmerged_irregular [[(3221225474, 3); (3221258242, 1)]; [(3221225474, 1)]] = false /\
  gnu_note [[(3221225474, 3); (3221258242, 1)]; [(3221225474, 1)]] 2 = [(3221225474, 1); (3221258242, 3)].
Proof.
  split; [|vm_compute; repeat split; reflexivity].
  intros f [<-|[<-|[]]]; cbn [map fst]; repeat constructor; cbn; intuition discriminate.
Qed.
