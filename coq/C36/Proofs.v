(* C36 — proofs: wild's single pass over all properties computes the per-type specification; stack rule. *)
From Coq Require Import NArith List Bool Lia.
From WV Require Import C36.Model.
Import ListNotations.
Open Scope N_scope.

Definition opt (t : N) (v d : N) : N := match class_of t with Some CAnd => N.land v d | _ => N.lor v d end.
Definition comb (t : N) (acc : option N) (d : N) : option N :=
  match acc with None => Some d | Some v => Some (opt t v d) end.

Lemma wstep_other m p k : k <> fst p -> wstep m p k = m k.
Proof. destruct p as [t d]. cbn [fst]. intros H. unfold wstep. destruct (N.eqb_spec k t); [contradiction|reflexivity]. Qed.
Lemma wstep_same m t d : wstep m (t, d) t = comb t (m t) d.
Proof. unfold wstep, comb, opt. rewrite N.eqb_refl. destruct (m t); reflexivity. Qed.

Lemma lookup_cons p f t : lookup (p :: f) t = if fst p =? t then Some (snd p) else lookup f t.
Proof. unfold lookup. cbn [find]. destruct (fst p =? t); reflexivity. Qed.

Lemma lookup_none_notin f t : ~ In t (map fst f) -> lookup f t = None.
Proof.
  induction f as [|p f IH]; intros H; [reflexivity|]. rewrite lookup_cons.
  destruct (N.eqb_spec (fst p) t) as [E|E]; [exfalso; apply H; left; exact E|].
  apply IH. intros Hin. apply H. right. exact Hin.
Qed.

(* one file *)
Lemma fold_file f : NoDup (map fst f) -> forall m t,
  fold_left wstep f m t = match lookup f t with None => m t | Some d => comb t (m t) d end.
Proof.
  induction f as [|p f IH]; intros Hnd m t; [reflexivity|].
  cbn [fold_left map] in *. inversion Hnd as [|? ? Hnin Hnd']; subst.
  rewrite (IH Hnd'). rewrite lookup_cons.
  destruct (N.eqb_spec (fst p) t) as [E|E].
  - subst t. rewrite (lookup_none_notin f (fst p) Hnin). destruct p as [t d]. cbn [fst snd]. apply wstep_same.
  - destruct (lookup f t); rewrite wstep_other by (intros H; apply E; symmetry; exact H); reflexivity.
Qed.

(* all files *)
Definition fstep (t : N) (acc : option N) (f : file) : option N :=
  match lookup f t with None => acc | Some d => comb t acc d end.
Lemma fold_files files : (forall f, In f files -> NoDup (map fst f)) -> forall m t,
  fold_left wstep (concat files) m t = fold_left (fstep t) files (m t).
Proof.
  induction files as [|f r IH]; intros Hwf m t; [reflexivity|].
  cbn [concat fold_left]. rewrite fold_left_app.
  rewrite IH by (intros g Hg; apply Hwf; right; exact Hg).
  f_equal. unfold fstep. apply fold_file. apply Hwf. left. reflexivity.
Qed.

Lemma sval_is_fstep c files t : class_of t = Some c -> forall acc,
  fold_left (fun a f => match lookup f t with None => a | Some d => match a with None => Some d | Some v => Some (op c v d) end end) files acc
  = fold_left (fstep t) files acc.
Proof.
  intros Hc. induction files as [|f r IH]; intros acc; [reflexivity|]. cbn [fold_left]. rewrite IH. f_equal.
  unfold fstep, comb, opt, op. rewrite Hc. destruct (lookup f t); [|reflexivity]. destruct acc; destruct c; reflexivity.
Qed.

Theorem wild_is_spec files isa :
  well_formed files ->
  wild_merge files isa =
    if forallb (fun p => match class_of (fst p) with Some _ => true | None => false end) (concat files)
    then Some (spec_merge files isa) else None.
Proof.
  intros Hwf. unfold wild_merge.
  destruct (forallb (fun p => match class_of (fst p) with Some _ => true | None => false end) (concat files)); [|reflexivity].
  f_equal. unfold spec_merge.
  apply flat_map_ext. intros t.
  destruct (class_of t) as [c|] eqn:Hc.
  2:{ destruct (isa =? 0); [destruct (fold_left wstep (concat files) (fun _ => None) t); reflexivity|].
      destruct (t =? ISA_NEEDED); [reflexivity|]. destruct (fold_left wstep (concat files) (fun _ => None) t); reflexivity. }
  assert (E : forall k, fold_left wstep (concat files) (fun _ => None) k = fold_left (fstep k) files None)
    by (intros k; apply (fold_files files Hwf (fun _ => None) k)).
  unfold sval. rewrite (sval_is_fstep c files t Hc None).
  destruct (isa =? 0) eqn:Ei; cbn [negb andb].
  - rewrite andb_false_r. rewrite E. destruct (fold_left (fstep t) files None); reflexivity.
  - rewrite andb_true_r. destruct (N.eqb_spec t ISA_NEEDED) as [->|Hne].
    + rewrite !E. reflexivity.
    + rewrite E. destruct (fold_left (fstep t) files None); reflexivity.
Qed.

Corollary wild_is_gnu_note files isa :
  well_formed files -> unmerged_zero files = [] ->
  wild_merge files isa =
    if forallb (fun p => match class_of (fst p) with Some _ => true | None => false end) (concat files)
    then Some (gnu_note files isa) else None.
Proof. intros Hwf Hz. rewrite (wild_is_spec files isa Hwf). unfold gnu_note. rewrite Hz. reflexivity. Qed.

(* ---- the stack ---- *)
Definition some_missing (notes : list (option bool)) : bool := existsb (fun n => match n with None => true | _ => false end) notes.
Definition some_present (notes : list (option bool)) : bool := existsb (fun n => match n with Some _ => true | _ => false end) notes.

Theorem stack_is_gnu notes z b :
  wild_stack notes z = Some b ->
  (z = ZNone -> some_missing notes && some_present notes = false) ->
  b = gnu_stack notes z.
Proof.
  unfold wild_stack, gnu_stack, some_missing, some_present.
  destruct (existsb (fun n => match n with Some true => true | _ => false end) notes) eqn:Ex; destruct z; cbn [negb andb orb];
    intros H Hm; try discriminate; injection H as <-; try reflexivity.
  rewrite (Hm eq_refl). reflexivity.
Qed.
