From Coq Require Import NArith List Bool Lia.
From WV Require Import C24.Model.
Import ListNotations.
Open Scope N_scope.

Section P.
  Variable env : list N -> word.
  Notation sstep := (sstep env).

  Definition U (k : option word) (d : list word) : sh := {| md := Unq; cur := k; done := d |}.
  Definition Q (k : word) (d : list word) : sh := {| md := InSQ; cur := Some k; done := d |}.
  Definition pend (k : option word) : word := match k with Some w => w | None => [] end.

  Lemma in_sq_body : forall w k d, fold_left sstep (squote_body w) (Q k d) = Q (k ++ w) d.
  Proof.
    induction w as [|c r IH]; intros k d; cbn [squote_body]; [rewrite app_nil_r; reflexivity|].
    rewrite fold_left_app. destruct (N.eqb_spec c SQ) as [->|Hne].
    - assert (E : fold_left sstep [SQ; BSL; SQ; SQ] (Q k d) = Q ((k ++ [SQ]) ++ []) d) by reflexivity.
      rewrite E, app_nil_r, IH, <- app_assoc. reflexivity.
    - assert (E : fold_left sstep [c] (Q k d) = Q (k ++ [c]) d).
      { cbn [fold_left]. unfold Model.sstep. cbn [md Q]. apply N.eqb_neq in Hne. rewrite Hne. reflexivity. }
      rewrite E, IH, <- app_assoc. reflexivity.
  Qed.

  Lemma read_squote w k d : fold_left sstep (squote w) (U k d) = U (Some (pend k ++ w)) d.
  Proof.
    unfold squote. cbn [fold_left]. rewrite fold_left_app.
    assert (E : sstep (U k d) SQ = Q (pend k ++ []) d) by (destruct k; reflexivity). rewrite E, app_nil_r, in_sq_body. reflexivity.
  Qed.

  Lemma plain_not_special c : is_plain_char c = true ->
    (c =? SQ) = false /\ (c =? DQ) = false /\ (c =? BSL) = false /\ (c =? SP) = false /\ (c =? NL) = false /\ (c =? TAB) = false.
  Proof.
    intros H. repeat split; apply N.eqb_neq; intros ->; vm_compute in H; discriminate.
  Qed.

  Lemma read_plain : forall w k d, forallb is_plain_char w = true -> w <> [] ->
    fold_left sstep w (U k d) = U (Some (pend k ++ w)) d.
  Proof.
    induction w as [|c r IH]; intros k d Hp Hne; [contradiction|]. cbn [forallb] in Hp. apply andb_true_iff in Hp. destruct Hp as (Hc & Hr).
    destruct (plain_not_special c Hc) as (E1 & E2 & E3 & E4 & E5 & E6).
    cbn [fold_left]. assert (E : sstep (U k d) c = U (Some (pend k ++ [c])) d).
    { unfold Model.sstep. cbn [md U]. rewrite E1, E2, E3, E4, E5, E6. cbn [orb]. destruct k; reflexivity. }
    rewrite E. destruct r as [|c2 r2]; [reflexivity|]. rewrite IH by (auto; discriminate). cbn [pend]. rewrite <- app_assoc. reflexivity.
  Qed.

  Lemma read_shell_quote w k d : fold_left sstep (shell_quote w) (U k d) = U (Some (pend k ++ w)) d.
  Proof.
    unfold shell_quote. destruct (forallb is_plain_char w) eqn:Ep; cbn [andb]; [|apply read_squote].
    destruct w as [|c r]; cbn [negb]; [apply read_squote|]. apply read_plain; [exact Ep|discriminate].
  Qed.

  Lemma read_D k d : fold_left sstep (var_ref D_NAME) (U k d) = U (Some (pend k ++ env D_NAME)) d.
  Proof. destruct k as [w|]; [change (U (Some ((w ++ []) ++ env D_NAME)) d = U (Some (pend (Some w) ++ env D_NAME)) d); rewrite app_nil_r|]; reflexivity. Qed.
  Lemma read_OUT k d : fold_left sstep (var_ref OUT_NAME) (U k d) = U (Some (pend k ++ env OUT_NAME)) d.
  Proof. destruct k as [w|]; [change (U (Some ((w ++ []) ++ env OUT_NAME)) d = U (Some (pend (Some w) ++ env OUT_NAME)) d); rewrite app_nil_r|]; reflexivity. Qed.
  Lemma read_SEP k d : fold_left sstep SEP (U k d) = U None (match k with Some w => w :: d | None => d end).
  Proof. destruct k; reflexivity. Qed.
  Lemma read_slash k d : sstep (U k d) SLASH = U (Some (pend k ++ [SLASH])) d.
  Proof. destruct k; reflexivity. Qed.

  (* one piece read from a state with no word in progress: its words, the last one still open *)
  Lemma read_piece p d :
    exists last, fold_left sstep (render_piece p) (U None d) = U (Some last) (tl (rev (value env p)) ++ d) /\ hd [] (rev (value env p)) = last.
  Proof.
    destruct p as [w|rel|pre rel|]; cbn [render_piece value].
    - exists w. rewrite read_shell_quote. split; reflexivity.
    - exists (env D_NAME ++ [SLASH] ++ rel). rewrite !fold_left_app, read_D. cbn [fold_left]. rewrite read_slash, read_shell_quote.
      cbn [pend app rev tl hd]. rewrite <- !app_assoc. split; reflexivity.
    - exists (pre ++ env D_NAME ++ [SLASH] ++ rel). rewrite !fold_left_app, read_shell_quote, read_D. cbn [fold_left]. rewrite read_slash, read_shell_quote.
      cbn [pend app rev tl hd]. rewrite <- !app_assoc. split; reflexivity.
    - exists (env OUT_NAME). rewrite !fold_left_app. cbn [fold_left app].
      change (fold_left sstep (var_ref OUT_NAME) (U None ([45; 111] :: d)) = U (Some (env OUT_NAME)) (tl (rev [[45; 111]; env OUT_NAME]) ++ d) /\ hd [] (rev [[45; 111]; env OUT_NAME]) = env OUT_NAME).
      rewrite read_OUT. split; reflexivity.
  Qed.

  Lemma value_nonempty p : value env p <> [].
  Proof. destruct p; discriminate. Qed.

  Lemma read_pieces : forall ps k d,
    done (finish_word (fold_left sstep (flat_map (fun p => SEP ++ render_piece p) ps) (U k d))) =
    rev (flat_map (value env) ps) ++ done (finish_word (U k d)).
  Proof.
    induction ps as [|p r IH]; intros k d; cbn [flat_map]; [reflexivity|].
    rewrite !fold_left_app, read_SEP.
    destruct (read_piece p (match k with Some w => w :: d | None => d end)) as (last & E & Hl). rewrite E, IH.
    unfold finish_word at 2. cbn [cur U done]. rewrite rev_app_distr, <- app_assoc. f_equal.
    assert (Hv : rev (value env p) = last :: tl (rev (value env p))).
    { destruct (rev (value env p)) as [|x xs] eqn:Er; [exfalso; apply (value_nonempty p); rewrite <- (rev_involutive (value env p)), Er; reflexivity|]. cbn in Hl. subst. reflexivity. }
    rewrite Hv. cbn [app]. f_equal. destruct k; reflexivity.
  Qed.

  Theorem read_render ps : read_words env (render ps) = flat_map (value env) ps.
  Proof.
    unfold read_words, render. rewrite fold_left_app. cbn [fold_left]. fold (U None []).
    set (s := fold_left sstep (flat_map (fun p => SEP ++ render_piece p) ps) (U None [])).
    pose proof (read_pieces ps None []) as H. fold s in H. cbn [finish_word U cur done] in H. rewrite app_nil_r in H.
    assert (Hm : md s = Unq).
    { unfold s. clear H. generalize (@None word) (@nil word). induction ps as [|p r IH]; intros k d; [reflexivity|].
      cbn [flat_map]. rewrite !fold_left_app, read_SEP. destruct (read_piece p (match k with Some w => w :: d | None => d end)) as (last & E & _). rewrite E. apply IH. }
    assert (E : finish_word (Model.sstep env s NL) = finish_word s).
    { clearbody s. destruct s as [m c dn]. cbn in Hm. subst m. destruct c; reflexivity. }
    rewrite E, H, rev_involutive. reflexivity.
  Qed.
End P.
