(* C24 — save-dir bundles replay.  The `exec "$@" ...` line of the run-with script that save_dir.rs writes, and a
   model of how a POSIX shell reads it back into words: single quotes (everything literal), backslash outside quotes
   (backslash-newline disappears, otherwise the next byte is literal), double quotes around `$NAME` (the value of the
   variable, never split), blanks and newlines separate words. *)
From Coq Require Import NArith List Bool.
Import ListNotations.
Open Scope N_scope.

Definition word := list N.
Definition SQ := 39. Definition DQ := 34. Definition BSL := 92. Definition SP := 32. Definition NL := 10. Definition TAB := 9. Definition DOLLAR := 36. Definition SLASH := 47.

(* ---- what wild writes ---- *)
Definition is_plain_char (c : N) : bool :=
  ((48 <=? c) && (c <=? 57)) || ((65 <=? c) && (c <=? 90)) || ((97 <=? c) && (c <=? 122)) ||
  (c =? 95) || (c =? 64) || (c =? 37) || (c =? 43) || (c =? 61) || (c =? 58) || (c =? 44) || (c =? 46) || (c =? 47) || (c =? 45).
Fixpoint squote_body (w : word) : list N :=
  match w with [] => [] | c :: r => (if c =? SQ then [SQ; BSL; SQ; SQ] else [c]) ++ squote_body r end.
Definition squote (w : word) : list N := SQ :: squote_body w ++ [SQ].
Definition shell_quote (w : word) : list N :=
  if forallb is_plain_char w && negb (match w with [] => true | _ => false end) then w else squote w.

Inductive piece :=
| Arg (w : word)                 (* an argument passed through *)
| Copied (rel : word)            (* an input copied into the bundle: "$D"/<rel> *)
| CopiedAfter (prefix rel : word)   (* --option=<file>: prefix, then "$D"/<rel>, one word *)
| OutputArg.                     (* -o "$OUT" *)

Definition var_ref (name : list N) : list N := [DQ; DOLLAR] ++ name ++ [DQ].
Definition D_NAME := [68]. Definition OUT_NAME := [79; 85; 84].
Definition SEP := [SP; BSL; NL; SP; SP].

Definition render_piece (p : piece) : list N :=
  match p with
  | Arg w => shell_quote w
  | Copied rel => var_ref D_NAME ++ [SLASH] ++ shell_quote rel
  | CopiedAfter pre rel => shell_quote pre ++ var_ref D_NAME ++ [SLASH] ++ shell_quote rel
  | OutputArg => [45; 111] ++ [SP] ++ var_ref OUT_NAME
  end.
Definition render (ps : list piece) : list N := flat_map (fun p => SEP ++ render_piece p) ps ++ [NL].

(* the old rendering: only blank, dollar and backslash get a backslash; copied files are not quoted at all *)
Fixpoint old_escape (w : word) : list N :=
  match w with [] => [] | c :: r => (if (c =? SP) || (c =? DOLLAR) || (c =? BSL) then [BSL; c] else [c]) ++ old_escape r end.

(* ---- how the shell reads it ---- *)
Inductive mode := Unq | InSQ | InDQ | Esc | DQVar (name : list N).
Record sh := { md : mode; cur : option word; done : list word (* reversed *) }.

Definition app_cur (s : sh) (bytes : word) : option word := Some (match cur s with Some w => w ++ bytes | None => bytes end).
Definition is_name_char (c : N) : bool := ((65 <=? c) && (c <=? 90)) || (c =? 95).

Section Shell.
  Variable env : list N -> word.      (* values of D and OUT *)

  Definition finish_word (s : sh) : sh :=
    match cur s with Some w => {| md := Unq; cur := None; done := w :: done s |} | None => s end.

  Definition sstep (s : sh) (c : N) : sh :=
    match md s with
    | Unq =>
        if c =? SQ then {| md := InSQ; cur := app_cur s []; done := done s |}
        else if c =? DQ then {| md := InDQ; cur := app_cur s []; done := done s |}
        else if c =? BSL then {| md := Esc; cur := cur s; done := done s |}
        else if (c =? SP) || (c =? NL) || (c =? TAB) then finish_word s
        else {| md := Unq; cur := app_cur s [c]; done := done s |}
    | Esc =>
        if c =? NL then {| md := Unq; cur := cur s; done := done s |}
        else {| md := Unq; cur := app_cur s [c]; done := done s |}
    | InSQ =>
        if c =? SQ then {| md := Unq; cur := cur s; done := done s |}
        else {| md := InSQ; cur := app_cur s [c]; done := done s |}
    | InDQ =>
        if c =? DQ then {| md := Unq; cur := cur s; done := done s |}
        else if c =? DOLLAR then {| md := DQVar []; cur := cur s; done := done s |}
        else {| md := InDQ; cur := app_cur s [c]; done := done s |}
    | DQVar name =>
        if is_name_char c then {| md := DQVar (name ++ [c]); cur := cur s; done := done s |}
        else if c =? DQ then {| md := Unq; cur := app_cur s (env name); done := done s |}
        else {| md := InDQ; cur := app_cur s (env name ++ [c]); done := done s |}
    end.

  Definition read_words (text : list N) : list word :=
    rev (done (finish_word (fold_left sstep text {| md := Unq; cur := None; done := [] |}))).

  Definition value (p : piece) : list word :=
    match p with
    | Arg w => [w]
    | Copied rel => [env D_NAME ++ [SLASH] ++ rel]
    | CopiedAfter pre rel => [pre ++ env D_NAME ++ [SLASH] ++ rel]
    | OutputArg => [[45; 111]; env OUT_NAME]
    end.
End Shell.
