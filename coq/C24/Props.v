(* C24 — save-dir bundles replay to an identical output: the property theorems for the run-with command line. *)
From Coq Require Import NArith List Bool.
From WV Require Import C24.Model C24.Proofs.
Import ListNotations.
Open Scope N_scope.

(* Whatever bytes the arguments and the copied files' names contain, and whatever D and OUT expand to (spaces included),
   the shell reads the `exec` line of run-with back as exactly the recorded command: every passed-through argument
   unchanged, every copied input as <D>/<its path in the bundle>, the output as -o <OUT>. *)
Theorem C24_shell_reads_back_the_recorded_command :
  forall (env : list N -> word) (ps : list piece),
    read_words env (render ps) = flat_map (value env) ps.
Proof. exact read_render. Qed.
Print Assumptions C24_shell_reads_back_the_recorded_command.

(* quoting alone: one word, same bytes *)
Theorem C24_quoted_argument_is_one_word :
  forall env w, read_words env (render [Arg w]) = [w].
Proof. intros env w. rewrite read_render. reflexivity. Qed.
Print Assumptions C24_quoted_argument_is_one_word.

(* the rendering wild used before (backslash before blank, dollar and backslash only; copied paths not quoted) loses
   arguments with a quote or a semicolon, and splits copied paths with a blank *)
Theorem C24_refuted_for_the_old_escaping :
  let env := fun _ : list N => [100] in
  read_words env (SEP ++ old_escape [97; 39; 98] ++ [NL]) <> [[97; 39; 98]] /\
  read_words env (SEP ++ [DOLLAR; 68; SLASH] ++ [97; SP; 98] ++ [NL]) <> [[100; SLASH; 97; SP; 98]].
Proof. vm_compute. split; discriminate. Qed.
Print Assumptions C24_refuted_for_the_old_escaping.

Example C24_example :
  read_words (fun n => if list_eq_dec N.eq_dec n D_NAME then [47; 115; 32; 118] else [111; 32; 120])
             (render [Copied [97; 32; 39; 98]; OutputArg; Arg [45; 45; 120]; Arg []; CopiedAfter [45; 84; 61] [115; 36; 99]])
  = [[47; 115; 32; 118; 47; 97; 32; 39; 98]; [45; 111]; [111; 32; 120]; [45; 45; 120]; []; [45; 84; 61; 47; 115; 32; 118; 47; 115; 36; 99]].
Proof. vm_compute. reflexivity. Qed.
