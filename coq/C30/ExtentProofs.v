From Coq Require Import ZArith List Lia Sorting.Permutation.
From WV Require Import C30.Extent.
Import ListNotations.
Open Scope Z_scope.

Lemma pow_pos k : 0 < 2 ^ Z.of_nat k.
Proof. apply Z.pow_pos_nonneg; lia. Qed.

Lemma align_up_ge x k : x <= align_up x k.
Proof.
  unfold align_up. pose proof (pow_pos k) as HP. set (P := 2 ^ Z.of_nat k) in *.
  pose proof (Z.div_mod (x + P - 1) P ltac:(lia)) as E. pose proof (Z.mod_pos_bound (x + P - 1) P HP) as B.
  rewrite Z.mul_comm. lia.
Qed.

Lemma align_up_mod x k : (align_up x k) mod 2 ^ Z.of_nat k = 0.
Proof. unfold align_up. apply Z.mod_mul. pose proof (pow_pos k). lia. Qed.

Lemma align_up_id x k : x mod 2 ^ Z.of_nat k = 0 -> align_up x k = x.
Proof.
  intros H. unfold align_up. pose proof (pow_pos k) as HP. set (P := 2 ^ Z.of_nat k) in *.
  apply Z.mod_divide in H; [|lia]. destruct H as [c ->].
  replace (c * P + P - 1) with (P - 1 + c * P) by lia. rewrite Z.div_add by lia.
  rewrite (Z.div_small (P - 1) P) by lia. lia.
Qed.

Lemma mod_pow_le x (j k : nat) : (j <= k)%nat -> x mod 2 ^ Z.of_nat k = 0 -> x mod 2 ^ Z.of_nat j = 0.
Proof.
  intros Hjk H. pose proof (pow_pos k). pose proof (pow_pos j).
  apply Z.mod_divide in H; [|lia]. apply Z.mod_divide; [lia|].
  eapply Z.divide_trans; [|exact H].
  exists (2 ^ (Z.of_nat k - Z.of_nat j)). rewrite <- Z.pow_add_r by lia. f_equal. lia.
Qed.

Fixpoint endp (cur : Z) (bs : list (nat * Z)) : Z :=
  match bs with [] => cur | (k, sz) :: r => endp (align_up cur k + sz) r end.

Lemma place_bounds : forall bs cur, (forall b, In b bs -> 0 < snd b) ->
  cur <= endp cur bs /\
  forall r, In r (place cur bs) -> cur <= off r /\ rend r <= endp cur bs /\ 0 < size r /\ msize r = size r.
Proof.
  induction bs as [|[k sz] bs IH]; intros cur Hpos; cbn [endp place].
  - split; [lia|intros r []].
  - assert (Hsz : 0 < sz) by (apply (Hpos (k, sz)); left; reflexivity).
    destruct (IH (align_up cur k + sz) (fun b Hb => Hpos b (or_intror Hb))) as [Hle Hall].
    pose proof (align_up_ge cur k) as Hge. split; [lia|].
    intros r [<-|Hr].
    + unfold rend; cbn [off size msize]. repeat split; lia.
    + destruct (Hall r Hr) as (H1 & H2 & H3 & H4). repeat split; lia.
Qed.

Lemma place_last : forall bs cur, bs <> [] -> exists r, In r (place cur bs) /\ rend r = endp cur bs.
Proof.
  induction bs as [|[k sz] bs IH]; intros cur Hne; [contradiction|]. cbn [endp place].
  destruct bs as [|b bs'].
  - eexists; split; [left; reflexivity|]. reflexivity.
  - destruct (IH (align_up cur k + sz) ltac:(discriminate)) as (r & Hin & He). exists r. split; [right; exact Hin|exact He].
Qed.

Lemma fold_merge_char : forall l a,
  (forall r, In r l -> 0 < size r /\ off a <= off r) -> 0 <= size a ->
  let res := fold_left merge l a in
  off res = off a /\ size a <= size res /\
  (forall r, In r l -> rend r - off a <= size res) /\
  (size res = size a \/ exists r, In r l /\ size res = rend r - off a) /\
  msize res - size res = msize a - size a.
Proof.
  induction l as [|b l IH]; intros a Hl Ha; cbn [fold_left].
  - repeat split; try lia; try (intros r []); try (left; reflexivity).
  - destruct (Hl b (or_introl eq_refl)) as [Hb Hob].
    assert (Em : merge a b = {| off := off a; size := Z.max (size a) (off b + size b - off a);
                                msize := msize a + (Z.max (size a) (off b + size b - off a) - size a) |}).
    { unfold merge. destruct (Z.ltb_spec 0 (size b)); [reflexivity|lia]. }
    rewrite Em. set (a' := {| off := off a; size := _; msize := _ |}).
    destruct (IH a') as (H1 & H2 & H3 & H4 & H5).
    + intros r Hr. destruct (Hl r (or_intror Hr)). cbn [off a']. split; assumption.
    + cbn [size a']. lia.
    + cbn [off size msize a'] in *. repeat split.
      * exact H1.
      * lia.
      * intros r [<-|Hr]; [unfold rend; lia|apply H3; exact Hr].
      * destruct H4 as [H4|(r & Hr & H4)].
        -- destruct (Z.max_spec (size a) (off b + size b - off a)) as [[_ E]|[_ E]].
           ++ right. exists b. split; [left; reflexivity|]. unfold rend. lia.
           ++ left. lia.
        -- right. exists r. split; [right; exact Hr|exact H4].
      * lia.
Qed.

Theorem section_covers p0 bs ids :
  (forall b, In b bs -> 0 < snd b) ->
  let s := off (primary p0 bs) in
  Permutation ids (place s bs) ->
  let sec := section p0 bs ids in
  off sec = s /\
  (forall r, In r (place s bs) -> off sec <= off r /\ rend r <= rend sec) /\
  rend sec = endp s bs /\
  msize sec = size sec /\
  match place s bs with r :: _ => off r = off sec | [] => True end.
Proof.
  intros Hpos s Hperm sec.
  destruct (place_bounds bs s Hpos) as [Hle Hall].
  assert (Hids : forall r, In r ids -> 0 < size r /\ off (primary p0 bs) <= off r).
  { intros r Hr. apply (Permutation_in _ Hperm) in Hr. destruct (Hall r Hr) as (H1 & _ & H3 & _). fold s. split; assumption. }
  destruct (fold_merge_char ids (primary p0 bs) Hids ltac:(cbn; lia)) as (H1 & H2 & H3 & H4 & H5).
  fold (section p0 bs ids) in H1, H2, H3, H4, H5. fold sec in H1, H2, H3, H4, H5. fold s in H1, H3, H4.
  cbn [size msize primary] in H2, H4, H5.
  assert (Hend : rend sec = endp s bs).
  { unfold rend. rewrite H1. destruct bs as [|b0 bs'].
    - cbn [endp]. destruct H4 as [H4|(r & Hr & _)]; [lia|]. apply (Permutation_in _ Hperm) in Hr. destruct Hr.
    - destruct (place_last (b0 :: bs') s ltac:(discriminate)) as (rl & Hin & He).
      pose proof (H3 rl (Permutation_in _ (Permutation_sym Hperm) Hin)) as Hlow.
      destruct H4 as [H4|(r & Hr & H4)].
      + destruct (Hall rl Hin) as (Ha & _ & Hb & _). unfold rend in *. lia.
      + apply (Permutation_in _ Hperm) in Hr. destruct (Hall r Hr) as (_ & Hb & _). lia. }
  split; [exact H1|]. split; [|split; [exact Hend|split; [lia|]]].
  - intros r Hr. destruct (Hall r Hr) as (Ha & Hb & _). rewrite H1, Hend. split; assumption.
  - destruct bs as [|[k sz] bs']; [exact I|]. cbn [place]. cbn [off]. rewrite H1.
    apply align_up_id. unfold s, primary; cbn [off]. eapply mod_pow_le; [|apply align_up_mod].
    cbn [max_exp]. lia.
Qed.

(* before the repair: a 16-aligned part after an 8 mod 16 position *)
Lemma old_section_misses_last_entry :
  let parts := place (off (primary_old 8)) [(4%nat, 16)] in
  let sec := section_old 8 parts in
  off sec = 8 /\ rend sec = 24 /\ map off parts = [16] /\ map rend parts = [32].
Proof. vm_compute. repeat split; reflexivity. Qed.

Example section_covers_example :
  let bs := [(3%nat, 8); (4%nat, 16); (3%nat, 24)] in
  let s := off (primary 8 bs) in
  let ids := rev (place s bs) in
  s = 16 /\ map off (place s bs) = [16; 32; 48] /\ off (section 8 bs ids) = 16 /\ rend (section 8 bs ids) = 72.
Proof. vm_compute. repeat split; reflexivity. Qed.
