(* C30 — proofs: a stable sort is the concatenation of its key buckets; on canonical inputs wild's bucket
   order is GNU ld's sorted order. *)
From Coq Require Import ZArith List Bool Lia Sorting.Sorted.
From WV Require Import C30.Model.
Import ListNotations.
Open Scope Z_scope.

Section Buckets.
  Context {A : Type} (key : A -> Z).
  Definition inb (k : Z) (x : A) : bool := key x =? k.

  Lemma filter_insert k x l :
    filter (inb k) (insert key x l) = (if inb k x then [x] else []) ++ filter (inb k) l.
  Proof.
    induction l as [|y t IH]; cbn [insert filter app].
    - destruct (inb k x); reflexivity.
    - destruct (Z.leb_spec (key x) (key y)) as [Hle|Hgt]; cbn [filter].
      + destruct (inb k x); reflexivity.
      + rewrite IH. unfold inb in *.
        destruct (Z.eqb_spec (key x) k) as [Ex|Ex]; destruct (Z.eqb_spec (key y) k) as [Ey|Ey]; cbn [app]; try reflexivity.
        lia.
  Qed.

  Lemma filter_isort k l : filter (inb k) (isort key l) = filter (inb k) l.
  Proof.
    induction l as [|x t IH]; cbn [isort filter]; [reflexivity|].
    rewrite filter_insert, IH. destruct (inb k x); reflexivity.
  Qed.

  Definition le_key (x y : A) : Prop := key x <= key y.

  Lemma insert_forall (P : A -> Prop) x l : P x -> Forall P l -> Forall P (insert key x l).
  Proof.
    intros Hx Hl. induction l as [|y t IH]; cbn [insert]; [constructor; auto|].
    destruct (key x <=? key y); [constructor; auto|].
    inversion Hl; subst. constructor; auto.
  Qed.

  Lemma insert_sorted x l : StronglySorted le_key l -> StronglySorted le_key (insert key x l).
  Proof.
    intros Hs. induction Hs as [|y t Hs IH Hall]; cbn [insert].
    - constructor; constructor.
    - destruct (Z.leb_spec (key x) (key y)) as [Hle|Hgt].
      + constructor; [constructor; assumption|]. constructor; [exact Hle|].
        eapply Forall_impl; [|exact Hall]. unfold le_key. intros; lia.
      + constructor; [exact IH|]. apply insert_forall; [unfold le_key; lia|exact Hall].
  Qed.

  Lemma isort_sorted l : StronglySorted le_key (isort key l).
  Proof. induction l; cbn [isort]; [constructor|apply insert_sorted; assumption]. Qed.

  Lemma isort_forall (P : A -> Prop) l : Forall P l -> Forall P (isort key l).
  Proof. induction 1; cbn [isort]; [constructor|apply insert_forall; assumption]. Qed.

  (* a sorted list whose keys are >= lo: the lo-bucket is a prefix *)
  Lemma inb_true k x : inb k x = true -> key x = k.
  Proof. unfold inb. apply Z.eqb_eq. Qed.
  Lemma inb_false k x : inb k x = false -> key x <> k.
  Proof. unfold inb. apply Z.eqb_neq. Qed.

  Lemma sorted_split lo l :
    StronglySorted le_key l -> Forall (fun x => lo <= key x) l ->
    l = filter (inb lo) l ++ filter (fun x => negb (inb lo x)) l.
  Proof.
    intros Hs. induction Hs as [|x t Hs IH Hall]; intros Hlo; [reflexivity|].
    inversion Hlo as [|? ? Hx Ht]; subst. cbn [filter].
    destruct (inb lo x) eqn:E; cbn [negb app].
    - f_equal. apply IH. exact Ht.
    - apply inb_false in E.
      assert (Hgt : Forall (fun y => lo < key y) t).
      { eapply Forall_impl; [|exact Hall]. unfold le_key. intros; lia. }
      assert (E1 : filter (inb lo) t = []).
      { clear -Hgt. induction Hgt as [|y t Hy _ IH]; cbn [filter]; [reflexivity|].
        destruct (inb lo y) eqn:Ey; [apply inb_true in Ey; lia|exact IH]. }
      assert (E2 : filter (fun y => negb (inb lo y)) t = t).
      { clear -Hgt. induction Hgt as [|y t Hy _ IH]; cbn [filter]; [reflexivity|].
        destruct (inb lo y) eqn:Ey; [apply inb_true in Ey; lia|]. cbn [negb]. f_equal. exact IH. }
      rewrite E1, E2. reflexivity.
  Qed.

  Lemma sorted_filter (f : A -> bool) l : StronglySorted le_key l -> StronglySorted le_key (filter f l).
  Proof.
    induction 1 as [|x t Hs IH Hall]; cbn [filter]; [constructor|].
    destruct (f x); [|exact IH]. constructor; [exact IH|].
    clear -Hall. induction Hall as [|y t Hy _ IH]; cbn [filter]; [constructor|].
    destruct (f y); [constructor; assumption|assumption].
  Qed.

  Lemma in_range k lo n : In k (range lo n) -> lo <= k < lo + Z.of_nat n.
  Proof.
    revert lo. induction n as [|n IH]; intros lo H; cbn [range] in H; [contradiction|].
    destruct H as [<-|H]; [lia|]. apply IH in H. lia.
  Qed.

  Lemma flat_map_ext_in {B C} (f g : B -> list C) l : (forall x, In x l -> f x = g x) -> flat_map f l = flat_map g l.
  Proof.
    induction l as [|x t IH]; intros H; cbn [flat_map]; [reflexivity|].
    rewrite H by (left; reflexivity). rewrite IH by (intros; apply H; right; assumption). reflexivity.
  Qed.

  (* a sorted list is the concatenation of its buckets *)
  Lemma sorted_buckets n : forall lo l,
    StronglySorted le_key l -> Forall (fun x => lo <= key x < lo + Z.of_nat n) l ->
    l = flat_map (fun k => filter (inb k) l) (range lo n).
  Proof.
    induction n as [|n IH]; intros lo l Hs Hr.
    - destruct l as [|x t]; [reflexivity|]. inversion Hr; subst. lia.
    - cbn [range flat_map].
      set (l' := filter (fun x => negb (inb lo x)) l).
      assert (Hs' : StronglySorted le_key l') by (apply sorted_filter; exact Hs).
      assert (Hr' : Forall (fun x => lo + 1 <= key x < lo + 1 + Z.of_nat n) l').
      { unfold l'. clear -Hr. induction Hr as [|x t Hx _ IHt]; cbn [filter]; [constructor|].
        destruct (inb lo x) eqn:E; cbn [negb]; [exact IHt|]. apply inb_false in E. constructor; [lia|exact IHt]. }
      rewrite (sorted_split lo l Hs) at 1 by (eapply Forall_impl; [|exact Hr]; cbn; intros; lia).
      f_equal. fold l'. rewrite (IH (lo + 1) l' Hs' Hr') at 1.
      apply flat_map_ext_in. intros k Hk. apply in_range in Hk. unfold l'.
      clear -Hk. induction l as [|x t IHl]; cbn [filter]; [reflexivity|].
      destruct (inb lo x) eqn:E; cbn [negb filter].
      + apply inb_true in E. destruct (inb k x) eqn:Ek; [apply inb_true in Ek; lia|exact IHl].
      + destruct (inb k x); [f_equal|]; exact IHl.
  Qed.

  Theorem isort_is_bucket_concat lo n l :
    Forall (fun x => lo <= key x < lo + Z.of_nat n) l ->
    isort key l = flat_map (fun k => filter (inb k) l) (range lo n).
  Proof.
    intros Hr.
    rewrite (sorted_buckets n lo (isort key l) (isort_sorted l) (isort_forall _ l Hr)).
    apply flat_map_ext_in. intros k _. apply filter_isort.
  Qed.

  (* a comparator that agrees with the key order on the elements of the list sorts the same way *)
  Lemma insert_by_ext (le : A -> A -> bool) x l :
    Forall (fun y => le x y = (key x <=? key y)) l -> insert_by le x l = insert key x l.
  Proof.
    induction 1 as [|y t Hy _ IH]; cbn [insert_by insert]; [reflexivity|].
    rewrite Hy. destruct (key x <=? key y); [reflexivity|]. f_equal. exact IH.
  Qed.

  Lemma isort_constant_key l : (forall x y, In x l -> In y l -> key x = key y) -> isort key l = l.
  Proof.
    induction l as [|x t IH]; intros H; cbn [isort]; [reflexivity|].
    rewrite IH by (intros; apply H; right; assumption).
    destruct t as [|y t']; cbn [insert]; [reflexivity|].
    rewrite (H x y) by (cbn; auto). rewrite Z.leb_refl. reflexivity.
  Qed.
End Buckets.

(* ---------- wild = GNU ld on canonical inputs ---------- *)
Definition name_determined (l : list sec) : Prop :=
  forall s t, In s l -> In t l -> has_suffix s = true -> has_suffix t = true ->
              gnu_prio s = gnu_prio t -> legacy s = legacy t /\ suffix s = suffix t.

Lemma dec_val_nonneg l : forall acc, forallb is_digit l = true -> 0 <= acc -> 0 <= dec_val acc l.
Proof.
  induction l as [|c t IH]; intros acc Hd Ha; cbn [dec_val]; [exact Ha|].
  cbn [forallb] in Hd. apply andb_prop in Hd. destruct Hd as [Hc Ht].
  unfold is_digit in Hc. apply andb_prop in Hc. destruct Hc as [H1 H2]. apply Z.leb_le in H1. apply Z.leb_le in H2.
  apply IH; [exact Ht|lia].
Qed.
Lemma numeric_nonneg l v : numeric l = Some v -> 0 <= v.
Proof.
  unfold numeric. destruct l as [|c t]; [discriminate|].
  destruct (forallb is_digit (c :: t)) eqn:E; [|discriminate].
  intros H. injection H as <-. apply (dec_val_nonneg (c :: t) 0); [exact E|lia].
Qed.

Lemma good_keys a s : good a s = true ->
  align s = a /\
  (has_suffix s = true -> wild_key s = gnu_prio s /\ 0 <= gnu_prio s < 65535) /\
  (has_suffix s = false -> wild_key s = 65535).
Proof.
  unfold good, wild_key, wild_prio, wild_suffix_prio, gnu_prio, has_suffix.
  intros H. apply andb_prop in H. destruct H as [Ha H]. apply Z.eqb_eq in Ha. split; [exact Ha|].
  destruct (suffix s) as [sf|]; [|split; [discriminate|reflexivity]].
  split; [|discriminate]. intros _.
  destruct (numeric sf) as [v|] eqn:En; [|discriminate].
  apply numeric_nonneg in En.
  destruct (legacy s).
  - apply andb_prop in H. destruct H as [H1 H2]. apply Z.ltb_lt in H1. apply Z.leb_le in H2.
    replace (v <? 2 ^ 32) with true by (symmetry; apply Z.ltb_lt; lia).
    rewrite Z.min_l by lia. rewrite (Z.min_l v) by (unfold ULONG; lia).
    rewrite (Z.mod_small (65535 - v)) by (unfold ULONG; lia).
    replace (65535 - v <=? INT_MAX) with true by (symmetry; apply Z.leb_le; unfold INT_MAX; lia). lia.
  - apply Z.ltb_lt in H.
    replace (v <? 2 ^ 32) with true by (symmetry; apply Z.ltb_lt; lia).
    rewrite Z.min_l by lia. rewrite (Z.min_l v) by (unfold ULONG; lia).
    replace (v <=? INT_MAX) with true by (symmetry; apply Z.leb_le; unfold INT_MAX; lia). lia.
Qed.

Lemma bytes_le_refl l : bytes_le l l = true.
Proof. induction l as [|x t IH]; cbn [bytes_le]; [reflexivity|]. rewrite Z.eqb_refl, IH. apply orb_true_r. Qed.

Lemma range_app lo n m : range lo (n + m) = range lo n ++ range (lo + Z.of_nat n) m.
Proof.
  revert lo. induction n as [|n IH]; intros lo; cbn [range Nat.add app].
  - f_equal. lia.
  - f_equal. rewrite IH. f_equal. f_equal. lia.
Qed.

Lemma flat_map_flat_map {A B C} (f : A -> list B) (g : B -> list C) l :
  flat_map g (flat_map f l) = flat_map (fun x => flat_map g (f x)) l.
Proof. induction l as [|x t IH]; cbn [flat_map]; [reflexivity|]. rewrite flat_map_app, IH. reflexivity. Qed.

Lemma isort_by_ext {A} (key : A -> Z) (le : A -> A -> bool) l :
  (forall x y, In x l -> In y l -> le x y = (key x <=? key y)) -> isort_by le l = isort key l.
Proof.
  induction l as [|x t IH]; intros H; cbn [isort_by isort]; [reflexivity|].
  rewrite IH by (intros; apply H; right; assumption).
  apply insert_by_ext. apply isort_forall. apply Forall_forall. intros y Hy. apply H; [left; reflexivity|right; exact Hy].
Qed.

Theorem wild_eq_gnu a l :
  Forall (fun s => good a s = true) l -> name_determined l -> wild_order l = gnu_order l.
Proof.
  intros Hg Hn. unfold wild_order, gnu_order.
  (* every bucket is a plain filter: one alignment *)
  assert (Hb : forall k, bucket l k = filter (fun s => wild_key s =? k) l).
  { intros k. unfold bucket, section_members. apply isort_constant_key.
    intros x y Hx Hy. apply filter_In in Hx. apply filter_In in Hy.
    rewrite Forall_forall in Hg.
    destruct (good_keys a x (Hg x (proj1 Hx))) as [Ex _]. destruct (good_keys a y (Hg y (proj1 Hy))) as [Ey _]. lia. }
  rewrite (flat_map_ext_in _ (fun k => flat_map emit (filter (fun s => wild_key s =? k) l))) by (intros k _; rewrite Hb; reflexivity).
  replace (Z.to_nat 65537) with (1 + (Z.to_nat 65535 + 1))%nat by lia.
  rewrite range_app. cbn [range flat_map app]. rewrite range_app, flat_map_app. cbn [range flat_map app].
  rewrite app_nil_r.
  replace (-1 + Z.of_nat 1) with 0 by lia. replace (0 + Z.of_nat (Z.to_nat 65535)) with 65535 by lia.
  (* nothing sits in the primary section *)
  assert (E0 : filter (fun s => wild_key s =? -1) l = []).
  { clear Hb Hn. induction Hg as [|s t Hs _ IH]; cbn [filter]; [reflexivity|].
    destruct (good_keys a s Hs) as [_ [K1 K2]]. destruct (has_suffix s) eqn:E.
    - destruct (K1 eq_refl) as [-> Hr]. destruct (Z.eqb_spec (gnu_prio s) (-1)); [lia|exact IH].
    - rewrite (K2 eq_refl). cbn. exact IH. }
  rewrite E0. cbn [flat_map app].
  (* the plain sections are the 65535 bucket *)
  assert (E1 : filter (fun s => wild_key s =? 65535) l = filter (fun s => negb (has_suffix s)) l).
  { clear Hb Hn E0. induction Hg as [|s t Hs _ IH]; cbn [filter]; [reflexivity|].
    destruct (good_keys a s Hs) as [_ [K1 K2]]. destruct (has_suffix s) eqn:E; cbn [negb].
    - destruct (K1 eq_refl) as [-> Hr]. destruct (Z.eqb_spec (gnu_prio s) 65535); [lia|exact IH].
    - rewrite (K2 eq_refl). cbn. f_equal. exact IH. }
  rewrite E1. f_equal.
  (* the suffixed ones: ld's comparator is the priority order here, and a stable sort is the bucket concatenation *)
  set (L1 := filter has_suffix l).
  assert (HL1 : Forall (fun s => 0 <= gnu_prio s < 0 + Z.of_nat (Z.to_nat 65535)) L1).
  { apply Forall_forall. intros s Hs. apply filter_In in Hs. destruct Hs as [Hin Hsf].
    rewrite Forall_forall in Hg. destruct (good_keys a s (Hg s Hin)) as [_ [K1 _]]. destruct (K1 Hsf). lia. }
  rewrite (isort_by_ext gnu_prio gnu_le L1).
  2:{ intros x y Hx Hy. apply filter_In in Hx. apply filter_In in Hy. unfold gnu_le.
      destruct (Z.ltb_spec (gnu_prio x) (gnu_prio y)) as [Hlt|Hge]; cbn [orb].
      - symmetry. apply Z.leb_le. lia.
      - destruct (Z.eqb_spec (gnu_prio x) (gnu_prio y)) as [E|E]; cbn [andb].
        + destruct (Hn x y (proj1 Hx) (proj1 Hy) (proj2 Hx) (proj2 Hy) E) as [El Es].
          unfold name_le, sfx. rewrite El, Es, eqb_reflx, bytes_le_refl. symmetry. apply Z.leb_le. lia.
        + symmetry. apply Z.leb_gt. lia. }
  rewrite (isort_is_bucket_concat gnu_prio 0 (Z.to_nat 65535) L1 HL1).
  rewrite flat_map_flat_map. apply flat_map_ext_in. intros k Hk. apply in_range in Hk. f_equal.
  unfold L1, inb. clear -Hg Hk. induction Hg as [|s t Hs _ IH]; cbn [filter]; [reflexivity|].
  destruct (good_keys a s Hs) as [_ [K1 K2]]. destruct (has_suffix s) eqn:E; cbn [filter].
  - destruct (K1 eq_refl) as [-> _]. destruct (gnu_prio s =? k); [f_equal|]; exact IH.
  - rewrite (K2 eq_refl). destruct (Z.eqb_spec 65535 k); [lia|exact IH].
Qed.
