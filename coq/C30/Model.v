(* C30 — order of .init_array / .fini_array entries.
   wild:  libwild/src/elf.rs init_fini_priority + parse_priority_suffix; resolution.rs apply_init_fini_secondaries
          (one secondary output section per (primary, priority)); output_section_id.rs: primary first, then the
          secondaries stably sorted by priority; inside one output section the parts are laid out by
          decreasing alignment, members of a part in input order; elf_writer.rs should_reverse_contents.
   GNU ld: default script: first every .init_array.SUFFIX and .ctors.SUFFIX section under SORT_BY_INIT_PRIORITY
          (one statement, so one sorted list), then the plain .init_array and .ctors sections in input order;
          ldlang.c get_init_priority / compare_section (by_init_priority), SEC_ELF_REVERSE_COPY for .ctors/.dtors.
   One family (init or fini) at a time: `legacy` = the section is a .ctors* / .dtors* section. *)
From Coq Require Import ZArith List Bool.
Import ListNotations.
Open Scope Z_scope.

Record sec := { legacy : bool; suffix : option (list Z); align : Z; entries : list Z }.

(* decimal value of an all-digit, non-empty suffix *)
Definition is_digit (c : Z) : bool := (48 <=? c) && (c <=? 57).
Fixpoint dec_val (acc : Z) (l : list Z) : Z :=
  match l with [] => acc | c :: t => dec_val (acc * 10 + (c - 48)) t end.
Definition numeric (l : list Z) : option Z :=
  match l with
  | [] => None
  | _ => if forallb is_digit l then Some (dec_val 0 l) else None
  end.

(* ---- wild ---- *)
(* parse_priority_suffix: None if not numeric or it does not fit u32; values above u16::MAX clamp *)
Definition wild_suffix_prio (l : list Z) : option Z :=
  match numeric l with
  | Some v => if v <? 2 ^ 32 then Some (Z.min v 65535) else None
  | None => None
  end.
Definition wild_prio (s : sec) : option Z :=
  match suffix s with
  | None => Some 65535
  | Some l => match wild_suffix_prio l with
              | Some p => Some (if legacy s then 65535 - p else p)
              | None => None
              end
  end.
(* -1 = stays in the primary section (emitted before every secondary) *)
Definition wild_key (s : sec) : Z := match wild_prio s with Some p => p | None => -1 end.

(* stable insertion sort on an integer key *)
Section Sort.
  Context {A : Type} (key : A -> Z).
  Fixpoint insert (x : A) (l : list A) : list A :=
    match l with
    | [] => [x]
    | y :: t => if key x <=? key y then x :: l else y :: insert x t
    end.
  Fixpoint isort (l : list A) : list A :=
    match l with [] => [] | x :: t => insert x (isort t) end.
End Sort.

Definition emit (s : sec) : list Z := if legacy s then rev (entries s) else entries s.
Fixpoint range (lo : Z) (n : nat) : list Z := match n with O => [] | S n' => lo :: range (lo + 1) n' end.

(* members of one output section: parts by decreasing alignment, input order inside a part *)
Definition section_members (l : list sec) : list sec := isort (fun s => - align s) l.
Definition bucket (l : list sec) (k : Z) : list sec := section_members (filter (fun s => wild_key s =? k) l).
Definition wild_order (l : list sec) : list Z :=
  flat_map (fun k => flat_map emit (bucket l k)) (range (-1) (Z.to_nat 65537)).

(* ---- GNU ld ---- *)
Definition INT_MAX : Z := 2 ^ 31 - 1.
Definition ULONG : Z := 2 ^ 64.
(* get_init_priority: strtoul saturates; .ctors/.dtors use 65535 - N in unsigned long arithmetic; -1 = none *)
Definition gnu_prio (s : sec) : Z :=
  match suffix s with
  | None => -1
  | Some l =>
      match numeric l with
      | Some v => let v := Z.min v (ULONG - 1) in
                  let p := if legacy s then (65535 - v) mod ULONG else v in
                  if p <=? INT_MAX then p else -1
      | None => -1
      end
  end.
Definition has_suffix (s : sec) : bool := match suffix s with Some _ => true | None => false end.

(* compare_section (by_init_priority): priority first, then strcmp of the section names.  Within one family
   the names are .ctors.SUFFIX / .init_array.SUFFIX (resp. .dtors / .fini_array), so a legacy name sorts first. *)
Fixpoint bytes_le (a b : list Z) : bool :=
  match a, b with
  | [], _ => true
  | _ :: _, [] => false
  | x :: a', y :: b' => (x <? y) || ((x =? y) && bytes_le a' b')
  end.
Definition sfx (s : sec) : list Z := match suffix s with Some l => l | None => [] end.
Definition name_le (s t : sec) : bool :=
  if Bool.eqb (legacy s) (legacy t) then bytes_le (sfx s) (sfx t) else legacy s.
Definition gnu_le (s t : sec) : bool :=
  (gnu_prio s <? gnu_prio t) || ((gnu_prio s =? gnu_prio t) && name_le s t).

(* stable insertion sort with a comparator (the BST insertion of ld's wild_sort keeps input order on ties) *)
Section SortBy.
  Context {A : Type} (le : A -> A -> bool).
  Fixpoint insert_by (x : A) (l : list A) : list A :=
    match l with
    | [] => [x]
    | y :: t => if le x y then x :: l else y :: insert_by x t
    end.
  Fixpoint isort_by (l : list A) : list A :=
    match l with [] => [] | x :: t => insert_by x (isort_by t) end.
End SortBy.

Definition gnu_order (l : list sec) : list Z :=
  flat_map emit (isort_by gnu_le (filter has_suffix l)) ++ flat_map emit (filter (fun s => negb (has_suffix s)) l).

(* ld gives a well-defined order only when every suffix is a priority (otherwise it compares by name against some
   neighbours and by priority against others); the executable spec is validated against ld on such inputs only *)
Definition gnu_defined (s : sec) : bool := negb (has_suffix s) || (0 <=? gnu_prio s).

(* the inputs on which the two agree: what GCC and clang emit — priorities 0..65534 after the .ctors inversion
   or no suffix, one alignment — and (name_determined, in Proofs.v) equal priorities spelled the same way *)
Definition good (a : Z) (s : sec) : bool :=
  (align s =? a) &&
  match suffix s with
  | None => true
  | Some l => match numeric l with
              | Some v => if legacy s then (0 <? v) && (v <=? 65535) else v <? 65535
              | None => false
              end
  end.
