(* C30 — constructor and destructor order matches GNU ld: the property theorems.
   Model: C30/Model.v (wild: init_fini_priority, one secondary section per priority, parts by alignment,
   .ctors/.dtors reversed; GNU ld: SORT_BY_INIT_PRIORITY with its name tie-break, then the plain sections). *)
From Coq Require Import ZArith List Bool.
From WV Require Import C30.Model C30.Proofs C30.Extent C30.ExtentProofs.
From Coq Require Import Sorting.Permutation.
Import ListNotations.
Open Scope Z_scope.

(* For every list of array sections (any number of objects and archives, in link order) in which every suffix
   is a priority below 65535 after the .ctors/.dtors inversion, all sections share one alignment, and equal
   priorities are spelled the same way (what GCC/clang emit): wild emits the entries in GNU ld's order. *)
Theorem C30_order_matches_gnu_ld :
  forall a l, Forall (fun s => good a s = true) l -> name_determined l -> wild_order l = gnu_order l.
Proof. exact wild_eq_gnu. Qed.
Print Assumptions C30_order_matches_gnu_ld.

(* the sorting fact underneath, for any key: a stable sort is the concatenation of the key buckets, each in input order *)
Theorem C30_stable_sort_is_bucket_concat :
  forall (A : Type) (key : A -> Z) lo n l,
    Forall (fun x => lo <= key x < lo + Z.of_nat n) l ->
    isort key l = flat_map (fun k => filter (fun x => key x =? k) l) (range lo n).
Proof. exact @isort_is_bucket_concat. Qed.
Print Assumptions C30_stable_sort_is_bucket_concat.

(* how the priorities correspond on those inputs (legacy names carry 65535 - priority) *)
Theorem C30_priority_agrees :
  forall a s, good a s = true ->
    align s = a /\
    (has_suffix s = true -> wild_key s = gnu_prio s /\ 0 <= gnu_prio s < 65535) /\
    (has_suffix s = false -> wild_key s = 65535).
Proof. exact good_keys. Qed.
Print Assumptions C30_priority_agrees.

Definition S (lg : bool) (sf : option (list Z)) (a : Z) (e : list Z) : sec :=
  {| legacy := lg; suffix := sf; align := a; entries := e |}.

(* outside that domain the statement is false of the model (and of wild: see known_findings.json) *)
Theorem C30_refuted_priority_65535 :   (* o0: .ctors [4 5]   o1: .ctors.0 [6 7] *)
  let l := [S true None 8 [4; 5]; S true (Some [48]) 8 [6; 7]] in
  wild_order l = [5; 4; 7; 6] /\ gnu_order l = [7; 6; 5; 4].
Proof. vm_compute. split; reflexivity. Qed.
Print Assumptions C30_refuted_priority_65535.

Theorem C30_refuted_equal_priority_different_name :   (* o0: .init_array.100 [3 4]   o1: .ctors.65435 [10 11 12] *)
  let l := [S false (Some [49; 48; 48]) 8 [3; 4]; S true (Some [54; 53; 52; 51; 53]) 8 [10; 11; 12]] in
  wild_order l = [3; 4; 12; 11; 10] /\ gnu_order l = [12; 11; 10; 3; 4].
Proof. vm_compute. split; reflexivity. Qed.
Print Assumptions C30_refuted_equal_priority_different_name.

Theorem C30_refuted_mixed_alignment :   (* o0: .init_array align 8 [1]   o1: .init_array align 16 [2] *)
  let l := [S false None 8 [1]; S false None 16 [2]] in
  wild_order l = [2; 1] /\ gnu_order l = [1; 2].
Proof. vm_compute. split; reflexivity. Qed.
Print Assumptions C30_refuted_mixed_alignment.

(* non-vacuity: a canonical input with priorities, legacy sections and two objects meets the hypotheses *)
Example C30_hypotheses_satisfiable :
  let l := [S false None 8 [1]; S false (Some [48; 48; 49; 48; 49]) 8 [2; 3];       (* .init_array  .init_array.00101 *)
            S true (Some [54; 53; 48; 51; 53]) 8 [4; 5]; S true None 8 [6; 7]] in    (* .ctors.65035 (= 500)  .ctors *)
  Forall (fun s => good 8 s = true) l /\ wild_order l = [2; 3; 5; 4; 1; 7; 6] /\ gnu_order l = [2; 3; 5; 4; 1; 7; 6].
Proof. split; [repeat constructor|vm_compute; split; reflexivity]. Qed.

(* The extent of the output section (what DT_INIT_ARRAYSZ / sh_size / __init_array_start..end say).  For every start
   position, every list of per-priority parts (any power-of-two alignments, any positive sizes) and every order in which
   the parts are merged into the section record (wild merges in creation order, not layout order): the section starts
   exactly at its first part, every part lies inside it, it ends where the last part ends, and memory size = file size. *)
Theorem C30_section_covers_every_entry : forall p0 bs ids,
  (forall b, In b bs -> 0 < snd b) ->
  let s := off (primary p0 bs) in
  Permutation ids (place s bs) ->
  let sec := section p0 bs ids in
  off sec = s /\
  (forall r, In r (place s bs) -> off sec <= off r /\ rend r <= rend sec) /\
  rend sec = endp s bs /\
  msize sec = size sec /\
  match place s bs with r :: _ => off r = off sec | [] => True end.
Proof. exact section_covers. Qed.
Print Assumptions C30_section_covers_every_entry.

(* the pinned tree (sizes summed, primary aligned to 8 only) is refuted: a lone 16-aligned part placed after a position
   that is 8 mod 16 — the section [8,24) starts at a padding word and stops before the last entry [24,32) (repaired) *)
Theorem C30_refuted_sum_of_part_sizes :
  let parts := place (off (primary_old 8)) [(4%nat, 16)] in
  let sec := section_old 8 parts in
  off sec = 8 /\ rend sec = 24 /\ map off parts = [16] /\ map rend parts = [32].
Proof. exact old_section_misses_last_entry. Qed.
Print Assumptions C30_refuted_sum_of_part_sizes.
