(* C30 — the extent of the output .init_array/.fini_array section.
   wild: every init/fini input section goes to a secondary output section, one per priority
   (output_section_id.rs get_or_create_init_fini_secondary, which also raises the primary's minimum alignment to the
   largest alignment seen); layout.rs layout_section_parts places the (empty) primary and then the secondaries in
   priority order, each aligned to its own alignment; merge_secondary_parts folds OutputRecordLayout::merge over the
   secondaries IN ID ORDER (creation order, not layout order) to get the section header / DT_*_ARRAYSZ / the
   __X_array_start..end symbols.  Offsets are file offsets; alignments are powers of two given by their exponent. *)
From Coq Require Import ZArith List Lia Sorting.Permutation.
Import ListNotations.
Open Scope Z_scope.

Definition align_up (x : Z) (k : nat) : Z := ((x + 2 ^ Z.of_nat k - 1) / 2 ^ Z.of_nat k) * 2 ^ Z.of_nat k.

Record rec := { off : Z; size : Z; msize : Z }.
Definition rend (r : rec) : Z := off r + size r.

(* OutputRecordLayout::merge after the repair *)
Definition merge (a b : rec) : rec :=
  if 0 <? size b then
    let nf := Z.max (size a) (off b + size b - off a) in
    {| off := off a; size := nf; msize := msize a + (nf - size a) |}
  else {| off := off a; size := size a; msize := msize a + msize b |}.
(* ... and before it: sizes are summed, padding between the parts is not counted *)
Definition merge_sum (a b : rec) : rec := {| off := off a; size := size a + size b; msize := msize a + msize b |}.

(* a bucket = (alignment exponent, bytes); layout in priority order from position cur *)
Fixpoint place (cur : Z) (bs : list (nat * Z)) : list rec :=
  match bs with
  | [] => []
  | (k, sz) :: r => let o := align_up cur k in {| off := o; size := sz; msize := sz |} :: place (o + sz) r
  end.
Fixpoint max_exp (bs : list (nat * Z)) : nat := match bs with [] => 0%nat | (k, _) :: r => Nat.max k (max_exp r) end.

(* the primary: empty, aligned to the largest alignment of its secondaries (the repair), at least 8 *)
Definition primary (p0 : Z) (bs : list (nat * Z)) : rec :=
  {| off := align_up p0 (Nat.max 3 (max_exp bs)); size := 0; msize := 0 |}.
(* ... before the repair: aligned to 8 only *)
Definition primary_old (p0 : Z) : rec := {| off := align_up p0 3; size := 0; msize := 0 |}.

Definition section (p0 : Z) (bs : list (nat * Z)) (id_order : list rec) : rec := fold_left merge id_order (primary p0 bs).
Definition section_old (p0 : Z) (id_order : list rec) : rec := fold_left merge_sum id_order (primary_old p0).
