From Coq Require Import ZArith List Bool Lia Arith.
From WV Require Import C38.Model.
Import ListNotations.
Open Scope Z_scope.

(* the executable comes first in the search order *)
Lemma lookup_exe_first s rest :
  lookup s (O :: rest) =
  match exe_entry s with Defined a | Canonical a => Some a | _ => lookup s rest end.
Proof. reflexivity. Qed.

Lemma lookup_libs s : forall libs, ~ In O libs -> In (home s) libs ->
  lookup s libs = Some (home_addr s).
Proof.
  induction libs as [|m r IH]; intros Hn Hin; [contradiction|]. cbn [lookup].
  destruct m as [|m']; [exfalso; apply Hn; left; reflexivity|]. cbn [entry]. unfold lib_entry.
  destruct (Nat.eqb_spec (S m') (home s)) as [E|E]; [reflexivity|].
  apply IH; [intros H; apply Hn; right; exact H|]. destruct Hin as [H|H]; [congruence|exact H].
Qed.

Theorem one_address s libs m :
  ~ direct_library_function s ->
  ~ In O libs -> (home s = O \/ In (home s) libs) -> In m (O :: libs) ->
  observed s (O :: libs) m = observed s (O :: libs) O /\ exists a, observed s (O :: libs) O = Some a.
Proof.
  intros Hk Hn Hh Hm. unfold observed. rewrite lookup_exe_first. unfold exe_entry.
  destruct (home s) as [|h] eqn:Eh.
  - destruct m; destruct (how s); split; try reflexivity; eexists; reflexivity.
  - assert (Hl : lookup s libs = Some (home_addr s)).
    { apply lookup_libs; [exact Hn|]. destruct Hh as [Hh|Hh]; [discriminate|]. rewrite Eh. exact Hh. }
    unfold direct_library_function in Hk. rewrite Eh in Hk.
    destruct m; destruct (how s) eqn:Ew; destruct (skind s) eqn:Ek; rewrite ?Hl; split; try reflexivity; try (eexists; reflexivity);
      exfalso; apply Hk; repeat split; discriminate.
Qed.

Lemma lookup_gnu_libs s : forall libs, ~ In O libs -> In (home s) libs -> lookup_gnu s libs = Some (home_addr s).
Proof.
  induction libs as [|m r IH]; intros Hn Hin; [contradiction|]. cbn [lookup_gnu].
  destruct m as [|m']; [exfalso; apply Hn; left; reflexivity|]. cbn [entry_gnu]. unfold lib_entry.
  destruct (Nat.eqb_spec (S m') (home s)) as [E|E]; [reflexivity|].
  apply IH; [intros H; apply Hn; right; exact H|]. destruct Hin as [H|H]; [congruence|exact H].
Qed.

Theorem one_address_gnu s libs m :
  ~ In O libs -> (home s = O \/ In (home s) libs) -> In m (O :: libs) ->
  observed_gnu s (O :: libs) m = observed_gnu s (O :: libs) O /\ exists a, observed_gnu s (O :: libs) O = Some a.
Proof.
  intros Hn Hh Hm. unfold observed_gnu. cbn [lookup_gnu entry_gnu]. unfold exe_entry_gnu, exe_entry.
  destruct (home s) as [|h] eqn:Eh.
  - destruct m; destruct (how s); split; try reflexivity; eexists; reflexivity.
  - assert (Hl : lookup_gnu s libs = Some (home_addr s)).
    { apply lookup_gnu_libs; [exact Hn|]. destruct Hh as [Hh|Hh]; [discriminate|]. rewrite Eh. exact Hh. }
    destruct m; destruct (how s); destruct (skind s); rewrite ?Hl; split; try reflexivity; eexists; reflexivity.
Qed.
