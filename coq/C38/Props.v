(* C38 — every function and object has one address across modules: the property theorems. Model: C38/Model.v. *)
From Coq Require Import ZArith List Bool.
From WV Require Import C38.Model C38.Proofs.
Import ListNotations.
Open Scope Z_scope.

(* For every symbol (function or object, defined by the executable or by any library, referred to by the executable
   directly, through the GOT, by calls only, or not at all) and every set of libraries: every module of the process
   observes the same address, and there is one. *)
Theorem C38_every_module_sees_the_same_address :
  forall s libs m,
    ~ direct_library_function s ->
    ~ In O libs -> (home s = O \/ In (home s) libs) -> In m (O :: libs) ->
    observed s (O :: libs) m = observed s (O :: libs) O /\ exists a, observed s (O :: libs) O = Some a.
Proof. exact one_address. Qed.
Print Assumptions C38_every_module_sees_the_same_address.

(* Since an object has one address, a store through one module's view is a store to the location every other module
   reads: stated as equality of the observed locations of two arbitrary modules. *)
Theorem C38_writes_are_visible_everywhere :
  forall s libs m1 m2,
    ~ direct_library_function s ->
    ~ In O libs -> (home s = O \/ In (home s) libs) -> In m1 (O :: libs) -> In m2 (O :: libs) ->
    observed s (O :: libs) m1 = observed s (O :: libs) m2.
Proof.
  intros s libs m1 m2 Hk Hn Hh H1 H2.
  destruct (one_address s libs m1 Hk Hn Hh H1) as (E1 & _). destruct (one_address s libs m2 Hk Hn Hh H2) as (E2 & _). congruence.
Qed.
Print Assumptions C38_writes_are_visible_everywhere.

(* The excluded class is a real failure of the current code: the executable's non-PIC code takes the address of a
   library function; it sees its own PLT entry, every library sees the function itself. *)
Theorem C38_refuted_for_a_directly_addressed_library_function :
  let s := {| skind := Func; home := 1%nat; home_addr := 0x7000; how := DirectAddress; exe_slot := 0x401030 |} in
  direct_library_function s /\ observed s [O; 1%nat] O = Some 0x401030 /\ observed s [O; 1%nat] 1%nat = Some 0x7000.
Proof. cbn. repeat split; discriminate. Qed.
Print Assumptions C38_refuted_for_a_directly_addressed_library_function.

(* With GNU ld's canonical PLT entry (the undefined dynsym entry carries the PLT address) the class disappears. *)
Theorem C38_canonical_plt_would_close_the_gap :
  forall s libs m,
    ~ In O libs -> (home s = O \/ In (home s) libs) -> In m (O :: libs) ->
    observed_gnu s (O :: libs) m = observed_gnu s (O :: libs) O /\ exists a, observed_gnu s (O :: libs) O = Some a.
Proof. exact one_address_gnu. Qed.
Print Assumptions C38_canonical_plt_would_close_the_gap.

(* If the executable bound a direct reference at link time without announcing the address in its dynamic symbol table
   (no copy-relocated definition / no canonical PLT value), a library would see the library's own address. *)
Theorem C38_refuted_without_the_announcement :
  let s := {| skind := Object; home := 1%nat; home_addr := 0x7000; how := DirectAddress; exe_slot := 0x404000 |} in
  observed s [O; 1%nat] O = Some 0x404000 /\ lookup_silent s [O; 1%nat] = Some 0x7000 /\ lookup s [O; 1%nat] = Some 0x404000.
Proof. vm_compute. repeat split. Qed.
Print Assumptions C38_refuted_without_the_announcement.
