(* C38 — every function and object has one address across modules.  A process image: the executable (module 0) and
   shared libraries (modules 1..n) in the loader's global search order.  For one symbol S: which module really defines
   it, how the executable refers to it, and what wild puts in the executable for it.  Every reference that goes through
   a GOT slot or a PLT stub is bound by the dynamic loader's lookup; a direct reference from non-PIC code of the
   executable is bound at link time to an address inside the executable. *)
From Coq Require Import ZArith List Bool Lia.
Import ListNotations.
Open Scope Z_scope.

Inductive kind := Func | Object.
(* how the executable's own code refers to the symbol *)
Inductive exe_ref := NoRef | ThroughGot | CallOnly | DirectAddress.   (* DirectAddress: absolute / pc-relative to the symbol itself *)

(* what a module's dynamic symbol table says about S *)
Inductive dyn_entry :=
| Absent
| Defined (addr : Z)            (* st_shndx <> 0 *)
| Canonical (addr : Z)          (* undefined function with st_value = address of its PLT entry *)
| Import.                       (* undefined, st_value = 0 *)

Record sym := {
  skind : kind;
  home : nat;                   (* the module whose object code defines S (0 = the executable) *)
  home_addr : Z;                (* its run-time address there *)
  how : exe_ref;
  exe_slot : Z;                 (* where the executable puts its copy (objects) or PLT entry (functions) *)
}.

(* wild, for the executable: elf.rs (a direct reference to a library function from read-only code becomes PLT|GOT, to a
   library object COPY_RELOCATION) + elf_writer.rs write_dynamic_file / write_copy_relocations *)
Definition exe_entry (s : sym) : dyn_entry :=
  match home s with
  | O => Defined (home_addr s)
  | _ => match how s, skind s with
         | DirectAddress, Object => Defined (exe_slot s)          (* copy relocation: the executable owns the object now *)
         | DirectAddress, Func => Import                          (* wild: a PLT entry is used, but it is not announced (no canonical PLT) *)
         | NoRef, _ => Absent
         | _, _ => Import
         end
  end.
(* a library's table *)
Definition lib_entry (s : sym) (m : nat) : dyn_entry :=
  if Nat.eqb m (home s) then Defined (home_addr s) else Import.
Definition entry (s : sym) (m : nat) : dyn_entry := match m with O => exe_entry s | _ => lib_entry s m end.

(* the loader: first module in search order that provides an address *)
Fixpoint lookup (s : sym) (order : list nat) : option Z :=
  match order with
  | [] => None
  | m :: r => match entry s m with Defined a | Canonical a => Some a | _ => lookup s r end
  end.

(* the address module m observes for S *)
Definition observed (s : sym) (order : list nat) (m : nat) : option Z :=
  match m, how s with
  | O, DirectAddress => match home s with O => Some (home_addr s) | _ => Some (exe_slot s) end
  | _, _ => lookup s order
  end.

(* the variant in which the executable keeps its direct address but does not announce it *)
Definition exe_entry_silent (s : sym) : dyn_entry :=
  match home s with O => Defined (home_addr s) | _ => match how s with NoRef => Absent | _ => Import end end.
Definition entry_silent (s : sym) (m : nat) : dyn_entry := match m with O => exe_entry_silent s | _ => lib_entry s m end.
Fixpoint lookup_silent (s : sym) (order : list nat) : option Z :=
  match order with
  | [] => None
  | m :: r => match entry_silent s m with Defined a | Canonical a => Some a | _ => lookup_silent s r end
  end.

(* what GNU ld does for the remaining case: the undefined entry carries the address of the PLT entry *)
Definition exe_entry_gnu (s : sym) : dyn_entry :=
  match home s, how s, skind s with
  | S _, DirectAddress, Func => Canonical (exe_slot s)
  | _, _, _ => exe_entry s
  end.
Definition entry_gnu (s : sym) (m : nat) : dyn_entry := match m with O => exe_entry_gnu s | _ => lib_entry s m end.
Fixpoint lookup_gnu (s : sym) (order : list nat) : option Z :=
  match order with
  | [] => None
  | m :: r => match entry_gnu s m with Defined a | Canonical a => Some a | _ => lookup_gnu s r end
  end.
Definition observed_gnu (s : sym) (order : list nat) (m : nat) : option Z :=
  match m, how s with
  | O, DirectAddress => match home s with O => Some (home_addr s) | _ => Some (exe_slot s) end
  | _, _ => lookup_gnu s order
  end.

(* the known class: a library function whose address the executable's non-PIC code takes directly *)
Definition direct_library_function (s : sym) : Prop := home s <> O /\ how s = DirectAddress /\ skind s = Func.
