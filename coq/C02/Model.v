(* C02 — symbol selection: libwild/src/symbol_db.rs select_symbol + SymbolPrioritySelector::{consider,best}.
   A name's candidates are listed in command-line order (first_id :: alternatives). *)
From Coq Require Import NArith List Bool Arith.
Import ListNotations.

Inductive strength := Undef | Weak | Unique | Strong | Common (size : N).
Record cand := { dyn : bool; str : strength; comdat : bool }.

Record sel := { first_strong : option nat; max_common : option (N * nat); first_weak : option nat }.
Definition sel0 : sel := {| first_strong := None; max_common := None; first_weak := None |}.

Definition consider (s : sel) (id : nat) (st : strength) : sel :=
  match st with
  | Strong => match first_strong s with
              | None => {| first_strong := Some id; max_common := max_common s; first_weak := first_weak s |}
              | Some _ => s end
  | Weak | Unique => match first_weak s with
                     | None => {| first_strong := first_strong s; max_common := max_common s; first_weak := Some id |}
                     | Some _ => s end
  | Common size => match max_common s with
                   | Some (prev, _) => if (size <=? prev)%N then s
                                       else {| first_strong := first_strong s; max_common := Some (size, id); first_weak := first_weak s |}
                   | None => {| first_strong := first_strong s; max_common := Some (size, id); first_weak := first_weak s |}
                   end
  | Undef => s
  end.

Definition best (s : sel) : option nat :=
  match first_strong s with
  | Some i => Some i
  | None => match max_common s with Some (_, i) => Some i | None => first_weak s end
  end.

Inductive result := Ok (i : nat) | DupErr (a b : nat).

Definition is_strong (s : strength) : bool := match s with Strong => true | _ => false end.
Definition is_undef (s : strength) : bool := match s with Undef => true | _ => false end.

Section Select.
  Variable allow_multiple : bool.
  Variable all : list cand.       (* the whole candidate list, for looking up the COMDAT flag of an earlier one *)
  Definition comdat_of (i : nat) : bool := match nth_error all i with Some c => comdat c | None => false end.

  (* first pass of select_symbol: non-dynamic candidates only; Err on a second strong definition *)
  Fixpoint pass1 (cs : list cand) (i : nat) (s : sel) : sel + (nat * nat) :=
    match cs with
    | [] => inl s
    | c :: t =>
        if dyn c then pass1 t (S i) s
        else
          match (if is_strong (str c) then first_strong s else None) with
          | Some existing =>
              if (negb (comdat_of existing) || negb (comdat c)) && negb allow_multiple
              then inr (existing, i)
              else pass1 t (S i) (consider s i (str c))
          | None => pass1 t (S i) (consider s i (str c))
          end
    end.

  (* second pass: only reached when no non-dynamic definition exists *)
  Fixpoint pass2 (cs : list cand) (i : nat) : option nat :=
    match cs with
    | [] => None
    | c :: t => if is_undef (str c) then pass2 t (S i) else Some i
    end.
End Select.

Definition select (allow_multiple : bool) (cs : list cand) : result :=
  match pass1 allow_multiple cs cs 0 sel0 with
  | inr (a, b) => DupErr a b
  | inl s => match best s with
             | Some i => Ok i
             | None => match pass2 cs 0 with Some i => Ok i | None => Ok 0 end
             end
  end.
