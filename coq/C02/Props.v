(* C02 — property theorems only. *)
From Coq Require Import NArith List Bool.
From WV Require Import C02.Model C02.Proofs.

(* the four selection rules, for every candidate list in command-line order *)
Theorem C02_selection_rules : forall allow cs i, select allow cs = Ok i ->
  (forall a, find_first nd_strong cs = Some a -> i = a) /\
  (find_first nd_strong cs = None -> forall k c m, nth_error cs k = Some c -> nd_common c m ->
     exists ci n, nth_error cs i = Some ci /\ nd_common ci n /\ (m <= n)%N /\ (m = n -> (i <= k)%nat)) /\
  (find_first nd_strong cs = None -> (forall k c m, nth_error cs k = Some c -> ~ nd_common c m) ->
     forall w, find_first nd_weak cs = Some w -> i = w) /\
  (forall ci, nth_error cs i = Some ci -> dyn ci = true -> forall k c, nth_error cs k = Some c -> nd_defined c = false).
Proof. exact select_ok_cases. Qed.

(* duplicate-definition error: exactly two non-dynamic strong definitions, the first of them and a later one, not both in COMDAT groups *)
Theorem C02_dup_error_sound : forall cs a b, select false cs = DupErr a b ->
  find_first nd_strong cs = Some a /\ (a < b)%nat /\
  exists ca cb, nth_error cs a = Some ca /\ nth_error cs b = Some cb /\ nd_strong cb = true /\
                (comdat ca = false \/ comdat cb = false).
Proof. exact select_dup_iff. Qed.
Theorem C02_dup_error_complete : forall cs i allow, select allow cs = Ok i ->
  forall a, find_first nd_strong cs = Some a -> forall b cb, (a < b)%nat -> nth_error cs b = Some cb -> nd_strong cb = true ->
  allow = true \/ (comdat_of cs a = true /\ comdat cb = true).
Proof. exact select_no_dup_means. Qed.
Theorem C02_allow_multiple_never_errors : forall cs, exists i, select true cs = Ok i.
Proof. exact allow_multiple_never_errors. Qed.

Print Assumptions C02_selection_rules.
Print Assumptions C02_dup_error_sound.
Print Assumptions C02_dup_error_complete.
Print Assumptions C02_allow_multiple_never_errors.
