From Coq Require Import NArith List Bool Arith Lia.
From WV Require Import C02.Model.
Import ListNotations.

Definition nd_strong (c : cand) : bool := negb (dyn c) && is_strong (str c).
Definition nd_weak (c : cand) : bool := negb (dyn c) && match str c with Weak | Unique => true | _ => false end.
Definition nd_common (c : cand) (n : N) : Prop := dyn c = false /\ str c = Common n.
Definition nd_defined (c : cand) : bool := negb (dyn c) && negb (is_undef (str c)).

Fixpoint find_first (p : cand -> bool) (cs : list cand) : option nat :=
  match cs with
  | [] => None
  | c :: t => if p c then Some 0 else option_map S (find_first p t)
  end.

Lemma find_first_app p pre c :
  find_first p (pre ++ [c]) =
  match find_first p pre with Some i => Some i | None => if p c then Some (length pre) else None end.
Proof.
  induction pre as [|a t IH]; cbn [app find_first length].
  - destruct (p c); reflexivity.
  - destruct (p a); [reflexivity|]. rewrite IH. destruct (find_first p t); cbn; [reflexivity|].
    destruct (p c); reflexivity.
Qed.

Lemma find_first_some p cs i : find_first p cs = Some i ->
  exists c, nth_error cs i = Some c /\ p c = true /\ forall j c', (j < i)%nat -> nth_error cs j = Some c' -> p c' = false.
Proof.
  revert i. induction cs as [|a t IH]; intros i H; [discriminate|]. cbn [find_first] in H.
  destruct (p a) eqn:Ea.
  - injection H as <-. exists a. split; [reflexivity|]. split; [assumption|]. intros j c' Hj. lia.
  - destruct (find_first p t) as [k|] eqn:Ek; [|discriminate]. cbn in H. injection H as <-.
    destruct (IH k eq_refl) as (c & Hc & Hp & Hlt). exists c. split; [assumption|]. split; [assumption|].
    intros [|j] c' Hj Hn; cbn in Hn; [congruence|]. apply (Hlt j); [lia|assumption].
Qed.

Lemma find_first_none p cs : find_first p cs = None -> forall i c, nth_error cs i = Some c -> p c = false.
Proof.
  induction cs as [|a t IH]; intros H i c Hn; [destruct i; discriminate|]. cbn [find_first] in H.
  destruct (p a) eqn:Ea; [discriminate|]. destruct (find_first p t) eqn:Et; [discriminate|].
  destruct i; cbn in Hn; [congruence|]. apply (IH eq_refl i). assumption.
Qed.

(* what the selector state means after a prefix has been processed *)
Record Inv (pre : list cand) (s : sel) : Prop := {
  inv_strong : first_strong s = find_first nd_strong pre;
  inv_weak : first_weak s = find_first nd_weak pre;
  inv_common_none : max_common s = None -> forall i c n, nth_error pre i = Some c -> ~ nd_common c n;
  inv_common_some : forall n j, max_common s = Some (n, j) ->
      (exists c, nth_error pre j = Some c /\ nd_common c n) /\
      forall k c m, nth_error pre k = Some c -> nd_common c m -> (m <= n)%N /\ (m = n -> (j <= k)%nat)
}.

Lemma inv0 : Inv [] sel0.
Proof.
  split; cbn; try reflexivity.
  - intros _ i c n H. destruct i; discriminate.
  - intros n j H. discriminate.
Qed.

Lemma nth_error_snoc {A} (l : list A) x i y : nth_error (l ++ [x]) i = Some y ->
  ((i < length l)%nat /\ nth_error l i = Some y) \/ (i = length l /\ y = x).
Proof.
  intros H. destruct (Nat.lt_ge_cases i (length l)) as [Hl|Hl].
  - left. split; [assumption|]. rewrite nth_error_app1 in H by assumption. assumption.
  - right. rewrite nth_error_app2 in H by assumption.
    destruct (i - length l)%nat as [|k] eqn:E; cbn in H; [|destruct k; discriminate].
    injection H as <-. split; [lia|reflexivity].
Qed.

(* a dynamic candidate is skipped *)
Lemma inv_skip_dyn pre s c : Inv pre s -> dyn c = true -> Inv (pre ++ [c]) s.
Proof.
  intros [I1 I2 I3 I4] Hd. split.
  - rewrite find_first_app, <- I1. unfold nd_strong. rewrite Hd. cbn. destruct (first_strong s); reflexivity.
  - rewrite find_first_app, <- I2. unfold nd_weak. rewrite Hd. cbn. destruct (first_weak s); reflexivity.
  - intros Hn i c' n Hnth Hcn. apply nth_error_snoc in Hnth. destruct Hnth as [[_ Hnth]|[_ ->]].
    + exact (I3 Hn i c' n Hnth Hcn).
    + destruct Hcn. congruence.
  - intros n j Hm. destruct (I4 n j Hm) as [(c0 & Hc0 & Hcc) Hall]. split.
    + exists c0. split; [|assumption]. rewrite nth_error_app1; [assumption|]. apply nth_error_Some. congruence.
    + intros k c' m Hnth Hcm. apply nth_error_snoc in Hnth. destruct Hnth as [[_ Hnth]|[_ ->]].
      * apply (Hall k c' m); assumption.
      * destruct Hcm. congruence.
Qed.

(* a non-dynamic candidate is considered *)
Lemma inv_consider pre s c : Inv pre s -> dyn c = false -> Inv (pre ++ [c]) (consider s (length pre) (str c)).
Proof.
  intros [I1 I2 I3 I4] Hd.
  assert (Hlen : forall c0, nth_error (pre ++ [c]) (length pre) = Some c0 -> c0 = c).
  { intros c0 H. rewrite nth_error_app2 in H by lia. rewrite Nat.sub_diag in H. cbn in H. congruence. }
  destruct (str c) eqn:Es; cbn [consider].
  - (* Undef *) split; [rewrite find_first_app, <- I1|rewrite find_first_app, <- I2| |].
    + unfold nd_strong. rewrite Es. cbn. rewrite andb_false_r. destruct (first_strong s); reflexivity.
    + unfold nd_weak. rewrite Es. cbn. rewrite andb_false_r. destruct (first_weak s); reflexivity.
    + intros Hn i c' n Hnth Hc. apply nth_error_snoc in Hnth. destruct Hnth as [[_ Hnth]|[_ ->]].
      * exact (I3 Hn i c' n Hnth Hc).
      * destruct Hc. congruence.
    + intros n j Hm. destruct (I4 n j Hm) as [(c0 & Hc0 & Hcc) Hall]. split.
      * exists c0. split; [|assumption]. rewrite nth_error_app1; [assumption|]. apply nth_error_Some. congruence.
      * intros k c' m Hnth Hcm. apply nth_error_snoc in Hnth. destruct Hnth as [[_ Hnth]|[_ ->]].
        -- apply (Hall k c' m); assumption.
        -- destruct Hcm. congruence.
  - (* Weak *)
    assert (Hw : nd_weak c = true) by (unfold nd_weak; rewrite Hd, Es; reflexivity).
    assert (Hs : nd_strong c = false) by (unfold nd_strong; rewrite Es; cbn; apply andb_false_r).
    destruct (first_weak s) as [fw|] eqn:Ew; split; cbn [first_strong first_weak max_common];
      try (rewrite find_first_app, <- I1, Hs; destruct (first_strong s); reflexivity);
      try (rewrite find_first_app, <- I2, ?Ew, ?Hw; reflexivity).
    all: try (intros Hn i c' n Hnth Hc; apply nth_error_snoc in Hnth; destruct Hnth as [[_ Hnth]|[_ ->]];
              [exact (I3 Hn i c' n Hnth Hc)|destruct Hc; congruence]).
    all: intros n j Hm; destruct (I4 n j Hm) as [(c0 & Hc0 & Hcc) Hall]; split;
      [exists c0; split; [rewrite nth_error_app1; [assumption|apply nth_error_Some; congruence]|assumption]
      |intros k c' m Hnth Hcm; apply nth_error_snoc in Hnth; destruct Hnth as [[_ Hnth]|[_ ->]];
       [apply (Hall k c' m); assumption|destruct Hcm; congruence]].
  - (* Unique *)
    assert (Hw : nd_weak c = true) by (unfold nd_weak; rewrite Hd, Es; reflexivity).
    assert (Hs : nd_strong c = false) by (unfold nd_strong; rewrite Es; cbn; apply andb_false_r).
    destruct (first_weak s) as [fw|] eqn:Ew; split; cbn [first_strong first_weak max_common];
      try (rewrite find_first_app, <- I1, Hs; destruct (first_strong s); reflexivity);
      try (rewrite find_first_app, <- I2, ?Ew, ?Hw; reflexivity).
    all: try (intros Hn i c' n Hnth Hc; apply nth_error_snoc in Hnth; destruct Hnth as [[_ Hnth]|[_ ->]];
              [exact (I3 Hn i c' n Hnth Hc)|destruct Hc; congruence]).
    all: intros n j Hm; destruct (I4 n j Hm) as [(c0 & Hc0 & Hcc) Hall]; split;
      [exists c0; split; [rewrite nth_error_app1; [assumption|apply nth_error_Some; congruence]|assumption]
      |intros k c' m Hnth Hcm; apply nth_error_snoc in Hnth; destruct Hnth as [[_ Hnth]|[_ ->]];
       [apply (Hall k c' m); assumption|destruct Hcm; congruence]].
  - (* Strong *)
    assert (Hw : nd_weak c = false) by (unfold nd_weak; rewrite Es; cbn; apply andb_false_r).
    assert (Hs : nd_strong c = true) by (unfold nd_strong; rewrite Hd, Es; reflexivity).
    destruct (first_strong s) as [fs|] eqn:Ef; split; cbn [first_strong first_weak max_common];
      try (rewrite find_first_app, <- I1, ?Ef, ?Hs; reflexivity);
      try (rewrite find_first_app, <- I2, Hw; destruct (first_weak s); reflexivity).
    all: try (intros Hn i c' n Hnth Hc; apply nth_error_snoc in Hnth; destruct Hnth as [[_ Hnth]|[_ ->]];
              [exact (I3 Hn i c' n Hnth Hc)|destruct Hc; congruence]).
    all: intros n j Hm; destruct (I4 n j Hm) as [(c0 & Hc0 & Hcc) Hall]; split;
      [exists c0; split; [rewrite nth_error_app1; [assumption|apply nth_error_Some; congruence]|assumption]
      |intros k c' m Hnth Hcm; apply nth_error_snoc in Hnth; destruct Hnth as [[_ Hnth]|[_ ->]];
       [apply (Hall k c' m); assumption|destruct Hcm; congruence]].
  - (* Common *)
    assert (Hw : nd_weak c = false) by (unfold nd_weak; rewrite Es; cbn; apply andb_false_r).
    assert (Hs : nd_strong c = false) by (unfold nd_strong; rewrite Es; cbn; apply andb_false_r).
    assert (Hcc : nd_common c size) by (split; assumption).
    destruct (max_common s) as [[prev pj]|] eqn:Em.
    + destruct (N.leb_spec size prev) as [Hle|Hgt].
      * (* keep the previous maximum *)
        split; [rewrite find_first_app, <- I1, Hs; destruct (first_strong s); reflexivity
               |rewrite find_first_app, <- I2, Hw; destruct (first_weak s); reflexivity| |].
        -- intros Hn. congruence.
        -- intros n j Hm. rewrite Em in Hm. injection Hm as <- <-.
           destruct (I4 prev pj eq_refl) as [(c0 & Hc0 & Hc0c) Hall]. split.
           ++ exists c0. split; [rewrite nth_error_app1; [assumption|apply nth_error_Some; congruence]|assumption].
           ++ intros k c' m Hnth Hcm. apply nth_error_snoc in Hnth. destruct Hnth as [[_ Hnth]|[Hk ->]].
              ** apply (Hall k c' m); assumption.
              ** destruct Hcm as [_ Hcm]. rewrite Es in Hcm. injection Hcm as <-. split; [assumption|].
                 intros _. assert (pj < length pre)%nat by (apply nth_error_Some; congruence). lia.
      * (* new maximum *)
        split; cbn [first_strong first_weak max_common];
          [rewrite find_first_app, <- I1, Hs; destruct (first_strong s); reflexivity
          |rewrite find_first_app, <- I2, Hw; destruct (first_weak s); reflexivity| |].
        -- intros Hn. discriminate.
        -- intros n j Hm. injection Hm as <- <-. split.
           ++ exists c. split; [|assumption]. rewrite nth_error_app2 by lia. rewrite Nat.sub_diag. reflexivity.
           ++ destruct (I4 prev pj eq_refl) as [_ Hall].
              intros k c' m Hnth Hcm. apply nth_error_snoc in Hnth. destruct Hnth as [[Hk Hnth]|[Hk ->]].
              ** destruct (Hall k c' m Hnth Hcm) as [Hm1 _]. split; [lia|intros ->; lia].
              ** destruct Hcm as [_ Hcm]. rewrite Es in Hcm. injection Hcm as <-. split; [lia|intros _; lia].
    + split; cbn [first_strong first_weak max_common];
        [rewrite find_first_app, <- I1, Hs; destruct (first_strong s); reflexivity
        |rewrite find_first_app, <- I2, Hw; destruct (first_weak s); reflexivity| |].
      * intros Hn. discriminate.
      * intros n j Hm. injection Hm as <- <-. split.
        -- exists c. split; [|assumption]. rewrite nth_error_app2 by lia. rewrite Nat.sub_diag. reflexivity.
        -- intros k c' m Hnth Hcm. apply nth_error_snoc in Hnth. destruct Hnth as [[Hk Hnth]|[Hk ->]].
           ++ exfalso. exact (I3 eq_refl k c' m Hnth Hcm).
           ++ destruct Hcm as [_ Hcm]. rewrite Es in Hcm. injection Hcm as <-. split; [lia|intros _; lia].
Qed.

Lemma find_first_app_l p l t : forall i, find_first p l = Some i -> find_first p (l ++ t) = Some i.
Proof.
  induction l as [|x l IHl]; intros i H; [discriminate|]. cbn [app find_first] in *.
  destruct (p x); [assumption|].
  destruct (find_first p l) as [k|] eqn:Ek; [|discriminate].
  cbn in H. injection H as <-. rewrite (IHl k eq_refl). reflexivity.
Qed.

Section Pass1.
  Variable allow : bool.
  Variable all : list cand.

  Definition dup_free (pre : list cand) : Prop :=
    forall a, find_first nd_strong pre = Some a -> forall b c, (a < b)%nat -> nth_error pre b = Some c ->
      nd_strong c = true -> allow = true \/ (comdat_of all a = true /\ comdat c = true).

  Lemma pass1_spec : forall cs pre s, all = pre ++ cs -> Inv pre s -> dup_free pre ->
    match pass1 allow all cs (length pre) s with
    | inl s' => Inv all s' /\ dup_free all
    | inr (a, b) => allow = false /\ find_first nd_strong all = Some a /\ (a < b)%nat /\
                    exists c, nth_error all b = Some c /\ nd_strong c = true /\
                              (comdat_of all a = false \/ comdat c = false)
    end.
  Proof.
    induction cs as [|c t IH]; intros pre s Hall HI HD.
    - cbn. rewrite app_nil_r in Hall. subst. split; assumption.
    - assert (Hall' : all = (pre ++ [c]) ++ t) by (rewrite <- app_assoc; exact Hall).
      assert (Hlen : length (pre ++ [c]) = S (length pre)) by (rewrite app_length; cbn; lia).
      assert (Hnthc : nth_error all (length pre) = Some c).
      { rewrite Hall, nth_error_app2 by lia. rewrite Nat.sub_diag. reflexivity. }
      cbn [pass1]. destruct (dyn c) eqn:Hd.
      + (* dynamic: skipped *)
        specialize (IH (pre ++ [c]) s Hall' (inv_skip_dyn _ _ _ HI Hd)). rewrite Hlen in IH. apply IH.
        intros a Ha b c' Hab Hn Hs. rewrite find_first_app in Ha.
        apply nth_error_snoc in Hn. destruct Hn as [[Hb Hn]|[Hb ->]].
        * destruct (find_first nd_strong pre) as [a0|] eqn:Ef.
          -- injection Ha as <-. exact (HD a0 Ef b c' Hab Hn Hs).
          -- exfalso. pose proof (find_first_none _ _ Ef b c' Hn). congruence.
        * unfold nd_strong in Hs. rewrite Hd in Hs. discriminate.
      + destruct (is_strong (str c)) eqn:Est.
        * (* a strong definition *)
          assert (Hsc : nd_strong c = true) by (unfold nd_strong; rewrite Hd, Est; reflexivity).
          destruct (first_strong s) as [existing|] eqn:Ef.
          -- (* there is an earlier strong one *)
             assert (Hex : find_first nd_strong pre = Some existing) by (rewrite <- (inv_strong _ _ HI); assumption).
             assert (Hexl : (existing < length pre)%nat).
             { destruct (find_first_some _ _ _ Hex) as (c0 & Hc0 & _). apply nth_error_Some. congruence. }
             destruct ((negb (comdat_of all existing) || negb (comdat c)) && negb allow) eqn:Edup.
             ++ apply andb_prop in Edup. destruct Edup as [E1 E2].
                split; [destruct allow; [discriminate|reflexivity]|].
                split.
                { rewrite Hall', <- app_assoc. apply find_first_app_l. assumption. }
                split; [assumption|].
                exists c. split; [assumption|]. split; [assumption|].
                apply orb_prop in E1. destruct E1 as [E1|E1]; apply negb_true_iff in E1; auto.
             ++ specialize (IH (pre ++ [c]) (consider s (length pre) (str c)) Hall' (inv_consider _ _ _ HI Hd)).
                rewrite Hlen in IH. apply IH.
                intros a Ha b c' Hab Hn Hs. rewrite find_first_app, Hex in Ha. injection Ha as <-.
                apply nth_error_snoc in Hn. destruct Hn as [[Hb Hn]|[Hb ->]].
                ** exact (HD existing Hex b c' Hab Hn Hs).
                ** apply andb_false_iff in Edup. destruct Edup as [E|E].
                   --- apply orb_false_iff in E. destruct E as [E1 E2].
                       apply negb_false_iff in E1. apply negb_false_iff in E2. right. split; assumption.
                   --- apply negb_false_iff in E. left. assumption.
          -- (* first strong definition *)
             assert (Hex : find_first nd_strong pre = None) by (rewrite <- (inv_strong _ _ HI); assumption).
             specialize (IH (pre ++ [c]) (consider s (length pre) (str c)) Hall' (inv_consider _ _ _ HI Hd)).
             rewrite Hlen in IH. apply IH.
             intros a Ha b c' Hab Hn Hs. rewrite find_first_app, Hex, Hsc in Ha. injection Ha as <-.
             apply nth_error_snoc in Hn. destruct Hn as [[Hb Hn]|[Hb ->]]; lia.
        * (* not strong: no duplicate check *)
          assert (Hsc : nd_strong c = false) by (unfold nd_strong; rewrite Est; apply andb_false_r).
          specialize (IH (pre ++ [c]) (consider s (length pre) (str c)) Hall' (inv_consider _ _ _ HI Hd)).
          rewrite Hlen in IH. apply IH.
          intros a Ha b c' Hab Hn Hs. rewrite find_first_app in Ha.
          apply nth_error_snoc in Hn. destruct Hn as [[Hb Hn]|[Hb ->]]; [|congruence].
          destruct (find_first nd_strong pre) as [a0|] eqn:Ef.
          -- injection Ha as <-. exact (HD a0 Ef b c' Hab Hn Hs).
          -- rewrite Hsc in Ha. discriminate.
  Qed.
End Pass1.

Lemma dup_free_nil allow all : dup_free allow all [].
Proof. intros a H. discriminate. Qed.

(* ---------------- the declarative characterisation ---------------- *)
Definition has (p : cand -> bool) (cs : list cand) : Prop := exists i c, nth_error cs i = Some c /\ p c = true.

Theorem select_ok_cases allow cs i : select allow cs = Ok i ->
  (* 1. a non-dynamic strong definition exists: the first one wins *)
  (forall a, find_first nd_strong cs = Some a -> i = a) /\
  (* 2. otherwise the first of the largest non-dynamic commons *)
  (find_first nd_strong cs = None -> forall k c m, nth_error cs k = Some c -> nd_common c m ->
     exists ci n, nth_error cs i = Some ci /\ nd_common ci n /\ (m <= n)%N /\ (m = n -> (i <= k)%nat)) /\
  (* 3. otherwise the first non-dynamic weak / GNU-unique definition *)
  (find_first nd_strong cs = None -> (forall k c m, nth_error cs k = Some c -> ~ nd_common c m) ->
     forall w, find_first nd_weak cs = Some w -> i = w) /\
  (* 4. a dynamic definition is chosen only if there is no non-dynamic definition at all *)
  (forall ci, nth_error cs i = Some ci -> dyn ci = true -> forall k c, nth_error cs k = Some c -> nd_defined c = false).
Proof.
  unfold select. intros H.
  pose proof (pass1_spec allow cs cs [] sel0 eq_refl inv0 (dup_free_nil _ _)) as P. cbn [length] in P.
  destruct (pass1 allow cs cs 0 sel0) as [s|[a b]]; [|discriminate].
  destruct P as [[I1 I2 I3 I4] _].
  unfold best in H.
  destruct (first_strong s) as [fs|] eqn:Efs.
  - injection H as <-. repeat split.
    + intros a Ha. congruence.
    + intros Hn. congruence.
    + intros Hn. congruence.
    + intros ci Hci Hdy. exfalso. destruct (find_first_some _ _ _ (eq_sym I1)) as (c0 & Hc0 & Hp & _).
      rewrite Hc0 in Hci. injection Hci as <-. unfold nd_strong in Hp. rewrite Hdy in Hp. discriminate.
  - destruct (max_common s) as [[n j]|] eqn:Emc.
    + injection H as <-. destruct (I4 n j eq_refl) as [(cj & Hcj & Hcjc) Hall]. repeat split.
      * intros a Ha. congruence.
      * intros _ k c m Hk Hc. exists cj, n. destruct (Hall k c m Hk Hc). auto.
      * intros _ Hno. exfalso. exact (Hno j cj n Hcj Hcjc).
      * intros ci Hci Hdy. rewrite Hcj in Hci. injection Hci as <-. destruct Hcjc. congruence.
    + destruct (first_weak s) as [fw|] eqn:Efw.
      * injection H as <-. repeat split.
        -- intros a Ha. congruence.
        -- intros _ k c m Hk Hc. exfalso. exact (I3 eq_refl k c m Hk Hc).
        -- intros _ _ w Hw. congruence.
        -- intros ci Hci Hdy. exfalso. destruct (find_first_some _ _ _ (eq_sym I2)) as (c0 & Hc0 & Hp & _).
           rewrite Hc0 in Hci. injection Hci as <-. unfold nd_weak in Hp. rewrite Hdy in Hp. discriminate.
      * (* no non-dynamic definition at all *)
        assert (Hnone : forall k c, nth_error cs k = Some c -> nd_defined c = false).
        { intros k c Hk. unfold nd_defined. destruct (dyn c) eqn:Hd; [reflexivity|]. cbn.
          pose proof (find_first_none _ _ (eq_sym I1) k c Hk) as S1. pose proof (find_first_none _ _ (eq_sym I2) k c Hk) as S2.
          unfold nd_strong, nd_weak in *. rewrite Hd in *. cbn in *.
          destruct (str c) eqn:Es; cbn in *; try discriminate; try reflexivity.
          exfalso. apply (I3 eq_refl k c size Hk). split; assumption. }
        repeat split.
        -- intros a Ha. congruence.
        -- intros _ k c m Hk Hc. exfalso. exact (I3 eq_refl k c m Hk Hc).
        -- intros _ _ w Hw. congruence.
        -- intros ci Hci Hdy k c Hk. apply Hnone with k. assumption.
Qed.

Theorem select_dup_iff cs a b : select false cs = DupErr a b ->
  find_first nd_strong cs = Some a /\ (a < b)%nat /\
  exists ca cb, nth_error cs a = Some ca /\ nth_error cs b = Some cb /\ nd_strong cb = true /\
                (comdat ca = false \/ comdat cb = false).
Proof.
  unfold select. intros H.
  pose proof (pass1_spec false cs cs [] sel0 eq_refl inv0 (dup_free_nil _ _)) as P. cbn [length] in P.
  destruct (pass1 false cs cs 0 sel0) as [s|[a' b']].
  - destruct (best s); [discriminate|]. destruct (pass2 cs 0); discriminate.
  - injection H as <- <-. destruct P as (_ & Hf & Hab & c & Hc & Hs & Hcom).
    split; [assumption|]. split; [assumption|].
    destruct (find_first_some _ _ _ Hf) as (ca & Hca & _).
    exists ca, c. split; [assumption|]. split; [assumption|]. split; [assumption|].
    unfold comdat_of in Hcom. rewrite Hca in Hcom. assumption.
Qed.

Theorem select_no_dup_means cs i allow : select allow cs = Ok i ->
  forall a, find_first nd_strong cs = Some a -> forall b cb, (a < b)%nat -> nth_error cs b = Some cb -> nd_strong cb = true ->
  allow = true \/ (comdat_of cs a = true /\ comdat cb = true).
Proof.
  unfold select. intros H.
  pose proof (pass1_spec allow cs cs [] sel0 eq_refl inv0 (dup_free_nil _ _)) as P. cbn [length] in P.
  destruct (pass1 allow cs cs 0 sel0) as [s|[a' b']]; [|discriminate].
  destruct P as [_ D]. exact D.
Qed.

Theorem allow_multiple_never_errors cs : exists i, select true cs = Ok i.
Proof.
  unfold select.
  pose proof (pass1_spec true cs cs [] sel0 eq_refl inv0 (dup_free_nil _ _)) as P. cbn [length] in P.
  destruct (pass1 true cs cs 0 sel0) as [s|[a b]].
  - destruct (best s); [eauto|]. destruct (pass2 cs 0); eauto.
  - destruct P as [P _]. discriminate.
Qed.
