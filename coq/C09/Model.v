(* C09 / C23 — relative dynamic relocations.
   wild:  the layout-time choice between a RELR and a RELA entry (elf.rs, relocation scan) and the write-time choice
          (elf_writer.rs write_address_relocation); what is stored at the relocated place; wild only emits RELR
          ADDRESS entries (one per place), never bitmap entries.
   loader: RELA R_*_RELATIVE (place := base + addend) and the generic RELR decoder (glibc elf_dynamic_do_Relr): an even
          entry is an address (relocate that word, cursor := address + 8); an odd entry is a bitmap for the 63 words
          that follow the cursor.
   Addresses and words are N (no wrap: bases and images stay far below 2^64). *)
From Coq Require Import NArith List Bool.
Import ListNotations.
Open Scope N_scope.

(* ---- the two choices ---- *)
(* align = the input section's alignment, off = r_offset inside it, addr = the section's output address *)
Definition alloc_relr (relr_enabled : bool) (align off : N) : bool :=
  relr_enabled && N.even off && (2 <=? align).
Definition write_relr (relr_enabled : bool) (align place : N) : bool :=
  relr_enabled && (2 <=? align) && N.even place.

(* ---- emission ---- *)
Record site := { s_place : N; s_target : N; s_align : N }.      (* the word at s_place must hold s_target + base *)
Record image := { rela : list (N * N); relr : list N; mem : N -> N }.
Definition upd (m : N -> N) (a v : N) : N -> N := fun x => if x =? a then v else m x.
Definition emit_site (relr_enabled : bool) (im : image) (s : site) : image :=
  if write_relr relr_enabled (s_align s) (s_place s)
  then {| rela := rela im; relr := relr im ++ [s_place s]; mem := upd (mem im) (s_place s) (s_target s) |}
  else {| rela := rela im ++ [(s_place s, s_target s)]; relr := relr im; mem := upd (mem im) (s_place s) 0 |}.
Definition emit (relr_enabled : bool) (m0 : N -> N) (sites : list site) : image :=
  fold_left (emit_site relr_enabled) sites {| rela := []; relr := []; mem := m0 |}.

(* ---- the loader ---- *)
Definition apply_rela (base : N) (m : N -> N) (r : N * N) : N -> N := upd m (fst r) (base + snd r).
Definition reloc_word (base : N) (m : N -> N) (a : N) : N -> N := upd m a (m a + base).
(* bits 1..63 of a bitmap entry select the words cursor, cursor+8, ... *)
Fixpoint apply_bitmap (base : N) (m : N -> N) (cursor : N) (bits : N) (n : nat) : N -> N :=
  match n with
  | O => m
  | S n' => let m' := if N.odd bits then reloc_word base m cursor else m in
            apply_bitmap base m' (cursor + 8) (N.div2 bits) n'
  end.
Fixpoint apply_relr (base : N) (m : N -> N) (cursor : N) (entries : list N) : N -> N :=
  match entries with
  | [] => m
  | e :: r => if N.even e
              then apply_relr base (reloc_word base m e) (e + 8) r
              else apply_relr base (apply_bitmap base m cursor (N.div2 e) 63) (cursor + 8 * 63) r
  end.
Definition load (base : N) (im : image) : N -> N :=
  apply_relr base (fold_left (apply_rela base) (rela im) (mem im)) 0 (relr im).

(* the places a RELR table relocates *)
Fixpoint bitmap_places (cursor bits : N) (n : nat) : list N :=
  match n with
  | O => []
  | S n' => (if N.odd bits then [cursor] else []) ++ bitmap_places (cursor + 8) (N.div2 bits) n'
  end.
Fixpoint relr_places (cursor : N) (entries : list N) : list N :=
  match entries with
  | [] => []
  | e :: r => if N.even e then e :: relr_places (e + 8) r
              else bitmap_places cursor (N.div2 e) 63 ++ relr_places (cursor + 8 * 63) r
  end.
