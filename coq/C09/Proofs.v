(* C09 / C23 — proofs: the two RELR/RELA choices coincide; the emitted tables relocate exactly the address sites,
   each once; after loading at any base every site holds target + base and nothing else changes. *)
From Coq Require Import NArith List Bool Lia.
From WV Require Import C09.Model.
Import ListNotations.
Open Scope N_scope.

(* C23's obligation for .relr.dyn / .rela.dyn: what layout reserves is what the writer consumes *)
Theorem alloc_matches_write relr align addr off :
  (2 <= align -> N.even addr = true) ->
  alloc_relr relr align off = write_relr relr align (addr + off).
Proof.
  intros Ha. unfold alloc_relr, write_relr. destruct relr; [|reflexivity]. cbn [andb].
  destruct (N.leb_spec 2 align) as [H|H]; [|rewrite andb_false_r; reflexivity].
  rewrite andb_true_r. cbn [andb]. rewrite N.even_add, (Ha H). destruct (N.even off); reflexivity.
Qed.

Lemma upd_same m a v : upd m a v a = v.
Proof. unfold upd. rewrite N.eqb_refl. reflexivity. Qed.
Lemma upd_other m a v x : x <> a -> upd m a v x = m x.
Proof. intros H. unfold upd. destruct (N.eqb_spec x a); [contradiction|reflexivity]. Qed.

(* RELR tables made of address entries only *)
Lemma relr_places_even l : forall c, Forall (fun e => N.even e = true) l -> relr_places c l = l.
Proof. induction l as [|e r IH]; intros c H; [reflexivity|]. inversion H; subst. cbn [relr_places]. rewrite H2. f_equal. apply IH. assumption. Qed.

Lemma apply_relr_even base l : forall m c x,
  Forall (fun e => N.even e = true) l -> NoDup l ->
  apply_relr base m c l x = if existsb (N.eqb x) l then m x + base else m x.
Proof.
  induction l as [|e r IH]; intros m c x He Hnd; [reflexivity|].
  inversion He; subst. inversion Hnd; subst. cbn [apply_relr existsb]. rewrite H1. rewrite IH by assumption.
  unfold reloc_word. destruct (N.eqb_spec x e) as [->|Hne].
  - cbn [orb]. rewrite upd_same.
    destruct (existsb (N.eqb e) r) eqn:Ex; [|reflexivity].
    apply existsb_exists in Ex. destruct Ex as [y [Hy Ey]]. apply N.eqb_eq in Ey. subst y. contradiction.
  - cbn [orb]. rewrite upd_other by exact Hne. reflexivity.
Qed.

Lemma apply_rela_fold base l : forall m x,
  NoDup (map fst l) ->
  fold_left (apply_rela base) l m x =
    match find (fun r => fst r =? x) l with Some r => base + snd r | None => m x end.
Proof.
  induction l as [|r t IH]; intros m x Hnd; [reflexivity|].
  cbn [map] in Hnd. inversion Hnd; subst. cbn [fold_left find]. rewrite IH by assumption.
  destruct (N.eqb_spec (fst r) x) as [E|E].
  - destruct (find (fun r0 => fst r0 =? x) t) as [r'|] eqn:Ef.
    + apply find_some in Ef. destruct Ef as [Hin Ex]. apply N.eqb_eq in Ex. exfalso. apply H1.
      rewrite E, <- Ex. apply in_map. exact Hin.
    + unfold apply_rela. rewrite <- E. apply upd_same.
  - destruct (find (fun r0 => fst r0 =? x) t); [reflexivity|].
    unfold apply_rela. apply upd_other. intros H. apply E. symmetry. exact H.
Qed.

(* what emit has produced after a prefix of the sites *)
Record emitted (relr_en : bool) (m0 : N -> N) (done : list site) (im : image) : Prop := {
  e_cover : forall x, In x (map fst (rela im) ++ relr im) <-> In x (map s_place done);
  e_nodup : NoDup (map fst (rela im) ++ relr im);
  e_even : Forall (fun e => N.even e = true) (relr im);
  e_rela : forall s, In s done -> In (s_place s) (map fst (rela im)) -> In (s_place s, s_target s) (rela im);
  e_relr : forall s, In s done -> In (s_place s) (relr im) -> mem im (s_place s) = s_target s;
  e_rest : forall x, ~ In x (map s_place done) -> mem im x = m0 x }.

Lemma nodup_insert {A} (l1 l2 : list A) x : NoDup (l1 ++ l2) -> ~ In x (l1 ++ l2) -> NoDup (l1 ++ x :: l2).
Proof.
  induction l1 as [|y l1 IH]; cbn [app]; intros Hnd Hx.
  - constructor; assumption.
  - inversion Hnd; subst. constructor.
    + intros Hin. apply in_app_iff in Hin. cbn [In] in Hin. destruct Hin as [Hin|[->|Hin]].
      * apply H1. apply in_app_iff. left. exact Hin.
      * apply Hx. left. reflexivity.
      * apply H1. apply in_app_iff. right. exact Hin.
    + apply IH; [assumption|]. intros Hin. apply Hx. right. exact Hin.
Qed.
Lemma nodup_app_swap {A} (l1 l2 : list A) x : NoDup (l1 ++ l2) -> ~ In x (l1 ++ l2) -> NoDup ((l1 ++ [x]) ++ l2).
Proof. intros. rewrite <- app_assoc. cbn [app]. apply nodup_insert; assumption. Qed.
Lemma nodup_snoc {A} (l : list A) x : NoDup l -> ~ In x l -> NoDup (l ++ [x]).
Proof. intros. rewrite <- (app_nil_r l) in *. rewrite <- app_assoc. cbn [app]. apply nodup_insert; rewrite ?app_nil_r in *; assumption. Qed.

Lemma nodup_app_l {A} (l1 l2 : list A) : NoDup (l1 ++ l2) -> NoDup l1.
Proof.
  induction l1 as [|x l1 IH]; intros H; [constructor|]. cbn [app] in H. inversion H; subst.
  constructor; [intros Hin; apply H2; apply in_app_iff; left; exact Hin|apply IH; assumption].
Qed.

Lemma emit_invariant relr_en m0 sites :
  NoDup (map s_place sites) -> emitted relr_en m0 sites (emit relr_en m0 sites).
Proof.
  induction sites as [|s done IH] using rev_ind; intros Hnd.
  - unfold emit. cbn. constructor; cbn; try tauto; try constructor.
  - rewrite map_app in Hnd. cbn [map] in Hnd.
    assert (Hnd' : NoDup (map s_place done)) by (apply nodup_app_l in Hnd; exact Hnd).
    assert (Hnew : ~ In (s_place s) (map s_place done)).
    { apply NoDup_remove_2 in Hnd. rewrite app_nil_r in Hnd. exact Hnd. }
    specialize (IH Hnd'). unfold emit in *. rewrite fold_left_app. cbn [fold_left].
    set (im := fold_left (emit_site relr_en) done {| rela := []; relr := []; mem := m0 |}) in *.
    destruct IH as [Hc Hn He Hra Hrr Hre].
    assert (Hfresh : ~ In (s_place s) (map fst (rela im) ++ relr im)) by (rewrite Hc; exact Hnew).
    unfold emit_site. destruct (write_relr relr_en (s_align s) (s_place s)) eqn:Ew; cbn [rela relr mem].
    + (* a RELR entry *)
      assert (Hev : N.even (s_place s) = true).
      { unfold write_relr in Ew. apply andb_prop in Ew. destruct Ew as [_ H]. exact H. }
      constructor; cbn [rela relr mem].
      * intros x. rewrite map_app, !in_app_iff. cbn [map In]. rewrite <- (Hc x), in_app_iff. tauto.
      * rewrite app_assoc. apply nodup_snoc; assumption.
      * apply Forall_app. split; [exact He|constructor; [exact Hev|constructor]].
      * intros t Ht Hin. apply in_app_iff in Ht. destruct Ht as [Ht|[<-|[]]].
        -- apply Hra; assumption.
        -- exfalso. apply Hfresh. apply in_app_iff. left. exact Hin.
      * intros t Ht Hin. apply in_app_iff in Ht. destruct Ht as [Ht|[<-|[]]].
        -- destruct (N.eq_dec (s_place t) (s_place s)) as [E|E].
           ++ exfalso. apply Hnew. rewrite <- E. apply in_map. exact Ht.
           ++ rewrite upd_other by exact E. apply Hrr; [exact Ht|].
              apply in_app_iff in Hin. destruct Hin as [Hin|[Hin|[]]]; [exact Hin|exfalso; apply E; symmetry; exact Hin].
        -- apply upd_same.
      * intros x Hx. rewrite map_app, in_app_iff in Hx. cbn [map In] in Hx.
        rewrite upd_other by (intros ->; apply Hx; right; left; reflexivity). apply Hre. tauto.
    + (* a RELA entry *)
      constructor; cbn [rela relr mem].
      * intros x. rewrite !map_app, !in_app_iff. cbn [map In fst]. rewrite <- (Hc x), in_app_iff. tauto.
      * rewrite map_app. cbn [map fst]. apply nodup_app_swap; assumption.
      * exact He.
      * intros t Ht Hin. rewrite map_app, in_app_iff in Hin. cbn [map In fst] in Hin.
        apply in_app_iff in Ht. apply in_app_iff. destruct Ht as [Ht|[<-|[]]].
        -- destruct Hin as [Hin|[Hin|[]]]; [left; apply Hra; assumption|].
           exfalso. apply Hnew. rewrite Hin. apply in_map. exact Ht.
        -- right. left. reflexivity.
      * intros t Ht Hin. apply in_app_iff in Ht. destruct Ht as [Ht|[<-|[]]].
        -- destruct (N.eq_dec (s_place t) (s_place s)) as [E|E].
           ++ exfalso. apply Hnew. rewrite <- E. apply in_map. exact Ht.
           ++ rewrite upd_other by exact E. apply Hrr; assumption.
        -- exfalso. apply Hfresh. apply in_app_iff. right. exact Hin.
      * intros x Hx. rewrite map_app, in_app_iff in Hx. cbn [map In] in Hx.
        rewrite upd_other by (intros ->; apply Hx; right; left; reflexivity). apply Hre. tauto.
Qed.

(* ---------- the loaded image ---------- *)
Theorem image_shift relr_en m0 sites base :
  NoDup (map s_place sites) ->
  (forall s, In s sites -> load base (emit relr_en m0 sites) (s_place s) = s_target s + base) /\
  (forall x, ~ In x (map s_place sites) -> load base (emit relr_en m0 sites) x = m0 x).
Proof.
  intros Hnd. destruct (emit_invariant relr_en m0 sites Hnd) as [Hc Hn He Hra Hrr Hre].
  set (im := emit relr_en m0 sites) in *.
  assert (Hnr : NoDup (map fst (rela im))) by (apply nodup_app_l in Hn; exact Hn).
  assert (Hnl : NoDup (relr im)).
  { clear -Hn. induction (map fst (rela im)) as [|y l IH]; [exact Hn|]. cbn [app] in Hn. inversion Hn; subst. apply IH. assumption. }
  unfold load. split.
  - intros s Hs.
    assert (Hin : In (s_place s) (map fst (rela im) ++ relr im)) by (apply Hc; apply in_map; exact Hs).
    rewrite (apply_relr_even base (relr im) _ 0 (s_place s) He Hnl).
    rewrite (apply_rela_fold base (rela im) (mem im) (s_place s) Hnr).
    apply in_app_iff in Hin. destruct Hin as [Hin|Hin].
    + (* RELA: not in the RELR list *)
      assert (Hnot : existsb (N.eqb (s_place s)) (relr im) = false).
      { destruct (existsb (N.eqb (s_place s)) (relr im)) eqn:Ex; [|reflexivity].
        apply existsb_exists in Ex. destruct Ex as [y [Hy Ey]]. apply N.eqb_eq in Ey. subst y.
        exfalso. clear -Hn Hin Hy. induction (map fst (rela im)) as [|z l IH]; [destruct Hin|].
        cbn [app] in Hn. inversion Hn; subst. destruct Hin as [->|Hin]; [apply H1; apply in_app_iff; right; exact Hy|apply IH; assumption]. }
      rewrite Hnot. pose proof (Hra s Hs Hin) as Hpair.
      destruct (find (fun r => fst r =? s_place s) (rela im)) as [r|] eqn:Ef.
      * apply find_some in Ef. destruct Ef as [Hr Er]. apply N.eqb_eq in Er.
        (* the entry found is the site's own: places are unique *)
        assert (r = (s_place s, s_target s)).
        { clear -Hnr Hr Er Hpair. induction (rela im) as [|q l IH]; [destruct Hr|].
          cbn [map] in Hnr. inversion Hnr; subst.
          destruct Hr as [->|Hr]; destruct Hpair as [Hp|Hp].
          - exact Hp.
          - exfalso. apply H1. rewrite Er. change (s_place s) with (fst (s_place s, s_target s)). apply in_map. exact Hp.
          - exfalso. apply H1. rewrite Hp. cbn [fst]. rewrite <- Er. apply in_map. exact Hr.
          - apply IH; assumption. }
        subst r. cbn [snd]. lia.
      * exfalso. apply (find_none _ _ Ef) in Hpair. cbn [fst] in Hpair. rewrite N.eqb_refl in Hpair. discriminate.
    + (* RELR *)
      assert (Hyes : existsb (N.eqb (s_place s)) (relr im) = true).
      { apply existsb_exists. exists (s_place s). split; [exact Hin|apply N.eqb_refl]. }
      rewrite Hyes.
      destruct (find (fun r => fst r =? s_place s) (rela im)) as [r|] eqn:Ef.
      * exfalso. apply find_some in Ef. destruct Ef as [Hr Er]. apply N.eqb_eq in Er.
        clear -Hn Hr Er Hin. assert (Hm : In (s_place s) (map fst (rela im))) by (rewrite <- Er; apply in_map; exact Hr).
        induction (map fst (rela im)) as [|z l IH]; [destruct Hm|].
        cbn [app] in Hn. inversion Hn; subst. destruct Hm as [->|Hm]; [apply H1; apply in_app_iff; right; exact Hin|apply IH; assumption].
      * rewrite (Hrr s Hs Hin). reflexivity.
  - intros x Hx.
    assert (Hnot : ~ In x (map fst (rela im) ++ relr im)) by (rewrite Hc; exact Hx).
    rewrite (apply_relr_even base (relr im) _ 0 x He Hnl).
    rewrite (apply_rela_fold base (rela im) (mem im) x Hnr).
    assert (E1 : existsb (N.eqb x) (relr im) = false).
    { destruct (existsb (N.eqb x) (relr im)) eqn:Ex; [|reflexivity].
      apply existsb_exists in Ex. destruct Ex as [y [Hy Ey]]. apply N.eqb_eq in Ey. subst y.
      exfalso. apply Hnot. apply in_app_iff. right. exact Hy. }
    rewrite E1.
    destruct (find (fun r => fst r =? x) (rela im)) as [r|] eqn:Ef.
    + exfalso. apply find_some in Ef. destruct Ef as [Hr Er]. apply N.eqb_eq in Er.
      apply Hnot. apply in_app_iff. left. rewrite <- Er. apply in_map. exact Hr.
    + apply Hre. exact Hx.
Qed.

(* every place that holds an address is covered by exactly one dynamic relocation, and every RELR entry decodes to one *)
Theorem exactly_one_dynrel_per_site relr_en m0 sites :
  NoDup (map s_place sites) ->
  let im := emit relr_en m0 sites in
  NoDup (map fst (rela im) ++ relr_places 0 (relr im)) /\
  (forall x, In x (map fst (rela im) ++ relr_places 0 (relr im)) <-> In x (map s_place sites)) /\
  Forall (fun e => N.even e = true) (relr im).
Proof.
  intros Hnd im. destruct (emit_invariant relr_en m0 sites Hnd) as [Hc Hn He _ _ _]. fold im in Hc, Hn, He.
  rewrite (relr_places_even (relr im) 0 He). repeat split; assumption || apply Hc.
Qed.
