(* C09 — position-independent outputs are correct at any load address (and C23's obligation for the relative
   relocation tables): the property theorems.  Model: C09/Model.v. *)
From Coq Require Import NArith List Bool.
From WV Require Import C09.Model C09.Proofs.
Import ListNotations.
Open Scope N_scope.

(* For every set of address sites (any places, odd or even, any section alignments), with or without
   -z pack-relative-relocs, and every load base: after the loader has applied the emitted RELA and RELR tables, every
   site holds its link-time target shifted by the base, and every other word is what it was. *)
Theorem C09_image_shifts_with_the_base :
  forall relr_en m0 sites base, NoDup (map s_place sites) ->
    (forall s, In s sites -> load base (emit relr_en m0 sites) (s_place s) = s_target s + base) /\
    (forall x, ~ In x (map s_place sites) -> load base (emit relr_en m0 sites) x = m0 x).
Proof. exact image_shift. Qed.
Print Assumptions C09_image_shifts_with_the_base.

(* every site is covered by exactly one dynamic relocation; every RELR entry is an even address of a site *)
Theorem C09_exactly_one_dynamic_relocation_per_site :
  forall relr_en m0 sites, NoDup (map s_place sites) ->
    let im := emit relr_en m0 sites in
    NoDup (map fst (rela im) ++ relr_places 0 (relr im)) /\
    (forall x, In x (map fst (rela im) ++ relr_places 0 (relr im)) <-> In x (map s_place sites)) /\
    Forall (fun e => N.even e = true) (relr im).
Proof. exact exactly_one_dynrel_per_site. Qed.
Print Assumptions C09_exactly_one_dynamic_relocation_per_site.

(* the space layout reserves (RELR vs RELA entry) is the space the writer uses, for every alignment, section address
   and offset — the defect repaired in /repo made these differ for alignment-1 sections at odd addresses *)
Theorem C23_relative_relocation_space_matches :
  forall relr align addr off, (2 <= align -> N.even addr = true) ->
    alloc_relr relr align off = write_relr relr align (addr + off).
Proof. exact alloc_matches_write. Qed.
Print Assumptions C23_relative_relocation_space_matches.

(* what the old rule (parity of the offset alone, for the reservation) did *)
Theorem C23_refuted_for_the_offset_parity_rule :
  let old_alloc (relr : bool) (off : N) := relr && N.even off in
  let old_write (relr : bool) (place : N) := relr && N.even place in
  old_alloc true 0 = true /\ old_write true (1 + 0) = false.
Proof. vm_compute. split; reflexivity. Qed.
Print Assumptions C23_refuted_for_the_offset_parity_rule.

Example C09_hypotheses_satisfiable :
  let sites := [{| s_place := 4096; s_target := 8192; s_align := 8 |}; {| s_place := 4105; s_target := 8200; s_align := 1 |}] in
  NoDup (map s_place sites) /\
  relr (emit true (fun _ => 7) sites) = [4096] /\ rela (emit true (fun _ => 7) sites) = [(4105, 8200)] /\
  load 65536 (emit true (fun _ => 7) sites) 4096 = 73728 /\ load 65536 (emit true (fun _ => 7) sites) 4105 = 73736.
Proof. split; [repeat constructor; cbn; intuition discriminate|vm_compute; repeat split; reflexivity]. Qed.
