(* Bit-slice reflection for machine-word functions built from and/or/shift/truncate/sign-extend.

   A word expression [wexpr] evaluates to an N under an environment of word variables.
   [bit e i] is a boolean formula over the *bits of the variables* describing bit i of the value.
   [bit_sound] : N.testbit (eval rho e) i = beval (bits of rho) (bit e i).
   Statements of the form "for all values of the variables, bit i of e1 equals bit i of e2" are
   then decided by normalising the two formulas ([simp]) and comparing them syntactically; the
   check is finite (one formula per bit position) and its soundness is a lemma — a proof for all
   inputs, not a sample. *)
From Coq Require Import Arith NArith List Bool Lia.
Import ListNotations.
Open Scope N_scope.

Inductive wexpr :=
| Var (x : nat)
| Const (c : N)
| And (a b : wexpr)
| Or (a b : wexpr)
| Shl (a : wexpr) (k : N)
| Shr (a : wexpr) (k : N)
| Trunc (n : N) (a : wexpr)          (* keep bits [0,n) *)
| SExt (s : N) (a : wexpr).          (* bits above s, below 64, are OR-ed with bit s (Rust sign_extend) *)

Definition env := nat -> N.

Definition sext64 (s x : N) : N :=
  if N.testbit x s then N.lor x (N.ldiff (N.ones 64) (N.ones (s + 1))) else x.

Fixpoint eval (r : env) (e : wexpr) : N :=
  match e with
  | Var x => r x
  | Const c => c
  | And a b => N.land (eval r a) (eval r b)
  | Or a b => N.lor (eval r a) (eval r b)
  | Shl a k => N.shiftl (eval r a) k
  | Shr a k => N.shiftr (eval r a) k
  | Trunc n a => N.land (eval r a) (N.ones n)
  | SExt s a => sext64 s (eval r a)
  end.

Inductive bexpr :=
| BVar (x : nat) (i : N)
| BConst (b : bool)
| BAnd (a b : bexpr)
| BOr (a b : bexpr).

Definition benv := nat -> N -> bool.
Definition bits_of (r : env) : benv := fun x i => N.testbit (r x) i.

Fixpoint beval (r : benv) (b : bexpr) : bool :=
  match b with
  | BVar x i => r x i
  | BConst c => c
  | BAnd a b => beval r a && beval r b
  | BOr a b => beval r a || beval r b
  end.

Fixpoint bit (e : wexpr) (i : N) : bexpr :=
  match e with
  | Var x => BVar x i
  | Const c => BConst (N.testbit c i)
  | And a b => BAnd (bit a i) (bit b i)
  | Or a b => BOr (bit a i) (bit b i)
  | Shl a k => if i <? k then BConst false else bit a (i - k)
  | Shr a k => bit a (i + k)
  | Trunc n a => if i <? n then bit a i else BConst false
  | SExt s a => if i <=? s then bit a i
                else if i <? 64 then BOr (bit a i) (bit a s) else bit a i
  end.

Lemma testbit_ones n i : N.testbit (N.ones n) i = (i <? n).
Proof.
  destruct (N.ltb_spec i n).
  - apply N.ones_spec_low. assumption.
  - apply N.ones_spec_high. assumption.
Qed.

Lemma sext64_spec s x i :
  N.testbit (sext64 s x) i =
  if i <=? s then N.testbit x i
  else if i <? 64 then N.testbit x i || N.testbit x s else N.testbit x i.
Proof.
  unfold sext64. destruct (N.testbit x s) eqn:Hs.
  - rewrite N.lor_spec, N.ldiff_spec, !testbit_ones.
    destruct (N.leb_spec i s); destruct (N.ltb_spec i 64); destruct (N.ltb_spec i (s + 1));
      try lia; cbn; rewrite ?orb_false_r, ?orb_true_r; reflexivity.
  - destruct (N.leb_spec i s); destruct (N.ltb_spec i 64); rewrite ?orb_false_r; reflexivity.
Qed.

Theorem bit_sound r e : forall i, N.testbit (eval r e) i = beval (bits_of r) (bit e i).
Proof.
  induction e as [x|c|a IHa b IHb|a IHa b IHb|a IHa k|a IHa k|n a IHa|s a IHa]; intros i; cbn [eval bit beval].
  - reflexivity.
  - reflexivity.
  - rewrite N.land_spec, IHa, IHb. reflexivity.
  - rewrite N.lor_spec, IHa, IHb. reflexivity.
  - destruct (N.ltb_spec i k).
    + rewrite N.shiftl_spec_low by assumption. reflexivity.
    + rewrite N.shiftl_spec_high' by assumption. apply IHa.
  - rewrite N.shiftr_spec'. apply IHa.
  - rewrite N.land_spec, testbit_ones. destruct (N.ltb_spec i n).
    + rewrite andb_true_r. apply IHa.
    + rewrite andb_false_r. reflexivity.
  - rewrite sext64_spec.
    destruct (N.leb_spec i s); [apply IHa|].
    destruct (N.ltb_spec i 64); cbn [beval]; rewrite ?IHa; reflexivity.
Qed.

(* ---- normalisation of bit formulas: constant folding ---- *)
Definition mk_and (a b : bexpr) : bexpr :=
  match a, b with
  | BConst false, _ => BConst false
  | _, BConst false => BConst false
  | BConst true, _ => b
  | _, BConst true => a
  | _, _ => BAnd a b
  end.
Definition mk_or (a b : bexpr) : bexpr :=
  match a, b with
  | BConst true, _ => BConst true
  | _, BConst true => BConst true
  | BConst false, _ => b
  | _, BConst false => a
  | _, _ => BOr a b
  end.
Fixpoint simp (b : bexpr) : bexpr :=
  match b with
  | BAnd x y => mk_and (simp x) (simp y)
  | BOr x y => mk_or (simp x) (simp y)
  | _ => b
  end.

Lemma mk_and_sound r a b : beval r (mk_and a b) = beval r a && beval r b.
Proof.
  destruct a as [x i|[|]|a1 a2|a1 a2]; destruct b as [y j|[|]|b1 b2|b1 b2]; cbn;
    rewrite ?andb_true_r, ?andb_false_r; reflexivity.
Qed.
Lemma mk_or_sound r a b : beval r (mk_or a b) = beval r a || beval r b.
Proof.
  destruct a as [x i|[|]|a1 a2|a1 a2]; destruct b as [y j|[|]|b1 b2|b1 b2]; cbn;
    rewrite ?orb_true_r, ?orb_false_r; reflexivity.
Qed.
Lemma simp_sound r b : beval r (simp b) = beval r b.
Proof.
  induction b as [x i|c|a IHa b IHb|a IHa b IHb]; cbn [simp beval]; try reflexivity.
  - rewrite mk_and_sound, IHa, IHb. reflexivity.
  - rewrite mk_or_sound, IHa, IHb. reflexivity.
Qed.

Fixpoint bexpr_eqb (a b : bexpr) : bool :=
  match a, b with
  | BVar x i, BVar y j => Nat.eqb x y && (i =? j)
  | BConst c, BConst d => Bool.eqb c d
  | BAnd a1 a2, BAnd b1 b2 => bexpr_eqb a1 b1 && bexpr_eqb a2 b2
  | BOr a1 a2, BOr b1 b2 => bexpr_eqb a1 b1 && bexpr_eqb a2 b2
  | _, _ => false
  end.

Lemma bexpr_eqb_sound a : forall b, bexpr_eqb a b = true -> a = b.
Proof.
  induction a as [x i|c|a1 IH1 a2 IH2|a1 IH1 a2 IH2]; intros [y j|d|b1 b2|b1 b2]; cbn; try discriminate.
  - intros H. apply andb_prop in H. destruct H as [H1 H2].
    apply Nat.eqb_eq in H1. apply N.eqb_eq in H2. subst. reflexivity.
  - intros H. apply Bool.eqb_prop in H. subst. reflexivity.
  - intros H. apply andb_prop in H. destruct H as [H1 H2].
    rewrite (IH1 _ H1), (IH2 _ H2). reflexivity.
  - intros H. apply andb_prop in H. destruct H as [H1 H2].
    rewrite (IH1 _ H1), (IH2 _ H2). reflexivity.
Qed.

(* formula does not mention variable x *)
Fixpoint no_var (x : nat) (b : bexpr) : bool :=
  match b with
  | BVar y _ => negb (Nat.eqb x y)
  | BConst _ => true
  | BAnd a b | BOr a b => no_var x a && no_var x b
  end.

Lemma no_var_sound x b r1 r2 :
  no_var x b = true -> (forall y i, y <> x -> r1 y i = r2 y i) -> beval r1 b = beval r2 b.
Proof.
  intros H Hr. induction b as [y i|c|a IHa b IHb|a IHa b IHb]; cbn in *.
  - apply Hr. apply negb_true_iff in H. apply Nat.eqb_neq in H. congruence.
  - reflexivity.
  - apply andb_prop in H. destruct H. rewrite IHa, IHb by assumption. reflexivity.
  - apply andb_prop in H. destruct H. rewrite IHa, IHb by assumption. reflexivity.
Qed.

(* ---- the three generic deciders, each with its soundness theorem ---- *)

(* bits of e1 and e2 agree at every position i < 64 selected by [sel] *)
Definition bits_agree_on (sel : N -> bool) (e1 e2 : wexpr) : bool :=
  forallb (fun i => if sel i then bexpr_eqb (simp (bit e1 i)) (simp (bit e2 i)) else true)
          (map N.of_nat (seq 0 64)).

Lemma in_range64 i : i < 64 -> In i (map N.of_nat (seq 0 64)).
Proof.
  intros H. apply in_map_iff. exists (N.to_nat i). split; [apply N2Nat.id|].
  apply in_seq. lia.
Qed.

Theorem bits_agree_on_sound sel e1 e2 :
  bits_agree_on sel e1 e2 = true ->
  forall r i, i < 64 -> sel i = true -> N.testbit (eval r e1) i = N.testbit (eval r e2) i.
Proof.
  intros H r i Hi Hs. unfold bits_agree_on in H. rewrite forallb_forall in H.
  specialize (H i (in_range64 i Hi)). rewrite Hs in H.
  apply bexpr_eqb_sound in H.
  rewrite !bit_sound, <- (simp_sound _ (bit e1 i)), <- (simp_sound _ (bit e2 i)), H. reflexivity.
Qed.

(* at every selected position i < 64 the bit of e does not depend on variable x *)
Definition bits_indep_on (sel : N -> bool) (x : nat) (e : wexpr) : bool :=
  forallb (fun i => if sel i then no_var x (simp (bit e i)) else true) (map N.of_nat (seq 0 64)).

Theorem bits_indep_on_sound sel x e :
  bits_indep_on sel x e = true ->
  forall r1 r2 i, i < 64 -> sel i = true -> (forall y, y <> x -> r1 y = r2 y) ->
  N.testbit (eval r1 e) i = N.testbit (eval r2 e) i.
Proof.
  intros H r1 r2 i Hi Hs Hr. unfold bits_indep_on in H. rewrite forallb_forall in H.
  specialize (H i (in_range64 i Hi)). rewrite Hs in H.
  rewrite !bit_sound, <- (simp_sound _ (bit e i)), <- (simp_sound (bits_of r2) (bit e i)).
  apply (no_var_sound x); [assumption|].
  intros y j Hy. unfold bits_of. rewrite (Hr y Hy). reflexivity.
Qed.

(* substitution of an expression for a variable *)
Fixpoint subst (x : nat) (t : wexpr) (e : wexpr) : wexpr :=
  match e with
  | Var y => if Nat.eqb x y then t else Var y
  | Const c => Const c
  | And a b => And (subst x t a) (subst x t b)
  | Or a b => Or (subst x t a) (subst x t b)
  | Shl a k => Shl (subst x t a) k
  | Shr a k => Shr (subst x t a) k
  | Trunc n a => Trunc n (subst x t a)
  | SExt s a => SExt s (subst x t a)
  end.

Definition upd (r : env) (x : nat) (v : N) : env := fun y => if Nat.eqb x y then v else r y.

Lemma eval_subst r x t e : eval r (subst x t e) = eval (upd r x (eval r t)) e.
Proof.
  induction e as [y|c|a IHa b IHb|a IHa b IHb|a IHa k|a IHa k|n a IHa|s a IHa]; cbn [subst eval];
    rewrite ?IHa, ?IHb; try reflexivity.
  unfold upd. destruct (Nat.eqb x y); reflexivity.
Qed.

Lemma eval_trunc_lt r n a : eval r (Trunc n a) < 2 ^ n.
Proof.
  cbn [eval]. rewrite N.land_ones. apply N.mod_lt. apply N.pow_nonzero. discriminate.
Qed.

Lemma trunc_small v n : v < 2 ^ n -> N.land v (N.ones n) = v.
Proof. intros. rewrite N.land_ones. apply N.mod_small. assumption. Qed.

Lemma eval_ext r1 r2 e : (forall x, r1 x = r2 x) -> eval r1 e = eval r2 e.
Proof.
  intros H. induction e as [y|c|a IHa b IHb|a IHa b IHb|a IHa k|a IHa k|n a IHa|s a IHa]; cbn [eval];
    rewrite ?IHa, ?IHb; auto.
Qed.

Fixpoint mentions (x : nat) (e : wexpr) : bool :=
  match e with
  | Var y => Nat.eqb x y
  | Const _ => false
  | And a b | Or a b => mentions x a || mentions x b
  | Shl a _ | Shr a _ | Trunc _ a | SExt _ a => mentions x a
  end.

Lemma eval_no_mention x e r1 r2 :
  mentions x e = false -> (forall y, y <> x -> r1 y = r2 y) -> eval r1 e = eval r2 e.
Proof.
  intros H Hr. induction e as [y|c|a IHa b IHb|a IHa b IHb|a IHa k|a IHa k|n a IHa|s a IHa];
    cbn [eval mentions] in *.
  - apply Hr. apply Nat.eqb_neq in H. congruence.
  - reflexivity.
  - apply orb_false_elim in H. destruct H. rewrite IHa, IHb by assumption. reflexivity.
  - apply orb_false_elim in H. destruct H. rewrite IHa, IHb by assumption. reflexivity.
  - rewrite IHa by assumption. reflexivity.
  - rewrite IHa by assumption. reflexivity.
  - rewrite IHa by assumption. reflexivity.
  - rewrite IHa by assumption. reflexivity.
Qed.

Fixpoint only_var (x : nat) (e : wexpr) : bool :=
  match e with
  | Var y => Nat.eqb x y
  | Const _ => true
  | And a b | Or a b => only_var x a && only_var x b
  | Shl a _ | Shr a _ | Trunc _ a | SExt _ a => only_var x a
  end.

Lemma eval_only_var x e r1 r2 : only_var x e = true -> r1 x = r2 x -> eval r1 e = eval r2 e.
Proof.
  intros H Hr. induction e as [y|c|a IHa b IHb|a IHa b IHb|a IHa k|a IHa k|n a IHa|s a IHa];
    cbn [eval only_var] in *.
  - apply Nat.eqb_eq in H. subst. assumption.
  - reflexivity.
  - apply andb_prop in H. destruct H. rewrite IHa, IHb by assumption. reflexivity.
  - apply andb_prop in H. destruct H. rewrite IHa, IHb by assumption. reflexivity.
  - rewrite IHa by assumption. reflexivity.
  - rewrite IHa by assumption. reflexivity.
  - rewrite IHa by assumption. reflexivity.
  - rewrite IHa by assumption. reflexivity.
Qed.
