(* C12 — RelocationKindInfo::verify and the byte-size arm of write_to_buffer (linker-utils/src/elf.rs),
   over the table regenerated from the compiled crate (Gen/RelocTables.v). *)
From Coq Require Import ZArith List Bool.
From WV Require Import C12.Types Gen.RelocTables.
Import ListNotations.
Open Scope Z_scope.

Definition W : Z := 2 ^ 64.
Definition I64MIN : Z := - 2 ^ 63.
Definition I64MAX : Z := 2 ^ 63 - 1.
Definition in_i64 (v : Z) : Prop := I64MIN <= v <= I64MAX.

(* verify(value as i64): (value as usize).is_multiple_of(alignment) && range.contains(value) *)
(* AllowedRange::contains: max is exclusive, except that an upper bound of i64::MAX means unbounded *)
Definition verify (r : row) (v : Z) : bool :=
  ((v mod W) mod r_align r =? 0) && (r_min r <=? v) && ((v <? r_max r) || (r_max r =? I64MAX)).
Definition rmax_eff (r : row) : Z := if r_max r =? I64MAX then 2 ^ 63 else r_max r.

(* the number stored by output[..n].copy_from_slice(&value.to_le_bytes()[..n]) *)
Definition field_bytes (n v : Z) : Z := (v mod W) mod 2 ^ (8 * n).

Definition lookup (arch t : Z) : option row :=
  find (fun r => (r_arch r =? arch) && (r_type r =? t)) rows.

Definition nocheck (r : row) : bool := (r_min r =? I64MIN) && (r_max r =? I64MAX).

(* write_to_buffer outcome on a byte-size row: None = error *)
Definition write_bytes (r : row) (v : Z) : option Z :=
  if verify r v then match r_size r with RBytes n => Some (field_bytes n v) | _ => None end else None.
