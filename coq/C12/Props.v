(* C12 — property theorems only.  The two [vm_compute] lemmas are the finite row checks over the
   table REGENERATED from /repo on this run; an edit of the relocation tables that breaks a row
   makes this file fail to compile. *)
From Coq Require Import ZArith List Bool.
From WV Require Import C12.Types Gen.RelocTables C12.Model C12.Spec C12.Proofs.
Open Scope Z_scope.

Lemma spec_rows_checked : forallb spec_row_ok spec = true.
Proof. vm_compute. reflexivity. Qed.
Lemma trunc_rows_checked : forallb (fun r => implb (is_x86_or_a64 r) (trunc_ok r)) rows = true.
Proof. vm_compute. reflexivity. Qed.

Lemma width_rows_checked : forallb width_ok field_width_spec = true.
Proof. vm_compute. reflexivity. Qed.

(* a verified value is written into exactly the psABI field: n bytes, the low n bytes of the value *)
Theorem C12_field_width : forall a t n, In (a, t, n) field_width_spec ->
  exists r, lookup a t = Some r /\ r_size r = RBytes n.
Proof. exact (field_width_ width_rows_checked). Qed.

Theorem C12_accept_complete : forall s r v, In s spec -> lookup (s_arch s) (s_type s) = Some r ->
  both_accept s v -> verify r v = true.
Proof. exact (accept_complete_ spec_rows_checked). Qed.
Theorem C12_reject_sound : forall s r v, In s spec -> lookup (s_arch s) (s_type s) = Some r ->
  both_reject s v -> verify r v = false.
Proof. exact (reject_sound_ spec_rows_checked). Qed.
Theorem C12_table_total : forall s, In s spec -> exists r, lookup (s_arch s) (s_type s) = Some r.
Proof. exact (table_total_ spec_rows_checked). Qed.
Theorem C12_no_truncation : forall r v, In r rows -> is_x86_or_a64 r = true -> v <= I64MAX -> verify r v = true -> fits r v.
Proof. exact (no_truncation_ trunc_rows_checked). Qed.

Check C12_accept_complete : forall s r v, In s spec -> lookup (s_arch s) (s_type s) = Some r ->
  (acc_lo s <= v < acc_hi s /\ v mod acc_align s = 0) -> verify r v = true.
Check C12_reject_sound : forall s r v, In s spec -> lookup (s_arch s) (s_type s) = Some r ->
  (- 2 ^ 63 <= v < 2 ^ 63 /\ (v < rej_lo s \/ rej_hi s <= v)) -> verify r v = false.

Print Assumptions C12_accept_complete.
Print Assumptions C12_reject_sound.
Print Assumptions C12_table_total.
Print Assumptions C12_no_truncation.
Print Assumptions C12_field_width.
