(* C12 — specification table, written by hand from the psABI documents and from the overflow
   rules of GNU ld 2.40 (bfd HOWTO complain_overflow_xxx) and lld 14 (checkInt/checkUInt/checkIntUInt).
   acc = values BOTH linkers accept (and psABI allows); rej = outside [rej_lo, rej_hi) BOTH reject.
   Where the two linkers (or my reading of bfd for AArch64, which cannot be validated here) differ,
   acc is the intersection and rej the complement of the union, so the spec never demands more
   than the property does.  x86-64 rows are validated against the installed ld and ld.lld by the
   check's spec-validation step. *)
From Coq Require Import ZArith List.
Import ListNotations.
Open Scope Z_scope.

Record srow := { s_arch : Z; s_type : Z; acc_lo : Z; acc_hi : Z; acc_align : Z; rej_lo : Z; rej_hi : Z }.
Definition S (a t al ah aa rl rh : Z) : srow :=
  {| s_arch := a; s_type := t; acc_lo := al; acc_hi := ah; acc_align := aa; rej_lo := rl; rej_hi := rh |}.
Definition full (a t : Z) := S a t (- 2 ^ 63) (2 ^ 63) 1 (- 2 ^ 63) (2 ^ 63).
Definition s32 (a t : Z) := S a t (- 2 ^ 31) (2 ^ 31) 1 (- 2 ^ 31) (2 ^ 31).

Definition spec : list srow := [
  (* ---- x86-64 (arch 0) ---- *)
  full 0 1;                                   (* R_X86_64_64 *)
  s32 0 2; s32 0 4; s32 0 9; s32 0 11;        (* PC32 PLT32 GOTPCREL 32S *)
  s32 0 19; s32 0 20; s32 0 21; s32 0 22; s32 0 23; s32 0 26; s32 0 34; s32 0 41; s32 0 42;
  S 0 10 0 (2 ^ 32) 1 0 (2 ^ 32);             (* R_X86_64_32: unsigned *)
  S 0 12 (- 2 ^ 15) (2 ^ 16) 1 (- 2 ^ 16) (2 ^ 16);   (* R_X86_64_16: bfd bitfield accepts [-2^16,2^16), lld checkIntUInt [-2^15,2^16) *)
  S 0 14 (- 2 ^ 7) (2 ^ 8) 1 (- 2 ^ 8) (2 ^ 8);       (* R_X86_64_8: likewise (validated: ld accepts -129, lld rejects) *)
  S 0 13 (- 2 ^ 15) (2 ^ 15) 1 (- 2 ^ 16) (2 ^ 16);   (* PC16: lld signed, bfd bitfield *)
  S 0 15 (- 2 ^ 7) (2 ^ 7) 1 (- 2 ^ 7) (2 ^ 7);       (* PC8: a sign-extended displacement; bfd complain_overflow_signed and lld checkInt both reject 128..255 (validated) *)
  S 0 3 0 (2 ^ 31) 1 (- 2 ^ 31) (2 ^ 32);             (* GOT32: sign convention differs: conservative *)
  full 0 24; full 0 25; full 0 17; full 0 27; full 0 29; full 0 31;
  (* ---- AArch64 (arch 1) ---- *)
  full 1 257; full 1 260;                                         (* ABS64 PREL64 *)
  S 1 258 0 (2 ^ 31) 1 (- 2 ^ 31) (2 ^ 32);                       (* ABS32 *)
  S 1 261 0 (2 ^ 31) 1 (- 2 ^ 31) (2 ^ 32);                       (* PREL32 *)
  S 1 259 0 (2 ^ 15) 1 (- 2 ^ 15) (2 ^ 16);                       (* ABS16 *)
  S 1 262 0 (2 ^ 15) 1 (- 2 ^ 15) (2 ^ 16);                       (* PREL16 *)
  S 1 263 0 (2 ^ 16) 1 0 (2 ^ 16);                                (* MOVW_UABS_G0 *)
  S 1 265 0 (2 ^ 32) 1 0 (2 ^ 32);                                (* MOVW_UABS_G1 *)
  S 1 267 0 (2 ^ 48) 1 0 (2 ^ 48);                                (* MOVW_UABS_G2 *)
  full 1 264; full 1 266; full 1 268; full 1 269;                 (* _NC / G3 *)
  S 1 270 (- 2 ^ 16) (2 ^ 16) 1 (- 2 ^ 16) (2 ^ 16);              (* MOVW_SABS_G0 *)
  S 1 271 (- 2 ^ 32) (2 ^ 32) 1 (- 2 ^ 32) (2 ^ 32);
  S 1 272 (- 2 ^ 48) (2 ^ 48) 1 (- 2 ^ 48) (2 ^ 48);
  S 1 273 (- 2 ^ 20) (2 ^ 20) 4 (- 2 ^ 20) (2 ^ 20);              (* LD_PREL_LO19 *)
  S 1 274 (- 2 ^ 20) (2 ^ 20) 1 (- 2 ^ 20) (2 ^ 20);              (* ADR_PREL_LO21 *)
  S 1 275 (- 2 ^ 32) (2 ^ 32) 1 (- 2 ^ 32) (2 ^ 32);              (* ADR_PREL_PG_HI21 (page delta) *)
  full 1 276; full 1 277; full 1 278;                             (* PG_HI21_NC, ADD_ABS_LO12_NC, LDST8_ABS_LO12_NC *)
  S 1 279 (- 2 ^ 15) (2 ^ 15) 4 (- 2 ^ 15) (2 ^ 15);              (* TSTBR14 *)
  S 1 280 (- 2 ^ 20) (2 ^ 20) 4 (- 2 ^ 20) (2 ^ 20);              (* CONDBR19 *)
  S 1 282 (- 2 ^ 27) (2 ^ 27) 4 (- 2 ^ 27) (2 ^ 27);              (* JUMP26 *)
  S 1 283 (- 2 ^ 27) (2 ^ 27) 4 (- 2 ^ 27) (2 ^ 27);              (* CALL26 *)
  S 1 284 (- 2 ^ 63) (2 ^ 63) 2 (- 2 ^ 63) (2 ^ 63);              (* LDST16_ABS_LO12_NC *)
  S 1 285 (- 2 ^ 63) (2 ^ 63) 4 (- 2 ^ 63) (2 ^ 63);
  S 1 286 (- 2 ^ 63) (2 ^ 63) 8 (- 2 ^ 63) (2 ^ 63);
  S 1 299 (- 2 ^ 63) (2 ^ 63) 16 (- 2 ^ 63) (2 ^ 63);
  S 1 314 (- 2 ^ 31) (2 ^ 31) 1 (- 2 ^ 31) (2 ^ 31);              (* PLT32 *)
  S 1 315 (- 2 ^ 31) (2 ^ 31) 1 (- 2 ^ 31) (2 ^ 31)               (* GOTPCREL32 *)
].

(* width in bytes of the data-relocation fields (psABI) *)
Definition field_width_spec : list (Z * Z * Z) := [
  (0, 1, 8); (0, 24, 8); (0, 25, 8); (0, 17, 8); (0, 27, 8); (0, 29, 8); (0, 31, 8);
  (0, 2, 4); (0, 4, 4); (0, 9, 4); (0, 10, 4); (0, 11, 4); (0, 3, 4); (0, 19, 4); (0, 20, 4); (0, 21, 4); (0, 22, 4); (0, 23, 4);
  (0, 26, 4); (0, 34, 4); (0, 41, 4); (0, 42, 4);
  (0, 12, 2); (0, 13, 2); (0, 14, 1); (0, 15, 1);
  (1, 257, 8); (1, 260, 8); (1, 258, 4); (1, 261, 4); (1, 259, 2); (1, 262, 2);
  (1, 307, 8); (1, 308, 4); (1, 314, 4); (1, 315, 4)
].

Definition both_accept (s : srow) (v : Z) : Prop :=
  acc_lo s <= v < acc_hi s /\ v mod acc_align s = 0.
Definition both_reject (s : srow) (v : Z) : Prop :=
  - 2 ^ 63 <= v < 2 ^ 63 /\ (v < rej_lo s \/ rej_hi s <= v).
