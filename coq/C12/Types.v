From Coq Require Import ZArith.
Open Scope Z_scope.
(* one row of relocation_from_raw / relocation_type_from_raw *)
Inductive rsize := RBytes (n : Z) | RBits (insn : Z) (lo hi : Z).
Record row := { r_arch : Z; r_type : Z; r_size : rsize; r_masked : bool; r_min : Z; r_max : Z; r_align : Z }.
