From Coq Require Import ZArith List Bool Lia.
From WV Require Import C12.Types Gen.RelocTables C12.Model C12.Spec.
Import ListNotations.
Open Scope Z_scope.

(* ---------- row checkers ---------- *)
Definition accept_ok (s : srow) (r : row) : bool :=
  (r_min r <=? acc_lo s) && (acc_hi s <=? rmax_eff r) && (acc_hi s <=? 2 ^ 63) &&
  (0 <? r_align r) && (acc_align s mod r_align r =? 0) && (W mod r_align r =? 0) && (0 <? acc_align s).
Definition reject_ok (s : srow) (r : row) : bool :=
  (rej_lo s <=? r_min r) && (rmax_eff r <=? rej_hi s).

Lemma divide_mod0 a x : 0 < a -> (x mod a = 0 <-> (a | x)).
Proof. intros. split; intros H0; [apply Z.mod_divide; [lia|assumption]|apply Z.mod_divide in H0; [assumption|lia]]. Qed.

Lemma upper_iff r v : v < 2 ^ 63 -> ((v <? r_max r) || (r_max r =? I64MAX) = true <-> v < rmax_eff r).
Proof.
  intros Hv. unfold rmax_eff. destruct (Z.eqb_spec (r_max r) I64MAX) as [E|E].
  - rewrite orb_true_r. split; [intros _; assumption|reflexivity].
  - rewrite orb_false_r. apply Z.ltb_lt.
Qed.

Lemma accept_ok_sound s r v : accept_ok s r = true -> both_accept s v -> verify r v = true.
Proof.
  unfold accept_ok, both_accept, verify. intros H [[Hlo Hhi] Hal].
  repeat (apply andb_prop in H; destruct H as [H ?]).
  repeat match goal with
         | [ h : (_ <=? _) = true |- _ ] => apply Z.leb_le in h
         | [ h : (_ <? _) = true |- _ ] => apply Z.ltb_lt in h
         | [ h : (_ =? _) = true |- _ ] => apply Z.eqb_eq in h
         end.
  assert (Hd : (r_align r | v mod W)).
  { assert (D1 : (r_align r | v)).
    { apply Z.divide_trans with (acc_align s); [apply divide_mod0; assumption|apply divide_mod0; assumption]. }
    assert (D2 : (r_align r | W)) by (apply divide_mod0; assumption).
    rewrite Z.mod_eq by (unfold W; lia).
    apply Z.divide_sub_r; [assumption|]. apply Z.divide_mul_l. assumption. }
  apply divide_mod0 in Hd; [|assumption].
  rewrite Hd. cbn [andb Z.eqb].
  assert (Hv63 : v < 2 ^ 63) by lia.
  apply andb_true_intro. split; [apply Z.leb_le; lia|]. apply upper_iff; [assumption|lia].
Qed.

Lemma reject_ok_sound s r v : reject_ok s r = true -> both_reject s v -> verify r v = false.
Proof.
  unfold reject_ok, both_reject, verify. intros H [[_ Hv] Hr].
  apply andb_prop in H. destruct H as [H1 H2]. apply Z.leb_le in H1. apply Z.leb_le in H2.
  destruct Hr as [Hr|Hr].
  - assert (E : (r_min r <=? v) = false) by (apply Z.leb_gt; lia). rewrite E, andb_false_r. reflexivity.
  - destruct ((v <? r_max r) || (r_max r =? I64MAX)) eqn:E; [|rewrite andb_false_r; reflexivity].
    apply upper_iff in E; [lia|assumption].
Qed.

(* every spec row has a table row that passes both checks *)
Definition spec_row_ok (s : srow) : bool :=
  match lookup (s_arch s) (s_type s) with
  | Some r => accept_ok s r && reject_ok s r
  | None => false
  end.

(* ---------- no silent truncation ---------- *)
(* capacity of the field: [cap_lo, cap_hi) is the set of values that the written field represents
   without loss under one of the two readings (sign- or zero-extended); Movnz kinds (insn 2) carry
   the sign in the opcode and so hold one more bit *)
Definition trunc_ok (r : row) : bool :=
  match r_size r with
  | RBytes n =>
      if n =? 0 then true
      else if nocheck r then (n =? 8)
      else (- 2 ^ (8 * n - 1) <=? r_min r) && (r_max r <=? 2 ^ (8 * n)) && (0 <? n) && (n <=? 8)
  | RBits insn lo hi =>
      if nocheck r then true
      else if r_max r =? I64MAX then false
      else if insn =? 2 then (- 2 ^ hi <=? r_min r) && (r_max r <=? 2 ^ hi)
      else (- 2 ^ (hi - 1) <=? r_min r) && (r_max r <=? 2 ^ hi) &&
           (if (lo <=? 4) && negb (r_masked r) then r_align r mod 2 ^ lo =? 0 else true)
  end.

Definition fits (r : row) (v : Z) : Prop :=
  match r_size r with
  | RBytes n => n = 0 \/ (nocheck r = true /\ n = 8) \/ (- 2 ^ (8 * n - 1) <= v < 2 ^ (8 * n))
  | RBits insn lo hi =>
      nocheck r = true \/ (if insn =? 2 then - 2 ^ hi <= v < 2 ^ hi else - 2 ^ (hi - 1) <= v < 2 ^ hi)
  end.

Lemma trunc_ok_sound r v : v <= I64MAX -> trunc_ok r = true -> verify r v = true -> fits r v.
Proof.
  unfold trunc_ok, fits, verify. intros Hi H Hv.
  apply andb_prop in Hv. destruct Hv as [Hv Hmax]. apply andb_prop in Hv. destruct Hv as [_ Hmin].
  apply Z.leb_le in Hmin.
  assert (Hm : v < r_max r \/ r_max r = I64MAX).
  { apply orb_prop in Hmax. destruct Hmax as [Hm|Hm]; [left; apply Z.ltb_lt; assumption|right; apply Z.eqb_eq; assumption]. }
  assert (Hmx : v <= r_max r) by (destruct Hm; lia).
  clear Hmax.
  destruct (r_size r) as [n|insn lo hi].
  - destruct (n =? 0) eqn:E0; [left; apply Z.eqb_eq; assumption|].
    destruct (nocheck r) eqn:En.
    + right. left. split; [reflexivity|apply Z.eqb_eq; assumption].
    + right. right. repeat (apply andb_prop in H; destruct H as [H ?]).
      apply Z.leb_le in H.
      repeat match goal with [ h : (_ <=? _) = true |- _ ] => apply Z.leb_le in h
                        | [ h : (_ <? _) = true |- _ ] => apply Z.ltb_lt in h end.
      assert (Hp : 2 ^ (8 * n) <= 2 ^ 56 \/ n = 8).
      { assert (n = 8 \/ n <= 7) as [->|Hn] by lia; [right; reflexivity|left; apply Z.pow_le_mono_r; lia]. }
      set (P := 2 ^ (8 * n)) in *. set (Q := 2 ^ (8 * n - 1)) in *.
      destruct Hm as [Hm|Hm]; [lia|].
      (* unbounded above but bounded below: max = 2^63-1 <= 2^(8n) forces n = 8 *)
      unfold I64MAX in *. destruct Hp as [Hp|Hp]; [lia|]. subst n. subst P. lia.
  - destruct (nocheck r) eqn:En; [left; reflexivity|right].
    destruct (Z.eqb_spec (r_max r) I64MAX) as [Ex|Ex]; [discriminate H|].
    destruct Hm as [Hm|Hm]; [|contradiction].
    destruct (insn =? 2).
    + apply andb_prop in H. destruct H as [H1 H2]. apply Z.leb_le in H1. apply Z.leb_le in H2.
      set (P := 2 ^ hi) in *. lia.
    + apply andb_prop in H. destruct H as [H _]. apply andb_prop in H. destruct H as [H1 H2].
      apply Z.leb_le in H1. apply Z.leb_le in H2.
      set (P := 2 ^ hi) in *. set (Q := 2 ^ (hi - 1)) in *. lia.
Qed.

(* the written bytes determine the value, within the accepted set, up to the documented
   two-readings ambiguity: two accepted values with the same field differ by exactly 2^(8n) or 0 *)
Lemma field_bytes_faithful r n v : r_size r = RBytes n -> 0 < n <= 8 ->
  - 2 ^ (8 * n - 1) <= v < 2 ^ (8 * n) ->
  field_bytes n v = v \/ field_bytes n v = v + 2 ^ (8 * n).
Proof.
  intros _ Hn Hv. unfold field_bytes, W.
  assert (Hp : 0 < 2 ^ (8 * n)) by (apply Z.pow_pos_nonneg; lia).
  assert (E : (v mod 2 ^ 64) mod 2 ^ (8 * n) = v mod 2 ^ (8 * n)).
  { replace 64 with ((64 - 8 * n) + 8 * n) by lia. rewrite Z.pow_add_r by lia.
    set (A := 2 ^ (64 - 8 * n)). set (B := 2 ^ (8 * n)) in *.
    assert (HA : 0 < A) by (apply Z.pow_pos_nonneg; lia).
    rewrite (Z.mod_eq v (A * B)) by lia.
    replace (v - A * B * (v / (A * B))) with (v + (- (A * (v / (A * B)))) * B) by ring.
    apply Z_mod_plus_full. }
  rewrite E.
  assert (H1 : 2 ^ (8 * n) = 2 * 2 ^ (8 * n - 1)).
  { replace (8 * n) with (1 + (8 * n - 1)) at 1 by lia. rewrite Z.pow_add_r by lia. reflexivity. }
  destruct (Z_lt_le_dec v 0).
  - right. symmetry. apply Z.mod_unique with (-1); lia.
  - left. apply Z.mod_small. lia.
Qed.

Definition width_ok (w : Z * Z * Z) : bool :=
  let '(a, t, n) := w in
  match lookup a t with
  | Some r => match r_size r with RBytes m => m =? n | _ => false end
  | None => false
  end.

Definition is_x86_or_a64 (r : row) : bool := (r_arch r =? 0) || (r_arch r =? 1).

(* ---------- from the finite checks to the statements ---------- *)
Section Lift.
  Hypothesis Hspec : forallb spec_row_ok spec = true.
  Hypothesis Htrunc : forallb (fun r => implb (is_x86_or_a64 r) (trunc_ok r)) rows = true.

  Lemma spec_row r s : In s spec -> lookup (s_arch s) (s_type s) = Some r ->
    accept_ok s r = true /\ reject_ok s r = true.
  Proof.
    intros Hin Hl. rewrite forallb_forall in Hspec. specialize (Hspec s Hin).
    unfold spec_row_ok in Hspec. rewrite Hl in Hspec. apply andb_prop in Hspec. assumption.
  Qed.

  Lemma accept_complete_ s r v : In s spec -> lookup (s_arch s) (s_type s) = Some r ->
    both_accept s v -> verify r v = true.
  Proof. intros Hin Hl. destruct (spec_row r s Hin Hl). apply accept_ok_sound. assumption. Qed.

  Lemma reject_sound_ s r v : In s spec -> lookup (s_arch s) (s_type s) = Some r ->
    both_reject s v -> verify r v = false.
  Proof. intros Hin Hl. destruct (spec_row r s Hin Hl). apply reject_ok_sound. assumption. Qed.

  Lemma table_total_ s : In s spec -> exists r, lookup (s_arch s) (s_type s) = Some r.
  Proof.
    intros Hin. rewrite forallb_forall in Hspec. specialize (Hspec s Hin).
    unfold spec_row_ok in Hspec. destruct (lookup (s_arch s) (s_type s)) as [r|]; [eauto|discriminate].
  Qed.

  Lemma no_truncation_ r v : In r rows -> is_x86_or_a64 r = true -> v <= I64MAX -> verify r v = true -> fits r v.
  Proof.
    intros Hin Ha Hv. rewrite forallb_forall in Htrunc. specialize (Htrunc r Hin).
    rewrite Ha in Htrunc. cbn [implb] in Htrunc. apply trunc_ok_sound; assumption.
  Qed.
  Hypothesis Hwidth : forallb width_ok field_width_spec = true.
  Lemma field_width_ a t n : In (a, t, n) field_width_spec ->
    exists r, lookup a t = Some r /\ r_size r = RBytes n.
  Proof.
    intros Hin. rewrite forallb_forall in Hwidth. specialize (Hwidth _ Hin). unfold width_ok in Hwidth.
    destruct (lookup a t) as [r|]; [|discriminate]. exists r. split; [reflexivity|].
    destruct (r_size r) as [m|]; [|discriminate]. apply Z.eqb_eq in Hwidth. subst. reflexivity.
  Qed.
End Lift.
