(* C22 — malformed input produces a diagnostic, never a crash: the model of one parser wild owns entirely, the response
   file / option-string tokenizer (libwild/src/args.rs arguments_from_string), as a total function from characters to
   either a list of arguments or one of its four errors.  Characters are code points; which are white space is a
   parameter (Rust's char::is_whitespace). *)
From Coq Require Import NArith List Bool.
Import ListNotations.
Open Scope N_scope.

Definition SQ := 39. Definition DQ := 34. Definition BSL := 92.
Definition is_quote (c : N) : bool := (c =? SQ) || (c =? DQ).

Inductive err := MissingClosingQuote | ExpectedWhitespace | MissingOpeningQuote | InvalidEscape.
Inductive res := Ok (args : list (list N)) | Err (e : err).

Section Tok.
  Variable is_ws : N -> bool.

  Record st := { out : list (list N) (* reversed *); heap : option (list N) (* reversed *); quote : option N; expect_ws : bool }.
  Definition push (h : option (list N)) (c : N) : option (list N) := Some (c :: match h with Some l => l | None => [] end).
  Definition flush (s : st) : list (list N) := match heap s with Some l => rev l :: out s | None => out s end.

  (* structural recursion on the input; the escape case consumes two characters *)
  Fixpoint tok (s : st) (input : list N) : res :=
    match input with
    | [] => match quote s with
            | Some _ => Err MissingClosingQuote
            | None => Ok (rev (flush s))
            end
    | ch :: rest =>
        if expect_ws s && negb (is_ws ch) then Err ExpectedWhitespace
        else if is_quote ch then
          match quote s with
          | Some q =>
              if q =? ch then tok {| out := flush s; heap := None; quote := None; expect_ws := true |} rest
              else tok {| out := out s; heap := push (heap s) ch; quote := quote s; expect_ws := false |} rest
          | None =>
              match heap s with
              | Some _ => Err MissingOpeningQuote
              | None => tok {| out := out s; heap := None; quote := Some ch; expect_ws := false |} rest
              end
          end
        else if is_ws ch then
          match quote s with
          | None => tok {| out := flush s; heap := None; quote := None; expect_ws := false |} rest
          | Some _ => tok {| out := out s; heap := push (heap s) ch; quote := quote s; expect_ws := false |} rest
          end
        else if ch =? BSL then
          match rest with
          | [] => Err InvalidEscape
          | c2 :: rest' => tok {| out := out s; heap := push (heap s) c2; quote := quote s; expect_ws := false |} rest'
          end
        else tok {| out := out s; heap := push (heap s) ch; quote := quote s; expect_ws := false |} rest
    end.

  Definition arguments_from_string (input : list N) : res :=
    tok {| out := []; heap := None; quote := None; expect_ws := false |} input.

  (* writing an argument so that it reads back: a backslash before every quote, white space and backslash *)
  Fixpoint escape (w : list N) : list N :=
    match w with
    | [] => []
    | c :: r => (if is_quote c || is_ws c || (c =? BSL) then [BSL; c] else [c]) ++ escape r
    end.
End Tok.
