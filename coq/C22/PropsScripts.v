(* C22 (and C32's parser) — the version-script and export-list parsers: property theorems.
   Model: C22/VScript.v (parse_version_script / parse_version_section / parse_matcher / parse_export_list /
   skip_comments_and_whitespace, every loop a fuelled recursion). *)
From Coq Require Import NArith List Bool.
From WV Require Import C15.Model C22.VScript C22.VScriptProofs.
Import ListNotations.
Open Scope N_scope.

(* For EVERY byte string and every behaviour of the glob crate: parsing a version script ends, with a parsed script or
   an error, within (length of the input + 1) iterations of each loop — no loop of the parser can go round without
   consuming a byte.  (Fuel is the model's "still running".) *)
Theorem C22_version_script_parser_terminates :
  forall glob_ok input, parse_version_script glob_ok input <> Fuel.
Proof. exact parse_version_script_terminates. Qed.
Print Assumptions C22_version_script_parser_terminates.

Theorem C22_export_list_parser_terminates :
  forall glob_ok input, parse_export_list glob_ok input <> Fuel.
Proof. exact parse_export_list_terminates. Qed.
Print Assumptions C22_export_list_parser_terminates.

(* every step of the two parsers consumes input: what is left after a pattern is strictly shorter than what was there *)
Theorem C22_a_pattern_consumes_input :
  forall glob_ok s m r, parse_matcher glob_ok s false = Ok (m, r) -> (length r < length s)%nat.
Proof.
  intros glob_ok s m r H. destruct (parse_matcher_ok glob_ok s false) as [_ H2]. destruct (H2 m r H) as [_ Hlt].
  apply Hlt. intros ->. cbn in H. discriminate.
Qed.
Print Assumptions C22_a_pattern_consumes_input.

(* the pinned tree is refuted: in an `extern` block that is never closed, at the end of the input the pattern parser
   took "everything that is left" — nothing — and the loop went round again: no amount of fuel ends it (repaired) *)
Theorem C22_refuted_pinned_extern_loop :
  forall glob_ok fuel, extern_loop_pinned glob_ok fuel [] = Fuel.
Proof. exact extern_loop_pinned_never_ends. Qed.
Print Assumptions C22_refuted_pinned_extern_loop.

(* the parsers are not trivially always an error *)
Example C22_scripts_parse :
  let any := fun _ : list N => true in
  (* { global: foo; local: *; }; *)
  parse_version_script any [123; 32; 103; 108; 111; 98; 97; 108; 58; 32; 102; 111; 111; 59; 32; 108; 111; 99; 97; 108; 58; 32; 42; 59; 32; 125; 59]
    = Ok (Simple {| globals := [Single (MExact [102; 111; 111])]; locals := [Single MAll] |}) /\
  (* { a; b }  — no "};" : error *)
  parse_export_list any [123; 32; 97; 59; 32; 98; 32; 125] = Err /\
  (* { a; }; *)
  parse_export_list any [123; 32; 97; 59; 32; 125; 59] = Ok [Single (MExact [97])].
Proof. vm_compute. repeat split; reflexivity. Qed.

(* Printing and parsing back.  For every structured version script — any number of versions with distinct names over
   letters, digits, '_' and '.', each optionally depending on an earlier one, with any global and local patterns over
   the same bytes plus '*' and '?' (no "**", which the glob crate rejects) — the parser returns exactly the structure the
   text was printed from: each name, each parent as an index, each pattern classified as exact / glob with '*' / glob
   without '*' / match-all, in order.  (print_script writes no white space; scripts with white space and comments are
   covered by the correspondence runs.) *)
From WV Require Import C22.VRound.
Theorem C22_version_script_round_trip :
  forall glob_ok, (forall p, forallb pat_byte p = true -> nodstar p = true -> glob_ok p = true) ->
  forall vs, wf_versions [] vs ->
    parse_version_script glob_ok (print_script vs) = Ok (Versions (map to_version vs)).
Proof. exact version_script_round_trip. Qed.
Print Assumptions C22_version_script_round_trip.

(* ... and for export lists (--dynamic-list): "{" patterns "};" *)
From WV Require Import C22.VRoundExport.
Theorem C22_export_list_round_trip :
  forall glob_ok, (forall p, forallb pat_byte p = true -> nodstar p = true -> glob_ok p = true) ->
  forall ps, Forall good ps -> parse_export_list glob_ok (print_export ps) = Ok (singles ps).
Proof. exact export_list_round_trip. Qed.
Print Assumptions C22_export_list_round_trip.
