(* C22 — malformed input produces a diagnostic, never a crash: what can be stated as theorems about the tokenizer model. *)
From Coq Require Import NArith List Bool.
From WV Require Import C22.Model C22.Proofs.
Import ListNotations.
Open Scope N_scope.

(* The tokenizer is a total function: every string of code points, however malformed, is mapped to a list of arguments
   or to one of four errors (it is defined by structural recursion; this statement only records the result type). *)
Theorem C22_tokenizer_always_answers :
  forall is_ws input, (exists args, arguments_from_string is_ws input = Ok args) \/ (exists e, arguments_from_string is_ws input = Err e).
Proof. intros is_ws input. destruct (arguments_from_string is_ws input) as [a|e]; [left; exists a|right; exists e]; reflexivity. Qed.
Print Assumptions C22_tokenizer_always_answers.

(* and it is not trivially always an error: every list of non-empty arguments, over all code points, written with a
   backslash before each quote, white-space character and backslash and separated by white space, reads back exactly *)
Theorem C22_tokenizer_reads_back_escaped_arguments :
  forall is_ws sp, is_ws BSL = false -> is_ws sp = true -> is_quote sp = false ->
  forall ws, Forall (fun w => w <> []) ws ->
    arguments_from_string is_ws (flat_map (fun w => escape is_ws w ++ [sp]) ws) = Ok ws.
Proof. intros is_ws sp Hb H1 H2 ws Hne. unfold arguments_from_string. exact (tokenizer_round_trip is_ws Hb sp H1 H2 ws [] Hne). Qed.
Print Assumptions C22_tokenizer_reads_back_escaped_arguments.

(* the four errors are all reachable, each by a malformed input *)
Theorem C22_each_error_has_an_input :
  let ws := fun c => c =? 32 in
  arguments_from_string ws [34; 97] = Err MissingClosingQuote /\
  arguments_from_string ws [34; 97; 34; 98] = Err ExpectedWhitespace /\
  arguments_from_string ws [97; 34] = Err MissingOpeningQuote /\
  arguments_from_string ws [97; 92] = Err InvalidEscape.
Proof. vm_compute. repeat split. Qed.
Print Assumptions C22_each_error_has_an_input.
