(* C22 / C32 — printing a structured version script and parsing it back.  The printed form uses no white space at all;
   names and patterns are over letters, digits, '_' and '.', patterns may also contain '*' and '?'. *)
From Coq Require Import NArith List Bool Arith Lia.
From WV Require Import C15.Model C22.VScript C22.VScriptProofs.
Import ListNotations.
Open Scope N_scope.

Definition name_byte (c : N) : bool :=
  ((48 <=? c) && (c <=? 57)) || ((65 <=? c) && (c <=? 90)) || ((97 <=? c) && (c <=? 122)) || (c =? 95) || (c =? 46).
Definition pat_byte (c : N) : bool := name_byte c || (c =? 42) || (c =? 63).

(* ---- searching in a concatenation ---- *)
Lemma starts_app p r : starts p (p ++ r) = true.
Proof. induction p as [|a p IH]; cbn [starts app]; [reflexivity|]. rewrite N.eqb_refl, IH. reflexivity. Qed.

Lemma find_byte_app b t r : forallb (fun c => negb (c =? b)) t = true -> find_byte b (t ++ b :: r) = Some (length t).
Proof.
  unfold find_byte. induction t as [|c t IH]; intros H; cbn [app length].
  - cbn [find_sub starts]. rewrite N.eqb_refl. reflexivity.
  - cbn [forallb] in H. apply andb_prop in H. destruct H as [Hc Ht].
    cbn [find_sub starts]. rewrite N.eqb_sym. apply negb_true_iff in Hc. rewrite Hc. cbn [andb].
    rewrite (IH Ht). reflexivity.
Qed.

Lemma firstn_app_len {A} (t r : list A) : firstn (length t) (t ++ r) = t.
Proof. induction t as [|c t IH]; cbn; [reflexivity|]. rewrite IH. reflexivity. Qed.
Lemma skipn_app_len {A} (t r : list A) : skipn (length t) (t ++ r) = r.
Proof. induction t as [|c t IH]; cbn; [reflexivity|exact IH]. Qed.

(* ---- white space and comments do not start with a name/pattern byte or a brace ---- *)
Definition solid (c : N) : bool := negb (is_ws c) && negb (c =? 35) && negb (c =? 47).
Lemma skip_cw_solid c r fuel : solid c = true -> skip_cw (S fuel) (c :: r) = Ok (c :: r).
Proof.
  unfold solid. intros H. apply andb_prop in H. destruct H as [H H3]. apply andb_prop in H. destruct H as [H1 H2].
  apply negb_true_iff in H1, H2, H3. cbn [skip_cw skip_ws]. rewrite H1. cbn [starts HASH COPEN]. rewrite N.eqb_sym, H2. cbn [andb].
  rewrite (N.eqb_sym 47 c), H3. reflexivity.
Qed.
Lemma pat_byte_solid c : pat_byte c = true -> solid c = true.
Proof.
  unfold pat_byte, name_byte, solid, is_ws. intros H.
  destruct (N.eqb_spec c 32); [subst; discriminate|]. destruct (N.eqb_spec c 9); [subst; discriminate|].
  destruct (N.eqb_spec c 13); [subst; discriminate|]. destruct (N.eqb_spec c 10); [subst; discriminate|].
  destruct (N.eqb_spec c 35); [subst; discriminate|]. destruct (N.eqb_spec c 47); [subst; discriminate|]. reflexivity.
Qed.

(* ---- a pattern is its own trimmed token ---- *)
Lemma pat_byte_not_trimmed c : pat_byte c = true -> is_ws c || (c =? 12) = false.
Proof.
  unfold pat_byte, name_byte, is_ws. intros H.
  destruct (N.eqb_spec c 32); [subst; discriminate|]. destruct (N.eqb_spec c 9); [subst; discriminate|].
  destruct (N.eqb_spec c 13); [subst; discriminate|]. destruct (N.eqb_spec c 10); [subst; discriminate|].
  destruct (N.eqb_spec c 12); [subst; discriminate|]. reflexivity.
Qed.
Lemma trim_end_pat t : t <> [] -> forallb pat_byte t = true -> trim_end t = t.
Proof.
  intros Hne H. unfold trim_end. destruct (rev t) as [|c r] eqn:E.
  - apply (f_equal (@rev N)) in E. rewrite rev_involutive in E. cbn in E. contradiction.
  - assert (Hc : pat_byte c = true).
    { rewrite forallb_forall in H. apply H. apply in_rev. rewrite E. left; reflexivity. }
    cbn [trim_end_rev]. rewrite (pat_byte_not_trimmed c Hc). rewrite <- E. apply rev_involutive.
Qed.

(* no "**": the glob crate rejects a pattern that contains two stars in a row *)
Fixpoint nodstar (p : list N) : bool :=
  match p with
  | a :: ((b :: _) as r) => negb ((a =? 42) && (b =? 42)) && nodstar r
  | _ => true
  end.

(* ---- what a pattern is classified as ---- *)
Definition expected (p : list N) : matcher :=
  if beqb p [42] then MAll
  else if existsb (N.eqb 42) p then MStar p
  else if existsb (N.eqb 63) p then MNonStar p
  else MExact p.

Lemma pat_byte_cases c : pat_byte c = true ->
  (c =? BS) = false /\ (c =? LB) = false /\ (c =? RB) = false /\ (c =? QUOTE) = false /\ (c =? SEMI) = false /\ (c =? RBRACE) = false /\ (c =? LBRACE) = false.
Proof.
  unfold pat_byte, name_byte, BS, LB, RB, QUOTE, SEMI, RBRACE, LBRACE. intros H.
  destruct (N.eqb_spec c 92); [subst; discriminate|]. destruct (N.eqb_spec c 91); [subst; discriminate|].
  destruct (N.eqb_spec c 93); [subst; discriminate|]. destruct (N.eqb_spec c 34); [subst; discriminate|].
  destruct (N.eqb_spec c 59); [subst; discriminate|]. destruct (N.eqb_spec c 125); [subst; discriminate|].
  destruct (N.eqb_spec c 123); [subst; discriminate|]. repeat split.
Qed.

Lemma analyze_loop_pat : forall p t, forallb pat_byte p = true ->
  analyze_loop p t false = if existsb (N.eqb 42) p then Star else if existsb (N.eqb 63) p then NonStar else t.
Proof.
  induction p as [|c p IH]; intros t H; cbn [analyze_loop existsb forallb] in *; [reflexivity|].
  apply andb_prop in H. destruct H as [Hc Hp]. destruct (pat_byte_cases c Hc) as (E1 & E2 & E3 & _).
  rewrite E1. unfold STAR, QM. rewrite (N.eqb_sym 42 c), (N.eqb_sym 63 c).
  destruct (c =? 42) eqn:Es; [reflexivity|]. rewrite E2, E3. cbn [orb].
  destruct (c =? 63) eqn:Eq; cbn [orb]; rewrite (IH _ Hp); [|reflexivity].
  destruct (existsb (N.eqb 42) p); [reflexivity|]. destruct (existsb (N.eqb 63) p); reflexivity.
Qed.

Lemma special_pat p : forallb pat_byte p = true -> existsb special p = existsb (N.eqb 42) p || existsb (N.eqb 63) p.
Proof.
  induction p as [|c p IH]; intros H; cbn [existsb forallb] in *; [reflexivity|].
  apply andb_prop in H. destruct H as [Hc Hp]. destruct (pat_byte_cases c Hc) as (E1 & E2 & E3 & _).
  rewrite (IH Hp). unfold special, STAR, QM. rewrite E1, E2, E3. rewrite (N.eqb_sym 42 c), (N.eqb_sym 63 c).
  destruct (c =? 42); destruct (c =? 63); cbn [orb]; try reflexivity;
    destruct (existsb (N.eqb 42) p); destruct (existsb (N.eqb 63) p); reflexivity.
Qed.

Lemma rewrite_neg_cons c d p :
  rewrite_neg (c :: d :: p) = if (c =? LB) && (d =? CARET) then LB :: BANG :: rewrite_neg p else c :: rewrite_neg (d :: p).
Proof. reflexivity. Qed.
Lemma rewrite_neg_pat : forall p, forallb pat_byte p = true -> rewrite_neg p = p.
Proof.
  induction p as [|c p IH]; intros H; [reflexivity|]. destruct p as [|d p]; [reflexivity|].
  cbn [forallb] in H. apply andb_prop in H. destruct H as [Hc Hp]. destruct (pat_byte_cases c Hc) as (_ & E2 & _).
  rewrite rewrite_neg_cons, E2. cbn [andb]. f_equal. apply IH. exact Hp.
Qed.

Lemma beqb_eq a b : beqb a b = true <-> a = b.
Proof.
  revert b; induction a as [|x a IH]; intros [|y b]; cbn [beqb]; try (split; [discriminate|intros H; discriminate H]); [split; reflexivity|].
  rewrite andb_true_iff, N.eqb_eq, IH. split; [intros [-> ->]; reflexivity|intros H; injection H as -> ->; split; reflexivity].
Qed.

Section R.
  Variable glob_ok : list N -> bool.
  Hypothesis glob_ok_pat : forall p, forallb pat_byte p = true -> nodstar p = true -> glob_ok p = true.

  Lemma classify_pat p : p <> [] -> forallb pat_byte p = true -> nodstar p = true -> classify glob_ok p = Ok (expected p).
  Proof.
    intros Hne H Hds. unfold classify, expected.
    destruct p as [|c p]; [contradiction|]. cbn [forallb] in H. apply andb_prop in H. destruct H as [Hc Hp].
    destruct (pat_byte_cases c Hc) as (E1 & E2 & E3 & E4 & _).
    assert (Hall : forallb pat_byte (c :: p) = true) by (cbn [forallb]; rewrite Hc, Hp; reflexivity).
    unfold strip_quotes. rewrite E4.
    cbn [starts beqb length]. destruct (N.eqb_spec 42 c) as [<-|Hn].
    - destruct p as [|d p]; [reflexivity|]. cbn [Nat.eqb andb beqb].
      replace (42 =? 42) with true by reflexivity. cbn [andb].
      unfold analyze. rewrite (special_pat _ Hall). cbn [existsb]. replace (42 =? 42) with true by reflexivity. cbn [orb].
      rewrite (analyze_loop_pat _ _ Hall). cbn [existsb]. replace (42 =? 42) with true by reflexivity. cbn [orb].
      rewrite (glob_ok_pat _ Hall Hds), (rewrite_neg_pat _ Hall). reflexivity.
    - assert (Ec : (c =? 42) = false) by (apply N.eqb_neq; congruence). rewrite Ec.
      cbn [andb]. unfold analyze. rewrite (special_pat _ Hall).
      destruct (existsb (N.eqb 42) (c :: p)) eqn:Es.
      + cbn [orb]. rewrite (analyze_loop_pat _ _ Hall), Es. rewrite (glob_ok_pat _ Hall Hds), (rewrite_neg_pat _ Hall). reflexivity.
      + cbn [orb]. destruct (existsb (N.eqb 63) (c :: p)) eqn:Eq.
        * rewrite (analyze_loop_pat _ _ Hall), Es, Eq. rewrite (glob_ok_pat _ Hall Hds), (rewrite_neg_pat _ Hall). reflexivity.
        * reflexivity.
  Qed.

  Lemma no_byte_pat b p : pat_byte b = false -> forallb pat_byte p = true -> forallb (fun c => negb (c =? b)) p = true.
  Proof.
    intros Hb H. apply forallb_forall. intros c Hc. rewrite forallb_forall in H. specialize (H c Hc).
    apply negb_true_iff. destruct (N.eqb_spec c b); [subst; congruence|reflexivity].
  Qed.

  (* one pattern followed by its semicolon *)
  Lemma parse_single_pat p rest fuel : p <> [] -> forallb pat_byte p = true -> nodstar p = true -> (0 < fuel)%nat ->
    parse_single glob_ok fuel (p ++ SEMI :: rest) false = Ok (expected p, rest).
  Proof.
    intros Hne H Hds Hf. unfold parse_single.
    rewrite (find_byte_app SEMI p rest (no_byte_pat SEMI p eq_refl H)).
    destruct (Nat.eqb_spec (length p) 0) as [E|E]; [destruct p; [contradiction|discriminate]|].
    rewrite firstn_app_len, skipn_app_len.
    destruct fuel as [|f]; [lia|]. rewrite (skip_cw_solid SEMI rest f eq_refl).
    rewrite N.eqb_refl. rewrite (trim_end_pat p Hne H), (classify_pat p Hne H Hds). reflexivity.
  Qed.
End R.

(* ---- a pattern followed by ';' is not a keyword ---- *)
Definition good (p : list N) : Prop := p <> [] /\ forallb pat_byte p = true /\ nodstar p = true.

Lemma pat58 c : pat_byte c = true -> (58 =? c) = false.
Proof. unfold pat_byte, name_byte. intros H. destruct (N.eqb_spec 58 c); [subst; discriminate|reflexivity]. Qed.
Lemma pat32 c : pat_byte c = true -> (32 =? c) = false.
Proof. unfold pat_byte, name_byte. intros H. destruct (N.eqb_spec 32 c); [subst; discriminate|reflexivity]. Qed.

Ltac kill_starts :=
  cbn [starts app]; rewrite ?andb_false_r; try reflexivity.

Lemma not_global p rest : forallb pat_byte p = true -> starts GLOBAL (p ++ SEMI :: rest) = false.
Proof.
  intros H. unfold GLOBAL, SEMI.
  destruct p as [|a [|b [|c [|d [|e [|f [|g p']]]]]]]; kill_starts.
  cbn [forallb] in H. repeat (apply andb_prop in H; destruct H as [? H]).
  rewrite (pat58 g) by assumption. rewrite ?andb_false_r. reflexivity.
Qed.
Lemma not_local p rest : forallb pat_byte p = true -> starts LOCAL (p ++ SEMI :: rest) = false.
Proof.
  intros H. unfold LOCAL, SEMI.
  destruct p as [|a [|b [|c [|d [|e [|f p']]]]]]; kill_starts.
  cbn [forallb] in H. repeat (apply andb_prop in H; destruct H as [? H]).
  rewrite (pat58 f) by assumption. rewrite ?andb_false_r. reflexivity.
Qed.
Lemma not_extern p rest : forallb pat_byte p = true -> starts EXTERN (p ++ SEMI :: rest) = false.
Proof.
  intros H. unfold EXTERN, SEMI.
  destruct p as [|a [|b [|c [|d [|e [|f [|g p']]]]]]]; kill_starts.
  cbn [forallb] in H. repeat (apply andb_prop in H; destruct H as [? H]).
  rewrite (pat32 g) by assumption. rewrite ?andb_false_r. reflexivity.
Qed.

Definition print_pats (ps : list (list N)) : list N := flat_map (fun p => p ++ [SEMI]) ps.
Definition singles (ps : list (list N)) : list pm := map (fun p => Single (expected p)) ps.

Lemma print_pats_cons p ps rest : print_pats (p :: ps) ++ rest = p ++ SEMI :: (print_pats ps ++ rest).
Proof. unfold print_pats. cbn [flat_map]. rewrite <- !app_assoc. reflexivity. Qed.

Section R2.
  Variable glob_ok : list N -> bool.
  Hypothesis glob_ok_pat : forall p, forallb pat_byte p = true -> nodstar p = true -> glob_ok p = true.

  Lemma parse_matcher_pat p rest : good p -> parse_matcher glob_ok (p ++ SEMI :: rest) false = Ok (Single (expected p), rest).
  Proof.
    intros [Hne [H Hds]]. unfold parse_matcher. rewrite (not_extern p rest H).
    rewrite (parse_single_pat glob_ok glob_ok_pat p rest (S (length (p ++ SEMI :: rest))) Hne H Hds (Nat.lt_0_succ _)). reflexivity.
  Qed.

  (* the patterns of one section *)
  Lemma section_pats : forall ps f loc gacc lacc rest, Forall good ps -> (length (print_pats ps ++ rest) < f)%nat ->
    section_loop glob_ok f (print_pats ps ++ rest) loc gacc lacc =
    section_loop glob_ok (f - length ps) rest loc
      (if loc then gacc else rev (singles ps) ++ gacc) (if loc then rev (singles ps) ++ lacc else lacc).
  Proof.
    induction ps as [|p ps IH]; intros f loc gacc lacc rest Hg Hf.
    - cbn [print_pats flat_map app length singles map rev]. rewrite Nat.sub_0_r. destruct loc; reflexivity.
    - inversion Hg as [|? ? Hp Hps]; subst. destruct Hp as [Hne [Hpb Hds]].
      rewrite print_pats_cons in *. destruct f as [|f]; [lia|]. cbn [section_loop].
      destruct p as [|c p']; [contradiction|]. cbn [app].
      assert (Hc : pat_byte c = true) by (cbn [forallb] in Hpb; apply andb_prop in Hpb; apply Hpb).
      rewrite (skip_cw_solid c _ _ (pat_byte_solid c Hc)).
      destruct (pat_byte_cases c Hc) as (_ & _ & _ & _ & _ & E6 & _). rewrite E6.
      change (c :: p' ++ SEMI :: print_pats ps ++ rest) with ((c :: p') ++ SEMI :: (print_pats ps ++ rest)).
      rewrite (not_global _ _ Hpb), (not_local _ _ Hpb).
      rewrite (parse_matcher_pat (c :: p') _ (conj Hne (conj Hpb Hds))).
      assert (Hlen : (length (print_pats ps ++ rest) < f)%nat).
      { cbn [length app] in Hf. rewrite app_length in Hf. cbn [length] in Hf. lia. }
      destruct loc.
      + rewrite (IH f true gacc (Single (expected (c :: p')) :: lacc) rest Hps Hlen).
        cbn [length singles map rev]. rewrite <- app_assoc. reflexivity.
      + rewrite (IH f false (Single (expected (c :: p')) :: gacc) lacc rest Hps Hlen).
        cbn [length singles map rev]. rewrite <- app_assoc. reflexivity.
  Qed.
End R2.

Lemma print_pats_len ps : (length ps <= length (print_pats ps))%nat.
Proof. unfold print_pats. induction ps as [|p ps IH]; cbn [flat_map length]; [lia|]. rewrite !app_length. cbn [length]. lia. Qed.

Definition print_body (g l : list (list N)) : list N :=
  LBRACE :: GLOBAL ++ print_pats g ++ LOCAL ++ print_pats l ++ [RBRACE].

Definition tail_ok (tail : list N) : Prop := match tail with [] => True | c :: _ => solid c = true end.
Lemma skip_cw_tail tail f : tail_ok tail -> skip_cw (S f) tail = Ok tail.
Proof. destruct tail as [|c r]; intros H; [reflexivity|]. apply skip_cw_solid. exact H. Qed.

Section R3.
  Variable glob_ok : list N -> bool.
  Hypothesis glob_ok_pat : forall p, forallb pat_byte p = true -> nodstar p = true -> glob_ok p = true.

  Lemma section_kw_global f rest loc g l :
    section_loop glob_ok (S f) (GLOBAL ++ rest) loc g l = section_loop glob_ok f rest false g l.
  Proof.
    cbn [section_loop]. change (GLOBAL ++ rest) with (103 :: (108 :: 111 :: 98 :: 97 :: 108 :: 58 :: rest)).
    rewrite (skip_cw_solid 103 _ _ eq_refl). replace (103 =? RBRACE) with false by reflexivity.
    change (103 :: 108 :: 111 :: 98 :: 97 :: 108 :: 58 :: rest) with (GLOBAL ++ rest).
    rewrite starts_app. change 7%nat with (length GLOBAL). rewrite skipn_app_len. reflexivity.
  Qed.
  Lemma section_kw_local f rest loc g l :
    section_loop glob_ok (S f) (LOCAL ++ rest) loc g l = section_loop glob_ok f rest true g l.
  Proof.
    cbn [section_loop]. change (LOCAL ++ rest) with (108 :: (111 :: 99 :: 97 :: 108 :: 58 :: rest)).
    rewrite (skip_cw_solid 108 _ _ eq_refl). replace (108 =? RBRACE) with false by reflexivity.
    replace (starts GLOBAL (108 :: 111 :: 99 :: 97 :: 108 :: 58 :: rest)) with false by reflexivity.
    change (108 :: 111 :: 99 :: 97 :: 108 :: 58 :: rest) with (LOCAL ++ rest).
    rewrite starts_app. change 6%nat with (length LOCAL). rewrite skipn_app_len. reflexivity.
  Qed.
  Lemma section_close f tail loc g l : tail_ok tail ->
    section_loop glob_ok (S f) (RBRACE :: tail) loc g l = Ok ({| globals := rev g; locals := rev l |}, tail).
  Proof.
    intros Ht. cbn [section_loop]. rewrite (skip_cw_solid RBRACE _ _ eq_refl). rewrite N.eqb_refl.
    rewrite (skip_cw_tail tail _ Ht). reflexivity.
  Qed.

  Lemma parse_section_body g l tail : Forall good g -> Forall good l -> tail_ok tail ->
    parse_section glob_ok (print_body g l ++ tail) = Ok ({| globals := singles g; locals := singles l |}, tail).
  Proof.
    intros Hg Hl Ht. unfold parse_section, print_body. cbn [app]. rewrite N.eqb_refl.
    set (r3 := RBRACE :: tail).
    set (r2 := LOCAL ++ (print_pats l ++ r3)).
    assert (E0 : (GLOBAL ++ print_pats g ++ LOCAL ++ print_pats l ++ [RBRACE]) ++ tail = GLOBAL ++ (print_pats g ++ r2))
      by (unfold r2, r3; rewrite <- !app_assoc; reflexivity).
    rewrite E0.
    pose proof (print_pats_len g) as Lg. pose proof (print_pats_len l) as Ll.
    assert (L2 : length r2 = (6 + (length (print_pats l) + S (length tail)))%nat) by (unfold r2, r3; rewrite !app_length; reflexivity).
    assert (L0 : length (GLOBAL ++ print_pats g ++ r2) = (7 + (length (print_pats g) + length r2))%nat) by (rewrite !app_length; reflexivity).
    rewrite L0. cbn [plus]. rewrite section_kw_global.
    match goal with |- context [section_loop _ ?F (print_pats g ++ r2)] =>
      rewrite (section_pats glob_ok glob_ok_pat g F false [] [] r2 Hg ltac:(rewrite app_length; lia)) end.
    rewrite app_nil_r.
    match goal with |- context [section_loop _ ?F r2] => destruct F as [|f1] eqn:Ef1; [lia|] end.
    unfold r2. rewrite section_kw_local.
    rewrite (section_pats glob_ok glob_ok_pat l f1 true (rev (singles g)) [] r3 Hl ltac:(rewrite app_length; unfold r3; cbn [length]; lia)).
    rewrite app_nil_r.
    destruct (f1 - length l)%nat as [|f2] eqn:Ef2; [unfold r3 in *; cbn [length] in *; lia|].
    unfold r3. rewrite (section_close f2 tail true _ _ Ht). rewrite !rev_involutive. reflexivity.
  Qed.
End R3.

(* ---- whole scripts ---- *)
Record sversion := { sname : list N; sparent : option nat; sglob : list (list N); sloc : list (list N) }.

Definition good_name (n : list N) : Prop := n <> [] /\ forallb name_byte n = true.

Definition parent_name (done : list (list N)) (p : option nat) : list N :=
  match p with Some k => nth k done [] | None => [] end.
Definition print_version (done : list (list N)) (v : sversion) : list N :=
  sname v ++ print_body (sglob v) (sloc v) ++ parent_name done (sparent v) ++ [SEMI].
Fixpoint print_versions (done : list (list N)) (vs : list sversion) : list N :=
  match vs with [] => [] | v :: r => print_version done v ++ print_versions (done ++ [sname v]) r end.
Definition print_script (vs : list sversion) : list N := print_versions [] vs.

Definition to_version (v : sversion) : version :=
  {| vname := sname v; vparent := match sparent v with Some k => Some (S k) | None => None end;
     vbody := {| globals := singles (sglob v); locals := singles (sloc v) |} |}.

Fixpoint wf_versions (done : list (list N)) (vs : list sversion) : Prop :=
  match vs with
  | [] => True
  | v :: r => good_name (sname v) /\ ~ In (sname v) done /\ Forall good (sglob v) /\ Forall good (sloc v) /\
              (match sparent v with Some k => (k < length done)%nat | None => True end) /\
              wf_versions (done ++ [sname v]) r
  end.

Lemma name_byte_pat c : name_byte c = true -> pat_byte c = true.
Proof. unfold pat_byte. intros ->. reflexivity. Qed.
Lemma name_byte_tok c : name_byte c = true -> tok_byte c = true.
Proof.
  unfold name_byte, tok_byte. intros H.
  destruct (N.eqb_spec c 32); [subst; discriminate|]. destruct (N.eqb_spec c 40); [subst; discriminate|].
  destruct (N.eqb_spec c 41); [subst; discriminate|]. destruct (N.eqb_spec c 123); [subst; discriminate|].
  destruct (N.eqb_spec c 125); [subst; discriminate|]. destruct (N.eqb_spec c 10); [subst; discriminate|].
  destruct (N.eqb_spec c 9); [subst; discriminate|]. reflexivity.
Qed.
Lemma take_tok_name n r : forallb name_byte n = true -> take_tok (n ++ LBRACE :: r) = (n, LBRACE :: r).
Proof.
  induction n as [|c n IH]; intros H; cbn [app take_tok].
  - reflexivity.
  - cbn [forallb] in H. apply andb_prop in H. destruct H as [Hc Hn]. rewrite (name_byte_tok c Hc), (IH Hn). reflexivity.
Qed.

Lemma position_skip names n i : ~ In n names -> position names n i = None.
Proof.
  revert i; induction names as [|x r IH]; intros i H; cbn [position]; [reflexivity|].
  destruct (beqb x n) eqn:E; [apply beqb_eq in E; subst; exfalso; apply H; left; reflexivity|].
  apply IH. intros Hin. apply H. right; exact Hin.
Qed.
Lemma position_nodup : forall names k i, NoDup names -> (k < length names)%nat -> position names (nth k names []) i = Some (i + k)%nat.
Proof.
  induction names as [|x r IH]; intros k i Hnd Hk; cbn [length] in Hk; [lia|].
  inversion Hnd as [|? ? Hx Hr]; subst. destruct k as [|k]; cbn [nth position].
  - assert (E : beqb x x = true) by (apply beqb_eq; reflexivity). rewrite E. f_equal. lia.
  - destruct (beqb x (nth k r [])) eqn:E.
    + apply beqb_eq in E. exfalso. apply Hx. rewrite E. apply nth_In. lia.
    + rewrite (IH k (S i) Hr ltac:(lia)). f_equal. lia.
Qed.

Lemma NoDup_app_one {A} (l : list A) x : NoDup l -> ~ In x l -> NoDup (l ++ [x]).
Proof.
  induction l as [|a l IH]; intros Hnd Hx; cbn [app]; [constructor; [intros []|constructor]|].
  inversion Hnd as [|? ? Ha Hl]; subst. constructor.
  - intros Hin. apply in_app_or in Hin. destruct Hin as [Hin|[->|[]]]; [contradiction|]. apply Hx. left; reflexivity.
  - apply IH; [exact Hl|]. intros Hin. apply Hx. right; exact Hin.
Qed.

Lemma name_solid n r : good_name n -> tail_ok (n ++ r).
Proof.
  intros [Hne H]. destruct n as [|c n]; [contradiction|]. cbn [app tail_ok]. cbn [forallb] in H. apply andb_prop in H.
  apply pat_byte_solid, name_byte_pat, H.
Qed.

Section R4.
  Variable glob_ok : list N -> bool.
  Hypothesis glob_ok_pat : forall p, forallb pat_byte p = true -> nodstar p = true -> glob_ok p = true.

  Lemma versions_round : forall vs done acc f,
    wf_versions done vs -> NoDup done -> Forall good_name done ->
    (length (print_versions done vs) < f)%nat ->
    versions_loop glob_ok f (print_versions done vs) ([] :: done) acc = Ok (Versions (rev acc ++ map to_version vs)).
  Proof.
    induction vs as [|v vs IH]; intros done acc f Hwf Hnd Hgn Hf.
    - cbn [print_versions map]. rewrite app_nil_r. destruct f; [cbn [length] in Hf; lia|]. reflexivity.
    - destruct Hwf as (Hname & Hfresh & Hg & Hl & Hpar & Hrest).
      cbn [print_versions]. unfold print_version. destruct f as [|f]; [lia|].
      set (next := print_versions (done ++ [sname v]) vs).
      set (pn := parent_name done (sparent v)).
      assert (Epn : forallb name_byte pn = true).
      { unfold pn, parent_name. destruct (sparent v) as [k|]; [|reflexivity].
        rewrite Forall_forall in Hgn. apply (Hgn (nth k done [])). apply nth_In. exact Hpar. }
      assert (Etail : tail_ok (pn ++ SEMI :: next)).
      { destruct pn as [|c pn']; [reflexivity|]. cbn [app tail_ok]. cbn [forallb] in Epn. apply andb_prop in Epn.
        apply pat_byte_solid, name_byte_pat, Epn. }
      assert (Enext : tail_ok next).
      { unfold next. destruct vs as [|v2 vs2]; [exact I|]. cbn [print_versions]. unfold print_version. destruct Hrest as (Hn2 & _).
        rewrite <- app_assoc. apply name_solid. exact Hn2. }
      (* the input, reassociated *)
      assert (E : (sname v ++ print_body (sglob v) (sloc v) ++ pn ++ [SEMI]) ++ next
                  = sname v ++ LBRACE :: (GLOBAL ++ print_pats (sglob v) ++ LOCAL ++ print_pats (sloc v) ++ [RBRACE]) ++ pn ++ SEMI :: next).
      { unfold print_body. rewrite <- !app_assoc. cbn [app]. rewrite <- !app_assoc. reflexivity. }
      rewrite E in *. clear E.
      destruct Hname as [Hne Hnb].
      cbn [versions_loop].
      destruct (sname v) as [|c0 n0] eqn:En; [contradiction|]. rewrite <- En in *.
      assert (Es : sname v ++ LBRACE :: (GLOBAL ++ print_pats (sglob v) ++ LOCAL ++ print_pats (sloc v) ++ [RBRACE]) ++ pn ++ SEMI :: next
                   = c0 :: (n0 ++ LBRACE :: (GLOBAL ++ print_pats (sglob v) ++ LOCAL ++ print_pats (sloc v) ++ [RBRACE]) ++ pn ++ SEMI :: next))
        by (rewrite En; reflexivity).
      rewrite Es. rewrite <- Es. clear Es.
      rewrite (take_tok_name (sname v) _ Hnb).
      rewrite En. rewrite <- En.
      rewrite (skip_cw_solid LBRACE _ _ eq_refl).
      change (LBRACE :: (GLOBAL ++ print_pats (sglob v) ++ LOCAL ++ print_pats (sloc v) ++ [RBRACE]) ++ pn ++ SEMI :: next)
        with (print_body (sglob v) (sloc v) ++ (pn ++ SEMI :: next)).
      rewrite (parse_section_body glob_ok glob_ok_pat (sglob v) (sloc v) _ Hg Hl Etail).
      rewrite (find_byte_app SEMI pn next (no_byte_pat SEMI pn eq_refl ltac:(apply forallb_forall; intros x Hx; apply name_byte_pat; rewrite forallb_forall in Epn; apply Epn; exact Hx))).
      rewrite firstn_app_len.
      replace (S (length pn)) with (length (pn ++ [SEMI])) by (rewrite app_length; cbn [length]; lia).
      replace (pn ++ SEMI :: next) with ((pn ++ [SEMI]) ++ next) by (rewrite <- app_assoc; reflexivity).
      rewrite skipn_app_len. rewrite (skip_cw_tail next _ Enext).
      (* the parent index *)
      assert (Ep : match pn with [] => Some None | _ :: _ => match position ([] :: done) pn 0 with Some k => Some (Some k) | None => None end end
                   = Some (match sparent v with Some k => Some (S k) | None => None end)).
      { unfold pn, parent_name. destruct (sparent v) as [k|]; [|reflexivity].
        assert (Hk : nth k done [] <> []).
        { rewrite Forall_forall in Hgn. destruct (Hgn (nth k done []) (nth_In _ _ Hpar)) as [H1 _]. exact H1. }
        destruct (nth k done []) as [|q0 q] eqn:Eq; [contradiction|].
        cbn [position beqb]. rewrite <- Eq. rewrite (position_nodup done k 1 Hnd Hpar). reflexivity. }
      rewrite Ep.
      unfold next. rewrite <- En. change (([] :: done) ++ [sname v]) with ([] :: (done ++ [sname v])).
      rewrite (IH (done ++ [sname v]) ({| vname := sname v; vparent := match sparent v with Some k => Some (S k) | None => None end;
                                          vbody := {| globals := singles (sglob v); locals := singles (sloc v) |} |} :: acc) f Hrest).
      + cbn [rev map]. rewrite <- app_assoc. reflexivity.
      + apply NoDup_app_one; [exact Hnd|exact Hfresh].
      + apply Forall_app. split; [exact Hgn|]. constructor; [split; assumption|constructor].
      + cbn [print_versions] in Hf. unfold print_version in Hf. rewrite !app_length in Hf. cbn [length] in Hf. lia.
  Qed.
End R4.

Section R5.
  Variable glob_ok : list N -> bool.
  Hypothesis glob_ok_pat : forall p, forallb pat_byte p = true -> nodstar p = true -> glob_ok p = true.

  Theorem version_script_round_trip vs : wf_versions [] vs ->
    parse_version_script glob_ok (print_script vs) = Ok (Versions (map to_version vs)).
  Proof.
    intros Hwf. unfold parse_version_script, print_script.
    assert (Ht : tail_ok (print_versions [] vs)).
    { destruct vs as [|v vs]; [exact I|]. cbn [print_versions]. unfold print_version. destruct Hwf as (Hn & _).
      rewrite <- app_assoc. apply name_solid. exact Hn. }
    rewrite (skip_cw_tail _ _ Ht).
    assert (Hs : starts [LBRACE] (print_versions [] vs) = false).
    { destruct vs as [|v vs]; [reflexivity|]. cbn [print_versions]. unfold print_version. destruct Hwf as ((Hne & Hnb) & _).
      destruct (sname v) as [|c n]; [contradiction|]. cbn [app starts]. cbn [forallb] in Hnb. apply andb_prop in Hnb. destruct Hnb as [Hc _].
      destruct (pat_byte_cases c (name_byte_pat c Hc)) as (_ & _ & _ & _ & _ & _ & E7). unfold LBRACE in *. rewrite N.eqb_sym, E7. reflexivity. }
    rewrite Hs.
    rewrite (versions_round glob_ok glob_ok_pat vs [] [] (S (length (print_versions [] vs))) Hwf (NoDup_nil _) (Forall_nil _) (Nat.lt_succ_diag_r _)).
    reflexivity.
  Qed.
End R5.

(* the hypotheses are satisfiable and the statement computes *)
Example round_trip_example :
  let vs := [ {| sname := [86; 49]; sparent := None; sglob := [[102; 111; 111]; [98; 42]]; sloc := [[42]] |};
              {| sname := [86; 50]; sparent := Some 0%nat; sglob := [[98; 97; 63]]; sloc := [] |} ] in
  wf_versions [] vs /\
  parse_version_script (fun _ => true) (print_script vs) = Ok (Versions (map to_version vs)).
Proof.
  split; [|vm_compute; reflexivity].
  cbn [wf_versions app sname sparent sglob sloc length]. unfold good_name, good.
  repeat match goal with
         | |- _ /\ _ => split
         | |- Forall _ _ => constructor
         | |- True => exact I
         | |- _ <> _ => discriminate
         | |- ~ In _ [] => intros []
         | |- ~ In _ [_] => let H := fresh in intros [H|[]]; discriminate H
         | |- (_ < _)%nat => lia
         | |- _ = true => reflexivity
         end.
Qed.
