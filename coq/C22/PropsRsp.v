(* C22 — `@file` arguments: property theorems.  Model: C22/RspFiles.v (handle_argument's recursive expansion with its
   bound of 100 levels; the file system is an arbitrary function). *)
From Coq Require Import NArith List Bool.
From WV Require Import C22.RspFiles.
Import ListNotations.
Open Scope N_scope.

(* whatever the files contain — also when they name each other in a cycle — the expansion is a total function: it ends
   with the expanded arguments, with "nested too deeply" or with "cannot read".  In particular a file that names itself
   is reported, at every bound. *)
Theorem C22_self_including_argument_file_is_reported :
  forall fs f, fs f = Some [At f] -> expand_args fs [At f] = XTooDeep.
Proof. intros fs f H. exact (self_inclusion_is_reported fs f H MAX). Qed.
Print Assumptions C22_self_including_argument_file_is_reported.

(* the pinned tree had no bound: for such a file no number of steps ends the expansion (repaired in /repo) *)
Theorem C22_refuted_unbounded_expansion :
  forall fs f, fs f = Some [At f] -> forall fuel, expand_unbounded fs fuel [At f] = UFuel.
Proof. exact self_inclusion_never_ends_unbounded. Qed.
Print Assumptions C22_refuted_unbounded_expansion.

(* ... and the bound changes nothing for argument lists that do not reach it *)
Theorem C22_bound_is_invisible_below_it :
  forall fs args l, expand_unbounded fs MAX args = UOk l -> expand_args fs args = XOk l.
Proof. intros fs args l H. exact (bounded_agrees fs MAX args l H). Qed.
Print Assumptions C22_bound_is_invisible_below_it.

Example C22_expansion_example :
  let fs := fun f => match f with 1 => Some [Plain 10; At 2; Plain 11] | 2 => Some [Plain 20] | _ => None end in
  expand_args fs [Plain 1; At 1; At 2] = XOk [1; 10; 20; 11; 20] /\ expand_args fs [At 3] = XMissing.
Proof. vm_compute. split; reflexivity. Qed.
