(* C22 — expansion of `@file` arguments (libwild/src/args.rs ArgumentParser::handle_argument): an argument `@path`
   is replaced, recursively and in place, by the arguments read from the file; at most MAX_RESPONSE_FILE_DEPTH = 100
   levels.  The file system is a function from file ids to contents; nothing is assumed about it (cycles allowed). *)
From Coq Require Import NArith List Bool.
Import ListNotations.
Open Scope N_scope.

Inductive arg := Plain (n : N) | At (f : N).
Definition fsys := N -> option (list arg).        (* None: the file cannot be read *)
Inductive xres := XOk (l : list N) | XTooDeep | XMissing.

Definition MAX : nat := 100.

(* levels = how many more levels of nesting are allowed *)
Fixpoint expand (fs : fsys) (levels : nat) : list arg -> xres :=
  fix go (args : list arg) : xres :=
    match args with
    | [] => XOk []
    | Plain n :: r => match go r with XOk l => XOk (n :: l) | e => e end
    | At f :: r =>
        match levels with
        | O => XTooDeep
        | S lv =>
            match fs f with
            | None => XMissing
            | Some inner =>
                match expand fs lv inner with
                | XOk l1 => match go r with XOk l2 => XOk (l1 ++ l2) | e => e end
                | e => e
                end
            end
        end
    end.
Definition expand_args (fs : fsys) (args : list arg) : xres := expand fs MAX args.

(* the pinned tree: no bound; fuel is only the model's way of running it *)
Inductive ures := UOk (l : list N) | UMissing | UFuel.
Fixpoint expand_unbounded (fs : fsys) (fuel : nat) : list arg -> ures :=
  fix go (args : list arg) : ures :=
    match args with
    | [] => UOk []
    | Plain n :: r => match go r with UOk l => UOk (n :: l) | e => e end
    | At f :: r =>
        match fuel with
        | O => UFuel
        | S fu =>
            match fs f with
            | None => UMissing
            | Some inner =>
                match expand_unbounded fs fu inner with
                | UOk l1 => match go r with UOk l2 => UOk (l1 ++ l2) | e => e end
                | e => e
                end
            end
        end
    end.

(* unfolding equations *)
Lemma expand_nil fs lv : expand fs lv [] = XOk [].
Proof. destruct lv; reflexivity. Qed.
Lemma expand_plain fs lv n r : expand fs lv (Plain n :: r) = match expand fs lv r with XOk l => XOk (n :: l) | e => e end.
Proof. destruct lv; reflexivity. Qed.
Lemma expand_at_0 fs f r : expand fs 0 (At f :: r) = XTooDeep.
Proof. reflexivity. Qed.
Lemma expand_at_S fs lv f r : expand fs (S lv) (At f :: r) =
  match fs f with
  | None => XMissing
  | Some inner => match expand fs lv inner with
                  | XOk l1 => match expand fs (S lv) r with XOk l2 => XOk (l1 ++ l2) | e => e end
                  | e => e
                  end
  end.
Proof. reflexivity. Qed.
Lemma uexpand_nil fs fu : expand_unbounded fs fu [] = UOk [].
Proof. destruct fu; reflexivity. Qed.
Lemma uexpand_plain fs fu n r : expand_unbounded fs fu (Plain n :: r) = match expand_unbounded fs fu r with UOk l => UOk (n :: l) | e => e end.
Proof. destruct fu; reflexivity. Qed.
Lemma uexpand_at_0 fs f r : expand_unbounded fs 0 (At f :: r) = UFuel.
Proof. reflexivity. Qed.
Lemma uexpand_at_S fs fu f r : expand_unbounded fs (S fu) (At f :: r) =
  match fs f with
  | None => UMissing
  | Some inner => match expand_unbounded fs fu inner with
                  | UOk l1 => match expand_unbounded fs (S fu) r with UOk l2 => UOk (l1 ++ l2) | e => e end
                  | e => e
                  end
  end.
Proof. reflexivity. Qed.

(* a file that names itself *)
Lemma self_inclusion_is_reported fs f : fs f = Some [At f] -> forall levels, expand fs levels [At f] = XTooDeep.
Proof. intros H. induction levels as [|lv IH]; [reflexivity|]. rewrite expand_at_S, H, IH. reflexivity. Qed.
Lemma self_inclusion_never_ends_unbounded fs f : fs f = Some [At f] -> forall fuel, expand_unbounded fs fuel [At f] = UFuel.
Proof. intros H. induction fuel as [|fu IH]; [reflexivity|]. rewrite uexpand_at_S, H, IH. reflexivity. Qed.

(* within the bound the two agree: the bound changes nothing for inputs that do not reach it *)
Lemma bounded_agrees fs : forall levels args l, expand_unbounded fs levels args = UOk l -> expand fs levels args = XOk l.
Proof.
  induction levels as [|lv IH]; intros args; induction args as [|[n|f] r IHr]; intros l H.
  - rewrite uexpand_nil in H. inversion H. apply expand_nil.
  - rewrite uexpand_plain in H. rewrite expand_plain. destruct (expand_unbounded fs 0 r) as [l0| |]; try discriminate.
    inversion H; subst. rewrite (IHr l0 eq_refl). reflexivity.
  - rewrite uexpand_at_0 in H. discriminate.
  - rewrite uexpand_nil in H. inversion H. apply expand_nil.
  - rewrite uexpand_plain in H. rewrite expand_plain. destruct (expand_unbounded fs (S lv) r) as [l0| |]; try discriminate.
    inversion H; subst. rewrite (IHr l0 eq_refl). reflexivity.
  - rewrite uexpand_at_S in H. rewrite expand_at_S. destruct (fs f) as [inner|]; [|discriminate].
    destruct (expand_unbounded fs lv inner) as [l1| |] eqn:E1; try discriminate. rewrite (IH inner l1 E1).
    destruct (expand_unbounded fs (S lv) r) as [l2| |]; try discriminate. inversion H; subst. rewrite (IHr l2 eq_refl). reflexivity.
Qed.
