(* C22 / C32 — the version-script and export-list parsers (libwild/src/version_script.rs parse_version_script,
   parse_version_section, parse_matcher; export_list.rs parse_export_list; linker_script.rs skip_comments_and_whitespace)
   as total functions over byte lists.  Every loop of the Rust code is a fuelled recursion here; `Fuel` is the result when
   the fuel runs out, and VScriptProofs.v shows it is never the result with fuel = length of the input + 1: every loop
   iteration consumes at least one byte (the property the pinned tree broke in the `extern` loop, see the refutation).
   winnow: take_until(1.., lit) = up to the FIRST occurrence of lit, error if there is none or it is at offset 0;
   take_until(0.., lit) likewise but offset 0 allowed; multispace0 = skip ' ' \t \r \n; `.parse` = whole input consumed.
   Whether the glob crate accepts a pattern is a parameter (glob_ok). *)
From Coq Require Import NArith List Bool Arith.
From WV Require Import C15.Model.
Import ListNotations.
Open Scope N_scope.

Inductive res (A : Type) := Ok (a : A) | Err | Fuel.
Arguments Ok {A} a. Arguments Err {A}. Arguments Fuel {A}.

Definition is_ws (c : N) : bool := (c =? 32) || (c =? 9) || (c =? 13) || (c =? 10).
Fixpoint skip_ws (s : list N) : list N := match s with c :: r => if is_ws c then skip_ws r else s | [] => [] end.

Fixpoint starts (p s : list N) : bool :=
  match p, s with
  | [], _ => true
  | a :: p', b :: s' => (a =? b) && starts p' s'
  | _ :: _, [] => false
  end.
(* offset of the first occurrence of the (non-empty) pattern *)
Fixpoint find_sub (p s : list N) : option nat :=
  if starts p s then Some 0%nat
  else match s with [] => None | _ :: r => match find_sub p r with Some i => Some (S i) | None => None end end.
Definition find_byte (b : N) (s : list N) : option nat := find_sub [b] s.

Definition HASH := [35]. Definition COPEN := [47; 42]. Definition CCLOSE := [42; 47].
Definition SEMI : N := 59. Definition LBRACE : N := 123. Definition RBRACE : N := 125. Definition QUOTE : N := 34.
Definition CLOSE := [125; 59].                                   (* "};" *)
Definition EXTERN := [101; 120; 116; 101; 114; 110; 32].          (* "extern " *)
Definition QCXX := [34; 67; 43; 43; 34]. Definition QC := [34; 67; 34].
Definition GLOBAL := [103; 108; 111; 98; 97; 108; 58]. Definition LOCAL := [108; 111; 99; 97; 108; 58].

(* skip_comments_and_whitespace *)
Fixpoint skip_cw (fuel : nat) (s : list N) : res (list N) :=
  match fuel with
  | O => Fuel
  | S f =>
      let s1 := skip_ws s in
      if starts HASH s1 then
        match find_byte 10 s1 with
        | Some i => if Nat.eqb i 0 then Err else skip_cw f (skipn i s1)
        | None => Err
        end
      else if starts COPEN s1 then
        match find_sub CCLOSE s1 with
        | Some i => if Nat.eqb i 0 then Err else skip_cw f (skipn (i + 2) s1)
        | None => Err
        end
      else Ok s1
  end.

Inductive matcher := MExact (t : list N) | MEscaped (t : list N) | MStar (t : list N) | MNonStar (t : list N) | MAll.
Inductive pm := Single (m : matcher) | Multiple (l : list matcher) | Cxx (l : list matcher).

Fixpoint trim_end_rev (r : list N) : list N :=     (* on the reversed token: <[u8]>::trim_ascii_end drops ' ' \t \n \r \f *)
  match r with c :: r' => if is_ws c || (c =? 12) then trim_end_rev r' else r | [] => [] end.
Definition trim_end (t : list N) : list N := rev (trim_end_rev (rev t)).

Definition strip_quotes (t : list N) : option (list N) :=
  match t with
  | q :: r => if q =? QUOTE then
                match rev r with
                | q2 :: m => if q2 =? QUOTE then Some (rev m) else None
                | [] => None
                end
              else None
  | [] => None
  end.

Section P.
  Variable glob_ok : list N -> bool.

  Definition classify (t : list N) : res matcher :=
    match strip_quotes t with
    | Some u => Ok (MExact u)
    | None =>
        if starts [42] t && Nat.eqb (length t) 1 then Ok MAll
        else match analyze t with
             | Exact => Ok (MExact t)
             | EscapedExact => Ok (MEscaped (unescape t))
             | Star => if glob_ok t then Ok (MStar (rewrite_neg t)) else Err
             | NonStar => if glob_ok t then Ok (MNonStar (rewrite_neg t)) else Err
             end
    end.

  (* the non-extern arm of parse_matcher *)
  Definition parse_single (fuel : nat) (s : list N) (without_semicolon : bool) : res (matcher * list N) :=
    let tok :=
      if without_semicolon then
        match find_byte RBRACE s with
        | Some i => if Nat.eqb i 0 then None else Some (firstn i s, skipn i s)
        | None => Some (s, [])                                (* winnow::token::rest *)
        end
      else
        match find_byte SEMI s with
        | Some i => if Nat.eqb i 0 then None else Some (firstn i s, skipn i s)
        | None => None
        end in
    match tok with
    | None => Err
    | Some (t, r) =>
        match skip_cw fuel r with
        | Ok r1 =>
            let r2 := match r1 with c :: r' => if c =? SEMI then r' else r1 | [] => r1 end in
            match classify (trim_end t) with
            | Ok m => Ok (m, r2)
            | Err => Err
            | Fuel => Fuel
            end
        | Err => Err
        | Fuel => Fuel
        end
    end.

  (* does a semicolon lie between the current position and the end of the block?  block = input after the '{',
     s = current input (a suffix of block) *)
  Definition last_index (b : N) (s : list N) : option nat :=
    match find_byte b (rev s) with Some i => Some (length s - 1 - i)%nat | None => None end.
  Definition expect_semicolon (block s : list N) (without_semicolon : bool) : bool :=
    match find_sub CLOSE block with
    | None => without_semicolon
    | Some close_pos =>
        let offset := (length block - length s)%nat in
        if (offset <=? close_pos)%nat then
          match last_index SEMI (firstn close_pos block) with
          | Some ls => (offset <=? ls)%nat
          | None => false
          end
        else
          match find_sub CLOSE s with
          | Some c => existsb (N.eqb SEMI) (firstn c s)
          | None => without_semicolon
          end
    end.

  (* the loop of an extern block *)
  Fixpoint extern_loop (fuel : nat) (block s : list N) (without_semicolon : bool) (acc : list matcher) : res (list matcher * list N) :=
    match fuel with
    | O => Fuel
    | S f =>
        match skip_cw (S (length s)) s with
        | Ok s1 =>
            if starts CLOSE s1 then
              match skip_cw (S (length s1)) (skipn 2 s1) with
              | Ok s2 => Ok (rev acc, s2)
              | Err => Err
              | Fuel => Fuel
              end
            else match s1 with
                 | [] => Err
                 | _ =>
                     if starts EXTERN s1 then Err
                     else match parse_single (S (length s1)) s1 (negb (expect_semicolon block s1 without_semicolon)) with
                          | Ok (m, r) => extern_loop f block r without_semicolon (m :: acc)
                          | Err => Err
                          | Fuel => Fuel
                          end
                 end
        | Err => Err
        | Fuel => Fuel
        end
    end.

  Definition parse_matcher (s : list N) (without_semicolon : bool) : res (pm * list N) :=
    if starts EXTERN s then
      let s0 := skipn 7 s in
      let hdr := if starts QCXX s0 then Some (true, skipn 5 s0) else if starts QC s0 then Some (false, skipn 3 s0) else None in
      match hdr with
      | None => Err
      | Some (cxx, s1) =>
          match skip_cw (S (length s1)) s1 with
          | Ok (c :: block) =>
              if c =? LBRACE then
                match extern_loop (S (length block)) block block without_semicolon [] with
                | Ok (ms, r) => Ok (if cxx then Cxx ms else Multiple ms, r)
                | Err => Err
                | Fuel => Fuel
                end
              else Err
          | Ok [] => Err
          | Err => Err
          | Fuel => Fuel
          end
      end
    else
      match parse_single (S (length s)) s without_semicolon with
      | Ok (m, r) => Ok (Single m, r)
      | Err => Err
      | Fuel => Fuel
      end.

  Record body := { globals : list pm; locals : list pm }.

  (* parse_version_section, after the '{' *)
  Fixpoint section_loop (fuel : nat) (s : list N) (in_local : bool) (g l : list pm) : res (body * list N) :=
    match fuel with
    | O => Fuel
    | S f =>
        match skip_cw (S (length s)) s with
        | Ok s1 =>
            match s1 with
            | c :: r =>
                if c =? RBRACE then
                  match skip_cw (S (length r)) r with
                  | Ok r1 => Ok ({| globals := rev g; locals := rev l |}, r1)
                  | Err => Err
                  | Fuel => Fuel
                  end
                else if starts GLOBAL s1 then section_loop f (skipn 7 s1) false g l
                else if starts LOCAL s1 then section_loop f (skipn 6 s1) true g l
                else match parse_matcher s1 false with
                     | Ok (m, r1) => if in_local then section_loop f r1 in_local g (m :: l) else section_loop f r1 in_local (m :: g) l
                     | Err => Err
                     | Fuel => Fuel
                     end
            | [] => match parse_matcher s1 false with Ok _ => Err | Err => Err | Fuel => Fuel end
            end
        | Err => Err
        | Fuel => Fuel
        end
    end.
  Definition parse_section (s : list N) : res (body * list N) :=
    match s with
    | c :: r => if c =? LBRACE then section_loop (S (length r)) r false [] [] else Err
    | [] => Err
    end.

  Definition tok_byte (c : N) : bool := negb ((c =? 32) || (c =? 40) || (c =? 41) || (c =? 123) || (c =? 125) || (c =? 10) || (c =? 9)).
  Fixpoint take_tok (s : list N) : list N * list N :=
    match s with c :: r => if tok_byte c then let (t, r') := take_tok r in (c :: t, r') else ([], s) | [] => ([], []) end.

  Fixpoint beqb (a b : list N) : bool :=
    match a, b with [], [] => true | x :: a', y :: b' => (x =? y) && beqb a' b' | _, _ => false end.
  Fixpoint position (names : list (list N)) (n : list N) (i : nat) : option nat :=
    match names with [] => None | x :: r => if beqb x n then Some i else position r n (S i) end.

  Record version := { vname : list N; vparent : option nat; vbody : body }.
  Inductive script := Simple (b : body) | Versions (vs : list version).

  (* the `while !input.is_empty()` loop; names holds the version names so far, the base version "" first *)
  Fixpoint versions_loop (fuel : nat) (s : list N) (names : list (list N)) (acc : list version) : res script :=
    match fuel with
    | O => Fuel
    | S f =>
        match s with
        | [] => Ok (Versions (rev acc))
        | _ =>
            let (name, r) := take_tok s in
            match name with
            | [] => Err
            | _ =>
                match skip_cw (S (length r)) r with
                | Ok r1 =>
                    match parse_section r1 with
                    | Ok (b, r2) =>
                        match find_byte SEMI r2 with
                        | Some i =>
                            let parent := firstn i r2 in
                            let pidx := match parent with [] => Some None | _ => match position names parent 0 with Some k => Some (Some k) | None => None end end in
                            match pidx with
                            | None => Err
                            | Some p =>
                                match skip_cw (S (length r2)) (skipn (S i) r2) with
                                | Ok r3 => versions_loop f r3 (names ++ [name]) ({| vname := name; vparent := p; vbody := b |} :: acc)
                                | Err => Err
                                | Fuel => Fuel
                                end
                            end
                        | None => Err
                        end
                    | Err => Err
                    | Fuel => Fuel
                    end
                | Err => Err
                | Fuel => Fuel
                end
            end
        end
    end.

  (* parse_version_script under `.parse` (the whole input must be consumed) *)
  Definition parse_version_script (input : list N) : res script :=
    match skip_cw (S (length input)) input with
    | Ok s =>
        if starts [LBRACE] s then
          match parse_section s with
          | Ok (b, c :: r) =>
              if c =? SEMI then
                match skip_cw (S (length r)) r with
                | Ok [] => Ok (Simple b)
                | Ok _ => Err
                | Err => Err
                | Fuel => Fuel
                end
              else Err
          | Ok (_, []) => Err
          | Err => Err
          | Fuel => Fuel
          end
        else versions_loop (S (length s)) s [[]] []
    | Err => Err
    | Fuel => Fuel
    end.

  (* export_list.rs parse_export_list *)
  Fixpoint export_loop (fuel : nat) (s : list N) (acc : list pm) : res (list pm) :=
    match fuel with
    | O => Fuel
    | S f =>
        match skip_cw (S (length s)) s with
        | Ok s1 =>
            if starts CLOSE s1 then
              match skip_cw (S (length s1)) (skipn 2 s1) with
              | Ok [] => Ok (rev acc)
              | Ok _ => Err
              | Err => Err
              | Fuel => Fuel
              end
            else match parse_matcher s1 false with
                 | Ok (m, r) => export_loop f r (m :: acc)
                 | Err => Err
                 | Fuel => Fuel
                 end
        | Err => Err
        | Fuel => Fuel
        end
    end.
  Definition parse_export_list (input : list N) : res (list pm) :=
    match skip_cw (S (length input)) input with
    | Ok (c :: r) => if c =? LBRACE then export_loop (S (length r)) r [] else Err
    | Ok [] => Err
    | Err => Err
    | Fuel => Fuel
    end.

  (* ---- the extern loop of the pinned tree: at end of input (block never closed) with without_semicolon, the
     matcher parser took "everything that is left", i.e. nothing, and the loop went round again ---- *)
  Fixpoint extern_loop_pinned (fuel : nat) (s : list N) : res (list N) :=
    match fuel with
    | O => Fuel
    | S f =>
        match skip_cw (S (length s)) s with
        | Ok s1 =>
            if starts CLOSE s1 then Ok (skipn 2 s1)
            else match parse_single (S (length s1)) s1 true with          (* no `};` ahead and called with without_semicolon *)
                 | Ok (_, r) => extern_loop_pinned f r
                 | Err => Err
                 | Fuel => Fuel
                 end
        | Err => Err
        | Fuel => Fuel
        end
    end.
End P.
