(* the same for export lists (--dynamic-list): "{" patterns "};" *)
From Coq Require Import NArith List Bool Arith Lia.
From WV Require Import C15.Model C22.VScript C22.VScriptProofs C22.VRound.
Import ListNotations.
Open Scope N_scope.

Definition print_export (ps : list (list N)) : list N := LBRACE :: print_pats ps ++ CLOSE.

Lemma not_close p rest : good p -> starts CLOSE (p ++ SEMI :: rest) = false.
Proof.
  intros [Hne [H _]]. destruct p as [|c p]; [contradiction|]. cbn [forallb] in H. apply andb_prop in H. destruct H as [Hc _].
  destruct (pat_byte_cases c Hc) as (_ & _ & _ & _ & _ & E6 & _). unfold CLOSE, RBRACE in *. cbn [app starts].
  rewrite N.eqb_sym, E6. reflexivity.
Qed.

Section RE.
  Variable glob_ok : list N -> bool.
  Hypothesis glob_ok_pat : forall p, forallb pat_byte p = true -> nodstar p = true -> glob_ok p = true.

  Lemma export_pats : forall ps f acc, Forall good ps -> (length (print_pats ps ++ CLOSE) < f)%nat ->
    export_loop glob_ok f (print_pats ps ++ CLOSE) acc = Ok (rev acc ++ singles ps).
  Proof.
    induction ps as [|p ps IH]; intros f acc Hg Hf.
    - cbn [print_pats flat_map app singles map]. rewrite app_nil_r. destruct f as [|f]; [cbn [length CLOSE] in Hf; lia|].
      cbn [export_loop]. unfold CLOSE at 1 2. rewrite (skip_cw_solid 125 _ _ eq_refl).
      replace (starts CLOSE [125; 59]) with true by reflexivity. cbn [skipn]. reflexivity.
    - inversion Hg as [|? ? Hp Hps]; subst. rewrite print_pats_cons in *. destruct f as [|f]; [lia|]. cbn [export_loop].
      pose proof Hp as [Hne [Hpb Hds]]. destruct p as [|c p']; [contradiction|]. cbn [app].
      assert (Hc : pat_byte c = true) by (cbn [forallb] in Hpb; apply andb_prop in Hpb; apply Hpb).
      rewrite (skip_cw_solid c _ _ (pat_byte_solid c Hc)).
      change (c :: p' ++ SEMI :: print_pats ps ++ CLOSE) with ((c :: p') ++ SEMI :: (print_pats ps ++ CLOSE)).
      rewrite (not_close _ _ Hp). rewrite (parse_matcher_pat glob_ok glob_ok_pat (c :: p') _ Hp).
      rewrite (IH f (Single (expected (c :: p')) :: acc) Hps).
      + cbn [rev singles map]. rewrite <- app_assoc. reflexivity.
      + cbn [length app] in Hf. rewrite app_length in Hf. cbn [length] in Hf. lia.
  Qed.

  Theorem export_list_round_trip ps : Forall good ps -> parse_export_list glob_ok (print_export ps) = Ok (singles ps).
  Proof.
    intros Hg. unfold parse_export_list, print_export. rewrite (skip_cw_solid LBRACE _ _ eq_refl). rewrite N.eqb_refl.
    rewrite (export_pats ps _ [] Hg (Nat.lt_succ_diag_r _)). reflexivity.
  Qed.
End RE.
