From Coq Require Import NArith List Bool Lia.
From WV Require Import C22.Model.
Import ListNotations.
Open Scope N_scope.

Section P.
  Variable is_ws : N -> bool.
  Hypothesis bsl_not_ws : is_ws BSL = false.

  Definition S0 (o : list (list N)) (h : option (list N)) : st := {| out := o; heap := h; quote := None; expect_ws := false |}.
  Definition hl (h : option (list N)) : list N := match h with Some l => l | None => [] end.

  Lemma bsl_not_quote : is_quote BSL = false. Proof. reflexivity. Qed.

  Lemma read_escaped : forall w o h rest,
    w <> [] \/ h <> None ->
    tok is_ws (S0 o h) (escape is_ws w ++ rest) = tok is_ws (S0 o (match w, h with [], _ => h | _, _ => Some (rev w ++ hl h) end)) rest.
  Proof.
    induction w as [|c r IH]; intros o h rest Hne; cbn [escape app]; [reflexivity|].
    assert (Hstep : forall rest', tok is_ws (S0 o h) ((if is_quote c || is_ws c || (c =? BSL) then [BSL; c] else [c]) ++ rest') = tok is_ws (S0 o (Some (c :: hl h))) rest').
    { intros rest'. destruct (is_quote c || is_ws c || (c =? BSL)) eqn:E.
      - cbn [app tok S0 expect_ws andb]. rewrite bsl_not_quote, bsl_not_ws. change (BSL =? BSL) with true. cbn match. reflexivity.
      - apply orb_false_iff in E. destruct E as (E & E3). apply orb_false_iff in E. destruct E as (E1 & E2).
        cbn [app tok S0 expect_ws andb]. rewrite E1, E2, E3. reflexivity. }
    rewrite <- app_assoc, Hstep. destruct r as [|c2 r2].
    - cbn [escape app rev]. reflexivity.
    - rewrite IH by (right; discriminate). cbn [hl]. f_equal. f_equal. cbn [rev]. rewrite <- !app_assoc. reflexivity.
  Qed.

  Lemma read_sep sp o l rest : is_ws sp = true -> is_quote sp = false ->
    tok is_ws (S0 o (Some l)) (sp :: rest) = tok is_ws (S0 (rev l :: o) None) rest.
  Proof. intros H1 H2. cbn [tok S0 expect_ws andb]. rewrite H2, H1. reflexivity. Qed.

  Theorem tokenizer_round_trip sp : is_ws sp = true -> is_quote sp = false ->
    forall ws o, Forall (fun w => w <> []) ws ->
      tok is_ws (S0 o None) (flat_map (fun w => escape is_ws w ++ [sp]) ws) = Ok (rev o ++ ws).
  Proof.
    intros H1 H2. induction ws as [|w r IH]; intros o Hne; cbn [flat_map].
    - cbn. rewrite app_nil_r. reflexivity.
    - inversion Hne as [|? ? Hw Hr]; subst. rewrite <- app_assoc, read_escaped by (left; exact Hw).
      destruct w as [|c w']; [contradiction|]. cbn [hl app]. rewrite app_nil_r, read_sep by assumption. rewrite rev_involutive, IH by exact Hr.
      cbn [rev]. rewrite <- app_assoc. reflexivity.
  Qed.
End P.
