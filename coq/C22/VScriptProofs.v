From Coq Require Import NArith List Bool Arith Lia.
From WV Require Import C15.Model C22.VScript.
Import ListNotations.
Open Scope N_scope.

Lemma skip_ws_len s : (length (skip_ws s) <= length s)%nat.
Proof. induction s as [|c r IH]; cbn [skip_ws]; [lia|]. destruct (is_ws c); cbn [length]; lia. Qed.

Lemma starts_len p s : starts p s = true -> (length p <= length s)%nat.
Proof.
  revert s; induction p as [|a p IH]; intros s H; cbn [length]; [lia|].
  destruct s as [|b s]; cbn [starts] in H; [discriminate|]. apply andb_prop in H. destruct H as [_ H]. apply IH in H. cbn [length]. lia.
Qed.

Lemma find_sub_bound p s i : find_sub p s = Some i -> (i + length p <= length s)%nat.
Proof.
  revert i; induction s as [|c r IH]; intros i H.
  - cbn [find_sub] in H. destruct (starts p []) eqn:E; [|discriminate]. inversion H; subst. apply starts_len in E. lia.
  - cbn [find_sub] in H. destruct (starts p (c :: r)) eqn:E.
    + inversion H; subst. apply starts_len in E. lia.
    + destruct (find_sub p r) as [j|] eqn:F; [|discriminate]. inversion H; subst. specialize (IH j eq_refl). cbn [length]. lia.
Qed.
Lemma find_byte_bound b s i : find_byte b s = Some i -> (i < length s)%nat.
Proof. intros H. apply find_sub_bound in H. cbn [length] in H. lia. Qed.

Lemma skip_cw_ok : forall fuel s, (length s < fuel)%nat ->
  skip_cw fuel s <> Fuel /\ forall r, skip_cw fuel s = Ok r -> (length r <= length s)%nat.
Proof.
  induction fuel as [|f IH]; intros s Hf; [lia|]. cbn [skip_cw].
  pose proof (skip_ws_len s) as Hw. set (s1 := skip_ws s) in *.
  destruct (starts HASH s1).
  - destruct (find_byte 10 s1) as [i|] eqn:F; [|split; [discriminate|intros r H; discriminate]].
    destruct (Nat.eqb_spec i 0); [split; [discriminate|intros r H; discriminate]|].
    pose proof (find_byte_bound _ _ _ F). assert (L : length (skipn i s1) = (length s1 - i)%nat) by apply skipn_length.
    destruct (IH (skipn i s1) ltac:(lia)) as [H1 H2]. split; [exact H1|]. intros r Hr. specialize (H2 r Hr). lia.
  - destruct (starts COPEN s1).
    + destruct (find_sub CCLOSE s1) as [i|] eqn:F; [|split; [discriminate|intros r H; discriminate]].
      destruct (Nat.eqb_spec i 0); [split; [discriminate|intros r H; discriminate]|].
      pose proof (find_sub_bound _ _ _ F) as B. cbn [length CCLOSE] in B.
      assert (L : length (skipn (i + 2) s1) = (length s1 - (i + 2))%nat) by apply skipn_length.
      destruct (IH (skipn (i + 2) s1) ltac:(lia)) as [H1 H2]. split; [exact H1|]. intros r Hr. specialize (H2 r Hr). lia.
    + split; [discriminate|]. intros r H. inversion H; subst. exact Hw.
Qed.
Lemma skip_cw_nofuel s : skip_cw (S (length s)) s <> Fuel.
Proof. apply skip_cw_ok. lia. Qed.
Lemma skip_cw_len s r : skip_cw (S (length s)) s = Ok r -> (length r <= length s)%nat.
Proof. apply skip_cw_ok. lia. Qed.

Section P.
  Variable glob_ok : list N -> bool.

  Lemma classify_nofuel t : classify glob_ok t <> Fuel.
  Proof.
    unfold classify. destruct (strip_quotes t); [discriminate|]. destruct (starts [42] t && Nat.eqb (length t) 1); [discriminate|].
    destruct (analyze t); try discriminate; destruct (glob_ok t); discriminate.
  Qed.

  (* parse_single: never out of fuel when the fuel exceeds the input; on success at least one byte is gone unless the
     input was empty *)
  Lemma parse_single_ok s w : forall fuel, (length s < fuel)%nat ->
    parse_single glob_ok fuel s w <> Fuel /\
    forall m r, parse_single glob_ok fuel s w = Ok (m, r) -> (length r <= length s)%nat /\ (s <> [] -> (length r < length s)%nat).
  Proof.
    intros fuel Hf. unfold parse_single.
    set (tok := if w then _ else _).
    assert (Ht : match tok with None => True | Some (t, r) => (length r <= length s)%nat /\ (s <> [] -> (length r < length s)%nat) end).
    { unfold tok. destruct w.
      - destruct (find_byte RBRACE s) as [i|] eqn:F.
        + destruct (Nat.eqb_spec i 0); [exact I|]. pose proof (find_byte_bound _ _ _ F). rewrite skipn_length. split; intros; lia.
        + cbn [length]. split; [lia|]. intros Hne. destruct s; [contradiction|cbn [length]; lia].
      - destruct (find_byte SEMI s) as [i|] eqn:F; [|exact I].
        destruct (Nat.eqb_spec i 0); [exact I|]. pose proof (find_byte_bound _ _ _ F). rewrite skipn_length. split; intros; lia. }
    destruct tok as [[t r]|]; [|split; [discriminate|intros m r0 H; discriminate]].
    destruct Ht as [Hle Hlt].
    destruct (skip_cw_ok fuel r ltac:(lia)) as [Hn Hl].
    destruct (skip_cw fuel r) as [r1| |] eqn:E; [|split; [discriminate|intros m r0 H; discriminate]|contradiction].
    specialize (Hl r1 eq_refl).
    set (r2 := match r1 with c :: r' => if c =? SEMI then r' else r1 | [] => r1 end).
    assert (Hr2 : (length r2 <= length r1)%nat) by (unfold r2; destruct r1 as [|c r']; [lia|]; destruct (c =? SEMI); cbn [length]; lia).
    pose proof (classify_nofuel (trim_end t)) as Hc.
    destruct (classify glob_ok (trim_end t)) as [m| |]; [|split; [discriminate|intros m0 r0 H; discriminate]|contradiction].
    split; [discriminate|]. intros m0 r0 H. inversion H; subst. split; [lia|]. intros Hne. specialize (Hlt Hne). lia.
  Qed.

  Lemma extern_loop_ok block w : forall fuel s acc, (length s < fuel)%nat ->
    extern_loop glob_ok fuel block s w acc <> Fuel /\
    forall ms r, extern_loop glob_ok fuel block s w acc = Ok (ms, r) -> (length r <= length s)%nat.
  Proof.
    induction fuel as [|f IH]; intros s acc Hf; [lia|]. cbn [extern_loop].
    pose proof (skip_cw_nofuel s) as Hn. pose proof (skip_cw_len s) as Hl.
    destruct (skip_cw (S (length s)) s) as [s1| |]; [|split; [discriminate|intros ms r H; discriminate]|contradiction].
    specialize (Hl s1 eq_refl).
    destruct (starts CLOSE s1).
    - destruct (skip_cw_ok (S (length s1)) (skipn 2 s1) ltac:(rewrite skipn_length; lia)) as [Hn2 Hl2].
      destruct (skip_cw (S (length s1)) (skipn 2 s1)) as [s2| |]; [|split; [discriminate|intros ms r H; discriminate]|contradiction].
      split; [discriminate|]. intros ms r H. inversion H; subst. specialize (Hl2 r eq_refl). rewrite skipn_length in Hl2. lia.
    - destruct s1 as [|c s1']; [split; [discriminate|intros ms r H; discriminate]|].
      set (s1 := c :: s1') in *.
      destruct (starts EXTERN s1); [split; [discriminate|intros ms r H; discriminate]|].
      destruct (parse_single_ok s1 (negb (expect_semicolon block s1 w)) (S (length s1)) ltac:(lia)) as [Hp1 Hp2].
      destruct (parse_single glob_ok (S (length s1)) s1 (negb (expect_semicolon block s1 w))) as [[m r]| |];
        [|split; [discriminate|intros ms r H; discriminate]|contradiction].
      destruct (Hp2 m r eq_refl) as [_ Hlt]. specialize (Hlt ltac:(unfold s1; discriminate)).
      destruct (IH r (m :: acc) ltac:(lia)) as [H1 H2]. split; [exact H1|]. intros ms r0 H. specialize (H2 ms r0 H). lia.
  Qed.

  Lemma parse_matcher_ok s w :
    parse_matcher glob_ok s w <> Fuel /\
    forall m r, parse_matcher glob_ok s w = Ok (m, r) -> (length r <= length s)%nat /\ (s <> [] -> (length r < length s)%nat).
  Proof.
    unfold parse_matcher. destruct (starts EXTERN s) eqn:Es.
    - apply starts_len in Es. cbn [length EXTERN] in Es.
      set (s0 := skipn 7 s). assert (L0 : length s0 = (length s - 7)%nat) by apply skipn_length.
      set (hdr := if starts QCXX s0 then _ else _).
      assert (Hh : match hdr with None => True | Some (_, s1) => (length s1 <= length s0)%nat end).
      { unfold hdr. destruct (starts QCXX s0); [rewrite skipn_length; lia|]. destruct (starts QC s0); [rewrite skipn_length; lia|exact I]. }
      destruct hdr as [[cxx s1]|]; [|split; [discriminate|intros m r H; discriminate]].
      pose proof (skip_cw_nofuel s1) as Hn. pose proof (skip_cw_len s1) as Hl.
      destruct (skip_cw (S (length s1)) s1) as [[|c block]| |]; [split; [discriminate|intros m r H; discriminate]| |split; [discriminate|intros m r H; discriminate]|contradiction].
      specialize (Hl _ eq_refl). cbn [length] in Hl.
      destruct (c =? LBRACE); [|split; [discriminate|intros m r H; discriminate]].
      destruct (extern_loop_ok block w (S (length block)) block [] ltac:(lia)) as [H1 H2].
      destruct (extern_loop glob_ok (S (length block)) block block w []) as [[ms r]| |]; [|split; [discriminate|intros m r H; discriminate]|contradiction].
      split; [discriminate|]. intros m r0 H. inversion H; subst. specialize (H2 ms r0 eq_refl). split; [lia|intros _; lia].
    - destruct (parse_single_ok s w (S (length s)) ltac:(lia)) as [H1 H2].
      destruct (parse_single glob_ok (S (length s)) s w) as [[m r]| |]; [|split; [discriminate|intros m r H; discriminate]|contradiction].
      split; [discriminate|]. intros m0 r0 H. inversion H; subst. apply (H2 m r0 eq_refl).
  Qed.

  Lemma section_loop_ok : forall fuel s loc g l, (length s < fuel)%nat ->
    section_loop glob_ok fuel s loc g l <> Fuel /\
    forall b r, section_loop glob_ok fuel s loc g l = Ok (b, r) -> (length r <= length s)%nat.
  Proof.
    induction fuel as [|f IH]; intros s loc g l Hf; [lia|]. cbn [section_loop].
    pose proof (skip_cw_nofuel s) as Hn. pose proof (skip_cw_len s) as Hl.
    destruct (skip_cw (S (length s)) s) as [s1| |]; [|split; [discriminate|intros b r H; discriminate]|contradiction].
    specialize (Hl s1 eq_refl).
    destruct s1 as [|c r].
    - destruct (parse_matcher_ok [] false) as [H1 _]. destruct (parse_matcher glob_ok [] false); [split; [discriminate|intros b r H; discriminate]|split; [discriminate|intros b r H; discriminate]|contradiction].
    - cbn [length] in Hl. destruct (c =? RBRACE).
      + pose proof (skip_cw_nofuel r) as Hn2. pose proof (skip_cw_len r) as Hl2.
        destruct (skip_cw (S (length r)) r) as [r1| |]; [|split; [discriminate|intros b r0 H; discriminate]|contradiction].
        split; [discriminate|]. intros b r0 H. inversion H; subst. specialize (Hl2 r0 eq_refl). lia.
      + destruct (starts GLOBAL (c :: r)) eqn:Eg.
        { apply starts_len in Eg. cbn [length GLOBAL] in Eg.
          assert (L : length (skipn 7 (c :: r)) = (length (c :: r) - 7)%nat) by apply skipn_length. cbn [length] in L.
          destruct (IH (skipn 7 (c :: r)) false g l ltac:(lia)) as [H1 H2]. split; [exact H1|]. intros b r0 H. specialize (H2 b r0 H). lia. }
        destruct (starts LOCAL (c :: r)) eqn:El.
        { apply starts_len in El. cbn [length LOCAL] in El.
          assert (L : length (skipn 6 (c :: r)) = (length (c :: r) - 6)%nat) by apply skipn_length. cbn [length] in L.
          destruct (IH (skipn 6 (c :: r)) true g l ltac:(lia)) as [H1 H2]. split; [exact H1|]. intros b r0 H. specialize (H2 b r0 H). lia. }
        destruct (parse_matcher_ok (c :: r) false) as [H1 H2].
        destruct (parse_matcher glob_ok (c :: r) false) as [[m r1]| |]; [|split; [discriminate|intros b r0 H; discriminate]|contradiction].
        destruct (H2 m r1 eq_refl) as [_ Hlt]. specialize (Hlt ltac:(discriminate)). cbn [length] in Hlt.
        destruct loc.
        * destruct (IH r1 true g (m :: l) ltac:(lia)) as [H3 H4]. split; [exact H3|]. intros b r0 H. specialize (H4 b r0 H). lia.
        * destruct (IH r1 false (m :: g) l ltac:(lia)) as [H3 H4]. split; [exact H3|]. intros b r0 H. specialize (H4 b r0 H). lia.
  Qed.

  Lemma parse_section_ok s :
    parse_section glob_ok s <> Fuel /\ forall b r, parse_section glob_ok s = Ok (b, r) -> (length r < length s)%nat.
  Proof.
    unfold parse_section. destruct s as [|c r]; [split; [discriminate|intros b r H; discriminate]|].
    destruct (c =? LBRACE); [|split; [discriminate|intros b r0 H; discriminate]].
    destruct (section_loop_ok (S (length r)) r false [] [] ltac:(lia)) as [H1 H2]. split; [exact H1|].
    intros b r0 H. specialize (H2 b r0 H). cbn [length]. lia.
  Qed.

  Lemma take_tok_len s : (length (snd (take_tok s)) + length (fst (take_tok s)) = length s)%nat.
  Proof.
    induction s as [|c r IH]; cbn [take_tok]; [reflexivity|]. destruct (tok_byte c); [|cbn [fst snd length]; lia].
    destruct (take_tok r) as [t r']. cbn [fst snd length] in *. lia.
  Qed.

  Lemma versions_loop_ok : forall fuel s names acc, (length s < fuel)%nat -> versions_loop glob_ok fuel s names acc <> Fuel.
  Proof.
    induction fuel as [|f IH]; intros s names acc Hf; [lia|]. cbn [versions_loop].
    destruct s as [|c s']; [discriminate|]. set (s := c :: s') in *.
    pose proof (take_tok_len s) as Ht. destruct (take_tok s) as [name r]. cbn [fst snd] in Ht.
    destruct name as [|n0 name']; [discriminate|]. cbn [length] in Ht.
    pose proof (skip_cw_nofuel r) as Hn. pose proof (skip_cw_len r) as Hl.
    destruct (skip_cw (S (length r)) r) as [r1| |]; [|discriminate|contradiction]. specialize (Hl r1 eq_refl).
    destruct (parse_section_ok r1) as [H1 H2].
    destruct (parse_section glob_ok r1) as [[b r2]| |]; [|discriminate|contradiction]. specialize (H2 b r2 eq_refl).
    destruct (find_byte SEMI r2) as [i|] eqn:F; [|discriminate].
    cbv zeta.
    match goal with |- context [match ?X with Some _ => _ | None => Err end] => destruct X as [p|] end; [|discriminate].
    destruct (skip_cw_ok (S (length r2)) (skipn (S i) r2) ltac:(rewrite skipn_length; lia)) as [K1 K2].
    destruct (skip_cw (S (length r2)) (skipn (S i) r2)) as [r3| |]; [|discriminate|contradiction].
    specialize (K2 r3 eq_refl). rewrite skipn_length in K2. apply IH. subst s. cbn [length] in Hf, Ht. lia.
  Qed.

  Theorem parse_version_script_terminates input : parse_version_script glob_ok input <> Fuel.
  Proof.
    unfold parse_version_script.
    pose proof (skip_cw_nofuel input) as Hn.
    destruct (skip_cw (S (length input)) input) as [s| |]; [|discriminate|contradiction].
    destruct (starts [LBRACE] s).
    - destruct (parse_section_ok s) as [H1 _].
      destruct (parse_section glob_ok s) as [[b [|c r]]| |]; [discriminate| |discriminate|contradiction].
      destruct (c =? SEMI); [|discriminate].
      pose proof (skip_cw_nofuel r) as Hn2. destruct (skip_cw (S (length r)) r) as [[|x y]| |]; try discriminate. contradiction.
    - apply versions_loop_ok. lia.
  Qed.

  Lemma export_loop_ok : forall fuel s acc, (length s < fuel)%nat -> export_loop glob_ok fuel s acc <> Fuel.
  Proof.
    induction fuel as [|f IH]; intros s acc Hf; [lia|]. cbn [export_loop].
    pose proof (skip_cw_nofuel s) as Hn. pose proof (skip_cw_len s) as Hl.
    destruct (skip_cw (S (length s)) s) as [s1| |]; [|discriminate|contradiction]. specialize (Hl s1 eq_refl).
    destruct (starts CLOSE s1).
    - destruct (skip_cw_ok (S (length s1)) (skipn 2 s1) ltac:(rewrite skipn_length; lia)) as [Hn2 _].
      destruct (skip_cw (S (length s1)) (skipn 2 s1)) as [[|x y]| |]; try discriminate. contradiction.
    - destruct (parse_matcher_ok s1 false) as [H1 H2].
      destruct (parse_matcher glob_ok s1 false) as [[m r]| |] eqn:E; [|discriminate|contradiction].
      destruct (H2 m r eq_refl) as [Hle Hlt]. apply IH.
      destruct s1 as [|c s1']; [|specialize (Hlt ltac:(discriminate)); lia].
      (* parse_matcher [] false never succeeds *)
      exfalso. unfold parse_matcher in E. cbn in E. discriminate.
  Qed.

  Theorem parse_export_list_terminates input : parse_export_list glob_ok input <> Fuel.
  Proof.
    unfold parse_export_list. pose proof (skip_cw_nofuel input) as Hn.
    destruct (skip_cw (S (length input)) input) as [[|c r]| |]; [discriminate| |discriminate|contradiction].
    destruct (c =? LBRACE); [|discriminate]. apply export_loop_ok. lia.
  Qed.

  (* the pinned tree's extern loop at the end of the input: no amount of fuel is enough *)
  Theorem extern_loop_pinned_never_ends : forall fuel, extern_loop_pinned glob_ok fuel [] = Fuel.
  Proof. induction fuel as [|f IH]; [reflexivity|]. cbn. exact IH. Qed.
End P.
