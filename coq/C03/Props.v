(* C03 (and the loaded-set half of C37) — property theorems only. *)
From Coq Require Import List Bool Arith.
From WV Require Import C03.Model C03.Proofs.
Import ListNotations.

(* whatever order the parallel resolution tasks run in (any pending file may be processed next), when nothing is pending the set of
   loaded files is exactly the least set that contains the non-optional files and is closed under non-weak references to the
   first definition of a name: schedule-independent, and independent of where an archive sits relative to its referrers *)
Theorem C03_loaded_is_lfp : forall files s, wreach files s -> pending s = [] -> forall i, In i (loaded s) <-> InL files i.
Proof. exact loaded_is_lfp. Qed.

(* a file is queued for processing only when it enters the loaded set, hence at most once *)
Theorem C03_pending_are_loaded : forall files s, wreach files s -> forall i, In i (pending s) -> In i (loaded s).
Proof. intros files s Hr. exact (w_pend files s (winv_reach files s Hr)). Qed.

(* the certificate checker used by the correspondence run is sound and complete for the specification *)
Theorem C03_certificate_sound : forall files S, closed_ok files S = true -> derivable_ok files S [] = true ->
  forall i, In i S <-> InL files i.
Proof. exact cert_sound. Qed.

Print Assumptions C03_loaded_is_lfp.
Print Assumptions C03_pending_are_loaded.
Print Assumptions C03_certificate_sound.
