(* C03 / C37 — which files are part of the link (libwild/src/resolution.rs: resolve_group, process_object,
   resolve_symbol, try_request_file_id; grouping.rs: is_optional; symbol_db name table = first definition in
   command-line order).  Names are numbers. *)
From Coq Require Import List Bool Arith.
Import ListNotations.

Record file := {
  optional : bool;                 (* archive semantics and not --whole-archive, or shared object under --as-needed *)
  dynamic : bool;
  defs : list nat;                 (* global names defined *)
  undefs : list (nat * bool)       (* undefined references: (name, weak) *)
}.

Section L.
  Variable files : list file.      (* command-line order; a file's id is its index *)

  Definition defines (f : file) (n : nat) : bool := existsb (Nat.eqb n) (defs f).

  (* the name table: first file, in command-line order, with a global definition of n — loaded or not *)
  Fixpoint first_def_from (fs : list file) (i : nat) (n : nat) : option nat :=
    match fs with
    | [] => None
    | f :: t => if defines f n then Some i else first_def_from t (S i) n
    end.
  Definition first_def (n : nat) : option nat := first_def_from files 0 n.

  (* the files that a loaded file f (index i) requests: resolve_symbol *)
  Definition requests (i : nat) (f : file) : list nat :=
    flat_map (fun (p : nat * bool) => let '(n, weak) := p in
                if weak then []
                else match first_def n with
                     | Some m => if Nat.eqb m i then []
                                 else match nth_error files m with
                                      | Some fm => if dynamic f && dynamic fm then [] else [m]
                                      | None => []
                                      end
                     | None => []
                     end) (undefs f).

  (* the specification: least set containing the non-optional files and closed under requests *)
  Inductive InL : nat -> Prop :=
  | L_root i f : nth_error files i = Some f -> optional f = false -> InL i
  | L_req i f m : InL i -> nth_error files i = Some f -> In m (requests i f) -> InL m.

  (* ---- the parallel worklist: any pending file may be processed next; a file is queued at most once (AtomicTake) ---- *)
  Record wstate := { loaded : list nat; pending : list nat }.

  Definition roots : list nat :=
    map fst (filter (fun p => negb (optional (snd p))) (combine (seq 0 (length files)) files)).
  Definition winit : wstate := {| loaded := roots; pending := roots |}.

  Definition mem (x : nat) (l : list nat) : bool := existsb (Nat.eqb x) l.
  Fixpoint add_new (ms : list nat) (s : wstate) : wstate :=
    match ms with
    | [] => s
    | m :: t => if mem m (loaded s) then add_new t s
                else add_new t {| loaded := m :: loaded s; pending := m :: pending s |}
    end.

  Inductive wstep : wstate -> wstate -> Prop :=
  | W_process s i f before after :
      pending s = before ++ i :: after -> nth_error files i = Some f ->
      wstep s (add_new (requests i f) {| loaded := loaded s; pending := before ++ after |}).

  Inductive wreach : wstate -> Prop :=
  | WR_init : wreach winit
  | WR_step s s' : wreach s -> wstep s s' -> wreach s'.

  (* ---- certificate checker for a claimed loaded set: closed + derivable ---- *)
  Definition closed_ok (S : list nat) : bool :=
    forallb (fun i => mem i S) roots &&
    forallb (fun i => match nth_error files i with
                      | Some f => forallb (fun m => mem m S) (requests i f)
                      | None => false end) S.
  (* order: every element is a root or requested by an earlier element *)
  Fixpoint derivable_ok (order : list nat) (seen : list nat) : bool :=
    match order with
    | [] => true
    | i :: t =>
        (mem i roots ||
         existsb (fun j => match nth_error files j with Some f => mem i (requests j f) | None => false end) seen)
        && derivable_ok t (i :: seen)
    end.

  (* DT_NEEDED: the loaded shared objects, in command-line order *)
  Definition needed (S : list nat) : list nat :=
    filter (fun i => match nth_error files i with Some f => dynamic f && mem i S | None => false end) (seq 0 (length files)).
End L.
