From Coq Require Import List Bool Arith Lia.
From WV Require Import C03.Model.
Import ListNotations.

Section Proofs.
  Variable files : list file.
  Notation InL := (InL files).
  Notation requests := (requests files).
  Notation roots := (roots files).

  Lemma mem_In x l : mem x l = true <-> In x l.
  Proof.
    unfold mem. rewrite existsb_exists. split.
    - intros (y & Hy & E). apply Nat.eqb_eq in E. subst. assumption.
    - intros H. exists x. split; [assumption|apply Nat.eqb_refl].
  Qed.

  Lemma combine_seq_nth {A} (l : list A) : forall k i x, In (i, x) (combine (seq k (length l)) l) <-> (k <= i /\ nth_error l (i - k) = Some x).
  Proof.
    induction l as [|a l IH]; intros k i x; cbn [length seq combine].
    - split; [contradiction|]. intros [_ H]. destruct (i - k); discriminate.
    - cbn [In]. rewrite IH. split.
      + intros [[= <- <-]|[H1 H2]]; [rewrite Nat.sub_diag; auto|].
        split; [lia|]. replace (i - k) with (S (i - S k)) by lia. assumption.
      + intros [H1 H2]. destruct (Nat.eq_dec i k) as [->|Hn].
        * rewrite Nat.sub_diag in H2. cbn in H2. left. congruence.
        * right. split; [lia|]. replace (i - k) with (S (i - S k)) in H2 by lia. assumption.
  Qed.

  Lemma roots_spec i : In i roots <-> exists f, nth_error files i = Some f /\ optional f = false.
  Proof.
    unfold Model.roots. rewrite in_map_iff. split.
    - intros ([j f] & E & H). cbn in E. subst j. apply filter_In in H. destruct H as [H1 H2]. cbn in H2.
      apply combine_seq_nth in H1. destruct H1 as [_ H1]. rewrite Nat.sub_0_r in H1.
      exists f. split; [assumption|]. destruct (optional f); [discriminate|reflexivity].
    - intros (f & H1 & H2). exists (i, f). split; [reflexivity|]. apply filter_In. split.
      + apply combine_seq_nth. split; [lia|]. rewrite Nat.sub_0_r. assumption.
      + cbn. rewrite H2. reflexivity.
  Qed.

  (* ---------- certificate checker ---------- *)
  Lemma derivable_sound order : forall seen, (forall j, In j seen -> InL j) -> derivable_ok files order seen = true ->
    forall i, In i order -> InL i.
  Proof.
    induction order as [|a t IH]; intros seen Hs H i Hi; [contradiction|]. cbn [derivable_ok] in H.
    apply andb_prop in H. destruct H as [Ha Ht].
    assert (La : InL a).
    { apply orb_prop in Ha. destruct Ha as [Ha|Ha].
      - apply mem_In in Ha. apply roots_spec in Ha. destruct Ha as (f & F1 & F2). eapply L_root; eassumption.
      - apply existsb_exists in Ha. destruct Ha as (j & Hj & Hr).
        destruct (nth_error files j) as [f|] eqn:Ef; [|discriminate]. apply mem_In in Hr.
        eapply L_req; [apply Hs; eassumption|eassumption|assumption]. }
    destruct Hi as [<-|Hi]; [assumption|].
    apply (IH (a :: seen)); try assumption. intros j [<-|Hj]; [assumption|apply Hs; assumption].
  Qed.

  Lemma closed_complete S : closed_ok files S = true -> forall i, InL i -> In i S.
  Proof.
    intros H. unfold closed_ok in H. apply andb_prop in H. destruct H as [H1 H2].
    rewrite forallb_forall in H1, H2.
    induction 1 as [i f Hf Ho|i f m Hi IH Hf Hm].
    - apply mem_In. apply H1. apply roots_spec. eauto.
    - specialize (H2 i IH). rewrite Hf in H2. rewrite forallb_forall in H2. apply mem_In. apply H2. assumption.
  Qed.

  Theorem cert_sound S : closed_ok files S = true -> derivable_ok files S [] = true -> forall i, In i S <-> InL i.
  Proof.
    intros H1 H2 i. split.
    - apply (derivable_sound S [] ltac:(intros j []) H2).
    - apply closed_complete. assumption.
  Qed.

  (* ---------- the parallel worklist ---------- *)
  Lemma add_new_loaded ms : forall s x, In x (loaded (add_new ms s)) <-> In x (loaded s) \/ In x ms.
  Proof.
    induction ms as [|m t IH]; intros s x; cbn [add_new].
    - cbn [In]. tauto.
    - destruct (mem m (loaded s)) eqn:Em; rewrite IH; cbn [loaded In].
      + apply mem_In in Em. split.
        * intros [H|H]; [left; assumption|right; right; assumption].
        * intros [H|[H|H]]; [left; assumption|subst; left; assumption|right; assumption].
      + split.
        * intros [[H|H]|H]; [right; left; assumption|left; assumption|right; right; assumption].
        * intros [H|[H|H]]; [left; right; assumption|left; left; assumption|right; assumption].
  Qed.

  Lemma add_new_pending ms : forall s x, In x (pending (add_new ms s)) -> In x (pending s) \/ (In x ms /\ ~ In x (loaded s)).
  Proof.
    induction ms as [|m t IH]; intros s x H; cbn [add_new] in H; [left; assumption|].
    destruct (mem m (loaded s)) eqn:Em.
    - destruct (IH _ _ H) as [A|[A B]]; [left; assumption|]. right. split; [right; assumption|assumption].
    - destruct (IH _ _ H) as [A|[A B]]; cbn [pending loaded In] in *.
      + destruct A as [<-|A]; [|left; assumption]. right. split; [left; reflexivity|].
        intros Hx. apply mem_In in Hx. congruence.
      + right. split; [right; assumption|]. intros Hx. apply B. right. assumption.
  Qed.

  Lemma add_new_pending_keeps ms : forall s x, In x (pending s) -> In x (pending (add_new ms s)).
  Proof.
    induction ms as [|m t IH]; intros s x H; cbn [add_new]; [assumption|].
    destruct (mem m (loaded s)); apply IH; cbn [pending In]; [assumption|right; assumption].
  Qed.

  Lemma add_new_pending_new ms : forall s x, In x ms -> ~ In x (loaded s) -> In x (pending (add_new ms s)).
  Proof.
    induction ms as [|m t IH]; intros s x H Hn; [contradiction|]. cbn [add_new].
    destruct (mem m (loaded s)) eqn:Em.
    - destruct H as [<-|H]; [apply mem_In in Em; contradiction|apply IH; assumption].
    - destruct H as [<-|H].
      + apply add_new_pending_keeps. cbn [pending In]. left. reflexivity.
      + destruct (Nat.eq_dec x m) as [->|Hx]; [apply add_new_pending_keeps; cbn [pending In]; left; reflexivity|].
        apply IH; [assumption|]. cbn [loaded In]. intros [E|E]; [congruence|contradiction].
  Qed.

  Record WInv (s : wstate) : Prop := {
    w_sound : forall i, In i (loaded s) -> InL i;
    w_roots : forall i, In i roots -> In i (loaded s);
    w_pend : forall i, In i (pending s) -> In i (loaded s);
    w_closed : forall i f m, In i (loaded s) -> ~ In i (pending s) -> nth_error files i = Some f -> In m (requests i f) -> In m (loaded s)
  }.

  Lemma winv_init : WInv (winit files).
  Proof.
    split; cbn [winit loaded pending]; try (intros; assumption).
    - intros i H. apply roots_spec in H. destruct H as (f & A & B). eapply L_root; eassumption.
    - intros i f m H Hn. contradiction.
  Qed.

  Lemma winv_step s s' : WInv s -> wstep files s s' -> WInv s'.
  Proof.
    intros [I1 I2 I3 I4] Hs. inversion Hs as [s0 i f before after Hp Hf]; subst.
    set (s1 := {| loaded := loaded s; pending := before ++ after |}).
    assert (Hi : In i (loaded s)) by (apply I3; rewrite Hp; apply in_or_app; right; left; reflexivity).
    split.
    - intros x Hx. apply add_new_loaded in Hx. destruct Hx as [Hx|Hx]; [apply I1; assumption|].
      eapply L_req; [apply I1; exact Hi|eassumption|assumption].
    - intros x Hx. apply add_new_loaded. left. apply I2. assumption.
    - intros x Hx. apply add_new_pending in Hx. apply add_new_loaded. destruct Hx as [Hx|[Hx _]]; [left|right; assumption].
      cbn [pending s1] in Hx. apply I3. rewrite Hp. apply in_app_or in Hx. apply in_or_app. destruct Hx; [left|right; right]; assumption.
    - intros x fx m Hx Hnp Hfx Hm. apply add_new_loaded.
      apply add_new_loaded in Hx. destruct Hx as [Hx|Hx].
      + destruct (Nat.eq_dec x i) as [->|Hxi].
        * (* the file just processed: its requests have just been added *)
          right. congruence.
        * left. apply (I4 x fx m Hx); try assumption.
          intros Hxp. apply Hnp. apply add_new_pending_keeps. cbn [pending s1].
          rewrite Hp in Hxp. apply in_app_or in Hxp. apply in_or_app. destruct Hxp as [A|[A|A]]; [left; assumption|congruence|right; assumption].
      + (* x was requested by i just now *)
        destruct (in_dec Nat.eq_dec x (loaded s)) as [Hl|Hl].
        * destruct (Nat.eq_dec x i) as [->|Hxi]; [right; congruence|].
          left. apply (I4 x fx m Hl); try assumption.
          intros Hxp. apply Hnp. apply add_new_pending_keeps. cbn [pending s1].
          rewrite Hp in Hxp. apply in_app_or in Hxp. apply in_or_app. destruct Hxp as [A|[A|A]]; [left; assumption|congruence|right; assumption].
        * exfalso. apply Hnp. apply add_new_pending_new; assumption.
  Qed.

  Theorem winv_reach s : wreach files s -> WInv s.
  Proof. induction 1; [apply winv_init|eapply winv_step; eassumption]. Qed.

  (* whatever order the parallel tasks run in: when no file is pending, the loaded set is exactly the specified one *)
  Theorem loaded_is_lfp s : wreach files s -> pending s = [] -> forall i, In i (loaded s) <-> InL i.
  Proof.
    intros Hr Hp i. destruct (winv_reach s Hr) as [I1 I2 I3 I4]. split; [apply I1|].
    induction 1 as [j f Hf Ho|j f m Hj IH Hf Hm].
    - apply I2. apply roots_spec. eauto.
    - apply (I4 j f m IH); try assumption. rewrite Hp. intros [].
  Qed.

  (* weak references never load anything *)
  Lemma weak_does_not_request i f n m : In (n, true) (undefs f) ->
    (forall n' w, In (n', w) (undefs f) -> n' = n -> w = true) -> first_def files n = Some m ->
    (forall n' w, In (n', w) (undefs f) -> w = false -> first_def files n' <> Some m) -> ~ In m (requests i f).
  Proof.
    intros _ _ _ Hother Hin. unfold Model.requests in Hin. apply in_flat_map in Hin.
    destruct Hin as ([n' w] & Hu & Hx). destruct w; [contradiction|].
    destruct (first_def files n') as [m'|] eqn:Efd; [|contradiction].
    destruct (Nat.eqb m' i); [contradiction|]. destruct (nth_error files m') as [fm|]; [|contradiction].
    destruct (dynamic f && dynamic fm); [contradiction|]. destruct Hx as [<-|[]].
    apply (Hother n' false Hu eq_refl). assumption.
  Qed.
End Proofs.
