From Coq Require Import ZArith List Bool Lia.
From WV Require Import C01.Model.
Import ListNotations.
Open Scope Z_scope.

Definition addend_of (k : kind) (l : link) : Z :=
  match k with Abs64 | PcRel | TpOff | TlsLdDtpOff => A l | _ => 0 end.      (* GOT/PLT classes: A only positions rip *)

Theorem observed_is_actual k l r :
  consistent l r -> static_tls l r ->
  observed k l r = actual k l r + addend_of k l.
Proof.
  intros (Hb & Hm) Ht. unfold static_tls in Ht. unfold observed, actual, addend_of, field, slot, word_rel, loader.
  destruct k; cbn [fst snd]; destruct (pic l) eqn:Ep; try lia;
    try (rewrite (Hb eq_refl); lia); try (rewrite Ht; lia); try (rewrite (Hm eq_refl), <- (Hm eq_refl), Ht; try rewrite (Hb eq_refl); lia).
  - cbn [fst snd]. lia.
  - cbn [fst snd]. rewrite (Hm eq_refl). lia.
Qed.
