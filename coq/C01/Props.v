(* C01 — relocated values are correct at run time: the property theorem. Model: C01/Model.v. *)
From Coq Require Import ZArith List Bool.
From WV Require Import C01.Model C01.Proofs.
Import ListNotations.
Open Scope Z_scope.

(* For every class of reference, every link-time layout (addresses of the definition, the place, the GOT slot, the PLT
   entry, the TLS segment), every addend, position-dependent and position-independent outputs, every load base, thread
   pointer and TLS block placement the loader may choose: the address the running program computes is where the
   definition really is at run time, plus the addend. *)
Theorem C01_run_time_value_is_the_psabi_value :
  forall k l r,
    consistent l r -> static_tls l r ->
    observed k l r = actual k l r + addend_of k l.
Proof. exact observed_is_actual. Qed.
Print Assumptions C01_run_time_value_is_the_psabi_value.

(* the relative relocation on the GOT slot is what makes the GOT classes right in a position-independent output:
   without it the slot keeps the link-time address *)
Theorem C01_refuted_without_the_relative_relocation :
  let l := {| S := 0x4000; A := -4; P := 0x1000; G := 0x3000; L := 0x1800; tls_start := 0; tls_end := 0; pic := true |} in
  let r := {| base := 0x550000; tp := 0; modid := 1; block := fun _ => 0 |} in
  observed GotLoad l r = 0x554000 /\
  fst (fst (slot GotLoad l)) + (P l + base r + field GotLoad l - (G l + base r + A l)) = 0x4000.
Proof. vm_compute. split; reflexivity. Qed.
Print Assumptions C01_refuted_without_the_relative_relocation.

Example C01_example_tls :
  let l := {| S := 0x5010; A := 0; P := 0x1000; G := 0x3000; L := 0; tls_start := 0x5000; tls_end := 0x5040; pic := false |} in
  let r := {| base := 0; tp := 0x7f0000001040; modid := 1; block := fun m => 0x7f0000001000 |} in
  static_tls l r /\ observed TpOff l r = 0x7f0000001010 /\ observed GotTpOff l r = 0x7f0000001010 /\ observed TlsGd l r = 0x7f0000001010.
Proof. vm_compute. repeat split. Qed.
