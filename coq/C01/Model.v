(* C01 — relocated values are correct at run time.  For each class of reference: what wild writes into the instruction
   or data field (elf_writer.rs apply_relocation: the psABI formula over link-time addresses), what it puts into the GOT
   slot and which dynamic relocation it emits for it (layout.rs resolution flags, elf_writer.rs process_resolution),
   what the dynamic loader does with that, and what the running program then computes.  x86-64, TLS variant II. *)
From Coq Require Import ZArith List Bool Lia.
Import ListNotations.
Open Scope Z_scope.

Inductive kind :=
| Abs64            (* S + A in a data word *)
| PcRel            (* S + A - P: lea/jmp/call rel32, .long sym - . *)
| GotLoad          (* G + A - P: mov sym@GOTPCREL(%rip) *)
| PltCall          (* L + A - P: call sym@PLT through a PLT stub that jumps through its GOT slot *)
| TpOff            (* S - TLS_END + A: %fs-relative, local exec *)
| GotTpOff         (* G + A - P, slot holds the tp offset: initial exec *)
| TlsGd            (* G + A - P, slot pair (module, offset) passed to __tls_get_addr: general dynamic *)
| TlsLdDtpOff.     (* __tls_get_addr(module, 0) + (S - TLS_START + A): local dynamic *)

Record link := {
  S : Z; A : Z; P : Z;            (* link-time addresses of the definition and of the place; the addend *)
  G : Z;                          (* link-time address of the GOT slot used for S *)
  L : Z;                          (* link-time address of the PLT entry used for S *)
  tls_start : Z; tls_end : Z;     (* the TLS segment; tls_end is what %fs points at in the static TLS block *)
  pic : bool;                     (* the output is position independent (PIE / shared): the loader adds a base *)
}.

(* what a dynamic relocation on a GOT slot makes of it *)
Inductive dynrel := DNone | DRelative | DTpOff | DDtpMod | DDtpOff.

Definition field (k : kind) (l : link) : Z :=
  match k with
  | Abs64 => S l + A l
  | PcRel => S l + A l - P l
  | GotLoad | GotTpOff | TlsGd => G l + A l - P l
  | PltCall => L l + A l - P l
  | TpOff => S l - tls_end l + A l
  | TlsLdDtpOff => S l - tls_start l + A l
  end.
(* link-time contents of the slot (and, for TLSGD, of the following word) and the dynamic relocations on them *)
Definition slot (k : kind) (l : link) : (Z * dynrel) * (Z * dynrel) :=
  match k with
  | GotLoad | PltCall => ((S l, if pic l then DRelative else DNone), (0, DNone))
  | GotTpOff => ((S l - tls_end l, DNone), (0, DNone))                         (* an executable: the offset is known at link time *)
  | TlsGd => if pic l then ((0, DDtpMod), (S l - tls_start l, DNone)) else ((1, DNone), (S l - tls_start l, DNone))
  | _ => ((0, DNone), (0, DNone))
  end.
(* the data word of an Abs64 reference in a position-independent output gets a relative relocation *)
Definition word_rel (k : kind) (l : link) : dynrel := match k with Abs64 => if pic l then DRelative else DNone | _ => DNone end.

(* ---- run time ---- *)
Record run := {
  base : Z;                   (* load bias; 0 for a non-PIC output *)
  tp : Z;                     (* %fs base of the running thread *)
  modid : Z;                  (* the module id the loader gave this object *)
  block : Z -> Z;             (* __tls_get_addr's view: module id -> start of that module's TLS block for this thread *)
}.
Definition loader (r : run) (v : Z) (d : dynrel) : Z :=
  match d with DNone => v | DRelative => v + base r | DTpOff => v | DDtpMod => modid r | DDtpOff => v end.

(* the static TLS block of the main module ends at tp *)
Definition static_tls (l : link) (r : run) : Prop := block r (modid r) = tp r - (tls_end l - tls_start l).
Definition consistent (l : link) (r : run) : Prop := (pic l = false -> base r = 0) /\ (pic l = false -> modid r = 1).

(* the address the program ends up with.  rip at the field is P_rt - A for the pc-relative classes with A = -(bytes to
   the end of the instruction); for PcRel in data (.long sym - .) the program adds the field to its own address P_rt *)
Definition observed (k : kind) (l : link) (r : run) : Z :=
  let p_rt := P l + base r in
  let s1 := loader r (fst (fst (slot k l))) (snd (fst (slot k l))) in
  let s2 := loader r (fst (snd (slot k l))) (snd (snd (slot k l))) in
  match k with
  | Abs64 => loader r (field k l) (word_rel k l)
  | PcRel => p_rt + field k l
  | GotLoad => s1 + (p_rt + field k l - (G l + base r + A l))                 (* the slot is read at p_rt + field - A = G_rt *)
  | PltCall => s1 + (p_rt + field k l - (L l + base r + A l))                 (* control reaches L_rt, then jumps to *slot *)
  | TpOff => tp r + field k l
  | GotTpOff => tp r + s1 + (p_rt + field k l - (G l + base r + A l))
  | TlsGd => block r s1 + s2 + (p_rt + field k l - (G l + base r + A l))
  | TlsLdDtpOff => block r (modid r) + field k l
  end.

(* where the definition really is at run time *)
Definition actual (k : kind) (l : link) (r : run) : Z :=
  match k with
  | TpOff | GotTpOff | TlsGd | TlsLdDtpOff => block r (modid r) + (S l - tls_start l)
  | _ => S l + base r
  end.
