(* C20 — inputs changed during a link make the link fail.  One input path over time.  The file system stamps every
   modification with the current time of a clock that only moves forward; wild records the modification time when it
   opens the file (FileData::open, before the mmap), reads through the mapping whenever it likes, and at the end
   (Linker::finish_link -> FileLoader::verify_inputs_unchanged, run whether or not linking succeeded) compares the
   path's current modification time with the recorded one. *)
From Coq Require Import ZArith List Bool Lia.
Import ListNotations.
Open Scope Z_scope.

Inductive change :=
| Rewrite        (* open for writing, truncate, write: same inode, new mtime *)
| Append
| Touch          (* utimensat(now) *)
| ReplaceFresh   (* a new file renamed over the path: new inode, stamped now *)
| ReplaceKeepingMtime.   (* a new file renamed over the path that carries the OLD file's mtime (cp -p, rsync -t) *)

Inductive event :=
| Env (c : change)
| Tick                     (* time passes *)
| WOpen                    (* wild: File::open + metadata().modified() *)
| WMap                     (* wild: mmap *)
| WRead                    (* wild: reads bytes through the mapping *)
| WVerify.                 (* wild: verify_inputs_unchanged *)

Record st := {
  clock : Z;               (* strictly increases at every event *)
  mtime : Z;               (* of whatever the path names now *)
  version : Z;             (* identifies the contents the path names now *)
  recorded : option Z;     (* wild's FileData::modification_time *)
  seen : list Z;           (* content versions wild has read *)
  verdict : option bool;   (* Some true = inputs unchanged, Some false = "was changed while we were running" *)
}.

Definition init : st := {| clock := 1; mtime := 0; version := 0; recorded := None; seen := []; verdict := None |}.

Definition step (s : st) (e : event) : st :=
  let now := clock s + 1 in
  match e with
  | Tick => {| clock := now; mtime := mtime s; version := version s; recorded := recorded s; seen := seen s; verdict := verdict s |}
  | Env ReplaceKeepingMtime =>
      {| clock := now; mtime := mtime s; version := now; recorded := recorded s; seen := seen s; verdict := verdict s |}
  | Env Touch =>
      {| clock := now; mtime := now; version := version s; recorded := recorded s; seen := seen s; verdict := verdict s |}
  | Env _ =>
      {| clock := now; mtime := now; version := now; recorded := recorded s; seen := seen s; verdict := verdict s |}
  | WOpen => {| clock := now; mtime := mtime s; version := version s; recorded := Some (mtime s); seen := seen s; verdict := verdict s |}
  | WMap => {| clock := now; mtime := mtime s; version := version s; recorded := recorded s; seen := seen s; verdict := verdict s |}
  | WRead => {| clock := now; mtime := mtime s; version := version s; recorded := recorded s; seen := version s :: seen s; verdict := verdict s |}
  | WVerify =>
      {| clock := now; mtime := mtime s; version := version s; recorded := recorded s; seen := seen s;
         verdict := match recorded s with Some r => Some (r =? mtime s) | None => verdict s end |}
  end.

Definition run (evs : list event) : st := fold_left step evs init.

(* the variant in which the modification time is recorded only after the mapping exists *)
Definition step_late (s : st) (e : event) : st :=
  match e with
  | WOpen => {| clock := clock s + 1; mtime := mtime s; version := version s; recorded := recorded s; seen := seen s; verdict := verdict s |}
  | WMap => {| clock := clock s + 1; mtime := mtime s; version := version s; recorded := Some (mtime s); seen := seen s; verdict := verdict s |}
  | _ => step s e
  end.
Definition run_late (evs : list event) : st := fold_left step_late evs init.

Definition stamps_now (c : change) : bool := match c with ReplaceKeepingMtime => false | _ => true end.
