(* C20 — inputs changed during a link make the link fail.  One input path over time.  The file system stamps every
   modification with the current time of a clock that only moves forward and gives every new file a fresh inode; wild
   records the file's identity — modification time, size, device and inode — when it opens the file (FileData::open,
   before the mmap), reads through the mapping whenever it likes, and at the end (Linker::finish_link ->
   FileLoader::verify_inputs_unchanged, run whether or not linking succeeded) compares the identity of what the path
   names now with the recorded one. *)
From Coq Require Import ZArith List Bool Lia.
Import ListNotations.
Open Scope Z_scope.

Inductive change :=
| Rewrite        (* open for writing, truncate, write: same inode, new mtime *)
| Append         (* same inode, new mtime, larger *)
| Touch          (* utimensat(now) *)
| ReplaceFresh   (* a new file renamed over the path: new inode, stamped now *)
| ReplaceKeepingMtime    (* a new file renamed over the path that carries the OLD file's mtime and size (cp -p, rsync -t) *)
| RewriteRestoringMtime. (* bytes overwritten in place, same length, and the old mtime put back with utimensat *)

Inductive event :=
| Env (c : change)
| Tick                     (* time passes *)
| WOpen                    (* wild: File::open + metadata() *)
| WMap                     (* wild: mmap *)
| WRead                    (* wild: reads bytes through the mapping *)
| WVerify.                 (* wild: verify_inputs_unchanged *)

Record ident := { i_mtime : Z; i_ino : Z; i_size : Z }.
Definition ident_eqb (a b : ident) : bool := (i_mtime a =? i_mtime b) && (i_ino a =? i_ino b) && (i_size a =? i_size b).

Record st := {
  clock : Z;               (* strictly increases at every event *)
  cur : ident;             (* of whatever the path names now *)
  version : Z;             (* identifies the contents the path names now *)
  recorded : option ident; (* wild's FileData::identity *)
  seen : list Z;           (* content versions wild has read *)
  verdict : option bool;   (* Some true = inputs unchanged, Some false = "was changed while we were running" *)
}.

Definition init : st :=
  {| clock := 1; cur := {| i_mtime := 0; i_ino := 0; i_size := 100 |}; version := 0; recorded := None; seen := []; verdict := None |}.

Definition apply_change (now : Z) (c : change) (i : ident) : ident :=
  match c with
  | Rewrite | Touch => {| i_mtime := now; i_ino := i_ino i; i_size := i_size i |}
  | Append => {| i_mtime := now; i_ino := i_ino i; i_size := i_size i + 1 |}
  | ReplaceFresh => {| i_mtime := now; i_ino := now; i_size := i_size i |}
  | ReplaceKeepingMtime => {| i_mtime := i_mtime i; i_ino := now; i_size := i_size i |}
  | RewriteRestoringMtime => i
  end.

Definition step (s : st) (e : event) : st :=
  let now := clock s + 1 in
  match e with
  | Tick => {| clock := now; cur := cur s; version := version s; recorded := recorded s; seen := seen s; verdict := verdict s |}
  | Env Touch =>
      {| clock := now; cur := apply_change now Touch (cur s); version := version s; recorded := recorded s; seen := seen s; verdict := verdict s |}
  | Env c =>
      {| clock := now; cur := apply_change now c (cur s); version := now; recorded := recorded s; seen := seen s; verdict := verdict s |}
  | WOpen => {| clock := now; cur := cur s; version := version s; recorded := Some (cur s); seen := seen s; verdict := verdict s |}
  | WMap => {| clock := now; cur := cur s; version := version s; recorded := recorded s; seen := seen s; verdict := verdict s |}
  | WRead => {| clock := now; cur := cur s; version := version s; recorded := recorded s; seen := version s :: seen s; verdict := verdict s |}
  | WVerify =>
      {| clock := now; cur := cur s; version := version s; recorded := recorded s; seen := seen s;
         verdict := match recorded s with Some r => Some (ident_eqb r (cur s)) | None => verdict s end |}
  end.

Definition run (evs : list event) : st := fold_left step evs init.

(* the variant in which the identity is recorded only after the mapping exists *)
Definition step_late (s : st) (e : event) : st :=
  match e with
  | WOpen => {| clock := clock s + 1; cur := cur s; version := version s; recorded := recorded s; seen := seen s; verdict := verdict s |}
  | WMap => {| clock := clock s + 1; cur := cur s; version := version s; recorded := Some (cur s); seen := seen s; verdict := verdict s |}
  | _ => step s e
  end.
Definition run_late (evs : list event) : st := fold_left step_late evs init.

(* the pinned tree: only the modification time was recorded and compared *)
Definition step_mtime_only (s : st) (e : event) : st :=
  match e with
  | WVerify =>
      {| clock := clock s + 1; cur := cur s; version := version s; recorded := recorded s; seen := seen s;
         verdict := match recorded s with Some r => Some (i_mtime r =? i_mtime (cur s)) | None => verdict s end |}
  | _ => step s e
  end.
Definition run_mtime_only (evs : list event) : st := fold_left step_mtime_only evs init.

(* changes that leave a trace in the file's metadata *)
Definition visible (c : change) : bool := match c with RewriteRestoringMtime => false | _ => true end.
