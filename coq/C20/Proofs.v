From Coq Require Import ZArith List Bool Lia.
From WV Require Import C20.Model.
Import ListNotations.
Open Scope Z_scope.

Definition bounded (s : st) : Prop := i_mtime (cur s) <= clock s /\ i_ino (cur s) <= clock s.

Lemma clock_step s e : clock (step s e) = clock s + 1.
Proof. destruct e as [[]| | | | |]; reflexivity. Qed.
Lemma bounded_step s e : bounded s -> bounded (step s e).
Proof. intros [H1 H2]. unfold bounded. destruct e as [[]| | | | |]; cbn; lia. Qed.
Lemma mono_step s e : bounded s -> i_mtime (cur s) <= i_mtime (cur (step s e)) /\ i_ino (cur s) <= i_ino (cur (step s e)).
Proof. intros [H1 H2]. destruct e as [[]| | | | |]; cbn; lia. Qed.

Lemma run_app a b : run (a ++ b) = fold_left step b (run a).
Proof. unfold run. apply fold_left_app. Qed.

Lemma fold_clock : forall evs s, clock (fold_left step evs s) = clock s + Z.of_nat (length evs).
Proof. induction evs as [|e r IH]; intros s; cbn [fold_left length]; [lia|]. rewrite IH, clock_step. lia. Qed.
Lemma fold_bounded : forall evs s, bounded s -> bounded (fold_left step evs s).
Proof. induction evs as [|e r IH]; intros s H; cbn [fold_left]; [exact H|]. apply IH. apply bounded_step. exact H. Qed.
Lemma fold_mono : forall evs s, bounded s ->
  i_mtime (cur s) <= i_mtime (cur (fold_left step evs s)) /\ i_ino (cur s) <= i_ino (cur (fold_left step evs s)).
Proof.
  induction evs as [|e r IH]; intros s H; cbn [fold_left]; [lia|].
  pose proof (mono_step s e H). pose proof (IH (step s e) (bounded_step s e H)). lia.
Qed.

(* no WOpen in a segment: the recorded identity is untouched *)
Definition no_open (evs : list event) : Prop := Forall (fun e => e <> WOpen) evs.
Lemma fold_recorded : forall evs s, no_open evs -> recorded (fold_left step evs s) = recorded s.
Proof.
  induction evs as [|e r IH]; intros s H; cbn [fold_left]; [reflexivity|]. inversion H as [|? ? He Hr]; subst.
  rewrite IH by exact Hr. destruct e as [[]| | | | |]; try reflexivity. contradiction.
Qed.

Lemma init_ok : bounded init. Proof. unfold bounded. cbn. lia. Qed.

Lemma verify_verdict s : verdict (step s WVerify) = match recorded s with Some r => Some (ident_eqb r (cur s)) | None => verdict s end.
Proof. reflexivity. Qed.

Theorem change_after_open_is_detected before mid1 c mid2 :
  visible c = true -> no_open mid1 -> no_open mid2 ->
  verdict (run (before ++ [WOpen] ++ mid1 ++ [Env c] ++ mid2 ++ [WVerify])) = Some false.
Proof.
  intros Hc H1 H2. unfold run. rewrite !fold_left_app. cbn [fold_left]. fold (run before).
  set (s0 := run before).
  assert (H0 : bounded s0) by (apply fold_bounded, init_ok).
  set (s1 := step s0 WOpen).
  assert (Hr1 : recorded s1 = Some (cur s0)) by reflexivity.
  assert (Hb1 : bounded s1) by (apply bounded_step; exact H0).
  assert (Hcur1 : cur s1 = cur s0) by reflexivity.
  assert (Hc1 : clock s1 = clock s0 + 1) by apply clock_step.
  set (s2 := fold_left step mid1 s1).
  assert (Hr2 : recorded s2 = Some (cur s0)) by (unfold s2; rewrite fold_recorded by exact H1; exact Hr1).
  assert (Hb2 : bounded s2) by (apply fold_bounded; exact Hb1).
  assert (Hc2 : clock s1 <= clock s2) by (unfold s2; rewrite fold_clock; lia).
  destruct (fold_mono mid1 s1 Hb1) as [Hm2 Hi2]. fold s2 in Hm2, Hi2. rewrite Hcur1 in Hm2, Hi2.
  set (s3 := step s2 (Env c)).
  assert (Hr3 : recorded s3 = Some (cur s0)) by (destruct c; exact Hr2).
  assert (Hb3 : bounded s3) by (apply bounded_step; exact Hb2).
  assert (Hnew : i_mtime (cur s3) = clock s2 + 1 \/ i_ino (cur s3) = clock s2 + 1) by (destruct c; try discriminate; cbn; auto).
  set (s4 := fold_left step mid2 s3).
  assert (Hr4 : recorded s4 = Some (cur s0)) by (unfold s4; rewrite fold_recorded by exact H2; exact Hr3).
  destruct (fold_mono mid2 s3 Hb3) as [Hm4 Hi4]. fold s4 in Hm4, Hi4.
  rewrite verify_verdict, Hr4. f_equal. unfold ident_eqb.
  destruct H0 as [H0m H0i]. destruct Hb2 as [Hb2m Hb2i].
  destruct Hnew as [Hn|Hn].
  - assert (E : i_mtime (cur s0) =? i_mtime (cur s4) = false) by (apply Z.eqb_neq; lia). rewrite E. reflexivity.
  - assert (E : i_ino (cur s0) =? i_ino (cur s4) = false) by (apply Z.eqb_neq; lia). rewrite E. rewrite andb_false_r. reflexivity.
Qed.

(* no modification between open and verify: no error *)
Definition quiet (evs : list event) : Prop := Forall (fun e => match e with Env _ | WOpen => False | _ => True end) evs.
Lemma fold_quiet : forall evs s, quiet evs -> cur (fold_left step evs s) = cur s /\ recorded (fold_left step evs s) = recorded s.
Proof.
  induction evs as [|e r IH]; intros s H; cbn [fold_left]; [split; reflexivity|]. inversion H as [|? ? He Hr]; subst.
  destruct (IH (step s e) Hr) as (A & B). rewrite A, B. destruct e as [[]| | | | |]; try contradiction; split; reflexivity.
Qed.
Lemma ident_eqb_refl i : ident_eqb i i = true.
Proof. unfold ident_eqb. rewrite !Z.eqb_refl. reflexivity. Qed.
Theorem unchanged_input_is_accepted before mid :
  quiet mid -> verdict (run (before ++ [WOpen] ++ mid ++ [WVerify])) = Some true.
Proof.
  intros H. unfold run. rewrite !fold_left_app. cbn [fold_left]. fold (run before). rewrite verify_verdict.
  destruct (fold_quiet mid (step (run before) WOpen) H) as (A & B). rewrite A, B. cbn [recorded step]. rewrite ident_eqb_refl. reflexivity.
Qed.
