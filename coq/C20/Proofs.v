From Coq Require Import ZArith List Bool Lia.
From WV Require Import C20.Model.
Import ListNotations.
Open Scope Z_scope.

Lemma clock_step s e : clock (step s e) = clock s + 1.
Proof. destruct e as [[]| | | | |]; reflexivity. Qed.
Lemma mtime_le_clock_step s e : mtime s <= clock s -> mtime (step s e) <= clock (step s e).
Proof. intros H. destruct e as [[]| | | | |]; cbn; lia. Qed.

Lemma run_app a b : run (a ++ b) = fold_left step b (run a).
Proof. unfold run. apply fold_left_app. Qed.

Lemma fold_clock : forall evs s, clock (fold_left step evs s) = clock s + Z.of_nat (length evs).
Proof. induction evs as [|e r IH]; intros s; cbn [fold_left length]; [lia|]. rewrite IH, clock_step. lia. Qed.
Lemma fold_mtime_le : forall evs s, mtime s <= clock s -> mtime (fold_left step evs s) <= clock (fold_left step evs s).
Proof. induction evs as [|e r IH]; intros s H; cbn [fold_left]; [exact H|]. apply IH. apply mtime_le_clock_step. exact H. Qed.
Lemma fold_mtime_mono : forall evs s, mtime s <= clock s -> mtime s <= mtime (fold_left step evs s).
Proof.
  induction evs as [|e r IH]; intros s H; cbn [fold_left]; [lia|].
  assert (mtime s <= mtime (step s e)) by (destruct e as [[]| | | | |]; cbn; lia).
  pose proof (IH (step s e) (mtime_le_clock_step s e H)). lia.
Qed.

(* no WOpen in a segment: the recorded time is untouched *)
Definition no_open (evs : list event) : Prop := Forall (fun e => e <> WOpen) evs.
Lemma fold_recorded : forall evs s, no_open evs -> recorded (fold_left step evs s) = recorded s.
Proof.
  induction evs as [|e r IH]; intros s H; cbn [fold_left]; [reflexivity|]. inversion H as [|? ? He Hr]; subst.
  rewrite IH by exact Hr. destruct e as [[]| | | | |]; try reflexivity. contradiction.
Qed.

Lemma init_ok : mtime init <= clock init. Proof. cbn. lia. Qed.

Lemma verify_verdict s : verdict (step s WVerify) = match recorded s with Some r => Some (r =? mtime s) | None => verdict s end.
Proof. reflexivity. Qed.

Theorem change_after_open_is_detected before mid1 c mid2 :
  stamps_now c = true -> no_open mid1 -> no_open mid2 ->
  verdict (run (before ++ [WOpen] ++ mid1 ++ [Env c] ++ mid2 ++ [WVerify])) = Some false.
Proof.
  intros Hc H1 H2. unfold run. rewrite !fold_left_app. cbn [fold_left]. fold (run before).
  set (s0 := run before).
  assert (H0 : mtime s0 <= clock s0) by (apply fold_mtime_le, init_ok).
  set (s1 := step s0 WOpen).
  assert (Hr1 : recorded s1 = Some (mtime s0)) by reflexivity.
  assert (Hm1 : mtime s1 <= clock s1) by (apply mtime_le_clock_step; exact H0).
  assert (Hc1 : clock s1 = clock s0 + 1) by apply clock_step.
  set (s2 := fold_left step mid1 s1).
  assert (Hr2 : recorded s2 = Some (mtime s0)) by (unfold s2; rewrite fold_recorded by exact H1; exact Hr1).
  assert (Hm2 : mtime s2 <= clock s2) by (apply fold_mtime_le; exact Hm1).
  assert (Hc2 : clock s1 <= clock s2) by (unfold s2; rewrite fold_clock; lia).
  set (s3 := step s2 (Env c)).
  assert (Hm3 : mtime s3 = clock s2 + 1) by (destruct c; try discriminate; reflexivity).
  assert (Hr3 : recorded s3 = Some (mtime s0)) by (destruct c; exact Hr2).
  assert (Hk3 : mtime s3 <= clock s3) by (apply mtime_le_clock_step; exact Hm2).
  set (s4 := fold_left step mid2 s3).
  assert (Hr4 : recorded s4 = Some (mtime s0)) by (unfold s4; rewrite fold_recorded by exact H2; exact Hr3).
  assert (Hm4 : mtime s3 <= mtime s4) by (apply fold_mtime_mono; exact Hk3).
  rewrite verify_verdict, Hr4. f_equal. apply Z.eqb_neq. lia.
Qed.

(* no modification between open and verify: no error *)
Definition quiet (evs : list event) : Prop := Forall (fun e => match e with Env _ | WOpen => False | _ => True end) evs.
Lemma fold_quiet : forall evs s, quiet evs -> mtime (fold_left step evs s) = mtime s /\ recorded (fold_left step evs s) = recorded s.
Proof.
  induction evs as [|e r IH]; intros s H; cbn [fold_left]; [split; reflexivity|]. inversion H as [|? ? He Hr]; subst.
  destruct (IH (step s e) Hr) as (A & B). rewrite A, B. destruct e as [[]| | | | |]; try contradiction; split; reflexivity.
Qed.
Theorem unchanged_input_is_accepted before mid :
  quiet mid -> verdict (run (before ++ [WOpen] ++ mid ++ [WVerify])) = Some true.
Proof.
  intros H. unfold run. rewrite !fold_left_app. cbn [fold_left]. fold (run before). rewrite verify_verdict.
  destruct (fold_quiet mid (step (run before) WOpen) H) as (A & B). rewrite A, B. cbn. rewrite Z.eqb_refl. reflexivity.
Qed.
