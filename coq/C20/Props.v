(* C20 — inputs changed during a link make the link fail: property theorems.  Model: C20/Model.v. *)
From Coq Require Import ZArith List Bool.
From WV Require Import C20.Model C20.Proofs.
Import ListNotations.
Open Scope Z_scope.

(* For every history before the open, every modification kind that leaves a trace in the file's metadata — rewrite,
   append, touch, replacement by a fresh file, replacement by a file carrying the old file's modification time and size —
   arriving at ANY instant after wild opened the input, and whatever else happens to the path before and after
   (further modifications, reads, the passage of time): verify_inputs_unchanged reports the change. *)
Theorem C20_change_after_open_fails_the_link :
  forall before mid1 c mid2,
    visible c = true -> no_open mid1 -> no_open mid2 ->
    verdict (run (before ++ [WOpen] ++ mid1 ++ [Env c] ++ mid2 ++ [WVerify])) = Some false.
Proof. exact change_after_open_is_detected. Qed.
Print Assumptions C20_change_after_open_fails_the_link.

(* ... and an input nobody touches between the open and the end of the link is never reported *)
Theorem C20_untouched_input_is_accepted :
  forall before mid, quiet mid -> verdict (run (before ++ [WOpen] ++ mid ++ [WVerify])) = Some true.
Proof. exact unchanged_input_is_accepted. Qed.
Print Assumptions C20_untouched_input_is_accepted.

(* The order inside FileData::open matters: were the identity read after the mmap, a rewrite landing between
   the open and the mmap would be read (the mapping shows the new bytes) and yet accepted. *)
Theorem C20_refuted_if_identity_is_recorded_after_the_mmap :
  let t := [WOpen; Env Rewrite; WMap; WRead; WVerify] in
  verdict (run_late t) = Some true /\ verdict (run t) = Some false.
Proof. vm_compute. split; reflexivity. Qed.
Print Assumptions C20_refuted_if_identity_is_recorded_after_the_mmap.

(* The pinned tree compared modification times only and could not see a replacement that carries the old time over
   (repaired in /repo: size, device and inode are compared as well). *)
Theorem C20_refuted_mtime_only_for_a_replacement_that_keeps_the_mtime :
  let t := [WOpen; WMap; Env ReplaceKeepingMtime; WRead; WVerify] in
  verdict (run_mtime_only t) = Some true /\ version (run_mtime_only t) <> version (run_mtime_only [WOpen]) /\
  verdict (run t) = Some false.
Proof. vm_compute. repeat split; try reflexivity. discriminate. Qed.
Print Assumptions C20_refuted_mtime_only_for_a_replacement_that_keeps_the_mtime.

(* What no comparison of metadata can see: bytes overwritten in place, same length, with the old modification time put
   back afterwards.  Outside the property's modification kinds (rewrite, append, replace by rename, touch). *)
Theorem C20_refuted_for_a_rewrite_that_restores_the_mtime :
  let t := [WOpen; WMap; Env RewriteRestoringMtime; WRead; WVerify] in
  verdict (run t) = Some true /\ version (run t) <> version (run [WOpen]).
Proof. vm_compute. split; [reflexivity|discriminate]. Qed.
Print Assumptions C20_refuted_for_a_rewrite_that_restores_the_mtime.

Example C20_example :
  verdict (run ([Tick; Env Rewrite] ++ [WOpen] ++ [WMap; WRead; Tick] ++ [Env ReplaceKeepingMtime] ++ [WRead; Env Touch] ++ [WVerify])) = Some false.
Proof. vm_compute. reflexivity. Qed.
