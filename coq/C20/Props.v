(* C20 — inputs changed during a link make the link fail: the property theorems. Model: C20/Model.v. *)
From Coq Require Import ZArith List Bool.
From WV Require Import C20.Model C20.Proofs.
Import ListNotations.
Open Scope Z_scope.

(* Whatever happens before the open, between the open and the change, and between the change and the check (other
   changes, reads, the mmap, time passing): a rewrite, an append, a touch or a replacement by a freshly written file
   after wild opened the input makes verify_inputs_unchanged fail. *)
Theorem C20_change_after_open_fails_the_link :
  forall before mid1 c mid2,
    stamps_now c = true -> no_open mid1 -> no_open mid2 ->
    verdict (run (before ++ [WOpen] ++ mid1 ++ [Env c] ++ mid2 ++ [WVerify])) = Some false.
Proof. exact change_after_open_is_detected. Qed.
Print Assumptions C20_change_after_open_fails_the_link.

(* and an input nobody touched never fails it *)
Theorem C20_untouched_input_is_accepted :
  forall before mid, quiet mid -> verdict (run (before ++ [WOpen] ++ mid ++ [WVerify])) = Some true.
Proof. exact unchanged_input_is_accepted. Qed.
Print Assumptions C20_untouched_input_is_accepted.

(* The order inside FileData::open matters: were the modification time read after the mmap, a rewrite landing between
   the open and the mmap would be read (the mapping shows the new bytes) and yet accepted. *)
Theorem C20_refuted_if_mtime_is_recorded_after_the_mmap :
  let t := [WOpen; Env Rewrite; WMap; WRead; WVerify] in
  verdict (run_late t) = Some true /\ verdict (run t) = Some false.
Proof. vm_compute. split; reflexivity. Qed.
Print Assumptions C20_refuted_if_mtime_is_recorded_after_the_mmap.

(* A comparison of modification times cannot see a replacement that carries the old time over. *)
Theorem C20_refuted_for_a_replacement_that_keeps_the_mtime :
  let t := [WOpen; WMap; Env ReplaceKeepingMtime; WRead; WVerify] in
  verdict (run t) = Some true /\ version (run t) <> version (run [WOpen]).
Proof. vm_compute. split; [reflexivity|discriminate]. Qed.
Print Assumptions C20_refuted_for_a_replacement_that_keeps_the_mtime.

Example C20_example :
  verdict (run ([Tick; Env Rewrite] ++ [WOpen] ++ [WMap; WRead; Tick] ++ [Env Append] ++ [WRead; Env Touch] ++ [WVerify])) = Some false.
Proof. vm_compute. reflexivity. Qed.
