(* C21 — relinking never alters a running program or loaded library: the property theorems. Model: Cfs/Model.v. *)
From Coq Require Import NArith List Bool.
From WV Require Import Cfs.Model C18.Proofs C21.Proofs.
Import ListNotations.
Open Scope N_scope.

(* With default options (no forced write mode), in a directory wild may modify: whether the old output is a shared
   object that is mapped or an executable that is running, whichever thread count, wherever the link stops (success,
   error return or kill) — the inode the running process uses keeps its contents. *)
Theorem C21_running_image_unchanged :
  forall c s0 i0,
    forced c = None -> dir_writable c = true -> in_use c ->
    tmp c <> Out -> names s0 Out = Some i0 -> i0 < next_ino s0 ->
    data (fst (link c s0)) i0 = data s0 i0.
Proof. exact running_image_unchanged. Qed.
Print Assumptions C21_running_image_unchanged.

(* the relink still takes effect for new users of the path *)
Theorem C21_new_output_is_a_new_inode :
  let c := cfg_of true None true false Success false in
  exists i, names (fst (link c (fs0 true))) Out = Some i /\ i <> 7 /\ data (fst (link c (fs0 true))) i = Fresh true.
Proof. exists 100. vm_compute. repeat split; discriminate || reflexivity. Qed.
Print Assumptions C21_new_output_is_a_new_inode.

(* NOT covered: a directory in which the old name cannot be removed while the file itself is writable — the mapped
   inode is truncated and rewritten (known_findings.json C21-unwritable-directory), and --update-in-place (not default) *)
Theorem C21_refuted_in_unwritable_directory :
  data (fst (link (cfg_ro true None true false Success false) (fs0 true))) 7 = Fresh true.
Proof. vm_compute. reflexivity. Qed.
Print Assumptions C21_refuted_in_unwritable_directory.

Example C21_hypotheses_satisfiable :
  in_use (cfg_of false None true true Success false) /\ names (fs0 true) Out = Some 7 /\ 7 < next_ino (fs0 true).
Proof. split; [right; reflexivity|split; reflexivity]. Qed.
