(* C21 — proofs over the Cfs model: with default options a relink never writes to the inode a running process
   executes or has mapped. *)
From Coq Require Import NArith List Bool Lia.
From WV Require Import Cfs.Model C18.Proofs C19.Proofs.
Import ListNotations.
Open Scope N_scope.

(* the old output is in use: a shared object some process has mapped, or an executable some process is running *)
Definition in_use (c : cfg) : Prop := shared c = true \/ busy c = true.

Theorem running_image_unchanged c s0 i0 :
  forced c = None -> dir_writable c = true -> in_use c ->
  tmp c <> Out -> names s0 Out = Some i0 -> i0 < next_ino s0 ->
  data (fst (link c s0)) i0 = data s0 i0.
Proof.
  intros Hf Hw Hu Ht Hn Hlt.
  destruct c as [sh fo bg bu t w st cr]. cbn [shared forced background busy tmp dir_writable stop_at crash] in *. subst fo w.
  assert (Ht' : path_eqb Out t = false) by (apply path_eqb_neq; intros H; apply Ht; symmetry; exact H).
  assert (Hne : (i0 =? next_ino s0) = false) by (apply N.eqb_neq; lia).
  unfold in_use in Hu. cbn [shared busy] in Hu.
  assert (Hoo : path_eqb Out Out = true) by reflexivity.
  destruct sh.
  - destruct bg, bu, st, cr;
      unfold link, mode_of, on_set_size, on_write_start, create_output, cleanup, fill, rename_w, unlink_w, rename, unlink, new_file, bind_name, set_data;
      repeat progress (cbn [shared forced background busy tmp dir_writable stop_at crash names data next_ino fst snd];
                       rewrite ?Hn, ?Ht', ?Hoo, ?Hne, ?N.eqb_refl);
      try reflexivity.
  - destruct Hu as [Hu|Hu]; [discriminate|]. subst bu.
    destruct bg, st, cr;
      unfold link, mode_of, on_set_size, on_write_start, create_output, cleanup, fill, rename_w, unlink_w, rename, unlink, new_file, bind_name, set_data;
      repeat progress (cbn [shared forced background busy tmp dir_writable stop_at crash names data next_ino fst snd];
                       rewrite ?Hn, ?Ht', ?Hoo, ?Hne, ?N.eqb_refl);
      try reflexivity.
Qed.
