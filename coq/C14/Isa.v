(* C14 — a small x86-64 decoder and semantics for exactly the instruction forms the relaxations read
   and write: legacy prefixes 66/67/64/2e, REX, REX2 (d5), opcodes
     8b 8d 03/0b/13/1b/23/2b/33/3b (r, r/m)   01/09/.../39 (r/m, r)   c7 /0 imm32   81 /op imm32
     ff /2 ff /4   e8 e9   90   0f 1f /0 (long nop)
   and EVEX map-4 `add` (APX NDD/NF) in IsaEvex below.  Anything else decodes to None.
   The semantics are given as an EFFECT: two instructions with the same effect and the same next
   instruction pointer are the same state transformer (flags are a function of (op, width, a, b)). *)
From Coq Require Import ZArith List Bool.
Import ListNotations.
Open Scope Z_scope.

Inductive width := W16 | W32 | W64.
Inductive mem :=
| MRip (disp : Z)            (* disp32(%rip), raw 32-bit field *)
| MAbs (disp : Z)            (* disp32 absolute (SIB, no base, no index) *)
| MFs (disp : Z)             (* %fs:disp32 *)
| MBase (base : Z) (disp : Z)  (* disp32(%base), raw 32-bit field; base register number *)
| MOther.                    (* an address form the model does not evaluate (only under nops) *)
Inductive src := SReg (r : Z) | SMem (m : mem) | SImm (raw : Z).
Inductive instr :=
| IMov (w : width) (dst : Z) (s : src)
| ILea (w : width) (dst : Z) (m : mem)
| IAlu (op : Z) (w : width) (nf : bool) (dst a : Z) (s : src)   (* dst := a op s; op 7 = cmp writes nothing *)
| IAluMem (op : Z) (w : width) (nf : bool) (m : mem) (r : Z)     (* m := m op r *)
| ICallM (m : mem) | IJmpM (m : mem) | ICallR (rel : Z) | IJmpR (rel : Z)
| INop.

Definition le32 (l : list Z) : option Z :=
  match l with
  | b0 :: b1 :: b2 :: b3 :: _ => Some (b0 + 256 * b1 + 65536 * b2 + 16777216 * b3)
  | _ => None
  end.

Record pfx := { p66 : bool; p67 : bool; pfs : bool }.
Record rexi := { rw : bool; rr : Z; rx : bool; rb : Z }.   (* rr, rb: the amount added to the 3-bit field *)
Definition no_rex : rexi := {| rw := false; rr := 0; rx := false; rb := 0 |}.
Definition bit (v : Z) (i : Z) : bool := Z.testbit v i.
Definition b2z (b : bool) (v : Z) : Z := if b then v else 0.

Definition of_rex (r : Z) : rexi :=
  {| rw := bit r 3; rr := b2z (bit r 2) 8; rx := bit r 1; rb := b2z (bit r 0) 8 |}.
(* REX2 payload: M0 R4 X4 B4 W R3 X3 B3 *)
Definition of_rex2 (r : Z) : rexi :=
  {| rw := bit r 3; rr := b2z (bit r 6) 16 + b2z (bit r 2) 8; rx := bit r 5 || bit r 1;
     rb := b2z (bit r 4) 16 + b2z (bit r 0) 8 |}.

(* ModRM (+SIB, +disp): (reg field, r/m operand, bytes consumed) *)
Definition modrm_dec (x : rexi) (l : list Z) : option (Z * (Z + mem) * Z) :=
  match l with
  | [] => None
  | m :: t =>
      let md := Z.shiftr m 6 in
      let reg := Z.land (Z.shiftr m 3) 7 + rr x in
      let rm := Z.land m 7 in
      if md =? 3 then Some (reg, inl (rm + rb x), 1)
      else if rm =? 4 then
        match t with
        | [] => None
        | sib :: t' =>
            if rx x then None else
            let base := Z.land sib 7 in
            let idx := Z.land (Z.shiftr sib 3) 7 in
            if md =? 0 then
              if base =? 5 then
                match le32 t' with
                | Some d => Some (reg, inr (if idx =? 4 then MAbs d else MOther), 6)
                | None => None
                end
              else Some (reg, inr MOther, 2)
            else if md =? 1 then
              match t' with [] => None | _ :: _ => Some (reg, inr MOther, 3) end
            else
              match le32 t' with Some _ => Some (reg, inr MOther, 6) | None => None end
        end
      else if md =? 0 then
        if rm =? 5 then
          match le32 t with Some d => Some (reg, inr (MRip d), 5) | None => None end
        else Some (reg, inr (MBase (rm + rb x) 0), 1)
      else if md =? 1 then
        match t with [] => None | _ :: _ => Some (reg, inr MOther, 2) end
      else
        match le32 t with Some d => Some (reg, inr (MBase (rm + rb x) d), 5) | None => None end
  end.

Definition fs_mem (p : pfx) (m : mem) : option mem :=
  if pfs p then match m with MAbs d => Some (MFs d) | _ => None end else Some m.

Definition width_of (p : pfx) (x : rexi) : width := if rw x then W64 else if p66 p then W16 else W32.

(* opcode byte and what follows it, in the one-byte map *)
Definition decode_op (p : pfx) (x : rexi) (op : Z) (t : list Z) : option (instr * Z) :=
  let w := width_of p x in
  if (Z.land op 199 =? 3) then        (* op*8 + 3 : reg := reg OP r/m *)
    if p67 p then None else
    match modrm_dec x t with
    | Some (reg, inl r, n) => Some (IAlu (Z.shiftr op 3) w false reg reg (SReg r), 1 + n)
    | Some (reg, inr m, n) => match fs_mem p m with Some m' => Some (IAlu (Z.shiftr op 3) w false reg reg (SMem m'), 1 + n) | None => None end
    | None => None
    end
  else if (Z.land op 199 =? 1) then   (* op*8 + 1 : r/m := r/m OP reg *)
    if p67 p then None else
    match modrm_dec x t with
    | Some (reg, inl r, n) => Some (IAlu (Z.shiftr op 3) w false r r (SReg reg), 1 + n)
    | Some (reg, inr m, n) => match fs_mem p m with Some m' => Some (IAluMem (Z.shiftr op 3) w false m' reg, 1 + n) | None => None end
    | None => None
    end
  else if op =? 139 then
    if p67 p then None else
    match modrm_dec x t with
    | Some (reg, inl r, n) => Some (IMov w reg (SReg r), 1 + n)
    | Some (reg, inr m, n) => match fs_mem p m with Some m' => Some (IMov w reg (SMem m'), 1 + n) | None => None end
    | None => None
    end
  else if op =? 141 then
    if p67 p || pfs p then None else
    match modrm_dec x t with
    | Some (reg, inr m, n) => Some (ILea w reg m, 1 + n)
    | _ => None
    end
  else if op =? 199 then
    if p67 p || p66 p || pfs p then None else
    match modrm_dec x t with
    | Some (reg, inl r, n) =>
        if reg - rr x =? 0 then
          match le32 (skipn (Z.to_nat n) t) with Some i => Some (IMov w r (SImm i), 1 + n + 4) | None => None end
        else None
    | _ => None
    end
  else if op =? 129 then
    if p67 p || p66 p || pfs p then None else
    match modrm_dec x t with
    | Some (reg, inl r, n) =>
        match le32 (skipn (Z.to_nat n) t) with Some i => Some (IAlu (reg - rr x) w false r r (SImm i), 1 + n + 4) | None => None end
    | _ => None
    end
  else if op =? 255 then
    if p67 p || p66 p || pfs p then None else
    match modrm_dec x t with
    | Some (reg, inr m, n) =>
        if reg - rr x =? 2 then Some (ICallM m, 1 + n)
        else if reg - rr x =? 4 then Some (IJmpM m, 1 + n)
        else None
    | _ => None
    end
  else if op =? 232 then
    if p66 p || pfs p then None else
    match le32 t with Some d => Some (ICallR d, 5) | None => None end
  else if op =? 233 then
    if p67 p || p66 p || pfs p then None else
    match le32 t with Some d => Some (IJmpR d, 5) | None => None end
  else if op =? 144 then
    if rb x =? 0 then Some (INop, 1) else None
  else None.

(* two-byte map: only 0f 1f /0 *)
Definition decode_0f (p : pfx) (x : rexi) (t : list Z) : option (instr * Z) :=
  match t with
  | 31 :: t' =>
      match modrm_dec x t' with
      | Some (reg, inr _, n) => if reg - rr x =? 0 then Some (INop, 2 + n) else None
      | _ => None
      end
  | _ => None
  end.

(* legacy prefixes; fuel = length of the list *)
Fixpoint decode_from (fuel : nat) (p : pfx) (n : Z) (l : list Z) : option (instr * Z) :=
  match fuel, l with
  | S fuel', b :: t =>
      if b =? 102 then decode_from fuel' {| p66 := true; p67 := p67 p; pfs := pfs p |} (n + 1) t
      else if b =? 103 then decode_from fuel' {| p66 := p66 p; p67 := true; pfs := pfs p |} (n + 1) t
      else if b =? 100 then decode_from fuel' {| p66 := p66 p; p67 := p67 p; pfs := true |} (n + 1) t
      else if b =? 46 then decode_from fuel' p (n + 1) t
      else
        let fin (r : option (instr * Z)) (k : Z) :=
          match r with Some (i, m) => Some (i, n + k + m) | None => None end in
        if (64 <=? b) && (b <=? 79) then
          match t with
          | 15 :: t' => fin (decode_0f p (of_rex b) t') 1
          | op :: t' => fin (decode_op p (of_rex b) op t') 1
          | [] => None
          end
        else if b =? 213 then
          match t with
          | r :: op :: t' =>
              if bit r 7 then None else fin (decode_op p (of_rex2 r) op t') 2
          | _ => None
          end
        else if b =? 15 then fin (decode_0f p no_rex t) 0
        else fin (decode_op p no_rex b t) 0
  | _, _ => None
  end.

Definition decode (l : list Z) : option (instr * Z) :=
  decode_from (length l) {| p66 := false; p67 := false; pfs := false |} 0 l.

(* ---------------- semantics ---------------- *)
Definition M64 : Z := 2 ^ 64.
Definition wrap (v : Z) : Z := v mod M64.
Definition sext32 (raw : Z) : Z := if raw <? 2 ^ 31 then raw else raw - 2 ^ 32.
Definition bits (w : width) : Z := match w with W16 => 16 | W32 => 32 | W64 => 64 end.
Definition trunc (w : width) (v : Z) : Z := v mod 2 ^ bits w.

Record env := { regs : Z -> Z; mem64 : Z -> Z; fsmem : Z -> Z }.

Definition addr (e : env) (next : Z) (m : mem) : option Z :=
  match m with
  | MRip d => Some (wrap (next + sext32 d))
  | MAbs d => Some (wrap (sext32 d))
  | MBase b d => Some (wrap (regs e b + sext32 d))
  | MFs _ | MOther => None
  end.
Definition load (e : env) (next : Z) (m : mem) : option Z :=
  match m with
  | MFs d => Some (fsmem e (sext32 d))
  | _ => option_map (mem64 e) (addr e next m)
  end.
Definition value (e : env) (next : Z) (w : width) (s : src) : option Z :=
  match s with
  | SReg r => Some (trunc w (regs e r))
  | SMem m => option_map (trunc w) (load e next m)
  | SImm raw => Some (trunc w (wrap (sext32 raw)))
  end.

Inductive eff :=
| ESet (w : width) (dst v : Z)
| EAlu (op : Z) (w : width) (nf : bool) (dst : option Z) (a b : Z)
| EAluMem (op : Z) (w : width) (nf : bool) (a : Z) (b : Z)
| ECall (target ret : Z)
| EJmp (target : Z)
| ENop.

(* the effect of the instruction whose encoding ends at address `next` *)
Definition effect (e : env) (next : Z) (i : instr) : option eff :=
  match i with
  | IMov w d s => option_map (ESet w d) (value e next w s)
  | ILea w d m => option_map (fun a => ESet w d (trunc w a)) (addr e next m)
  | IAlu op w nf d a s =>
      option_map (EAlu op w nf (if op =? 7 then None else Some d) (trunc w (regs e a))) (value e next w s)
  | IAluMem op w nf m r =>
      option_map (fun a => EAluMem op w nf a (trunc w (regs e r))) (addr e next m)
  | ICallM m => option_map (fun t => ECall t next) (load e next m)
  | IJmpM m => option_map EJmp (load e next m)
  | ICallR d => Some (ECall (wrap (next + sext32 d)) next)
  | IJmpR d => Some (EJmp (wrap (next + sext32 d)))
  | INop => Some ENop
  end.

(* run the instruction encoded at the head of `l`, located at address ip: (effect, address of the next instruction) *)
Definition exec_at (e : env) (l : list Z) (ip : Z) : option (eff * Z) :=
  match decode l with
  | Some (i, n) => option_map (fun ef => (ef, ip + n)) (effect e (ip + n) i)
  | None => None
  end.

(* little-endian bytes of a 32-bit field *)
Definition by0 (v : Z) : Z := v mod 256.
Definition by1 (v : Z) : Z := (v / 256) mod 256.
Definition by2 (v : Z) : Z := (v / 65536) mod 256.
Definition by3 (v : Z) : Z := (v / 16777216) mod 256.
Definition bytes32 (v : Z) : list Z := [by0 v; by1 v; by2 v; by3 v].
