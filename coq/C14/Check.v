(* C14 — executable glue for the correspondence check: canonical encodings of outcomes, and the
   semantic predicate evaluated on the IMPLEMENTATION's patched bytes. *)
From Coq Require Import ZArith List Bool.
From WV Require Import C12.Types Gen.RelocTables C12.Model C14.Model C14.Isa.
Import ListNotations.
Open Scope Z_scope.

Definition kind_code (k : kind) : Z * Z :=
  match k with
  | MovIndirectToLea => (0, 0) | MovIndirectToAbsolute => (1, 0)
  | RexMov io => (2, io) | RexAdd io => (3, io) | RexSub io => (4, io) | RexCmp io => (5, io)
  | CallRel => (6, 0) | JmpRel => (7, 0) | NoOp => (8, 0)
  | TlsGdLe => (9, 0) | TlsGdLeLarge => (10, 0) | TlsLdLe => (11, 0) | TlsLdLeNoPlt => (12, 0)
  | TlsLdLe64 => (13, 0) | TlsGdIe => (14, 0) | TlsDescLe io => (15, io) | TlsDescIe => (16, 0)
  | SkipTlsDescCall => (17, 0)
  end.

Definition mk_flags (bits : Z) : vflags :=
  {| f_absolute := Z.testbit bits 0; f_dynamic := Z.testbit bits 1; f_ifunc := Z.testbit bits 2;
     f_nonint := Z.testbit bits 3 |}.

(* one `n` case: ([tag; kind; io; rt'; mandatory; delta; addend'; skip], before', after') *)
Definition run_n (rt : Z) (b a : list Z) (flags ok exec addend : Z) : list Z * list Z * list Z :=
  let w := {| before := b; after := a |} in
  match new_relaxation rt w (mk_flags flags) ok (exec =? 1) with
  | RNone => ([0], [], [])
  | RPanic => ([2], [], [])
  | RSome k rt' m =>
      match apply k w addend with
      | None => ([3], [], [])
      | Some (w', d, a') =>
          ([1; fst (kind_code k); snd (kind_code k); rt'; if m then 1 else 0; d; a'; if skip_next k then 1 else 0],
           before w', after w')
      end
  end.

(* one `a` case *)
Definition run_a (k : kind) (b a : list Z) (addend : Z) : list Z * list Z * list Z :=
  match apply k {| before := b; after := a |} addend with
  | None => ([3], [], [])
  | Some (w', d, a') => ([1; d; a'], before w', after w')
  end.

(* ---- the relocation that is applied after the rewrite ---- *)
Definition to_i64 (u : Z) : Z := if u <? 2 ^ 63 then u else u - 2 ^ 64.
(* V: the value the GOT slot holds (symbol address, absolute value, or TP offset); G: the slot's address *)
Definition new_value (rt' G V A P : Z) : Z :=
  to_i64 (wrap (if rt' =? 2 then V + A - P else if rt' =? 22 then G + A - P else V + A)).
Definition new_field (rt' G V A P : Z) : option Z :=
  if rt' =? 0 then None else
  match C12.Model.lookup 0 rt' with
  | Some row => write_bytes row (new_value rt' G V A P)
  | None => None
  end.

Definition bytes_from (w : win) (n : nat) : list Z := rev (firstn n (before w)) ++ after w.
Definition put32 (w : win) (v : Z) : win := {| before := before w; after := bytes32 v ++ skipn 4 (after w) |}.

Definition width_eqb (a b : width) : bool :=
  match a, b with W16, W16 | W32, W32 | W64, W64 => true | _, _ => false end.
Definition oz_eqb (a b : option Z) : bool :=
  match a, b with Some x, Some y => x =? y | None, None => true | _, _ => false end.
Definition eff_eqb (x y : eff) : bool :=
  match x, y with
  | ESet w d v, ESet w' d' v' => width_eqb w w' && (d =? d') && (v =? v')
  | EAlu o w n d a b, EAlu o' w' n' d' a' b' =>
      (o =? o') && width_eqb w w' && Bool.eqb n n' && oz_eqb d d' && (a =? a') && (b =? b')
  | EAluMem o w n a b, EAluMem o' w' n' a' b' => (o =? o') && width_eqb w w' && Bool.eqb n n' && (a =? a') && (b =? b')
  | ECall t r, ECall t' r' => (t =? t') && (r =? r')
  | EJmp t, EJmp t' => t =? t'
  | ENop, ENop => true
  | _, _ => false
  end.

(* a concrete machine: distinct register contents, GOT slot G holds wrap V, %fs:0 holds TP *)
Definition TPc : Z := 140737488289792.
Definition test_env (G V : Z) : env :=
  {| regs := fun r => 1229782938247303441 * (r + 1) + 7;
     mem64 := fun a => if a =? G then wrap V else 57005;
     fsmem := fun d => if d =? 0 then TPc else 48879 |}.

Definition same_behaviour (x y : option (eff * Z)) : bool :=
  match x, y with
  | Some (e1, n1), Some (e2, n2) =>
      eff_eqb e1 e2 && ((n1 =? n2) || match e1 with EJmp _ => true | _ => false end)
  | _, _ => false
  end.

(* the psABI forms of the GOT-indirect instructions: rip-relative memory operand, field last *)
Definition got_form (l : list Z) (len : Z) : bool :=
  match decode l with
  | Some (IMov _ _ (SMem (MRip _)), n) | Some (IAlu _ _ _ _ _ (SMem (MRip _)), n)
  | Some (ICallM (MRip _), n) | Some (IJmpM (MRip _), n) => n =? len
  | _ => false
  end.

(* GOT-family predicate on (original window, patched window at the new offset):
   0 = new relocation rejected (no requirement), 1 = same behaviour, 2 = DIFFERENT behaviour,
   3 = the original does not decode as a GOT-indirect instruction of length n + 4 (outside the psABI forms) *)
Definition got_check (n : nat) (d : Z) (w w' : win) (rt' A' G V P : Z) : Z :=
  let e := test_env G V in
  let orig := put32 w ((G - 4 - P) mod 2 ^ 32) in
  let o := exec_at e (bytes_from orig n) (P - Z.of_nat n) in
  match o with
  | None => 3
  | Some _ =>
      if negb (got_form (bytes_from orig n) (Z.of_nat n + 4)) then 3 else
      match new_field rt' G V A' (P + d) with
      | None => 0
      | Some v =>
          let r := exec_at e (bytes_from (put32 w' v) (Z.to_nat (Z.of_nat n + d))) (P - Z.of_nat n) in
          if same_behaviour o r then 1 else 2
      end
  end.

(* straight-line run of up to `k` instructions; only 64-bit register writes and nops are executed *)
Definition set_reg (e : env) (d v : Z) : env :=
  {| regs := fun r => if r =? d then v else regs e r; mem64 := mem64 e; fsmem := fsmem e |}.
Fixpoint run (k : nat) (e : env) (l : list Z) (ip : Z) : option (env * Z) :=
  match k with
  | O => Some (e, ip)
  | S k' =>
      match decode l with
      | Some (i, n) =>
          match effect e (ip + n) i with
          | Some (ESet W64 d v) => run k' (set_reg e d v) (skipn (Z.to_nat n) l) (ip + n)
          | Some (EAlu 0 W64 _ (Some d) a b) => run k' (set_reg e d (wrap (a + b))) (skipn (Z.to_nat n) l) (ip + n)
          | Some ENop => run k' e (skipn (Z.to_nat n) l) (ip + n)
          | _ => None
          end
      | None => None
      end
  end.

(* TLS-family predicate: run `k` instructions of the patched sequence that starts `n` bytes before the
   ORIGINAL offset; expect register `reg` = `expect`, the run to end `len` bytes after its start, and every
   other register unchanged.  0 = relocation rejected, 1 = ok, 2 = wrong. *)
Definition tls_check (k n : nat) (d : Z) (w' : win) (rt' A' G V P : Z) (reg expect len : Z) : Z :=
  let e := test_env G V in
  let go (w'' : win) :=
    match run k e (bytes_from w'' (Z.to_nat (Z.of_nat n + d))) (P - Z.of_nat n) with
    | Some (e', ip') =>
        if (ip' =? P - Z.of_nat n + len) && (regs e' reg =? expect)
           && forallb (fun r => (r =? reg) || (regs e' r =? regs e r)) (map Z.of_nat (seq 0 32))
        then 1 else 2
    | None => 2
    end in
  if rt' =? 0 then go w'
  else match new_field rt' G V A' (P + d) with
       | None => 0
       | Some v => go (put32 w' v)
       end.

(* decoding for the objdump cross-check: (tag, width, reg, length) *)
Definition wcode (w : width) : Z := match w with W16 => 16 | W32 => 32 | W64 => 64 end.
Definition show (l : list Z) : list Z :=
  match decode l with
  | None => [0]
  | Some (IMov w d (SImm _), n) => [1; wcode w; d; n]
  | Some (IMov w d (SMem _), n) => [2; wcode w; d; n]
  | Some (IMov w d (SReg _), n) => [3; wcode w; d; n]
  | Some (ILea w d _, n) => [4; wcode w; d; n]
  | Some (IAlu op w _ d _ (SImm _), n) => [5; wcode w; d; n; op]
  | Some (IAlu op w _ d _ (SMem _), n) => [6; wcode w; d; n; op]
  | Some (IAlu op w _ d _ (SReg _), n) => [7; wcode w; d; n; op]
  | Some (IAluMem op w _ _ r, n) => [8; wcode w; r; n; op]
  | Some (ICallM _, n) => [9; 0; 0; n]
  | Some (IJmpM _, n) => [10; 0; 0; n]
  | Some (ICallR _, n) => [11; 0; 0; n]
  | Some (IJmpR _, n) => [12; 0; 0; n]
  | Some (INop, n) => [13; 0; 0; n]
  end.
