(* C14 — proofs: relaxed instructions have the same effect as the GOT/TLS-indirect originals. *)
From Coq Require Import ZArith List Bool Lia.
From WV Require Import C12.Types Gen.RelocTables C12.Model C14.Model C14.Isa C14.Check.
Import ListNotations.
Open Scope Z_scope.

(* ---------- arithmetic ---------- *)
Lemma le32_bytes32 v post : 0 <= v < 2 ^ 32 -> le32 (bytes32 v ++ post) = Some v.
Proof.
  intros H. unfold bytes32, le32, by0, by1, by2, by3. cbn [app]. f_equal.
  change 65536 with (256 * 256). change 16777216 with (256 * 256 * 256).
  assert (v / (256 * 256 * 256) < 256) by (apply Z.div_lt_upper_bound; lia).
  assert (0 <= v / (256 * 256 * 256)) by (apply Z.div_pos; lia).
  rewrite (Z.mod_small (v / (256 * 256 * 256)) 256) by lia.
  rewrite <- !Z.div_div by lia.
  set (a := v / 256). set (b := a / 256).
  pose proof (Z.div_mod v 256). pose proof (Z.div_mod a 256). pose proof (Z.div_mod b 256).
  fold a in H2. fold b in H3. lia.
Qed.

Lemma sext32_mod x : - 2 ^ 31 <= x < 2 ^ 31 -> sext32 (x mod 2 ^ 32) = x.
Proof.
  intros H. unfold sext32.
  destruct (Z_lt_le_dec x 0).
  - assert (x mod 2 ^ 32 = x + 2 ^ 32) by (symmetry; apply Z.mod_unique with (q := -1); lia).
    rewrite H0. destruct (Z.ltb_spec (x + 2 ^ 32) (2 ^ 31)); lia.
  - rewrite Z.mod_small by lia. destruct (Z.ltb_spec x (2 ^ 31)); lia.
Qed.

Lemma wrap_idem v : wrap (wrap v) = wrap v.
Proof. unfold wrap, M64. apply Z.mod_mod. lia. Qed.
Lemma wrap_small v : 0 <= v < 2 ^ 64 -> wrap v = v.
Proof. intros. unfold wrap, M64. apply Z.mod_small. lia. Qed.
Lemma wrap_add_l a b : wrap (wrap a + b) = wrap (a + b).
Proof. unfold wrap, M64. apply Zplus_mod_idemp_l. Qed.
Lemma wrap_add_r a b : wrap (a + wrap b) = wrap (a + b).
Proof. unfold wrap, M64. apply Zplus_mod_idemp_r. Qed.
Lemma wrap_to_i64 u : 0 <= u < 2 ^ 64 -> wrap (to_i64 u) = u.
Proof.
  intros H. unfold to_i64. destruct (Z.ltb_spec u (2 ^ 63)).
  - apply wrap_small; lia.
  - unfold wrap, M64. symmetry. apply Z.mod_unique with (q := -1); lia.
Qed.
Lemma wrap_range v : 0 <= wrap v < 2 ^ 64.
Proof. unfold wrap, M64. apply Z.mod_pos_bound. lia. Qed.
Lemma to_i64_range u : 0 <= u < 2 ^ 64 -> - 2 ^ 63 <= to_i64 u < 2 ^ 63.
Proof. intros. unfold to_i64. destruct (Z.ltb_spec u (2 ^ 63)); lia. Qed.

(* ---------- the relocation applied after the rewrite ---------- *)
Lemma mod64_mod32 x : (x mod 2 ^ 64) mod 2 ^ 32 = x mod 2 ^ 32.
Proof.
  change (2 ^ 64) with (2 ^ 32 * 2 ^ 32).
  rewrite Z.rem_mul_r by lia. rewrite Z.mul_comm, Z.mod_add by lia. apply Z.mod_mod. lia.
Qed.

Lemma write_bytes4 (r : row) x v lo hi :
  r_size r = RBytes 4 -> r_align r = 1 -> r_min r = lo -> r_max r = hi -> hi < 2 ^ 62 ->
  write_bytes r x = Some v -> lo <= x < hi /\ v = x mod 2 ^ 32.
Proof.
  intros Hs Ha Hl Hh Hb. unfold write_bytes, verify. rewrite Hs, Ha, Hl, Hh.
  destruct (Z.leb_spec lo x); [|rewrite andb_false_r; discriminate].
  destruct (Z.ltb_spec x hi).
  2:{ destruct (Z.eqb_spec hi I64MAX) as [E|E]; [unfold I64MAX in E; lia|]. rewrite andb_false_r. discriminate. }
  destruct (_ && _ && _); [|discriminate]. intros E. injection E as <-. split; [lia|].
  unfold field_bytes, W. apply mod64_mod32.
Qed.

Ltac row_of rt :=
  unfold new_field; cbn [Z.eqb Pos.eqb];
  let E := fresh "E" in
  destruct (C12.Model.lookup 0 rt) as [row|] eqn:E; [|discriminate];
  vm_compute in E; injection E as <-.

Lemma new_field_signed rt G V A P v : In rt [2; 11; 22; 23] ->
  new_field rt G V A P = Some v ->
  - 2 ^ 31 <= new_value rt G V A P < 2 ^ 31 /\ v = new_value rt G V A P mod 2 ^ 32.
Proof.
  intros Hin H. cbn [In] in Hin.
  destruct Hin as [<-|[<-|[<-|[<-|[]]]]]; revert H; row_of 0;
    intros H; eapply write_bytes4 in H; try reflexivity; cbn in H |- *; lia.
Qed.
Lemma new_field_unsigned G V A P v :
  new_field 10 G V A P = Some v ->
  0 <= new_value 10 G V A P < 2 ^ 32 /\ v = new_value 10 G V A P mod 2 ^ 32.
Proof.
  row_of 0. intros H; eapply write_bytes4 in H; try reflexivity; cbn in H |- *; lia.
Qed.

(* ---------- decoding the instruction forms (finite enumeration of header bytes; the field stays symbolic) ---------- *)
Definition rip_modrms : list Z := [5; 13; 21; 29; 37; 45; 53; 61].
Definition reg3 (m : Z) : Z := Z.land (Z.shiftr m 3) 7.
Definition fld (f0 f1 f2 f3 : Z) : Z := f0 + 256 * f1 + 65536 * f2 + 16777216 * f3.

Lemma rip_modrm_iff m : In m rip_modrms <-> (0 <= m < 256 /\ Z.land m 199 = 5).
Proof.
  split.
  - intros H. cbn in H. repeat (destruct H as [<-|H]; [split; [lia|reflexivity]|]). destruct H.
  - intros [Hr Hl].
    assert (Hc : forallb (fun x => negb (Z.land x 199 =? 5) || existsb (Z.eqb x) rip_modrms) (map Z.of_nat (seq 0 256)) = true)
      by (vm_compute; reflexivity).
    rewrite forallb_forall in Hc. specialize (Hc m).
    assert (Hi : In m (map Z.of_nat (seq 0 256))).
    { apply in_map_iff. exists (Z.to_nat m). split; [lia|]. apply in_seq. lia. }
    apply Hc in Hi. rewrite Hl in Hi. cbn [Z.eqb Pos.eqb negb orb] in Hi.
    apply existsb_exists in Hi. destruct Hi as [x [Hx He]]. apply Z.eqb_eq in He. subst. exact Hx.
Qed.

Definition mk_rm (op : Z) (w : width) (r : Z) (m : mem) : instr :=
  if op =? 139 then IMov w r (SMem m) else if op =? 141 then ILea w r m else IAlu (Z.shiftr op 3) w false r r (SMem m).
Definition mk_imm (opc ext : Z) (w : width) (r i : Z) : instr :=
  if opc =? 199 then IMov w r (SImm i) else IAlu (Z.shiftr (ext - 192) 3) w false r r (SImm i).

Ltac enum H := cbn [In] in H; repeat (destruct H as [<-|H]); try contradiction.

Lemma dec_rex_rm rex op m f0 f1 f2 f3 post :
  In rex [72; 76] -> In op [139; 141; 3; 43; 59] -> In m rip_modrms ->
  decode (rex :: op :: m :: f0 :: f1 :: f2 :: f3 :: post)
  = Some (mk_rm op W64 (reg3 m + (if rex =? 76 then 8 else 0)) (MRip (fld f0 f1 f2 f3)), 7).
Proof. intros H1 H2 H3. enum H1; enum H2; enum H3; reflexivity. Qed.

Lemma dec_rex2_rm rex op m f0 f1 f2 f3 post :
  In rex [72; 76] -> In op [139; 141; 3; 43; 59] -> In m rip_modrms ->
  decode (213 :: rex :: op :: m :: f0 :: f1 :: f2 :: f3 :: post)
  = Some (mk_rm op W64 (reg3 m + 16 + (if rex =? 76 then 8 else 0)) (MRip (fld f0 f1 f2 f3)), 8).
Proof. intros H1 H2 H3. enum H1; enum H2; enum H3; reflexivity. Qed.

Lemma dec_rex_imm rex oe m f0 f1 f2 f3 post :
  In rex [72; 76] -> In oe [(199, 192); (129, 192); (129, 232); (129, 248)] -> In m rip_modrms ->
  decode (rex_r2b rex :: fst oe :: modrm_rm m (snd oe) :: f0 :: f1 :: f2 :: f3 :: post)
  = Some (mk_imm (fst oe) (snd oe) W64 (reg3 m + (if rex =? 76 then 8 else 0)) (fld f0 f1 f2 f3), 7).
Proof. intros H1 H2 H3. enum H1; enum H2; enum H3; reflexivity. Qed.

Lemma dec_rex2_imm rex oe m f0 f1 f2 f3 post :
  In rex [72; 76] -> In oe [(199, 192); (129, 192); (129, 232); (129, 248)] -> In m rip_modrms ->
  decode (213 :: rex2_r2b rex :: fst oe :: modrm_rm m (snd oe) :: f0 :: f1 :: f2 :: f3 :: post)
  = Some (mk_imm (fst oe) (snd oe) W64 (reg3 m + 16 + (if rex =? 76 then 8 else 0)) (fld f0 f1 f2 f3), 8).
Proof. intros H1 H2 H3. enum H1; enum H2; enum H3; reflexivity. Qed.

Lemma dec_plain_rm op m f0 f1 f2 f3 post :
  In op [139; 141] -> In m rip_modrms ->
  decode (op :: m :: f0 :: f1 :: f2 :: f3 :: post) = Some (mk_rm op W32 (reg3 m) (MRip (fld f0 f1 f2 f3)), 6).
Proof. intros H2 H3. enum H2; enum H3; reflexivity. Qed.

Lemma dec_plain_imm m f0 f1 f2 f3 post :
  In m rip_modrms ->
  decode (199 :: modrm_rm m 192 :: f0 :: f1 :: f2 :: f3 :: post) = Some (IMov W32 (reg3 m) (SImm (fld f0 f1 f2 f3)), 6).
Proof. intros H3. enum H3; reflexivity. Qed.

(* a single legacy 66 or any REX prefix in front of mov/lea (plain R_X86_64_GOTPCREL) *)
Definition pfx_bytes : list Z := [102; 64; 65; 66; 67; 68; 69; 70; 71; 72; 73; 74; 75; 76; 77; 78; 79].
Definition pfx_width (p : Z) : width := if p =? 102 then W16 else if Z.testbit p 3 then W64 else W32.
Definition pfx_rr (p : Z) : Z := if p =? 102 then 0 else if Z.testbit p 2 then 8 else 0.
Lemma dec_pfx_rm p op m f0 f1 f2 f3 post :
  In p pfx_bytes -> In op [139; 141] -> In m rip_modrms ->
  decode (p :: op :: m :: f0 :: f1 :: f2 :: f3 :: post)
  = Some (mk_rm op (pfx_width p) (reg3 m + pfx_rr p) (MRip (fld f0 f1 f2 f3)), 7).
Proof. intros H1 H2 H3. enum H1; enum H2; enum H3; reflexivity. Qed.

Lemma dec_call_ind f0 f1 f2 f3 post : decode (255 :: 21 :: f0 :: f1 :: f2 :: f3 :: post) = Some (ICallM (MRip (fld f0 f1 f2 f3)), 6).
Proof. reflexivity. Qed.
Lemma dec_jmp_ind f0 f1 f2 f3 post : decode (255 :: 37 :: f0 :: f1 :: f2 :: f3 :: post) = Some (IJmpM (MRip (fld f0 f1 f2 f3)), 6).
Proof. reflexivity. Qed.
Lemma dec_call_rel f0 f1 f2 f3 post : decode (103 :: 232 :: f0 :: f1 :: f2 :: f3 :: post) = Some (ICallR (fld f0 f1 f2 f3), 6).
Proof. reflexivity. Qed.
Lemma dec_jmp_rel f0 f1 f2 f3 post : decode (233 :: f0 :: f1 :: f2 :: f3 :: post) = Some (IJmpR (fld f0 f1 f2 f3), 5).
Proof. reflexivity. Qed.

(* ---------- semantics of the originals and of the rewritten forms ---------- *)
Definition ctx (e : env) (G V P : Z) : Prop :=
  0 <= G < 2 ^ 64 /\ - 2 ^ 31 <= G - 4 - P < 2 ^ 31 /\ mem64 e G = wrap V.

Lemma wrap_add_to_i64 a u : 0 <= u < 2 ^ 64 -> wrap (a + to_i64 u) = wrap (a + u).
Proof. intros H. rewrite <- wrap_add_r, (wrap_to_i64 u H). reflexivity. Qed.

Lemma orig_load e G V P : ctx e G V P -> load e (P + 4) (MRip ((G - 4 - P) mod 2 ^ 32)) = Some (wrap V).
Proof.
  intros (HG & HGP & Hs). unfold load, addr. rewrite sext32_mod by lia.
  replace (P + 4 + (G - 4 - P)) with G by lia. rewrite wrap_small by lia. cbn [option_map]. rewrite Hs. reflexivity.
Qed.

Lemma trunc64_wrap x : trunc W64 (wrap x) = wrap x.
Proof. unfold trunc, bits. apply wrap_idem. Qed.

(* PC-relative forms: the new field is v = (V + A - P') mod 2^32 with A = -4 *)
Lemma pc32_target G V P0 next v :
  new_field 2 G V (-4) P0 = Some v -> next = P0 + 4 -> wrap (next + sext32 v) = wrap V.
Proof.
  intros H ->. apply new_field_signed in H; [|cbn; auto]. destruct H as [Hr ->].
  rewrite sext32_mod by exact Hr. unfold new_value. cbn [Z.eqb Pos.eqb].
  rewrite wrap_add_to_i64 by apply wrap_range. rewrite wrap_add_r. f_equal. lia.
Qed.

(* sign-extended 32-bit immediates under REX.W: relocation types 11 (32S) and 23 (TPOFF32), addend 0 *)
Lemma imm64_value e next rt G V P0 v : In rt [11; 23] ->
  new_field rt G V 0 P0 = Some v -> value e next W64 (SImm v) = Some (wrap V).
Proof.
  intros Hin H. assert (Hin' : In rt [2; 11; 22; 23]) by (cbn in *; intuition).
  apply new_field_signed in H; [|exact Hin']. destruct H as [Hr ->].
  unfold value. rewrite sext32_mod by exact Hr. rewrite trunc64_wrap. f_equal.
  assert (E : new_value rt G V 0 P0 = to_i64 (wrap (V + 0))).
  { unfold new_value. cbn in Hin. destruct Hin as [<-|[<-|[]]]; reflexivity. }
  rewrite E, wrap_to_i64 by apply wrap_range. f_equal. lia.
Qed.

(* zero-extended 32-bit immediate without REX.W: relocation type 10 (R_X86_64_32) *)
Lemma imm32_value e next G V P0 v :
  new_field 10 G V 0 P0 = Some v -> value e next W32 (SImm v) = Some (trunc W32 (wrap V)).
Proof.
  intros H. apply new_field_unsigned in H. destruct H as [Hr ->].
  unfold new_value in *. cbn [Z.eqb Pos.eqb] in *. replace (V + 0) with V in * by lia.
  pose proof (wrap_range V) as HW. set (u := wrap V) in *.
  assert (Hu : to_i64 u = u).
  { unfold to_i64 in *. destruct (Z.ltb_spec u (2 ^ 63)); lia. }
  rewrite Hu in *. unfold value. f_equal. rewrite (Z.mod_small u) by lia.
  unfold trunc, bits, wrap, M64, sext32. destruct (Z.ltb_spec u (2 ^ 31)).
  - rewrite (Z.mod_small u (2 ^ 64)) by lia. reflexivity.
  - assert ((u - 2 ^ 32) mod 2 ^ 64 = u - 2 ^ 32 + 2 ^ 64) by (symmetry; apply Z.mod_unique with (q := -1); lia).
    rewrite H0. rewrite (Z.mod_small u) by lia. symmetry. apply Z.mod_unique with (q := 2 ^ 32 - 1); lia.
Qed.

Definition preserved (e : env) (n : nat) (d P : Z) (orig w2 : win) : Prop :=
  exists ef nx nx',
    exec_at e (bytes_from orig n) (P - Z.of_nat n) = Some (ef, nx) /\
    exec_at e (bytes_from w2 (Z.to_nat (Z.of_nat n + d))) (P - Z.of_nat n) = Some (ef, nx') /\
    (nx' = nx \/ exists t, ef = EJmp t).

Lemma new_field_range rt G V A P v : In rt [2; 10; 11; 22; 23] -> new_field rt G V A P = Some v -> 0 <= v < 2 ^ 32.
Proof.
  intros Hin H. cbn [In] in Hin. destruct Hin as [<-|[<-|Hin]].
  - apply new_field_signed in H; [|cbn; auto]. destruct H as [_ ->]. apply Z.mod_pos_bound. lia.
  - apply new_field_unsigned in H. destruct H as [_ ->]. apply Z.mod_pos_bound. lia.
  - apply new_field_signed in H; [|cbn; intuition]. destruct H as [_ ->]. apply Z.mod_pos_bound. lia.
Qed.

Lemma fld_bytes v : 0 <= v < 2 ^ 32 -> fld (by0 v) (by1 v) (by2 v) (by3 v) = v.
Proof.
  intros H. pose proof (le32_bytes32 v [] H) as E. unfold bytes32, le32 in E. cbn [app] in E.
  injection E as E. exact E.
Qed.

(* effects *)
Lemma eff_mov_load e G V P w r : ctx e G V P ->
  effect e (P + 4) (IMov w r (SMem (MRip ((G - 4 - P) mod 2 ^ 32)))) = Some (ESet w r (trunc w (wrap V))).
Proof. intros H. unfold effect, value. rewrite (orig_load e G V P H). reflexivity. Qed.
Lemma eff_alu_load e G V P op w nf r : ctx e G V P ->
  effect e (P + 4) (IAlu op w nf r r (SMem (MRip ((G - 4 - P) mod 2 ^ 32))))
  = Some (EAlu op w nf (if op =? 7 then None else Some r) (trunc w (regs e r)) (trunc w (wrap V))).
Proof. intros H. unfold effect, value. rewrite (orig_load e G V P H). reflexivity. Qed.
Lemma eff_call_load e G V P : ctx e G V P ->
  effect e (P + 4) (ICallM (MRip ((G - 4 - P) mod 2 ^ 32))) = Some (ECall (wrap V) (P + 4)).
Proof. intros H. unfold effect. rewrite (orig_load e G V P H). reflexivity. Qed.
Lemma eff_jmp_load e G V P : ctx e G V P ->
  effect e (P + 4) (IJmpM (MRip ((G - 4 - P) mod 2 ^ 32))) = Some (EJmp (wrap V)).
Proof. intros H. unfold effect. rewrite (orig_load e G V P H). reflexivity. Qed.

Lemma eff_lea_pc32 e G V P v w r : new_field 2 G V (-4) P = Some v ->
  effect e (P + 4) (ILea w r (MRip v)) = Some (ESet w r (trunc w (wrap V))).
Proof. intros H. unfold effect, addr. cbn [option_map]. rewrite (pc32_target G V P (P + 4) v H eq_refl). reflexivity. Qed.
Lemma eff_mov_imm64 e nx rt G V P0 v r : In rt [11; 23] -> new_field rt G V 0 P0 = Some v ->
  effect e nx (IMov W64 r (SImm v)) = Some (ESet W64 r (trunc W64 (wrap V))).
Proof. intros Hi H. unfold effect. rewrite (imm64_value e nx rt G V P0 v Hi H). rewrite trunc64_wrap. reflexivity. Qed.
Lemma eff_alu_imm64 e nx rt G V P0 v op nf r : In rt [11; 23] -> new_field rt G V 0 P0 = Some v ->
  effect e nx (IAlu op W64 nf r r (SImm v))
  = Some (EAlu op W64 nf (if op =? 7 then None else Some r) (trunc W64 (regs e r)) (trunc W64 (wrap V))).
Proof. intros Hi H. unfold effect. rewrite (imm64_value e nx rt G V P0 v Hi H). rewrite trunc64_wrap. reflexivity. Qed.
Lemma eff_mov_imm32 e nx G V P0 v r : new_field 10 G V 0 P0 = Some v ->
  effect e nx (IMov W32 r (SImm v)) = Some (ESet W32 r (trunc W32 (wrap V))).
Proof. intros H. unfold effect. rewrite (imm32_value e nx G V P0 v H). reflexivity. Qed.
Lemma eff_call_rel e G V P v : new_field 2 G V (-4) P = Some v ->
  effect e (P + 4) (ICallR v) = Some (ECall (wrap V) (P + 4)).
Proof. intros H. unfold effect. rewrite (pc32_target G V P (P + 4) v H eq_refl). reflexivity. Qed.
Lemma eff_jmp_rel e G V P v : new_field 2 G V (-4) (P + -1) = Some v ->
  effect e (P + 3) (IJmpR v) = Some (EJmp (wrap V)).
Proof. intros H. unfold effect. rewrite (pc32_target G V (P + -1) (P + 3) v H) by lia. reflexivity. Qed.

Arguments rex_r2b : simpl never.
Arguments rex2_r2b : simpl never.
Arguments modrm_rm : simpl never.
Arguments by0 : simpl never.
Arguments by1 : simpl never.
Arguments by2 : simpl never.
Arguments by3 : simpl never.

Definition in_list (x : Z) (l : list Z) : bool := existsb (Z.eqb x) l.
Lemma in_list_In x l : in_list x l = true -> In x l.
Proof. unfold in_list. intros H. apply existsb_exists in H. destruct H as [y [Hy E]]. apply Z.eqb_eq in E. subst. exact Hy. Qed.

(* the psABI instruction forms: n = bytes of the instruction in front of the relocated field *)
Definition std_form (rt : Z) (w : win) (n : nat) : bool :=
  let b := before w in
  if (rt =? 42) || (rt =? 22) then Nat.eqb n 3 && in_list (nb b 0) rip_modrms
  else if (rt =? 43) || (rt =? 44) then Nat.eqb n 4 && (nb b 3 =? 213) && in_list (nb b 0) rip_modrms
  else if rt =? 41 then Nat.eqb n 2 && (in_list (nb b 0) rip_modrms || (nb b 1 =? 255))
  else if rt =? 9 then
    in_list (nb b 0) rip_modrms && (Nat.eqb n 2 || (Nat.eqb n 3 && in_list (nb b 2) pfx_bytes))
  else false.

(* ---------- the GOT family ---------- *)
Lemma preserved_intro e n d P orig w2 i1 i2 len1 len2 ef :
  decode (bytes_from orig n) = Some (i1, len1) ->
  decode (bytes_from w2 (Z.to_nat (Z.of_nat n + d))) = Some (i2, len2) ->
  effect e (P - Z.of_nat n + len1) i1 = Some ef ->
  effect e (P - Z.of_nat n + len2) i2 = Some ef ->
  (len1 = len2 \/ exists t, ef = EJmp t) ->
  preserved e n d P orig w2.
Proof.
  intros D1 D2 E1 E2 L. unfold preserved, exec_at. rewrite D1, D2, E1, E2. cbn [option_map].
  do 3 eexists. split; [reflexivity|]. split; [reflexivity|].
  destruct L as [->|L]; [left; reflexivity|right; exact L].
Qed.

Ltac rex_cases rex HN :=
  let H := fresh "Hrex" in
  assert (H : In rex [72; 76]);
  [ destruct (Z.eqb_spec rex 72); [subst; cbn; auto|];
    destruct (Z.eqb_spec rex 76); [subst; cbn; auto|]; cbn in HN; discriminate |];
  replace ((rex =? 72) || (rex =? 76)) with true in HN
    by (cbn [In] in H; destruct H as [<-|[<-|[]]]; reflexivity);
  cbn [negb] in HN.

Ltac vrange HV := eapply new_field_range; [|exact HV]; cbn; auto 10.
Ltac ip4 P := match goal with |- effect _ ?nx _ = _ => replace nx with (P + 4) by (cbn; lia) end.

Lemma got_42 w fl ok k rt' mand e G V P n f0 f1 f2 f3 post w1 d A' v :
  new_relaxation 42 w fl ok true = RSome k rt' mand ->
  std_form 42 w n = true ->
  after w = f0 :: f1 :: f2 :: f3 :: post -> fld f0 f1 f2 f3 = (G - 4 - P) mod 2 ^ 32 ->
  ctx e G V P ->
  apply k w (-4) = Some (w1, d, A') ->
  new_field rt' G V A' (P + d) = Some v ->
  preserved e n d P w (put32 w1 v).
Proof.
  intros HN HS HA HF HC HP HV.
  unfold std_form in HS. cbn [Z.eqb Pos.eqb orb] in HS. apply andb_prop in HS. destruct HS as [Hn Hm].
  apply Nat.eqb_eq in Hn. subst n. apply in_list_In in Hm.
  destruct w as [b a]. cbn [before after] in *. subst a.
  unfold new_relaxation in HN. cbn [before after Z.eqb Pos.eqb orb andb] in HN.
  destruct (f_ifunc fl); [discriminate|]. cbn [negb] in HN.
  destruct b as [|m [|op [|rex more]]]; try (cbn in HN; discriminate).
  cbn [has length Nat.leb andb orb nb nth] in HN. cbn [nb nth] in Hm.
  rex_cases rex HN.
  destruct (_ || _) in HN.
  - destruct (Z.eqb_spec op 139) as [->|_]; [|destruct (Z.eqb_spec op 43) as [->|_]; [|destruct (Z.eqb_spec op 59) as [->|_]; [|discriminate]]];
      injection HN as <- <- <-; cbn in HP; injection HP as <- <- <-.
    + eapply preserved_intro.
      * exact (dec_rex_rm rex 139 m f0 f1 f2 f3 post Hrex ltac:(cbn; auto) Hm).
      * exact (dec_rex_imm rex (199, 192) m _ _ _ _ post Hrex ltac:(cbn; auto) Hm).
      * ip4 P. rewrite HF. exact (eff_mov_load e G V P W64 _ HC).
      * ip4 P. cbn [fst snd]. rewrite fld_bytes by vrange HV.
        exact (eff_mov_imm64 e _ 11 G V (P + 0) v _ ltac:(cbn; auto) HV).
      * left; reflexivity.
    + eapply preserved_intro.
      * exact (dec_rex_rm rex 43 m f0 f1 f2 f3 post Hrex ltac:(cbn; auto 10) Hm).
      * exact (dec_rex_imm rex (129, 232) m _ _ _ _ post Hrex ltac:(cbn; auto 10) Hm).
      * ip4 P. rewrite HF. exact (eff_alu_load e G V P 5 W64 false _ HC).
      * ip4 P. cbn [fst snd]. rewrite fld_bytes by vrange HV.
        exact (eff_alu_imm64 e _ 11 G V (P + 0) v 5 false _ ltac:(cbn; auto) HV).
      * left; reflexivity.
    + eapply preserved_intro.
      * exact (dec_rex_rm rex 59 m f0 f1 f2 f3 post Hrex ltac:(cbn; auto 10) Hm).
      * exact (dec_rex_imm rex (129, 248) m _ _ _ _ post Hrex ltac:(cbn; auto 10) Hm).
      * ip4 P. rewrite HF. exact (eff_alu_load e G V P 7 W64 false _ HC).
      * ip4 P. cbn [fst snd]. rewrite fld_bytes by vrange HV.
        exact (eff_alu_imm64 e _ 11 G V (P + 0) v 7 false _ ltac:(cbn; auto) HV).
      * left; reflexivity.
  - destruct (negb (negb (f_nonint fl))); [|discriminate].
    destruct (Z.eqb_spec op 139) as [->|_]; [|discriminate].
    injection HN as <- <- <-; cbn in HP; injection HP as <- <- <-.
    replace (P + 0) with P in HV by lia.
    eapply preserved_intro.
    + exact (dec_rex_rm rex 139 m f0 f1 f2 f3 post Hrex ltac:(cbn; auto) Hm).
    + exact (dec_rex_rm rex 141 m _ _ _ _ post Hrex ltac:(cbn; auto) Hm).
    + ip4 P. rewrite HF. exact (eff_mov_load e G V P W64 _ HC).
    + ip4 P. rewrite fld_bytes by vrange HV. exact (eff_lea_pc32 e G V P v W64 _ HV).
    + left; reflexivity.
Qed.

Lemma got_43 w fl ok k rt' mand e G V P n f0 f1 f2 f3 post w1 d A' v :
  new_relaxation 43 w fl ok true = RSome k rt' mand ->
  std_form 43 w n = true ->
  after w = f0 :: f1 :: f2 :: f3 :: post -> fld f0 f1 f2 f3 = (G - 4 - P) mod 2 ^ 32 ->
  ctx e G V P ->
  apply k w (-4) = Some (w1, d, A') ->
  new_field rt' G V A' (P + d) = Some v ->
  preserved e n d P w (put32 w1 v).
Proof.
  intros HN HS HA HF HC HP HV.
  unfold std_form in HS. cbn [Z.eqb Pos.eqb orb] in HS.
  apply andb_prop in HS. destruct HS as [HS Hm]. apply andb_prop in HS. destruct HS as [Hn H213].
  apply Nat.eqb_eq in Hn. subst n. apply in_list_In in Hm. apply Z.eqb_eq in H213.
  destruct w as [b a]. cbn [before after] in *. subst a.
  unfold new_relaxation in HN. cbn [before after Z.eqb Pos.eqb orb andb] in HN.
  destruct (f_ifunc fl); [discriminate|]. cbn [negb] in HN.
  destruct b as [|m [|op [|rex [|p4 more]]]]; try (cbn in H213; discriminate).
  cbn [nb nth] in H213. subst p4.
  cbn [has length Nat.leb andb orb nb nth Z.eqb Pos.eqb] in HN. cbn [nb nth] in Hm.
  rex_cases rex HN.
  destruct (_ || _) in HN.
  - destruct (Z.eqb_spec op 139) as [->|_]; [|destruct (Z.eqb_spec op 43) as [->|_]; [|destruct (Z.eqb_spec op 59) as [->|_]; [|discriminate]]];
      injection HN as <- <- <-; cbn in HP; injection HP as <- <- <-.
    + eapply preserved_intro.
      * exact (dec_rex2_rm rex 139 m f0 f1 f2 f3 post Hrex ltac:(cbn; auto) Hm).
      * exact (dec_rex2_imm rex (199, 192) m _ _ _ _ post Hrex ltac:(cbn; auto) Hm).
      * ip4 P. rewrite HF. exact (eff_mov_load e G V P W64 _ HC).
      * ip4 P. cbn [fst snd]. rewrite fld_bytes by vrange HV.
        exact (eff_mov_imm64 e _ 11 G V (P + 0) v _ ltac:(cbn; auto) HV).
      * left; reflexivity.
    + eapply preserved_intro.
      * exact (dec_rex2_rm rex 43 m f0 f1 f2 f3 post Hrex ltac:(cbn; auto 10) Hm).
      * exact (dec_rex2_imm rex (129, 232) m _ _ _ _ post Hrex ltac:(cbn; auto 10) Hm).
      * ip4 P. rewrite HF. exact (eff_alu_load e G V P 5 W64 false _ HC).
      * ip4 P. cbn [fst snd]. rewrite fld_bytes by vrange HV.
        exact (eff_alu_imm64 e _ 11 G V (P + 0) v 5 false _ ltac:(cbn; auto) HV).
      * left; reflexivity.
    + eapply preserved_intro.
      * exact (dec_rex2_rm rex 59 m f0 f1 f2 f3 post Hrex ltac:(cbn; auto 10) Hm).
      * exact (dec_rex2_imm rex (129, 248) m _ _ _ _ post Hrex ltac:(cbn; auto 10) Hm).
      * ip4 P. rewrite HF. exact (eff_alu_load e G V P 7 W64 false _ HC).
      * ip4 P. cbn [fst snd]. rewrite fld_bytes by vrange HV.
        exact (eff_alu_imm64 e _ 11 G V (P + 0) v 7 false _ ltac:(cbn; auto) HV).
      * left; reflexivity.
  - destruct (negb (negb (f_nonint fl))); [|discriminate].
    destruct (Z.eqb_spec op 139) as [->|_]; [|discriminate].
    injection HN as <- <- <-; cbn in HP; injection HP as <- <- <-.
    replace (P + 0) with P in HV by lia.
    eapply preserved_intro.
    + exact (dec_rex2_rm rex 139 m f0 f1 f2 f3 post Hrex ltac:(cbn; auto) Hm).
    + exact (dec_rex2_rm rex 141 m _ _ _ _ post Hrex ltac:(cbn; auto) Hm).
    + ip4 P. rewrite HF. exact (eff_mov_load e G V P W64 _ HC).
    + ip4 P. rewrite fld_bytes by vrange HV. exact (eff_lea_pc32 e G V P v W64 _ HV).
    + left; reflexivity.
Qed.

Lemma got_22 w fl ok k rt' mand e G V P n f0 f1 f2 f3 post w1 d A' v :
  new_relaxation 22 w fl ok true = RSome k rt' mand ->
  std_form 22 w n = true ->
  after w = f0 :: f1 :: f2 :: f3 :: post -> fld f0 f1 f2 f3 = (G - 4 - P) mod 2 ^ 32 ->
  ctx e G V P ->
  apply k w (-4) = Some (w1, d, A') ->
  new_field rt' G V A' (P + d) = Some v ->
  preserved e n d P w (put32 w1 v).
Proof.
  intros HN HS HA HF HC HP HV.
  unfold std_form in HS. cbn [Z.eqb Pos.eqb orb] in HS. apply andb_prop in HS. destruct HS as [Hn Hm].
  apply Nat.eqb_eq in Hn. subst n. apply in_list_In in Hm.
  destruct w as [b a]. cbn [before after] in *. subst a.
  unfold new_relaxation in HN. cbn [before after Z.eqb Pos.eqb orb andb] in HN.
  destruct (f_ifunc fl); [discriminate|]. cbn [negb] in HN.
  destruct b as [|m [|op [|rex more]]]; try (cbn in HN; destruct (ok_is_executable ok), (f_nonint fl); cbn in HN; discriminate).
  cbn [has length Nat.leb andb orb nb nth] in HN. cbn [nb nth] in Hm.
  destruct (ok_is_executable ok); [|cbn in HN; discriminate].
  destruct (f_nonint fl); [|cbn in HN; discriminate].
  cbn [negb andb] in HN.
  assert (Hrex : In rex [72; 76]).
  { destruct (Z.eqb_spec rex 72); [subst; cbn; auto|]. destruct (Z.eqb_spec rex 76); [subst; cbn; auto|]. cbn in HN. discriminate. }
  replace ((rex =? 72) || (rex =? 76)) with true in HN by (cbn [In] in Hrex; destruct Hrex as [<-|[<-|[]]]; reflexivity).
  cbn [andb] in HN.
  destruct (Z.eqb_spec op 139) as [->|_]; [|destruct (Z.eqb_spec op 3) as [->|_]; [|discriminate]];
    injection HN as <- <- <-; cbn in HP; injection HP as <- <- <-.
  - eapply preserved_intro.
    + exact (dec_rex_rm rex 139 m f0 f1 f2 f3 post Hrex ltac:(cbn; auto) Hm).
    + exact (dec_rex_imm rex (199, 192) m _ _ _ _ post Hrex ltac:(cbn; auto) Hm).
    + ip4 P. rewrite HF. exact (eff_mov_load e G V P W64 _ HC).
    + ip4 P. cbn [fst snd]. rewrite fld_bytes by vrange HV.
      exact (eff_mov_imm64 e _ 23 G V (P + 0) v _ ltac:(cbn; auto) HV).
    + left; reflexivity.
  - eapply preserved_intro.
    + exact (dec_rex_rm rex 3 m f0 f1 f2 f3 post Hrex ltac:(cbn; auto 10) Hm).
    + exact (dec_rex_imm rex (129, 192) m _ _ _ _ post Hrex ltac:(cbn; auto 10) Hm).
    + ip4 P. rewrite HF. exact (eff_alu_load e G V P 0 W64 false _ HC).
    + ip4 P. cbn [fst snd]. rewrite fld_bytes by vrange HV.
      exact (eff_alu_imm64 e _ 23 G V (P + 0) v 0 false _ ltac:(cbn; auto) HV).
    + left; reflexivity.
Qed.

Lemma got_44 w fl ok k rt' mand e G V P n f0 f1 f2 f3 post w1 d A' v :
  new_relaxation 44 w fl ok true = RSome k rt' mand ->
  std_form 44 w n = true ->
  after w = f0 :: f1 :: f2 :: f3 :: post -> fld f0 f1 f2 f3 = (G - 4 - P) mod 2 ^ 32 ->
  ctx e G V P ->
  apply k w (-4) = Some (w1, d, A') ->
  new_field rt' G V A' (P + d) = Some v ->
  preserved e n d P w (put32 w1 v).
Proof.
  intros HN HS HA HF HC HP HV.
  unfold std_form in HS. cbn [Z.eqb Pos.eqb orb] in HS.
  apply andb_prop in HS. destruct HS as [HS Hm]. apply andb_prop in HS. destruct HS as [Hn H213].
  apply Nat.eqb_eq in Hn. subst n. apply in_list_In in Hm. apply Z.eqb_eq in H213.
  destruct w as [b a]. cbn [before after] in *. subst a.
  unfold new_relaxation in HN. cbn [before after Z.eqb Pos.eqb orb andb] in HN.
  destruct (f_ifunc fl); [discriminate|]. cbn [negb] in HN.
  destruct b as [|m [|op [|rex [|p4 more]]]]; try (cbn in H213; discriminate).
  cbn [nb nth] in H213. subst p4.
  cbn [has length Nat.leb andb orb nb nth Z.eqb Pos.eqb] in HN. cbn [nb nth] in Hm.
  destruct (ok_is_executable ok); [|cbn in HN; discriminate].
  destruct (f_nonint fl); [|cbn in HN; discriminate].
  cbn [negb andb] in HN.
  assert (Hrex : In rex [72; 76]).
  { destruct (Z.eqb_spec rex 72); [subst; cbn; auto|]. destruct (Z.eqb_spec rex 76); [subst; cbn; auto|]. cbn in HN. discriminate. }
  replace ((rex =? 72) || (rex =? 76)) with true in HN by (cbn [In] in Hrex; destruct Hrex as [<-|[<-|[]]]; reflexivity).
  cbn [andb] in HN.
  destruct (Z.eqb_spec op 139) as [->|_]; [|destruct (Z.eqb_spec op 3) as [->|_]; [|discriminate]];
    injection HN as <- <- <-; cbn in HP; injection HP as <- <- <-.
  - eapply preserved_intro.
    + exact (dec_rex2_rm rex 139 m f0 f1 f2 f3 post Hrex ltac:(cbn; auto) Hm).
    + exact (dec_rex2_imm rex (199, 192) m _ _ _ _ post Hrex ltac:(cbn; auto) Hm).
    + ip4 P. rewrite HF. exact (eff_mov_load e G V P W64 _ HC).
    + ip4 P. cbn [fst snd]. rewrite fld_bytes by vrange HV.
      exact (eff_mov_imm64 e _ 23 G V (P + 0) v _ ltac:(cbn; auto) HV).
    + left; reflexivity.
  - eapply preserved_intro.
    + exact (dec_rex2_rm rex 3 m f0 f1 f2 f3 post Hrex ltac:(cbn; auto 10) Hm).
    + exact (dec_rex2_imm rex (129, 192) m _ _ _ _ post Hrex ltac:(cbn; auto 10) Hm).
    + ip4 P. rewrite HF. exact (eff_alu_load e G V P 0 W64 false _ HC).
    + ip4 P. cbn [fst snd]. rewrite fld_bytes by vrange HV.
      exact (eff_alu_imm64 e _ 23 G V (P + 0) v 0 false _ ltac:(cbn; auto) HV).
    + left; reflexivity.
Qed.

Lemma got_41 w fl ok k rt' mand e G V P n f0 f1 f2 f3 post w1 d A' v :
  new_relaxation 41 w fl ok true = RSome k rt' mand ->
  std_form 41 w n = true ->
  after w = f0 :: f1 :: f2 :: f3 :: post -> fld f0 f1 f2 f3 = (G - 4 - P) mod 2 ^ 32 ->
  ctx e G V P ->
  apply k w (-4) = Some (w1, d, A') ->
  new_field rt' G V A' (P + d) = Some v ->
  preserved e n d P w (put32 w1 v).
Proof.
  intros HN HS HA HF HC HP HV.
  unfold std_form in HS. cbn [Z.eqb Pos.eqb orb] in HS. apply andb_prop in HS. destruct HS as [Hn Hm].
  apply Nat.eqb_eq in Hn. subst n.
  destruct w as [b a]. cbn [before after] in *. subst a.
  unfold new_relaxation in HN. cbn [before after Z.eqb Pos.eqb orb andb] in HN.
  destruct (f_ifunc fl); [discriminate|]. cbn [negb] in HN.
  destruct b as [|m [|op more]]; try (cbn in HN; discriminate).
  cbn [has length Nat.leb andb orb nb nth negb] in HN. cbn [nb nth] in Hm.
  destruct (Z.eqb_spec op 139) as [->|Hop].
  - assert (Hm' : In m rip_modrms).
    { apply orb_prop in Hm. destruct Hm as [Hm|Hm]; [apply in_list_In; exact Hm|discriminate]. }
    cbn [andb] in HN.
    destruct (_ || _) in HN.
    + injection HN as <- <- <-; cbn in HP; injection HP as <- <- <-.
      eapply preserved_intro.
      * exact (dec_plain_rm 139 m f0 f1 f2 f3 post ltac:(cbn; auto) Hm').
      * exact (dec_plain_imm m _ _ _ _ post Hm').
      * ip4 P. rewrite HF. exact (eff_mov_load e G V P W32 _ HC).
      * ip4 P. rewrite fld_bytes by vrange HV. exact (eff_mov_imm32 e _ G V (P + 0) v _ HV).
      * left; reflexivity.
    + destruct (f_nonint fl); cbn in HN.
      2: discriminate.
      * injection HN as <- <- <-; cbn in HP; injection HP as <- <- <-.
        replace (P + 0) with P in HV by lia.
        eapply preserved_intro.
        -- exact (dec_plain_rm 139 m f0 f1 f2 f3 post ltac:(cbn; auto) Hm').
        -- exact (dec_plain_rm 141 m _ _ _ _ post ltac:(cbn; auto) Hm').
        -- ip4 P. rewrite HF. exact (eff_mov_load e G V P W32 _ HC).
        -- ip4 P. rewrite fld_bytes by vrange HV. exact (eff_lea_pc32 e G V P v W32 _ HV).
        -- left; reflexivity.
  - replace (op =? 139) with false in HN by (symmetry; apply Z.eqb_neq; exact Hop).
    cbn [andb] in HN.
    destruct (f_nonint fl); cbn [negb] in HN; [|discriminate].
    unfold before_is in HN. cbn [before length firstn eq_list] in HN.
    destruct (Z.eqb_spec m 21) as [->|_]; cbn [andb] in HN.
    + destruct (Z.eqb_spec op 255) as [->|_]; cbn [andb] in HN.
      * injection HN as <- <- <-; unfold apply, splice in HP; cbn in HP; injection HP as <- <- <-.
        replace (P + 0) with P in HV by lia.
        eapply preserved_intro.
        -- exact (dec_call_ind f0 f1 f2 f3 post).
        -- exact (dec_call_rel _ _ _ _ post).
        -- ip4 P. rewrite HF. exact (eff_call_load e G V P HC).
        -- ip4 P. rewrite fld_bytes by vrange HV. exact (eff_call_rel e G V P v HV).
        -- left; reflexivity.
      * destruct (Z.eqb_spec 21 37); [lia|]. cbn [andb] in HN. discriminate.
    + destruct (Z.eqb_spec m 37) as [->|_]; cbn [andb] in HN; [|discriminate].
      destruct (Z.eqb_spec op 255) as [->|_]; cbn [andb] in HN; [|discriminate].
      injection HN as <- <- <-; unfold apply, splice, back1 in HP; cbn in HP; injection HP as <- <- <-.
      eapply preserved_intro.
      * exact (dec_jmp_ind f0 f1 f2 f3 post).
      * exact (dec_jmp_rel _ _ _ _ (144 :: post)).
      * ip4 P. rewrite HF. exact (eff_jmp_load e G V P HC).
      * match goal with |- effect _ ?nx _ = _ => replace nx with (P + 3) by (cbn; lia) end.
        rewrite fld_bytes by vrange HV. exact (eff_jmp_rel e G V P v HV).
      * right. eexists. reflexivity.
Qed.

Lemma got_9 w fl ok k rt' mand e G V P n f0 f1 f2 f3 post w1 d A' v :
  new_relaxation 9 w fl ok true = RSome k rt' mand ->
  std_form 9 w n = true ->
  after w = f0 :: f1 :: f2 :: f3 :: post -> fld f0 f1 f2 f3 = (G - 4 - P) mod 2 ^ 32 ->
  ctx e G V P ->
  apply k w (-4) = Some (w1, d, A') ->
  new_field rt' G V A' (P + d) = Some v ->
  preserved e n d P w (put32 w1 v).
Proof.
  intros HN HS HA HF HC HP HV.
  unfold std_form in HS. cbn [Z.eqb Pos.eqb orb] in HS. apply andb_prop in HS. destruct HS as [Hm Hn].
  apply in_list_In in Hm.
  destruct w as [b a]. cbn [before after] in *. subst a.
  unfold new_relaxation in HN. cbn [before after Z.eqb Pos.eqb orb andb] in HN.
  destruct (f_ifunc fl); [discriminate|]. cbn [negb] in HN.
  destruct (f_nonint fl); cbn [negb andb] in HN; [|discriminate].
  destruct b as [|m [|op more]]; try (cbn in HN; discriminate).
  cbn [has length Nat.leb andb orb nb nth negb] in HN. cbn [nb nth] in Hm.
  destruct (Z.eqb_spec op 139) as [->|_]; [|discriminate].
  injection HN as <- <- <-; cbn in HP; injection HP as <- <- <-.
  replace (P + 0) with P in HV by lia.
  apply orb_prop in Hn. destruct Hn as [Hn|Hn].
  - apply Nat.eqb_eq in Hn. subst n.
    eapply preserved_intro.
    + exact (dec_plain_rm 139 m f0 f1 f2 f3 post ltac:(cbn; auto) Hm).
    + exact (dec_plain_rm 141 m _ _ _ _ post ltac:(cbn; auto) Hm).
    + ip4 P. rewrite HF. exact (eff_mov_load e G V P W32 _ HC).
    + ip4 P. rewrite fld_bytes by vrange HV. exact (eff_lea_pc32 e G V P v W32 _ HV).
    + left; reflexivity.
  - apply andb_prop in Hn. destruct Hn as [Hn Hp]. apply Nat.eqb_eq in Hn. subst n.
    destruct more as [|p more]; [cbn in Hp; discriminate|]. cbn [nb nth] in Hp. apply in_list_In in Hp.
    eapply preserved_intro.
    + exact (dec_pfx_rm p 139 m f0 f1 f2 f3 post Hp ltac:(cbn; auto) Hm).
    + exact (dec_pfx_rm p 141 m _ _ _ _ post Hp ltac:(cbn; auto) Hm).
    + ip4 P. rewrite HF. exact (eff_mov_load e G V P _ _ HC).
    + ip4 P. rewrite fld_bytes by vrange HV. exact (eff_lea_pc32 e G V P v _ _ HV).
    + left; reflexivity.
Qed.

Theorem got_relax_sem rt w fl ok k rt' mand e G V P n f0 f1 f2 f3 post w1 d A' v :
  new_relaxation rt w fl ok true = RSome k rt' mand ->
  std_form rt w n = true ->
  after w = f0 :: f1 :: f2 :: f3 :: post -> fld f0 f1 f2 f3 = (G - 4 - P) mod 2 ^ 32 ->
  ctx e G V P ->
  apply k w (-4) = Some (w1, d, A') ->
  new_field rt' G V A' (P + d) = Some v ->
  preserved e n d P w (put32 w1 v).
Proof.
  intros HN HS. 
  assert (Hrt : In rt [42; 22; 43; 44; 41; 9]).
  { unfold std_form in HS.
    destruct (Z.eqb_spec rt 42); [subst; cbn; auto|]. destruct (Z.eqb_spec rt 22); [subst; cbn; auto|].
    destruct (Z.eqb_spec rt 43); [subst; cbn; auto 10|]. destruct (Z.eqb_spec rt 44); [subst; cbn; auto 10|].
    destruct (Z.eqb_spec rt 41); [subst; cbn; auto 10|]. destruct (Z.eqb_spec rt 9); [subst; cbn; auto 10|].
    cbn in HS. discriminate. }
  cbn [In] in Hrt. destruct Hrt as [<-|[<-|[<-|[<-|[<-|[<-|[]]]]]]].
  - eapply got_42; eassumption.
  - eapply got_22; eassumption.
  - eapply got_43; eassumption.
  - eapply got_44; eassumption.
  - eapply got_41; eassumption.
  - eapply got_9; eassumption.
Qed.

(* ---------- the TLS family ---------- *)
(* result of a relaxed TLS sequence: register dst holds `expect`, everything else is untouched, execution
   continues `len` bytes after the start of the sequence *)
Definition tls_result (e : env) (k : nat) (l : list Z) (ip : Z) (dst expect len : Z) : Prop :=
  exists e', run k e l ip = Some (e', ip + len) /\ regs e' dst = expect /\ forall r, r <> dst -> regs e' r = regs e r.

Ltac need_bytes HP l := repeat (destruct l as [|? l]; [cbn in HP; discriminate|]).

Lemma lea_rax_tp e nx TP V v :
  regs e 0 = TP -> 0 <= TP < 2 ^ 64 ->
  - 2 ^ 31 <= to_i64 (wrap (V + 0)) < 2 ^ 31 -> v = to_i64 (wrap (V + 0)) mod 2 ^ 32 ->
  effect e nx (ILea W64 0 (MBase 0 v)) = Some (ESet W64 0 (wrap (TP + V))).
Proof.
  intros HR HT Hr ->. unfold effect, addr. cbn [option_map]. rewrite sext32_mod by exact Hr. rewrite HR.
  rewrite trunc64_wrap. rewrite wrap_add_to_i64 by apply wrap_range. rewrite wrap_add_r. do 3 f_equal. lia.
Qed.

Lemma run_set k e l ip i n d v :
  decode l = Some (i, n) -> effect e (ip + n) i = Some (ESet W64 d v) ->
  run (S k) e l ip = run k (set_reg e d v) (skipn (Z.to_nat n) l) (ip + n).
Proof. intros D E. cbn [run]. rewrite D, E. reflexivity. Qed.
Lemma run_nop k e l ip i n :
  decode l = Some (i, n) -> effect e (ip + n) i = Some ENop ->
  run (S k) e l ip = run k e (skipn (Z.to_nat n) l) (ip + n).
Proof. intros D E. cbn [run]. rewrite D, E. reflexivity. Qed.
Lemma run_add k e l ip i n nf d a b :
  decode l = Some (i, n) -> effect e (ip + n) i = Some (EAlu 0 W64 nf (Some d) a b) ->
  run (S k) e l ip = run k (set_reg e d (wrap (a + b))) (skipn (Z.to_nat n) l) (ip + n).
Proof. intros D E. cbn [run]. rewrite D, E. reflexivity. Qed.

Lemma dec_mov_fs0 t : decode (100 :: 72 :: 139 :: 4 :: 37 :: 0 :: 0 :: 0 :: 0 :: t) = Some (IMov W64 0 (SMem (MFs 0)), 9).
Proof. reflexivity. Qed.
Lemma dec_lea_rax f0 f1 f2 f3 t : decode (72 :: 141 :: 128 :: f0 :: f1 :: f2 :: f3 :: t) = Some (ILea W64 0 (MBase 0 (fld f0 f1 f2 f3)), 7).
Proof. reflexivity. Qed.
Lemma eff_mov_fs0 e nx : effect e nx (IMov W64 0 (SMem (MFs 0))) = Some (ESet W64 0 (trunc W64 (fsmem e 0))).
Proof. reflexivity. Qed.
Lemma trunc64_small x : 0 <= x < 2 ^ 64 -> trunc W64 x = x.
Proof. intros. unfold trunc, bits. apply Z.mod_small. lia. Qed.

Lemma set_reg_same e d v : regs (set_reg e d v) d = v.
Proof. unfold set_reg. cbn [regs]. rewrite Z.eqb_refl. reflexivity. Qed.
Lemma set_reg_other e d v r : r <> d -> regs (set_reg e d v) r = regs e r.
Proof. intros H. unfold set_reg. cbn [regs]. destruct (Z.eqb_spec r d); [contradiction|reflexivity]. Qed.

Lemma tls_gd_le w A w1 d A' e G V P v TP :
  apply TlsGdLe w A = Some (w1, d, A') ->
  new_field 23 G V A' (P + d) = Some v ->
  fsmem e 0 = TP -> 0 <= TP < 2 ^ 64 ->
  tls_result e 2 (bytes_from (put32 w1 v) (Z.to_nat (4 + d))) (P - 4) 0 (wrap (TP + V)) 16.
Proof.
  intros HP HV HT HTr. destruct w as [b a].
  unfold apply, splice in HP.
  need_bytes HP b. need_bytes HP a.
  cbn in HP. injection HP as <- <- <-.
  apply new_field_signed in HV; [|cbn; auto]. destruct HV as [Hr Hv].
  unfold new_value in Hr, Hv. cbn [Z.eqb Pos.eqb] in Hr, Hv.
  unfold tls_result, put32, bytes_from. cbn [before after Z.add Z.to_nat Pos.to_nat Pos.iter_op Nat.add firstn rev app skipn].
  change (Pos.to_nat (4 + 8)) with 12%nat. cbn [firstn rev app]. unfold bytes32. cbn [app].
  match goal with |- context [match a with _ => _ end] => set (tail := match a with | _ :: _ :: _ :: _ :: l2 => l2 | _ => [] end) end.
  eexists. split; [|split].
  - erewrite run_set; [| apply dec_mov_fs0 | apply eff_mov_fs0 ].
    cbn [skipn Z.to_nat Pos.to_nat Pos.iter_op Nat.add].
    erewrite run_set; [| apply dec_lea_rax | ].
    2:{ rewrite fld_bytes by (subst v; apply Z.mod_pos_bound; lia).
        eapply lea_rax_tp; [apply set_reg_same | | exact Hr | exact Hv].
        rewrite HT. rewrite (trunc64_small TP) by exact HTr. exact HTr. }
    cbn [run]. f_equal. f_equal. lia.
  - rewrite set_reg_same. rewrite HT. rewrite (trunc64_small TP) by exact HTr. reflexivity.
  - intros r Hr0. rewrite !set_reg_other by exact Hr0. reflexivity.
Qed.

Lemma dec_nopw6 t : decode (102 :: 15 :: 31 :: 68 :: 0 :: 0 :: t) = Some (INop, 6).
Proof. reflexivity. Qed.
Lemma dec_nopw13 t : decode (102 :: 102 :: 102 :: 102 :: 46 :: 15 :: 31 :: 132 :: 0 :: 0 :: 0 :: 0 :: 0 :: t) = Some (INop, 13).
Proof. reflexivity. Qed.
Lemma dec_mov_fs0_12 t : decode (102 :: 102 :: 102 :: 100 :: 72 :: 139 :: 4 :: 37 :: 0 :: 0 :: 0 :: 0 :: t) = Some (IMov W64 0 (SMem (MFs 0)), 12).
Proof. reflexivity. Qed.
Lemma dec_mov_fs0_13 t : decode (102 :: 102 :: 102 :: 102 :: 100 :: 72 :: 139 :: 4 :: 37 :: 0 :: 0 :: 0 :: 0 :: t) = Some (IMov W64 0 (SMem (MFs 0)), 13).
Proof. reflexivity. Qed.
Lemma dec_xchg_ax t : decode (102 :: 144 :: t) = Some (INop, 2).
Proof. reflexivity. Qed.
Lemma eff_nop e nx : effect e nx INop = Some ENop.
Proof. reflexivity. Qed.

Lemma tls_gd_le_large w A w1 d A' e G V P v TP :
  apply TlsGdLeLarge w A = Some (w1, d, A') ->
  new_field 23 G V A' (P + d) = Some v ->
  fsmem e 0 = TP -> 0 <= TP < 2 ^ 64 ->
  tls_result e 3 (bytes_from (put32 w1 v) (Z.to_nat (3 + d))) (P - 3) 0 (wrap (TP + V)) 22.
Proof.
  intros HP HV HT HTr. destruct w as [b a].
  unfold apply, splice in HP.
  need_bytes HP b. need_bytes HP a.
  cbn in HP. injection HP as <- <- <-.
  apply new_field_signed in HV; [|cbn; auto]. destruct HV as [Hr Hv].
  unfold new_value in Hr, Hv. cbn [Z.eqb Pos.eqb] in Hr, Hv.
  unfold tls_result, put32, bytes_from. cbn [before after Z.add Z.to_nat Pos.to_nat Pos.iter_op Nat.add firstn rev app skipn].
  change (Pos.to_nat (3 + 9)) with 12%nat. cbn [firstn rev app]. unfold bytes32. cbn [app].
  eexists. split; [|split].
  - erewrite run_set; [| apply dec_mov_fs0 | apply eff_mov_fs0 ].
    cbn [skipn Z.to_nat Pos.to_nat Pos.iter_op Nat.add].
    erewrite run_set; [| apply dec_lea_rax | ].
    2:{ rewrite fld_bytes by (subst v; apply Z.mod_pos_bound; lia).
        eapply lea_rax_tp; [apply set_reg_same | | exact Hr | exact Hv].
        rewrite HT. rewrite (trunc64_small TP) by exact HTr. exact HTr. }
    cbn [skipn Z.to_nat Pos.to_nat Pos.iter_op Nat.add].
    erewrite run_nop; [| apply dec_nopw6 | apply eff_nop ].
    cbn [run]. f_equal. f_equal. lia.
  - rewrite set_reg_same. rewrite HT. rewrite (trunc64_small TP) by exact HTr. reflexivity.
  - intros r Hr0. rewrite !set_reg_other by exact Hr0. reflexivity.
Qed.

Lemma dec_add_rip f0 f1 f2 f3 t : decode (72 :: 3 :: 5 :: f0 :: f1 :: f2 :: f3 :: t) = Some (IAlu 0 W64 false 0 0 (SMem (MRip (fld f0 f1 f2 f3))), 7).
Proof. reflexivity. Qed.

Lemma tls_gd_ie w w1 d A' e G V P v TP :
  apply TlsGdIe w (-4) = Some (w1, d, A') ->
  new_field 22 G V A' (P + d) = Some v ->
  fsmem e 0 = TP -> 0 <= TP < 2 ^ 64 -> 0 <= G < 2 ^ 64 -> mem64 e G = wrap V ->
  tls_result e 2 (bytes_from (put32 w1 v) (Z.to_nat (4 + d))) (P - 4) 0 (wrap (TP + wrap V)) 16.
Proof.
  intros HP HV HT HTr HG HS. destruct w as [b a].
  unfold apply, splice in HP.
  need_bytes HP b. need_bytes HP a.
  cbn in HP. injection HP as <- <- <-.
  apply new_field_signed in HV; [|cbn; auto]. destruct HV as [Hr Hv].
  unfold new_value in Hr, Hv. cbn [Z.eqb Pos.eqb] in Hr, Hv.
  unfold tls_result, put32, bytes_from. cbn [before after Z.add Z.to_nat Pos.to_nat Pos.iter_op Nat.add firstn rev app skipn].
  change (Pos.to_nat (4 + 8)) with 12%nat. cbn [firstn rev app]. unfold bytes32. cbn [app].
  match goal with |- context [match a with _ => _ end] => set (tail := match a with | _ :: _ :: _ :: _ :: l2 => l2 | _ => [] end) end.
  eexists. split; [|split].
  - erewrite run_set; [| apply dec_mov_fs0 | apply eff_mov_fs0 ].
    cbn [skipn Z.to_nat Pos.to_nat Pos.iter_op Nat.add].
    erewrite run_add; [| apply dec_add_rip | ].
    2:{ rewrite fld_bytes by (subst v; apply Z.mod_pos_bound; lia).
        unfold effect, value, load, addr. cbn [option_map]. subst v. rewrite sext32_mod by exact Hr.
        rewrite wrap_add_to_i64 by apply wrap_range. rewrite wrap_add_r.
        replace (P - 4 + 9 + 7 + (G + -4 - (P + 8))) with G by lia.
        rewrite (wrap_small G HG). cbn [set_reg mem64]. rewrite HS. cbn [Z.eqb]. reflexivity. }
    cbn [run]. f_equal. f_equal. lia.
  - rewrite set_reg_same. rewrite set_reg_same. rewrite HT. rewrite (trunc64_small TP) by exact HTr.
    rewrite trunc64_wrap. rewrite (trunc64_small TP) by exact HTr. reflexivity.
  - intros r Hr0. rewrite !set_reg_other by exact Hr0. reflexivity.
Qed.

Lemma tls_ld_le w A w1 d A' e P TP :
  apply TlsLdLe w A = Some (w1, d, A') ->
  fsmem e 0 = TP -> 0 <= TP < 2 ^ 64 ->
  tls_result e 1 (bytes_from w1 (Z.to_nat (3 + d))) (P - 3) 0 TP 12.
Proof.
  intros HP HT HTr. destruct w as [b a].
  unfold apply, splice in HP. need_bytes HP b. need_bytes HP a.
  cbn in HP. injection HP as <- <- <-.
  unfold tls_result, bytes_from. cbn [before after Z.add Z.to_nat Pos.to_nat Pos.iter_op Nat.add firstn rev app skipn].
  change (Pos.to_nat (3 + 5)) with 8%nat. cbn [firstn rev app].
  eexists. split; [|split].
  - erewrite run_set; [| apply dec_mov_fs0_12 | apply eff_mov_fs0 ]. cbn [run]. reflexivity.
  - rewrite set_reg_same. rewrite HT. apply trunc64_small. exact HTr.
  - intros r Hr0. rewrite !set_reg_other by exact Hr0. reflexivity.
Qed.

Lemma tls_ld_le_noplt w A w1 d A' e P TP :
  apply TlsLdLeNoPlt w A = Some (w1, d, A') ->
  fsmem e 0 = TP -> 0 <= TP < 2 ^ 64 ->
  tls_result e 1 (bytes_from w1 (Z.to_nat (3 + d))) (P - 3) 0 TP 13.
Proof.
  intros HP HT HTr. destruct w as [b a].
  unfold apply, splice in HP. need_bytes HP b. need_bytes HP a.
  cbn in HP. injection HP as <- <- <-.
  unfold tls_result, bytes_from. cbn [before after Z.add Z.to_nat Pos.to_nat Pos.iter_op Nat.add firstn rev app skipn].
  change (Pos.to_nat (3 + 5)) with 8%nat. cbn [firstn rev app].
  eexists. split; [|split].
  - erewrite run_set; [| apply dec_mov_fs0_13 | apply eff_mov_fs0 ]. cbn [run]. reflexivity.
  - rewrite set_reg_same. rewrite HT. apply trunc64_small. exact HTr.
  - intros r Hr0. rewrite !set_reg_other by exact Hr0. reflexivity.
Qed.

Lemma tls_ld_le64 w A w1 d A' e P TP :
  apply TlsLdLe64 w A = Some (w1, d, A') ->
  fsmem e 0 = TP -> 0 <= TP < 2 ^ 64 ->
  tls_result e 2 (bytes_from w1 (Z.to_nat (3 + d))) (P - 3) 0 TP 22.
Proof.
  intros HP HT HTr. destruct w as [b a].
  unfold apply, splice in HP. need_bytes HP b. need_bytes HP a.
  cbn in HP. injection HP as <- <- <-.
  unfold tls_result, bytes_from. cbn [before after Z.add Z.to_nat Pos.to_nat Pos.iter_op Nat.add firstn rev app skipn].
  change (Pos.to_nat (3 + 15)) with 18%nat. cbn [firstn rev app].
  eexists. split; [|split].
  - erewrite run_nop; [| apply dec_nopw13 | apply eff_nop ].
    cbn [skipn Z.to_nat Pos.to_nat Pos.iter_op Nat.add].
    erewrite run_set; [| apply dec_mov_fs0 | apply eff_mov_fs0 ]. cbn [run]. f_equal. f_equal. lia.
  - rewrite set_reg_same. rewrite HT. apply trunc64_small. exact HTr.
  - intros r Hr0. rewrite !set_reg_other by exact Hr0. reflexivity.
Qed.

Lemma tls_skip_desc_call w A w1 d A' e P :
  apply SkipTlsDescCall w A = Some (w1, d, A') ->
  run 1 e (bytes_from w1 (Z.to_nat (0 + d))) P = Some (e, P + 2).
Proof.
  intros HP. destruct w as [b a].
  unfold apply, splice in HP. need_bytes HP a.
  cbn in HP. injection HP as <- <- <-.
  unfold bytes_from. cbn [before after Z.add Z.to_nat firstn rev app].
  erewrite run_nop; [| apply dec_xchg_ax | apply eff_nop ]. reflexivity.
Qed.

(* TLSDESC: lea foo@tlsdesc(%rip),%reg ; call *foo@tlscall(%reg)  ->  mov $tpoff,%reg  /  mov foo@gottpoff(%rip),%reg *)
Definition desc_reg (io rex m : Z) : Z := reg3 m + (if io =? 4 then 16 else 0) + (if rex =? 76 then 8 else 0).

Lemma dec_desc_le3 rex m f0 f1 f2 f3 t : In rex [72; 76] -> In m rip_modrms ->
  decode ((if Z.land (Z.shiftr rex 2) 1 =? 0 then 72 else 73) :: 199 :: Z.lor 192 (Z.land (Z.shiftr m 3) 7) :: f0 :: f1 :: f2 :: f3 :: t)
  = Some (IMov W64 (desc_reg 3 rex m) (SImm (fld f0 f1 f2 f3)), 7).
Proof. intros H1 H2. enum H1; enum H2; reflexivity. Qed.
Lemma dec_desc_le4 rex m f0 f1 f2 f3 t : In rex [72; 76] -> In m rip_modrms ->
  decode (213 :: (if Z.land (Z.shiftr rex 2) 1 =? 0 then 24 else 25) :: 199 :: Z.lor 192 (Z.land (Z.shiftr m 3) 7) :: f0 :: f1 :: f2 :: f3 :: t)
  = Some (IMov W64 (desc_reg 4 rex m) (SImm (fld f0 f1 f2 f3)), 8).
Proof. intros H1 H2. enum H1; enum H2; reflexivity. Qed.
Lemma dec_desc_ie rex m f0 f1 f2 f3 t : In rex [72; 76] -> In m rip_modrms ->
  decode ((if Z.land (Z.shiftr rex 2) 1 =? 0 then 72 else 76) :: 139 :: Z.lor 5 (Z.shiftl (Z.land (Z.shiftr m 3) 7) 3) :: f0 :: f1 :: f2 :: f3 :: t)
  = Some (IMov W64 (desc_reg 3 rex m) (SMem (MRip (fld f0 f1 f2 f3))), 7).
Proof. intros H1 H2. enum H1; enum H2; reflexivity. Qed.

Ltac list_cbn H := cbn [has before after length Nat.leb Z.eqb Pos.eqb nb nth overwrite rev firstn skipn app option_map fwd back1] in H.

Lemma tls_desc_le io w A w1 d A' e G V P v m op rex more :
  before w = m :: op :: rex :: more -> In rex [72; 76] -> In m rip_modrms ->
  (io = 3 \/ (io = 4 /\ exists more', more = 213 :: more')) ->
  apply (TlsDescLe io) w A = Some (w1, d, A') ->
  new_field 23 G V A' (P + d) = Some v ->
  tls_result e 1 (bytes_from (put32 w1 v) (Z.to_nat (io + d))) (P - io) (desc_reg io rex m) (wrap V) (io + 4).
Proof.
  intros HB Hrex Hm Hio HP HV. destruct w as [b a]. cbn [before] in HB. subst b.
  destruct Hio as [->|[-> [more' ->]]].
  - unfold apply, splice in HP. list_cbn HP.
    need_bytes HP a. list_cbn HP. injection HP as <- <- <-.
    assert (Hv : 0 <= v < 2 ^ 32) by (eapply new_field_range; [|exact HV]; cbn; auto 10).
    unfold tls_result, put32, bytes_from. cbn [before after Z.add Z.to_nat Pos.to_nat Pos.iter_op Nat.add firstn rev app skipn].
    unfold bytes32. cbn [app].
    eexists. split; [|split].
    + erewrite run_set; [| apply (dec_desc_le3 rex m _ _ _ _ _ Hrex Hm) | ].
      2:{ rewrite fld_bytes by exact Hv. exact (eff_mov_imm64 e _ 23 G V (P + 0) v _ ltac:(cbn; auto) HV). }
      cbn [run]. reflexivity.
    + rewrite set_reg_same. apply trunc64_wrap.
    + intros r Hr0. rewrite !set_reg_other by exact Hr0. reflexivity.
  - unfold apply, splice in HP. list_cbn HP.
    need_bytes HP a. list_cbn HP. injection HP as <- <- <-.
    assert (Hv : 0 <= v < 2 ^ 32) by (eapply new_field_range; [|exact HV]; cbn; auto 10).
    unfold tls_result, put32, bytes_from. cbn [before after Z.add Z.to_nat Pos.to_nat Pos.iter_op Nat.add firstn rev app skipn].
    unfold bytes32. cbn [app].
    eexists. split; [|split].
    + erewrite run_set; [| apply (dec_desc_le4 rex m _ _ _ _ _ Hrex Hm) | ].
      2:{ rewrite fld_bytes by exact Hv. exact (eff_mov_imm64 e _ 23 G V (P + 0) v _ ltac:(cbn; auto) HV). }
      cbn [run]. reflexivity.
    + rewrite set_reg_same. apply trunc64_wrap.
    + intros r Hr0. rewrite !set_reg_other by exact Hr0. reflexivity.
Qed.

Lemma tls_desc_ie w w1 d A' e G V P v m op rex more :
  before w = m :: op :: rex :: more -> In rex [72; 76] -> In m rip_modrms ->
  apply TlsDescIe w (-4) = Some (w1, d, A') ->
  new_field 22 G V A' (P + d) = Some v ->
  0 <= G < 2 ^ 64 -> mem64 e G = wrap V ->
  tls_result e 1 (bytes_from (put32 w1 v) (Z.to_nat (3 + d))) (P - 3) (desc_reg 3 rex m) (wrap V) 7.
Proof.
  intros HB Hrex Hm HP HV HG HS. destruct w as [b a]. cbn [before] in HB. subst b.
  unfold apply, splice in HP. list_cbn HP.
  need_bytes HP a. list_cbn HP. injection HP as <- <- <-.
  assert (Hv : 0 <= v < 2 ^ 32) by (eapply new_field_range; [|exact HV]; cbn; auto 10).
  apply new_field_signed in HV; [|cbn; auto]. destruct HV as [Hr Hve].
  unfold new_value in Hr, Hve. cbn [Z.eqb Pos.eqb] in Hr, Hve.
  unfold tls_result, put32, bytes_from. cbn [before after Z.add Z.to_nat Pos.to_nat Pos.iter_op Nat.add firstn rev app skipn].
  unfold bytes32. cbn [app].
  eexists. split; [|split].
  + erewrite run_set; [| apply (dec_desc_ie rex m _ _ _ _ _ Hrex Hm) | ].
    2:{ rewrite fld_bytes by exact Hv. unfold effect, value, load, addr. cbn [option_map].
        rewrite Hve. rewrite sext32_mod by exact Hr.
        rewrite wrap_add_to_i64 by apply wrap_range. rewrite wrap_add_r.
        replace (P - 3 + 7 + (G + -4 - (P + 0))) with G by lia.
        rewrite (wrap_small G HG), HS. reflexivity. }
    cbn [run]. reflexivity.
  + rewrite set_reg_same. apply trunc64_wrap.
  + intros r Hr0. rewrite !set_reg_other by exact Hr0. reflexivity.
Qed.

(* which rewrite new_relaxation picks for the TLS relocation types, and what the bytes must have looked like *)
Lemma choice_tlsgd w fl ok k rt' mand :
  new_relaxation 19 w fl ok true = RSome k rt' mand ->
  (k = TlsGdLe /\ rt' = 23 /\ identify w = GdRegular) \/
  (k = TlsGdLeLarge /\ rt' = 23 /\ identify w = GdLarge) \/
  (k = TlsGdIe /\ rt' = 22 /\ identify w = GdRegular).
Proof.
  unfold new_relaxation. cbn [Z.eqb Pos.eqb orb andb].
  destruct (f_ifunc fl); [discriminate|]. cbn [negb].
  destruct (f_nonint fl), (ok_is_executable ok); cbn [negb andb]; try discriminate;
    destruct (identify w); try discriminate; intros H; injection H as <- <- <-; auto.
Qed.

Lemma choice_tlsld w fl ok k rt' mand :
  new_relaxation 20 w fl ok true = RSome k rt' mand ->
  rt' = 0 /\ before_is w [61; 141; 72] = true /\
  ((k = TlsLdLe /\ after_is w 4 [232] = true) \/ (k = TlsLdLe64 /\ after_is w 4 [72; 184] = true) \/
   (k = TlsLdLeNoPlt /\ after_is w 4 [255; 21] = true)).
Proof.
  unfold new_relaxation. cbn [Z.eqb Pos.eqb orb andb].
  destruct (f_ifunc fl); [discriminate|]. cbn [negb].
  destruct (ok_is_executable ok); cbn [andb]; [|discriminate].
  destruct (has (before w) 3); cbn [negb]; [|discriminate].
  destruct (before_is w [61; 141; 72]); [|discriminate].
  destruct (after_is w 4 [232]) eqn:E1.
  - destruct (has _ 2); cbn [andb].
    + intros H; injection H as <- <- <-; auto.
    + destruct (after_is w 4 [72; 184]) eqn:E2; [intros H; injection H as <- <- <-; auto 10|].
      destruct (after_is w 4 [255; 21]) eqn:E3; [intros H; injection H as <- <- <-; auto 10|discriminate].
  - cbn [andb]. destruct (after_is w 4 [72; 184]) eqn:E2; [intros H; injection H as <- <- <-; auto 10|].
    destruct (after_is w 4 [255; 21]) eqn:E3; [intros H; injection H as <- <- <-; auto 10|discriminate].
Qed.

Lemma choice_tlsdesc rt w fl ok k rt' mand :
  In rt [34; 45] ->
  new_relaxation rt w fl ok true = RSome k rt' mand ->
  has (before w) 3 = true /\ nb (before w) 1 = 141 /\ In (nb (before w) 2) [72; 76] /\
  ((k = TlsDescLe (if rt =? 34 then 3 else 4) /\ rt' = 23) \/ (k = TlsDescIe /\ rt' = 22 /\ rt = 34)).
Proof.
  intros Hrt. cbn [In] in Hrt. destruct Hrt as [<-|[<-|[]]];
  unfold new_relaxation; cbn [Z.eqb Pos.eqb orb andb];
  (destruct (f_ifunc fl); [discriminate|]); cbn [negb];
  destruct (f_nonint fl), (ok_is_executable ok); cbn [negb andb orb]; try discriminate;
  destruct (has (before w) 3) eqn:H3; cbn [negb andb orb]; try discriminate.
  all: try (destruct (has (before w) 4 && (nb (before w) 3 =? 213)) eqn:H4; cbn [orb]; try discriminate).
  all: destruct (Z.eqb_spec (nb (before w) 1) 141) as [E1|E1]; cbn [andb]; try discriminate.
  all: destruct (Z.eqb_spec (nb (before w) 2) 72) as [E2|E2]; cbn [orb];
       [|destruct (Z.eqb_spec (nb (before w) 2) 76) as [E3|E3]; [|discriminate]].
  all: intros H; injection H as <- <- <-; repeat split; auto; try (rewrite E2; cbn; auto); try (rewrite E3; cbn; auto).
  all: exfalso; apply andb_prop in H4; destruct H4 as [H4 _]; unfold has in *; apply Nat.leb_le in H4; apply Nat.leb_gt in H3; lia.
Qed.

Lemma choice_tlsdesc_call w fl ok k rt' mand :
  new_relaxation 35 w fl ok true = RSome k rt' mand -> k = SkipTlsDescCall /\ rt' = 0.
Proof.
  unfold new_relaxation. cbn [Z.eqb Pos.eqb orb andb].
  destruct (f_ifunc fl); [discriminate|]. cbn [negb].
  destruct (ok_is_executable ok); cbn [andb]; [|discriminate].
  intros H; injection H as <- <- <-; auto.
Qed.
