(* C14 — x86-64 GOT and TLS relaxations preserve instruction semantics: the property theorems.
   Model: C14/Model.v (RelaxationKind::apply, ElfX86_64::new_relaxation), C14/Isa.v (decoder + effects),
   C14/Check.v (relocation applied after the rewrite: value, range check and field from the regenerated C12 table). *)
From Coq Require Import ZArith List Bool.
From WV Require Import C12.Types Gen.RelocTables C12.Model C14.Model C14.Isa C14.Check C14.Proofs.
Import ListNotations.
Open Scope Z_scope.

(* GOT family (R_X86_64_GOTPCREL, GOTPCRELX, REX_GOTPCRELX, CODE_4_GOTPCRELX) and IE->LE (GOTTPOFF, CODE_4_GOTTPOFF):
   whenever new_relaxation picks a rewrite for an instruction of the psABI form, and the relocation applied after
   the rewrite passes its range check, the rewritten instruction has the same effect (destination, value, ALU
   operands, control target, return address) and the same successor as the original executed with the GOT slot
   holding V — for every V, every place P, every slot address G, every register, REX and REX2 forms alike. *)
Theorem C14_got_relax_preserves_semantics :
  forall rt w fl ok k rt' mand e G V P n f0 f1 f2 f3 post w1 d A' v,
    new_relaxation rt w fl ok true = RSome k rt' mand ->
    std_form rt w n = true ->
    after w = f0 :: f1 :: f2 :: f3 :: post -> fld f0 f1 f2 f3 = (G - 4 - P) mod 2 ^ 32 ->
    ctx e G V P ->
    apply k w (-4) = Some (w1, d, A') ->
    new_field rt' G V A' (P + d) = Some v ->
    preserved e n d P w (put32 w1 v).
Proof. exact got_relax_sem. Qed.
Print Assumptions C14_got_relax_preserves_semantics.

(* why the REX.W absolute forms need the SIGNED relocation: with R_X86_64_32 the value 2^31 passes the range
   check and the sign-extending immediate then loads 0xffffffff80000000 (the defect repaired in /repo) *)
Theorem C14_unsigned_reloc_would_be_wrong :
  exists V v, new_field 10 4210688 V 0 4198400 = Some v /\
              value (test_env 4210688 V) 4198404 W64 (SImm v) <> Some (wrap V).
Proof. exists (2 ^ 31), (2 ^ 31). split; [vm_compute; reflexivity|vm_compute; discriminate]. Qed.
Print Assumptions C14_unsigned_reloc_would_be_wrong.

(* TLS family: what new_relaxation picks ... *)
Theorem C14_tlsgd_choice : forall w fl ok k rt' mand,
  new_relaxation 19 w fl ok true = RSome k rt' mand ->
  (k = TlsGdLe /\ rt' = 23 /\ identify w = GdRegular) \/
  (k = TlsGdLeLarge /\ rt' = 23 /\ identify w = GdLarge) \/
  (k = TlsGdIe /\ rt' = 22 /\ identify w = GdRegular).
Proof. exact choice_tlsgd. Qed.
Print Assumptions C14_tlsgd_choice.
Theorem C14_tlsld_choice : forall w fl ok k rt' mand,
  new_relaxation 20 w fl ok true = RSome k rt' mand ->
  rt' = 0 /\ before_is w [61; 141; 72] = true /\
  ((k = TlsLdLe /\ after_is w 4 [232] = true) \/ (k = TlsLdLe64 /\ after_is w 4 [72; 184] = true) \/
   (k = TlsLdLeNoPlt /\ after_is w 4 [255; 21] = true)).
Proof. exact choice_tlsld. Qed.
Print Assumptions C14_tlsld_choice.
Theorem C14_tlsdesc_choice : forall rt w fl ok k rt' mand,
  In rt [34; 45] ->
  new_relaxation rt w fl ok true = RSome k rt' mand ->
  has (before w) 3 = true /\ nb (before w) 1 = 141 /\ In (nb (before w) 2) [72; 76] /\
  ((k = TlsDescLe (if rt =? 34 then 3 else 4) /\ rt' = 23) \/ (k = TlsDescIe /\ rt' = 22 /\ rt = 34)).
Proof. exact choice_tlsdesc. Qed.
Print Assumptions C14_tlsdesc_choice.
Theorem C14_tlsdesc_call_choice : forall w fl ok k rt' mand,
  new_relaxation 35 w fl ok true = RSome k rt' mand -> k = SkipTlsDescCall /\ rt' = 0.
Proof. exact choice_tlsdesc_call. Qed.
Print Assumptions C14_tlsdesc_call_choice.

(* ... and what the rewritten sequences compute (TP = the word at %fs:0; V = the TP offset of the symbol, so the
   psABI result of the original __tls_get_addr / TLSDESC sequence is TP + V resp. V) *)
Theorem C14_tls_gd_to_le : forall w A w1 d A' e G V P v TP,
  apply TlsGdLe w A = Some (w1, d, A') -> new_field 23 G V A' (P + d) = Some v ->
  fsmem e 0 = TP -> 0 <= TP < 2 ^ 64 ->
  tls_result e 2 (bytes_from (put32 w1 v) (Z.to_nat (4 + d))) (P - 4) 0 (wrap (TP + V)) 16.
Proof. exact tls_gd_le. Qed.
Print Assumptions C14_tls_gd_to_le.
Theorem C14_tls_gd_to_le_large : forall w A w1 d A' e G V P v TP,
  apply TlsGdLeLarge w A = Some (w1, d, A') -> new_field 23 G V A' (P + d) = Some v ->
  fsmem e 0 = TP -> 0 <= TP < 2 ^ 64 ->
  tls_result e 3 (bytes_from (put32 w1 v) (Z.to_nat (3 + d))) (P - 3) 0 (wrap (TP + V)) 22.
Proof. exact tls_gd_le_large. Qed.
Print Assumptions C14_tls_gd_to_le_large.
Theorem C14_tls_gd_to_ie : forall w w1 d A' e G V P v TP,
  apply TlsGdIe w (-4) = Some (w1, d, A') -> new_field 22 G V A' (P + d) = Some v ->
  fsmem e 0 = TP -> 0 <= TP < 2 ^ 64 -> 0 <= G < 2 ^ 64 -> mem64 e G = wrap V ->
  tls_result e 2 (bytes_from (put32 w1 v) (Z.to_nat (4 + d))) (P - 4) 0 (wrap (TP + wrap V)) 16.
Proof. exact tls_gd_ie. Qed.
Print Assumptions C14_tls_gd_to_ie.
Theorem C14_tls_ld_to_le : forall w A w1 d A' e P TP,
  apply TlsLdLe w A = Some (w1, d, A') -> fsmem e 0 = TP -> 0 <= TP < 2 ^ 64 ->
  tls_result e 1 (bytes_from w1 (Z.to_nat (3 + d))) (P - 3) 0 TP 12.
Proof. exact tls_ld_le. Qed.
Print Assumptions C14_tls_ld_to_le.
Theorem C14_tls_ld_to_le_noplt : forall w A w1 d A' e P TP,
  apply TlsLdLeNoPlt w A = Some (w1, d, A') -> fsmem e 0 = TP -> 0 <= TP < 2 ^ 64 ->
  tls_result e 1 (bytes_from w1 (Z.to_nat (3 + d))) (P - 3) 0 TP 13.
Proof. exact tls_ld_le_noplt. Qed.
Print Assumptions C14_tls_ld_to_le_noplt.
Theorem C14_tls_ld_to_le_64 : forall w A w1 d A' e P TP,
  apply TlsLdLe64 w A = Some (w1, d, A') -> fsmem e 0 = TP -> 0 <= TP < 2 ^ 64 ->
  tls_result e 2 (bytes_from w1 (Z.to_nat (3 + d))) (P - 3) 0 TP 22.
Proof. exact tls_ld_le64. Qed.
Print Assumptions C14_tls_ld_to_le_64.
Theorem C14_tlsdesc_to_le : forall io w A w1 d A' e G V P v m op rex more,
  before w = m :: op :: rex :: more -> In rex [72; 76] -> In m rip_modrms ->
  (io = 3 \/ (io = 4 /\ exists more', more = 213 :: more')) ->
  apply (TlsDescLe io) w A = Some (w1, d, A') -> new_field 23 G V A' (P + d) = Some v ->
  tls_result e 1 (bytes_from (put32 w1 v) (Z.to_nat (io + d))) (P - io) (desc_reg io rex m) (wrap V) (io + 4).
Proof. exact tls_desc_le. Qed.
Print Assumptions C14_tlsdesc_to_le.
Theorem C14_tlsdesc_to_ie : forall w w1 d A' e G V P v m op rex more,
  before w = m :: op :: rex :: more -> In rex [72; 76] -> In m rip_modrms ->
  apply TlsDescIe w (-4) = Some (w1, d, A') -> new_field 22 G V A' (P + d) = Some v ->
  0 <= G < 2 ^ 64 -> mem64 e G = wrap V ->
  tls_result e 1 (bytes_from (put32 w1 v) (Z.to_nat (3 + d))) (P - 3) (desc_reg 3 rex m) (wrap V) 7.
Proof. exact tls_desc_ie. Qed.
Print Assumptions C14_tlsdesc_to_ie.
Theorem C14_tlsdesc_call_is_nop : forall w A w1 d A' e P,
  apply SkipTlsDescCall w A = Some (w1, d, A') ->
  run 1 e (bytes_from w1 (Z.to_nat (0 + d))) P = Some (e, P + 2).
Proof. exact tls_skip_desc_call. Qed.
Print Assumptions C14_tlsdesc_call_is_nop.

(* non-vacuity: a concrete relaxable instruction meets every hypothesis of the GOT theorem *)
Example C14_hypotheses_satisfiable :
  let w := {| before := [5; 139; 72; 144]; after := [252; 47; 0; 0; 144] |} in
  new_relaxation 42 w (mk_flags 9) 0 true = RSome (RexMov 3) 11 true /\
  std_form 42 w 3 = true /\
  fld 252 47 0 0 = (4210688 - 4 - 4198400) mod 2 ^ 32 /\
  apply (RexMov 3) w (-4) = Some ({| before := [192; 199; 72; 144]; after := [252; 47; 0; 0; 144] |}, 0, 0) /\
  new_field 11 4210688 (-8) 0 (4198400 + 0) = Some 4294967288.
Proof. vm_compute. repeat split; reflexivity. Qed.
