(* C14 — x86-64 relaxations.
   (a) RelaxationKind::apply           (linker-utils/src/x86_64.rs)
   (b) ElfX86_64::new_relaxation       (libwild/src/elf_x86_64.rs), TlsGdForm::identify
   over a ZIPPER view of (section_bytes, offset_in_section): `before` holds the bytes in front of the
   relocated field, nearest first (before[0] = section_bytes[offset-1]); `after` holds
   section_bytes[offset..].  `offset >= k` is `k <= length before`.  Bytes are Z in [0,256). *)
From Coq Require Import ZArith List Bool.
Import ListNotations.
Open Scope Z_scope.

Record win := { before : list Z; after : list Z }.

Definition nb (l : list Z) (i : nat) : Z := nth i l 0.
Definition has (l : list Z) (n : nat) : bool := Nat.leb n (length l).

Fixpoint set_nth (l : list Z) (i : nat) (v : Z) : list Z :=
  match l, i with
  | [], _ => []
  | _ :: t, O => v :: t
  | h :: t, S i' => h :: set_nth t i' v
  end.

(* dst[..|src|].copy_from_slice(src); None = the slice index panics *)
Fixpoint overwrite (dst src : list Z) {struct src} : option (list Z) :=
  match src, dst with
  | [], _ => Some dst
  | s :: st, _ :: dt => option_map (cons s) (overwrite dt st)
  | _ :: _, [] => None
  end.

(* section_bytes[offset-k .. offset-k+|l|].copy_from_slice(l) *)
Definition splice (w : win) (k : nat) (l : list Z) : option win :=
  match overwrite (before w) (rev (firstn k l)), overwrite (after w) (skipn k l) with
  | Some b, Some a => if Nat.leb k (length l) then Some {| before := b; after := a |} else None
  | _, _ => None
  end.

(* move the cursor n bytes forward / one byte back *)
Fixpoint fwd (n : nat) (w : win) : option win :=
  match n with
  | O => Some w
  | S n' => match after w with
            | [] => None
            | x :: a => fwd n' {| before := x :: before w; after := a |}
            end
  end.
Definition back1 (w : win) : option win :=
  match before w with
  | [] => None
  | x :: b => Some {| before := b; after := x :: after w |}
  end.

Inductive kind :=
| MovIndirectToLea | MovIndirectToAbsolute
| RexMov (io : Z) | RexAdd (io : Z) | RexSub (io : Z) | RexCmp (io : Z)
| CallRel | JmpRel | NoOp
| TlsGdLe | TlsGdLeLarge | TlsLdLe | TlsLdLeNoPlt | TlsLdLe64 | TlsGdIe
| TlsDescLe (io : Z) | TlsDescIe | SkipTlsDescCall.

(* (rex & !4) | ((rex & 4) >> 2)   and   (rex & !0x44) | ((rex & 0x44) >> 2)   on u8 *)
Definition rex_r2b (rex : Z) : Z := Z.lor (Z.land rex 251) (Z.shiftr (Z.land rex 4) 2).
Definition rex2_r2b (rex : Z) : Z := Z.lor (Z.land rex 187) (Z.shiftr (Z.land rex 68) 2).
Definition rex_fix (io rex : Z) : Z :=
  if io =? 3 then rex_r2b rex else if io =? 4 then rex2_r2b rex else rex.
(* (modrm >> 3) & 7 | c *)
Definition modrm_rm (m c : Z) : Z := Z.lor (Z.land (Z.shiftr m 3) 7) c.

(* EVEX payload byte at offset-5 for the 6-byte form *)
Definition evex_fix (l5 : Z) : Z :=
  let l5 := if Z.land l5 128 =? 0 then Z.land (Z.lor l5 128) 223 else l5 in
  if Z.land l5 16 =? 0 then Z.lor (Z.lor l5 16) 8 else l5.

Definition imm_form (io : Z) (opc ext : Z) (w : win) : option win :=
  if has (before w) 3 then
    let b := before w in
    let b := set_nth b 2 (rex_fix io (nb b 2)) in
    let b := set_nth b 1 opc in
    let b := set_nth b 0 (modrm_rm (nb b 0) ext) in
    Some {| before := b; after := after w |}
  else None.

(* Result: patched window re-seated at the NEW offset, offset delta, new addend. None = panic. *)
Definition apply (k : kind) (w : win) (addend : Z) : option (win * Z * Z) :=
  match k with
  | MovIndirectToLea =>
      if has (before w) 2 then Some ({| before := set_nth (before w) 1 141; after := after w |}, 0, addend) else None
  | MovIndirectToAbsolute =>
      if has (before w) 2 then
        let b := set_nth (before w) 1 199 in
        Some ({| before := set_nth b 0 (modrm_rm (nb b 0) 192); after := after w |}, 0, 0)
      else None
  | RexMov io => option_map (fun w' => (w', 0, 0)) (imm_form io 199 192 w)
  | RexSub io => option_map (fun w' => (w', 0, 0)) (imm_form io 129 232 w)
  | RexCmp io => option_map (fun w' => (w', 0, 0)) (imm_form io 129 248 w)
  | RexAdd io =>
      (* the rex byte is only read for io = 3, 4; the EVEX byte only for io = 6 *)
      if (if (io =? 3) || (io =? 4) then has (before w) 3 else if io =? 6 then has (before w) 5 else has (before w) 2) then
        let b := before w in
        let b := if (io =? 3) || (io =? 4) then set_nth b 2 (rex_fix io (nb b 2))
                 else if io =? 6 then set_nth b 4 (evex_fix (nb b 4)) else b in
        let b := set_nth b 1 129 in
        let b := set_nth b 0 (modrm_rm (nb b 0) 192) in
        Some ({| before := b; after := after w |}, 0, 0)
      else None
  | CallRel => option_map (fun w' => (w', 0, addend)) (splice w 2 [103; 232])
  | JmpRel =>
      match splice w 2 [233; 0; 0; 0; 0; 144] with
      | Some w' => option_map (fun w'' => (w'', -1, addend)) (back1 w')
      | None => None
      end
  | NoOp => Some (w, 0, addend)
  | TlsGdLe =>
      match splice w 4 [100; 72; 139; 4; 37; 0; 0; 0; 0; 72; 141; 128] with
      | Some w' => option_map (fun w'' => (w'', 8, 0)) (fwd 8 w')
      | None => None
      end
  | TlsGdLeLarge =>
      match splice w 3 [100; 72; 139; 4; 37; 0; 0; 0; 0; 72; 141; 128; 0; 0; 0; 0; 102; 15; 31; 68; 0; 0] with
      | Some w' => option_map (fun w'' => (w'', 9, 0)) (fwd 9 w')
      | None => None
      end
  | TlsGdIe =>
      match splice w 4 [100; 72; 139; 4; 37; 0; 0; 0; 0; 72; 3; 5] with
      | Some w' => option_map (fun w'' => (w'', 8, addend)) (fwd 8 w')
      | None => None
      end
  | TlsLdLe =>
      match splice w 3 [102; 102; 102; 100; 72; 139; 4; 37; 0; 0; 0; 0] with
      | Some w' => option_map (fun w'' => (w'', 5, addend)) (fwd 5 w')
      | None => None
      end
  | TlsLdLeNoPlt =>
      match splice w 3 [102; 102; 102; 102; 100; 72; 139; 4; 37; 0; 0; 0; 0] with
      | Some w' => option_map (fun w'' => (w'', 5, addend)) (fwd 5 w')
      | None => None
      end
  | TlsLdLe64 =>
      match splice w 3 [102; 102; 102; 102; 46; 15; 31; 132; 0; 0; 0; 0; 0; 100; 72; 139; 4; 37; 0; 0; 0; 0] with
      | Some w' => option_map (fun w'' => (w'', 15, addend)) (fwd 15 w')
      | None => None
      end
  | TlsDescLe io =>
      if has (before w) 3 then
        let rex := nb (before w) 2 in
        let modrm := nb (before w) 0 in
        let rex_r := Z.land (Z.shiftr rex 2) 1 in
        let reg := Z.land (Z.shiftr modrm 3) 7 in
        if io =? 3 then
          option_map (fun w' => (w', 0, 0)) (splice w 3 [if rex_r =? 0 then 72 else 73; 199; Z.lor 192 reg; 0; 0; 0; 0])
        else if io =? 4 then
          option_map (fun w' => (w', 0, 0)) (splice w 3 [if rex_r =? 0 then 24 else 25; 199; Z.lor 192 reg; 0; 0; 0; 0])
        else Some (w, 0, addend)
      else None
  | TlsDescIe =>
      if has (before w) 3 then
        let rex := nb (before w) 2 in
        let modrm := nb (before w) 0 in
        let rex_r := Z.land (Z.shiftr rex 2) 1 in
        let reg := Z.land (Z.shiftr modrm 3) 7 in
        option_map (fun w' => (w', 0, addend))
                   (splice w 3 [if rex_r =? 0 then 72 else 76; 139; Z.lor 5 (Z.shiftl reg 3); 0; 0; 0; 0])
      else None
  | SkipTlsDescCall => option_map (fun w' => (w', 0, addend)) (splice w 0 [102; 144])
  end.

Definition skip_next (k : kind) : bool :=
  match k with
  | TlsGdIe | TlsGdLe | TlsGdLeLarge | TlsLdLe | TlsLdLeNoPlt | TlsLdLe64 => true
  | _ => false
  end.

(* ---- new_relaxation ---- *)
Record vflags := { f_absolute : bool; f_dynamic : bool; f_ifunc : bool; f_nonint : bool }.
(* output kinds: 0/1 static exe (non-relocatable / relocatable), 2/3 dynamic exe, 4 shared object, 5 relocatable *)
Definition ok_is_executable (k : Z) : bool := k <? 4.
Definition ok_is_static (k : Z) : bool := k <? 2.
Definition ok_is_relocatable (k : Z) : bool := negb ((k =? 0) || (k =? 2)).

Inductive outcome := RNone | RPanic | RSome (k : kind) (rt : Z) (mandatory : bool).

(* bytes.get(offset-k .. offset-k+|pat|) == Some(pat), for offset >= k *)
Fixpoint eq_list (a b : list Z) : bool :=
  match a, b with
  | [], [] => true
  | x :: a', y :: b' => (x =? y) && eq_list a' b'
  | _, _ => false
  end.
Definition before_is (w : win) (pat_rev : list Z) : bool :=
  eq_list (firstn (length pat_rev) (before w)) pat_rev.
Definition after_is (w : win) (skip : nat) (pat : list Z) : bool :=
  eq_list (firstn (length pat) (skipn skip (after w))) pat.

Inductive gdform := GdRegular | GdLarge | GdNone | GdPanic.
Definition identify (w : win) : gdform :=
  if negb (has (before w) 4) then
    (* offset - 4 underflows: a panic in debug builds *)
    GdPanic
  else if before_is w [61; 141; 72; 102] && after_is w 4 [102; 102; 72; 232] then GdRegular
  else if before_is w [61; 141; 72] && after_is w 4 [72; 184] && after_is w 14 [72; 1; 216; 255; 208] then GdLarge
  else GdNone.

Definition new_relaxation (rt : Z) (w : win) (fl : vflags) (ok : Z) (exec : bool) : outcome :=
  let is_known_address := negb (f_ifunc fl) && negb (f_dynamic fl) && negb (f_absolute fl) in
  let is_absolute := f_absolute fl && negb (f_dynamic fl) in
  let is_absolute_address := is_known_address && negb (ok_is_relocatable ok) in
  let interposable := negb (f_nonint fl) in
  let static := ok_is_static ok in
  let b := before w in
  if f_ifunc fl then (if rt =? 2 then RSome NoOp 4 true else RNone)
  else if negb exec then RNone
  else if ((rt =? 42) || (rt =? 43)) && (((rt =? 43) && has b 4 && (nb b 3 =? 213)) || has b 3) then
    let b1 := nb b 1 in
    let rex := nb b 2 in
    if negb ((rex =? 72) || (rex =? 76)) then RNone
    else if is_absolute || is_absolute_address then
      let io := if rt =? 42 then 3 else 4 in
      if b1 =? 139 then RSome (RexMov io) 11 static
      else if b1 =? 43 then RSome (RexSub io) 11 static
      else if b1 =? 59 then RSome (RexCmp io) 11 static
      else RNone
    else if negb interposable then
      (if b1 =? 139 then RSome MovIndirectToLea 2 static else RNone)
    else RNone
  else if rt =? 41 then
    if negb (has b 2) then RPanic
    else if (nb b 1 =? 139) && (is_absolute || is_absolute_address) then RSome MovIndirectToAbsolute 10 static
    else if (nb b 1 =? 139) && negb interposable then RSome MovIndirectToLea 2 static
    else if negb interposable then
      (if before_is w [21; 255] then RSome CallRel 2 static
       else if before_is w [37; 255] then RSome JmpRel 2 static
       else RNone)
    else RNone
  else if (rt =? 9) && negb interposable && has b 2 then
    (if nb b 1 =? 139 then RSome MovIndirectToLea 2 false else RNone)
  else if ((rt =? 22) || (rt =? 44)) && ok_is_executable ok && negb interposable
          && (((rt =? 44) && has b 4 && (nb b 3 =? 213)) || has b 3) then
    let io := if rt =? 22 then 3 else 4 in
    let rex := nb b 2 in
    if ((rex =? 72) || (rex =? 76)) && (nb b 1 =? 139) then RSome (RexMov io) 23 false
    else if ((rex =? 72) || (rex =? 76)) && (nb b 1 =? 3) then RSome (RexAdd io) 23 false
    else RNone
  else if (rt =? 50) && ok_is_executable ok && negb interposable && has b 6 then
    (if (nb b 5 =? 98) && (Z.land (nb b 4) 71 =? 68) && (Z.land (nb b 3) 135 =? 132)
        && negb (Z.land (nb b 2) 20 =? 0) && ((nb b 1 =? 1) || (nb b 1 =? 3))
     then RSome (RexAdd 6) 23 static else RNone)
  else if (rt =? 4) && negb interposable then RSome NoOp 2 static
  else if (rt =? 31) && negb interposable then RSome NoOp 25 static
  else if (rt =? 19) && negb interposable && ok_is_executable ok then
    match identify w with
    | GdRegular => RSome TlsGdLe 23 static
    | GdLarge => RSome TlsGdLeLarge 23 static
    | GdNone => RNone
    | GdPanic => RPanic
    end
  else if (rt =? 19) && ok_is_executable ok then
    match identify w with
    | GdRegular => RSome TlsGdIe 22 false
    | GdLarge => RNone
    | GdNone => RNone
    | GdPanic => RPanic
    end
  else if (rt =? 20) && ok_is_executable ok then
    if negb (has b 3) then RPanic
    else if before_is w [61; 141; 72] then
      (if after_is w 4 [232] && has (skipn 4 (after w)) 2 then RSome TlsLdLe 0 static
       else if after_is w 4 [72; 184] then RSome TlsLdLe64 0 false
       else if after_is w 4 [255; 21] then RSome TlsLdLeNoPlt 0 static
       else RNone)
    else RNone
  else if ((rt =? 34) || (rt =? 45)) && negb interposable && ok_is_executable ok
          && (((rt =? 45) && has b 4 && (nb b 3 =? 213)) || has b 3) then
    (if (nb b 1 =? 141) && ((nb b 2 =? 72) || (nb b 2 =? 76))
     then RSome (TlsDescLe (if rt =? 34 then 3 else 4)) 23 static else RNone)
  else if (rt =? 34) && ok_is_executable ok then
    if negb (has b 3) then RPanic
    else if (nb b 1 =? 141) && ((nb b 2 =? 72) || (nb b 2 =? 76)) then RSome TlsDescIe 22 static
    else RNone
  else if (rt =? 35) && ok_is_executable ok then RSome SkipTlsDescCall 0 static
  else RNone.
