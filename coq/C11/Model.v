(* C11 — range-extension thunk blocks (libwild/src/thunks.rs assign_thunk_blocks, collect_primary_ranges).
   The objects' contributions to the primary text part are contiguous (collect_primary_ranges accumulates the sizes), so
   the input is an initial offset and the list of sizes.  Every object gets a thunk block; a block's thunks are appended
   to its OWNER's contribution, i.e. they start at the owner's end.  Two modes, as in the Rust loop: in `Prev` objects
   join the block behind them while their end stays within `range` of it; otherwise a new block is opened in `Next` mode:
   objects join it until one would stretch the span from the first of them to `range` — the block is placed on that
   object (it becomes the owner).  A block still unplaced at the end is owned by its first object.
   range = branch range - MAXIMUM_THUNK_BYTES_PER_BLOCK. *)
From Coq Require Import ZArith List Bool.
Import ListNotations.
Open Scope Z_scope.

(* a finished assignment: object index, its start and end, its block, the index of the block's owner and the block's
   position (= the owner's end) *)
Record entry := { e_idx : nat; e_start : Z; e_end : Z; e_block : Z; e_owner : nat; e_pos : Z }.

Inductive mode :=
| Prev (bid : Z) (owner : nat) (pos : Z)
| Next (bid : Z) (first : nat) (first_start first_end : Z) (members : list (nat * Z * Z)).   (* later members, oldest first *)

Record st := { cur : Z; idx : nat; nb : Z; md : mode; out : list entry }.

Definition close (bid : Z) (owner : nat) (pos : Z) (ms : list (nat * Z * Z)) : list entry :=
  map (fun m => let '(j, s, e) := m in {| e_idx := j; e_start := s; e_end := e; e_block := bid; e_owner := owner; e_pos := pos |}) ms.

Definition step (range : Z) (s : st) (size : Z) : st :=
  let i := idx s in let start := cur s in let end_ := cur s + size in
  match md s with
  | Next bid first fs fe ms =>
      if range <=? end_ - fs then
        {| cur := end_; idx := S i; nb := nb s; md := Prev bid i end_;
           out := out s ++ close bid i end_ ((first, fs, fe) :: ms ++ [(i, start, end_)]) |}
      else {| cur := end_; idx := S i; nb := nb s; md := Next bid first fs fe (ms ++ [(i, start, end_)]); out := out s |}
  | Prev bid owner pos =>
      if range <=? end_ - pos then
        {| cur := end_; idx := S i; nb := nb s + 1; md := Next (nb s) i start end_ []; out := out s |}
      else {| cur := end_; idx := S i; nb := nb s; md := Prev bid owner pos;
              out := out s ++ [{| e_idx := i; e_start := start; e_end := end_; e_block := bid; e_owner := owner; e_pos := pos |}] |}
  end.

Definition finish (s : st) : list entry :=
  match md s with
  | Next bid first fs fe ms => out s ++ close bid first fe ((first, fs, fe) :: ms)
  | Prev _ _ _ => out s
  end.

Definition assign_thunk_blocks (offset : Z) (sizes : list Z) (range : Z) : Z * list entry :=
  match sizes with
  | [] => (0, [])
  | z0 :: rest =>
      let e0 := offset + z0 in
      let s0 := {| cur := e0; idx := 1; nb := 1; md := Prev 0 O e0;
                   out := [{| e_idx := O; e_start := offset; e_end := e0; e_block := 0; e_owner := O; e_pos := e0 |}] |} in
      let s := fold_left (step range) rest s0 in
      (nb s, finish s)
  end.

(* the furthest any byte of the object is from any byte of its block's thunks, which occupy [pos, pos + bytes);
   an object behind its block is pushed back by the block *)
Definition distance (bytes : Z) (x : entry) : Z :=
  if e_end x <=? e_pos x then e_pos x + bytes - e_start x else e_end x + bytes - e_pos x.

(* ---- the thunk itself: adrp x16, target's page ; add x16, x16, :lo12:target ; br x16 ---- *)
Definition page (x : Z) : Z := x / 4096 * 4096.
Definition adrp_add (pc hi lo : Z) : Z := page pc + hi * 4096 + lo.
