(* C11 — AArch64 long branches reach their intended target: the property theorems for thunk-block placement and the
   thunk template.  Model: C11/Model.v (assign_thunk_blocks over the contiguous contributions of the objects). *)
From Coq Require Import ZArith List Bool.
From WV Require Import C11.Model C11.Proofs.
Import ListNotations.
Open Scope Z_scope.

(* For every list of objects (any number, any sizes up to M, anywhere), with range = branch range - slack and M below
   it: every object is assigned exactly one thunk block (indices 0..n-1, each once, in order), and every byte of the
   object is closer than range + M + bytes to every byte of that block's thunks (bytes = the block's size).  So as long
   as M + bytes <= slack, a range-limited branch anywhere in the object reaches its thunk. *)
Theorem C11_thunk_block_within_reach :
  forall offset sizes range M bytes,
    Forall (fun z => 0 <= z <= M) sizes -> 0 <= M < range -> 0 <= bytes ->
    map e_idx (snd (assign_thunk_blocks offset sizes range)) = seq 0 (length sizes) /\
    Forall (fun x => distance bytes x < range + M + bytes) (snd (assign_thunk_blocks offset sizes range)).
Proof.
  intros offset sizes range M bytes Hs [HM0 HM] Hb.
  destruct (blocks_are_within_reach offset sizes range M Hs HM) as [Hg Hi]. split; [exact Hi|].
  eapply Forall_impl; [|exact Hg]. intros x Hx. apply good_distance; assumption.
Qed.
Print Assumptions C11_thunk_block_within_reach.

(* the thunk (adrp x16, page; add x16, x16, lo12; br x16) transfers to the target from wherever it sits *)
Theorem C11_thunk_reaches_target :
  forall pc target, 0 <= target -> 0 <= pc ->
    adrp_add pc ((page target - page pc) / 4096) (target mod 4096) = target.
Proof. exact adrp_add_reaches. Qed.
Print Assumptions C11_thunk_reaches_target.

(* NOT covered: an object larger than the slack (more than 2 MiB of primary text in one object).  When such an object is
   the one a pending block is placed on, the first object waiting for that block ends up further than the branch range
   from it.  In units of MiB: branch range 128, slack 2, range 126; objects 1, 124, 2, then 120 of size 1, then one of
   size 10: the block opened by the third object is placed behind the big one, 132 away from the third object's start. *)
Theorem C11_refuted_for_an_object_larger_than_the_slack :
  let r := assign_thunk_blocks 0 ([1; 124; 2] ++ repeat 1 120%nat ++ [10]) 126 in
  exists x, In x (snd r) /\ e_idx x = 2%nat /\ distance 0 x = 132.
Proof.
  set (r := assign_thunk_blocks 0 ([1; 124; 2] ++ repeat 1 120%nat ++ [10]) 126).
  exists (nth 2 (snd r) {| e_idx := 0; e_start := 0; e_end := 0; e_block := 0; e_owner := 0; e_pos := 0 |}).
  vm_compute. repeat split; try reflexivity. right. right. left. reflexivity.
Qed.
Print Assumptions C11_refuted_for_an_object_larger_than_the_slack.

Example C11_hypotheses_satisfiable :
  let r := assign_thunk_blocks 0 [100; 100; 400; 100; 100; 300] 500 in
  fst r = 2 /\ map e_block (snd r) = [0; 0; 1; 1; 1; 1] /\ Forall (fun x => distance 10 x < 500 + 400 + 10) (snd r).
Proof. vm_compute. repeat split; repeat constructor. Qed.
