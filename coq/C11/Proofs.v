(* C11 — proofs: every object is assigned exactly one thunk block whose thunks are within reach of every byte of the
   object, provided no single object is larger than the slack reserved for it; the thunk template reaches its target. *)
From Coq Require Import ZArith List Bool Lia.
From WV Require Import C11.Model.
Import ListNotations.
Open Scope Z_scope.

Definition good (range M : Z) (x : entry) : Prop :=
  e_start x <= e_end x /\
  (e_end x <= e_pos x -> e_pos x - e_start x < range + M) /\
  (e_pos x < e_end x -> e_end x - e_pos x < range).

Definition pend_idx (m : mode) : list nat :=
  match m with Next _ first _ _ ms => first :: map (fun x => fst (fst x)) ms | Prev _ _ _ => [] end.

Record inv (range M : Z) (s : st) : Prop := {
  i_out : Forall (good range M) (out s);
  i_idx : map e_idx (out s) ++ pend_idx (md s) = seq 0 (idx s);
  i_mode : match md s with
           | Prev _ _ pos => pos <= cur s
           | Next _ _ fs fe ms =>
               fs <= fe /\ fe - fs <= M /\ fe <= cur s /\ cur s - fs < range /\
               Forall (fun m => let '(_, sj, ej) := m in fs <= sj /\ sj <= ej /\ ej <= cur s) ms
           end }.

Lemma close_idx bid owner pos ms : map e_idx (close bid owner pos ms) = map (fun x => fst (fst x)) ms.
Proof. induction ms as [|[[j s] e] r IH]; [reflexivity|]. cbn [close map fst] in *. f_equal. exact IH. Qed.

Lemma seq_snoc n : seq 0 (S n) = seq 0 n ++ [n].
Proof. rewrite seq_S. reflexivity. Qed.

Lemma step_inv range M s size :
  0 <= size <= M -> M < range -> inv range M s -> inv range M (step range s size).
Proof.
  intros Hsz HM [Ho Hi Hm]. unfold step. destruct (md s) as [bid owner pos|bid first fs fe ms] eqn:Emd.
  - (* Prev *)
    destruct (Z.leb_spec range (cur s + size - pos)) as [Hfar|Hnear]; constructor; cbn [out idx md cur pend_idx].
    + exact Ho.
    + cbn [pend_idx] in Hi. rewrite app_nil_r in Hi. cbn [map]. rewrite seq_snoc, Hi. reflexivity.
    + repeat split; try lia. constructor.
    + apply Forall_app. split; [exact Ho|]. constructor; [|constructor].
      unfold good. cbn [e_start e_end e_pos]. repeat split; lia.
    + cbn [pend_idx] in Hi. rewrite app_nil_r in *. rewrite map_app. cbn [map e_idx]. rewrite seq_snoc, Hi. reflexivity.
    + lia.
  - (* Next *)
    destruct Hm as (Hfs & HfM & Hfe & Hcur & Hms).
    destruct (Z.leb_spec range (cur s + size - fs)) as [Hplace|Hstay]; constructor; cbn [out idx md cur pend_idx].
    + (* the block is placed on this object: everything waiting is in front of it *)
      apply Forall_app. split; [exact Ho|].
      unfold close. apply Forall_forall. intros x Hx. apply in_map_iff in Hx. destruct Hx as [[[j sj] ej] [<- Hin]].
      unfold good. cbn [e_start e_end e_pos].
      cbn [In] in Hin. destruct Hin as [Hin|Hin].
      * injection Hin as <- <- <-. repeat split; lia.
      * apply in_app_iff in Hin. destruct Hin as [Hin|[Hin|[]]].
        -- rewrite Forall_forall in Hms. specialize (Hms _ Hin). cbn in Hms. repeat split; lia.
        -- injection Hin as <- <- <-. repeat split; lia.
    + rewrite map_app, close_idx. cbn [map fst]. rewrite map_app. cbn [map fst]. rewrite app_nil_r.
      cbn [pend_idx] in Hi. rewrite seq_snoc, <- Hi. rewrite <- !app_assoc. cbn [app]. reflexivity.
    + lia.
    + exact Ho.
    + cbn [pend_idx] in Hi. rewrite map_app. cbn [map fst]. rewrite seq_snoc, <- Hi. rewrite <- !app_assoc. cbn [app]. reflexivity.
    + repeat split; try lia. apply Forall_app. split.
      * eapply Forall_impl; [|exact Hms]. intros [[j sj] ej]. lia.
      * constructor; [lia|constructor].
Qed.

Lemma fold_inv range M sizes : forall s,
  Forall (fun z => 0 <= z <= M) sizes -> M < range -> inv range M s -> inv range M (fold_left (step range) sizes s).
Proof.
  induction sizes as [|z r IH]; intros s Hs HM Hi; [exact Hi|]. inversion Hs; subst. cbn [fold_left].
  apply IH; [assumption|assumption|]. apply step_inv; assumption.
Qed.

Lemma fold_idx range sizes : forall s, idx (fold_left (step range) sizes s) = (idx s + length sizes)%nat.
Proof.
  induction sizes as [|z r IH]; intros s; cbn [fold_left length]; [lia|]. rewrite IH.
  unfold step. destruct (md s); destruct (_ <=? _); cbn [idx]; lia.
Qed.

Theorem blocks_are_within_reach offset sizes range M :
  Forall (fun z => 0 <= z <= M) sizes -> M < range ->
  Forall (good range M) (snd (assign_thunk_blocks offset sizes range)) /\
  map e_idx (snd (assign_thunk_blocks offset sizes range)) = seq 0 (length sizes).
Proof.
  intros Hs HM. unfold assign_thunk_blocks. destruct sizes as [|z0 rest]; [split; [constructor|reflexivity]|].
  inversion Hs as [|? ? Hz0 Hrest]; subst. cbn [snd].
  set (s0 := {| cur := offset + z0; idx := 1; nb := 1; md := Prev 0 0 (offset + z0);
                out := [{| e_idx := 0; e_start := offset; e_end := offset + z0; e_block := 0; e_owner := 0; e_pos := offset + z0 |}] |}).
  assert (I0 : inv range M s0).
  { constructor; cbn [out idx md cur pend_idx s0].
    - constructor; [|constructor]. unfold good. cbn [e_start e_end e_pos]. repeat split; lia.
    - reflexivity.
    - lia. }
  pose proof (fold_inv range M rest s0 Hrest HM I0) as [Ho Hi Hm].
  pose proof (fold_idx range rest s0) as Hidx. cbn [idx s0] in Hidx.
  set (s := fold_left (step range) rest s0) in *.
  unfold finish. destruct (md s) as [bid owner pos|bid first fs fe ms] eqn:Emd.
  - split; [exact Ho|]. cbn [pend_idx] in Hi. rewrite app_nil_r in Hi. rewrite Hi, Hidx. reflexivity.
  - destruct Hm as (Hfs & HfM & Hfe & Hcur & Hms). split.
    + apply Forall_app. split; [exact Ho|].
      unfold close. apply Forall_forall. intros x Hx. apply in_map_iff in Hx. destruct Hx as [[[j sj] ej] [<- Hin]].
      unfold good. cbn [e_start e_end e_pos]. destruct Hin as [Hin|Hin].
      * injection Hin as <- <- <-. repeat split; lia.
      * rewrite Forall_forall in Hms. specialize (Hms _ Hin). cbn in Hms. repeat split; lia.
    + rewrite map_app, close_idx. cbn [map fst]. cbn [pend_idx] in Hi. rewrite Hi, Hidx. reflexivity.
Qed.

Lemma good_distance range M bytes x : 0 <= bytes -> 0 <= M -> good range M x -> distance bytes x < range + M + bytes.
Proof.
  intros Hb HM0 (H1 & H2 & H3). unfold distance. destruct (Z.leb_spec (e_end x) (e_pos x)); [specialize (H2 H)|specialize (H3 H)]; lia.
Qed.

(* adrp + add computes the target exactly, wherever the thunk sits (within +-4 GiB) *)
Theorem adrp_add_reaches pc target :
  0 <= target -> 0 <= pc ->
  adrp_add pc ((page target - page pc) / 4096) (target mod 4096) = target.
Proof.
  intros Ht Hp. unfold adrp_add, page.
  replace ((target / 4096 * 4096 - pc / 4096 * 4096) / 4096) with (target / 4096 - pc / 4096).
  2:{ replace (target / 4096 * 4096 - pc / 4096 * 4096) with ((target / 4096 - pc / 4096) * 4096) by lia.
      rewrite Z.div_mul by lia. reflexivity. }
  pose proof (Z.div_mod target 4096 ltac:(lia)). lia.
Qed.
