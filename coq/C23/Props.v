(* C23 — size accounting never fails on valid input: the property theorems for the per-resolution tables (.got,
   .plt.got, .rela.plt, .rela.dyn general / relative, .relr.dyn).  The RELR/RELA choice per relocation SITE is
   C09.Props.C23_relative_relocation_space_matches.  Model: C23/Model.v. *)
From Coq Require Import NArith List Bool.
From WV Require Import C23.Model C23.Proofs.
Import ListNotations.
Open Scope N_scope.

(* For every combination of value flags that layout can produce (`consistent`), every output kind, with and without
   -z pack-relative-relocs, whether or not the resolution's value is 0: the writer consumes exactly the GOT entries,
   PLT entries and dynamic relocations that layout reserved, reports no error, and layout addressed as many GOT/PLT
   slots as it reserved — so neither `Insufficient ... allocation` nor `Allocated too much space` can arise here. *)
Theorem C23_resolution_accounting_agrees :
  forall f k relr dynidx z, In k all_kinds -> consistent f k dynidx z = true ->
    consume f k relr dynidx z = Some (alloc f k relr) /\
    c_got (alloc f k relr) = fst (slots f) /\ c_plt (alloc f k relr) = snd (slots f).
Proof. intros f k relr dynidx z Hk Hc. apply verdict_zero_means. apply accounting_agrees; assumption. Qed.
Print Assumptions C23_resolution_accounting_agrees.

(* the rule before the repair in /repo (a .rela.dyn entry for EVERY TLS-offset GOT entry of a shared object) broke it
   for an undefined weak hidden TLS symbol: layout reserved 24 bytes that the writer never used *)
Theorem C23_refuted_for_the_old_tls_offset_rule :
  let f := mk true false false true false false false true false false false in     (* ABSOLUTE | NON_INTERPOSABLE | GOT_TLS_OFFSET *)
  consistent f 4 false true = true /\
  consume f 4 false false true = Some (GOT 1) /\
  sum [GOT 1; when (interposable f || is_shared 4) GEN] = add (GOT 1) GEN.
Proof. vm_compute. repeat split; reflexivity. Qed.
Print Assumptions C23_refuted_for_the_old_tls_offset_rule.

Example C23_hypotheses_satisfiable :
  consistent (mk false true false false true true false false false false false) 3 true false = true /\
  alloc (mk false true false false true true false false false false false) 3 true = sum [GOT 1; PLT; GEN].
Proof. vm_compute. split; reflexivity. Qed.
