(* C23 — space accounting for one resolution: what layout reserves (elf.rs allocate_resolution), how many GOT/PLT
   slots it addresses (elf.rs create_resolution) and what the writer consumes (elf_writer.rs process_resolution and
   its helpers).  All three are functions of the symbol's value flags, the output kind, -z pack-relative-relocs and
   two facts about the resolution (whether it has a dynamic symbol index; whether its value is 0).
   Vector of counts: GOT entries, PLT entries, .rela.plt, .rela.dyn general, .rela.dyn relative, .relr.dyn. *)
From Coq Require Import NArith List Bool.
Import ListNotations.
Open Scope N_scope.

Record flags := { absolute : bool; dynamic : bool; ifunc : bool; nonint : bool; got : bool; plt : bool;
                  tmod : bool; toff : bool; tdesc : bool; expdyn : bool; ifga : bool }.
Definition is_tls (f : flags) : bool := toff f || tmod f || tdesc f.
Definition is_address (f : flags) : bool := negb (ifunc f) && negb (dynamic f) && negb (absolute f).
Definition interposable (f : flags) : bool := negb (nonint f).
Definition has_dynsym (f : flags) : bool := dynamic f || (expdyn f && interposable f).

(* output kinds: 0/1 static exe (non-relocatable / relocatable), 2/3 dynamic exe, 4 shared object, 5 relocatable *)
Definition is_executable (k : N) : bool := k <? 4.
Definition is_static (k : N) : bool := k <? 2.
Definition is_shared (k : N) : bool := k =? 4.
Definition is_relocatable (k : N) : bool := negb ((k =? 0) || (k =? 2)).

Record counts := { c_got : N; c_plt : N; c_relaplt : N; c_gen : N; c_rel : N; c_relr : N }.
Definition zero : counts := {| c_got := 0; c_plt := 0; c_relaplt := 0; c_gen := 0; c_rel := 0; c_relr := 0 |}.
Definition add (a b : counts) : counts :=
  {| c_got := c_got a + c_got b; c_plt := c_plt a + c_plt b; c_relaplt := c_relaplt a + c_relaplt b;
     c_gen := c_gen a + c_gen b; c_rel := c_rel a + c_rel b; c_relr := c_relr a + c_relr b |}.
Definition GOT n := {| c_got := n; c_plt := 0; c_relaplt := 0; c_gen := 0; c_rel := 0; c_relr := 0 |}.
Definition PLT := {| c_got := 0; c_plt := 1; c_relaplt := 0; c_gen := 0; c_rel := 0; c_relr := 0 |}.
Definition RELAPLT := {| c_got := 0; c_plt := 0; c_relaplt := 1; c_gen := 0; c_rel := 0; c_relr := 0 |}.
Definition GEN := {| c_got := 0; c_plt := 0; c_relaplt := 0; c_gen := 1; c_rel := 0; c_relr := 0 |}.
Definition RELATIVE (relr : bool) :=
  if relr then {| c_got := 0; c_plt := 0; c_relaplt := 0; c_gen := 0; c_rel := 0; c_relr := 1 |}
  else {| c_got := 0; c_plt := 0; c_relaplt := 0; c_gen := 0; c_rel := 1; c_relr := 0 |}.
Definition when (b : bool) (c : counts) : counts := if b then c else zero.
Fixpoint sum (l : list counts) : counts := match l with [] => zero | c :: r => add c (sum r) end.

(* ---- layout: allocate_resolution ---- *)
Definition alloc (f : flags) (k : N) (relr : bool) : counts :=
  sum [ when (got f && negb (is_tls f))
          (sum [ GOT 1; when (plt f) PLT;
                 if ifunc f then RELAPLT
                 else if has_dynsym f then GEN
                 else when (is_address f && is_relocatable k) (RELATIVE relr) ]);
        when (ifga f) (sum [ GOT 1; when (is_relocatable k) (RELATIVE relr) ]);
        when (toff f) (sum [ GOT 1; when (interposable f || (is_shared k && negb (absolute f))) GEN ]);
        when (tmod f) (sum [ GOT 2; when (negb (is_executable k) || dynamic f) GEN; when (has_dynsym f) GEN ]);
        when (tdesc f) (sum [ GOT 2; GEN ]) ].

(* ---- layout: create_resolution (how many slots get an address) ---- *)
Definition slots (f : flags) : N * N :=      (* (GOT slots, PLT slots) *)
  if plt f then ((if ifga f then 2 else 1), 1)
  else if is_tls f then ((if toff f then 1 else 0) + (if tmod f then 2 else 0) + (if tdesc f then 2 else 0), 0)
  else if got f then (1, 0) else (0, 0).

(* ---- the writer: process_resolution; None = it reports an error ---- *)
(* dynidx: the resolution has a dynamic symbol index; zero_value: raw_value = 0 *)
Definition consume (f : flags) (k : N) (relr dynidx zero_value : bool) : option counts :=
  let got_addr := negb (N.eqb (fst (slots f)) 0) in
  let plt_addr := plt f in
  if negb got_addr then Some zero
  else if is_tls f then
    let c_off :=
      if toff f then
        if has_dynsym f then (if dynidx then Some (add (GOT 1) GEN) else None)
        else if zero_value then Some (GOT 1)
        else if is_executable k then Some (GOT 1) else Some (add (GOT 1) GEN)
      else Some zero in
    let c_mod :=
      if tmod f then
        Some (sum [ GOT 2; when (negb (is_executable k && negb (dynamic f))) GEN; when (dynidx && interposable f) GEN ])
      else Some zero in
    let c_desc :=
      if tdesc f then (if is_static k then None else Some (add (GOT 2) GEN)) else Some zero in
    match c_off, c_mod, c_desc with
    | Some a, Some b, Some c => Some (sum [a; b; c])
    | _, _, _ => None
    end
  else
    let first :=
      if dynamic f || ((expdyn f && interposable f) && negb (ifunc f)) then (if dynidx then Some GEN else None)
      else if ifunc f then Some RELAPLT
      else Some (when (is_address f && is_relocatable k) (RELATIVE relr)) in
    match first with
    | None => None
    | Some c1 =>
        let c2 := when plt_addr PLT in
        if ifga f then
          if plt_addr then Some (sum [GOT 1; c1; c2; GOT 1; when (is_relocatable k) (RELATIVE relr)]) else None
        else Some (sum [GOT 1; c1; c2])
    end.

(* ---- which flag combinations layout produces (the invariants the rest of wild maintains) ---- *)
Definition consistent (f : flags) (k : N) (dynidx zero_value : bool) : bool :=
  (* only symbols that are in .dynsym can be overridden at run time *)
  implb (interposable f) (has_dynsym f) &&
  (* TLS descriptors are always relaxed away in static executables *)
  implb (tdesc f) (negb (is_static k)) &&
  (* a TLS symbol resolves to 0 exactly when it is undefined, which is what ABSOLUTE records for it *)
  implb (is_tls f) (Bool.eqb zero_value (absolute f)) &&
  (* a PLT entry always comes with its GOT entry, never for TLS *)
  implb (plt f) (got f && negb (is_tls f)) &&
  (* the second ifunc GOT entry exists only for ifuncs that have a PLT entry *)
  implb (ifga f) (ifunc f && plt f) &&
  (* TLS symbols have no plain GOT entry, are not ifuncs *)
  implb (is_tls f) (negb (got f) && negb (ifunc f) && negb (ifga f)) &&
  (* symbols from shared objects are interposable by definition, are not ifuncs here, and exist only in dynamic outputs *)
  implb (dynamic f) (negb (nonint f) && negb (ifunc f) && negb (is_static k)) &&
  (* the dynamic symbol index is present exactly when the symbol goes into .dynsym *)
  Bool.eqb dynidx (has_dynsym f) &&
  (* static executables have no .dynsym *)
  implb (is_static k) (negb (has_dynsym f)) &&
  (* a partial link (-r) creates no GOT/PLT at all *)
  implb (k =? 5) (negb (got f) && negb (plt f) && negb (is_tls f) && negb (ifga f)).

Definition counts_eqb (a b : counts) : bool :=
  (c_got a =? c_got b) && (c_plt a =? c_plt b) && (c_relaplt a =? c_relaplt b) && (c_gen a =? c_gen b) &&
  (c_rel a =? c_rel b) && (c_relr a =? c_relr b).

(* one case of the sweep: 0 = all three agree; 1 = the writer reports an error; 2 = counts differ; 3 = slots differ *)
Definition verdict (f : flags) (k : N) (relr dynidx zero_value : bool) : N :=
  let a := alloc f k relr in
  if negb ((c_got a =? fst (slots f)) && (c_plt a =? snd (slots f))) then 3
  else match consume f k relr dynidx zero_value with
       | None => 1
       | Some c => if counts_eqb a c then 0 else 2
       end.

Definition bools : list bool := [false; true].
Definition all_flags : list flags :=
  flat_map (fun a => flat_map (fun d => flat_map (fun i => flat_map (fun n => flat_map (fun g => flat_map (fun p =>
  flat_map (fun tm => flat_map (fun to => flat_map (fun td => flat_map (fun e => map (fun ig =>
    {| absolute := a; dynamic := d; ifunc := i; nonint := n; got := g; plt := p; tmod := tm; toff := to; tdesc := td; expdyn := e; ifga := ig |})
  bools) bools) bools) bools) bools) bools) bools) bools) bools) bools) bools.
Definition all_kinds : list N := [0; 1; 2; 3; 4; 5].
