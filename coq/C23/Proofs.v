(* C23 — proofs: for every consistent flag combination, output kind and option, layout's reservation, the slots it
   addresses and the writer's consumption agree (finite domain: decided by computation, lifted to a universal statement). *)
From Coq Require Import NArith List Bool.
From WV Require Import C23.Model.
Import ListNotations.
Open Scope N_scope.

Definition all2 (P : bool -> bool) : bool := P false && P true.
Lemma all2_spec P : all2 P = true -> forall b, P b = true.
Proof. unfold all2. intros H b. apply andb_prop in H. destruct H, b; assumption. Qed.

Definition mk (a d i n g p tm to td e ig : bool) : flags :=
  {| absolute := a; dynamic := d; ifunc := i; nonint := n; got := g; plt := p; tmod := tm; toff := to; tdesc := td; expdyn := e; ifga := ig |}.

Definition ok_case (f : flags) (k : N) (relr dynidx z : bool) : bool :=
  negb (consistent f k dynidx z) || (verdict f k relr dynidx z =? 0).

Definition sweep : bool :=
  all2 (fun a => all2 (fun d => all2 (fun i => all2 (fun n => all2 (fun g => all2 (fun p => all2 (fun tm => all2 (fun to =>
  all2 (fun td => all2 (fun e => all2 (fun ig => all2 (fun relr => all2 (fun dynidx => all2 (fun z =>
    forallb (fun k => ok_case (mk a d i n g p tm to td e ig) k relr dynidx z) all_kinds)))))))))))))).

Lemma sweep_true : sweep = true.
Proof. vm_compute. reflexivity. Qed.

Theorem accounting_agrees f k relr dynidx z :
  In k all_kinds -> consistent f k dynidx z = true -> verdict f k relr dynidx z = 0.
Proof.
  intros Hk Hc. destruct f as [a d i n g p tm to td e ig].
  pose proof sweep_true as H. unfold sweep in H.
  apply (all2_spec _) with (b := a) in H. apply (all2_spec _) with (b := d) in H. apply (all2_spec _) with (b := i) in H.
  apply (all2_spec _) with (b := n) in H. apply (all2_spec _) with (b := g) in H. apply (all2_spec _) with (b := p) in H.
  apply (all2_spec _) with (b := tm) in H. apply (all2_spec _) with (b := to) in H. apply (all2_spec _) with (b := td) in H.
  apply (all2_spec _) with (b := e) in H. apply (all2_spec _) with (b := ig) in H. apply (all2_spec _) with (b := relr) in H.
  apply (all2_spec _) with (b := dynidx) in H. apply (all2_spec _) with (b := z) in H.
  rewrite forallb_forall in H. specialize (H k Hk). unfold ok_case, mk in H.
  rewrite Hc in H. cbn [negb orb] in H. apply N.eqb_eq in H. exact H.
Qed.

(* what verdict 0 means *)
Theorem verdict_zero_means f k relr dynidx z :
  verdict f k relr dynidx z = 0 ->
  consume f k relr dynidx z = Some (alloc f k relr) /\ c_got (alloc f k relr) = fst (slots f) /\ c_plt (alloc f k relr) = snd (slots f).
Proof.
  unfold verdict.
  destruct ((c_got (alloc f k relr) =? fst (slots f)) && (c_plt (alloc f k relr) =? snd (slots f))) eqn:Es; cbn [negb]; [|discriminate].
  apply andb_prop in Es. destruct Es as [E1 E2]. apply N.eqb_eq in E1. apply N.eqb_eq in E2.
  destruct (consume f k relr dynidx z) as [c|]; [|discriminate].
  destruct (counts_eqb (alloc f k relr) c) eqn:Ec; [|discriminate]. intros _.
  split; [|split; assumption]. f_equal.
  unfold counts_eqb in Ec. repeat (apply andb_prop in Ec; destruct Ec as [Ec ?]).
  repeat match goal with H : (_ =? _) = true |- _ => apply N.eqb_eq in H end.
  destruct (alloc f k relr), c; cbn in *; subst; reflexivity.
Qed.
