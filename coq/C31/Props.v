(* C31 — symbol tables describe the final resolution: the property theorems. Model: C31/Model.v. *)
From Coq Require Import List Bool Arith.
From WV Require Import C31.Model C31.Proofs.
Import ListNotations.

(* for every symbol and every output configuration wild's dynamic symbol table exports and imports exactly what the GNU
   rule says *)
Theorem C31_dynsym_is_exactly_what_must_be_dynamic :
  forall c s, wild_exported c s = gnu_exported c s /\ wild_imported c s = gnu_imported c s.
Proof. exact exported_agree. Qed.
Print Assumptions C31_dynsym_is_exactly_what_must_be_dynamic.

(* hidden, internal, --exclude-libs, version-script local, local-binding, undefined and garbage-collected symbols are
   never exported, whatever else is asked for *)
Theorem C31_demoted_symbols_are_never_exported :
  forall c s,
    (svis s = Hidden \/ svis s = Internal \/ excluded_lib s = true \/ vs_local s = true \/ sbind s = Local \/ defined s = false \/ retained s = false) ->
    wild_exported c s = false.
Proof. exact never_exported. Qed.
Print Assumptions C31_demoted_symbols_are_never_exported.

(* .symtab: the locals come first and sh_info is the index of the first non-local *)
Theorem C31_symtab_locals_before_globals :
  forall locals globals,
    let t := symtab locals globals in
    length t = length locals + length globals /\
    (forall i e, nth_error t i = Some e -> (e_local e = true <-> i < sh_info locals globals)) /\
    map e_name t = locals ++ globals.
Proof. exact symtab_locals_first. Qed.
Print Assumptions C31_symtab_locals_before_globals.

Example C31_example :
  let s := {| defined := true; sbind := Weak; svis := Protected; retained := true; vs_local := false; excluded_lib := false; in_export_list := false; dso_ref := true; dso_def := true; referenced := true |} in
  wild_exported {| shared := false; export_dynamic := false |} s = true /\ wild_exported {| shared := false; export_dynamic := false |} {| defined := true; sbind := Weak; svis := Protected; retained := true; vs_local := false; excluded_lib := true; in_export_list := true; dso_ref := true; dso_def := true; referenced := true |} = false.
Proof. split; reflexivity. Qed.
