From Coq Require Import List Bool Arith Lia.
From WV Require Import C31.Model.
Import ListNotations.

Lemma agree_all c s : agree c s = true.
Proof.
  destruct c as [[] []]; destruct s as [[] [] [] [] [] [] [] [] [] []]; reflexivity.
Qed.

Lemma eqb_true a b : Bool.eqb a b = true -> a = b.
Proof. destruct a, b; auto; discriminate. Qed.

Lemma exported_agree c s : wild_exported c s = gnu_exported c s /\ wild_imported c s = gnu_imported c s.
Proof. pose proof (agree_all c s) as H. unfold agree in H. apply andb_true_iff in H. destruct H as (A & B). split; apply eqb_true; assumption. Qed.

Lemma never_exported c s :
  (svis s = Hidden \/ svis s = Internal \/ excluded_lib s = true \/ vs_local s = true \/ sbind s = Local \/ defined s = false \/ retained s = false) ->
  wild_exported c s = false.
Proof.
  destruct c as [[] []]; destruct s as [[] [] [] [] [] [] [] [] [] []]; cbn; intros H; try reflexivity;
    repeat (destruct H as [H|H]; try discriminate).
Qed.

Lemma symtab_locals_first locals globals :
  let t := symtab locals globals in
  length t = length locals + length globals /\
  (forall i e, nth_error t i = Some e -> (e_local e = true <-> i < sh_info locals globals)) /\
  map e_name t = locals ++ globals.
Proof.
  cbn zeta. unfold symtab, sh_info. split; [rewrite app_length, !map_length; reflexivity|]. split.
  - intros i e H. destruct (lt_dec i (length locals)) as [Hl|Hl].
    + rewrite nth_error_app1 in H by (rewrite map_length; exact Hl). apply nth_error_In, in_map_iff in H. destruct H as (n & <- & _). cbn. tauto.
    + rewrite nth_error_app2 in H by (rewrite map_length; lia). apply nth_error_In, in_map_iff in H. destruct H as (n & <- & _). cbn. split; [discriminate|lia].
  - rewrite map_app, !map_map. cbn. rewrite !map_id. reflexivity.
Qed.
