(* C31 — which symbols the dynamic symbol table exports, and the shape of .symtab.
   `gnu_exported` is the rule GNU ld documents (and the check validates against ld 2.40 on every run);
   `wild_exported` follows the code: symbol_db.rs (downgrade to local: version-script `local:`, --exclude-libs, hidden and
   internal visibility), layout.rs can_export_symbol / export_dynamic / load_symbol, args (--export-dynamic,
   --export-dynamic-symbol / --dynamic-list, -shared). *)
From Coq Require Import List Bool Arith.
Import ListNotations.

Inductive vis := Default | Protected | Hidden | Internal.
Inductive bind := Local | Global | Weak.

Record sym := {
  defined : bool;                (* defined in a regular object that was loaded *)
  sbind : bind;
  svis : vis;                    (* most constraining visibility over all its declarations *)
  retained : bool;               (* its section survives garbage collection (or it is absolute/common) *)
  vs_local : bool;               (* matched by a `local:` pattern of the version script *)
  excluded_lib : bool;           (* comes from an archive named by --exclude-libs *)
  in_export_list : bool;         (* named by --export-dynamic-symbol / --dynamic-list *)
  dso_ref : bool;                (* a shared library on the command line refers to it *)
  dso_def : bool;                (* a shared library on the command line defines it *)
  referenced : bool;             (* retained code of the output refers to it *)
}.
Record cfg := { shared : bool; export_dynamic : bool }.

Definition exportable_vis (v : vis) : bool := match v with Default | Protected => true | _ => false end.

(* GNU ld: a definition is dynamic iff it is global or weak, of default or protected visibility, not localised by the
   version script or --exclude-libs, kept, and either everything is exported (-shared, --export-dynamic), it is asked
   for by name, or a shared library needs it *)
Definition gnu_exported (c : cfg) (s : sym) : bool :=
  defined s && negb (match sbind s with Local => true | _ => false end) && exportable_vis (svis s) &&
  negb (vs_local s) && negb (excluded_lib s) && retained s &&
  (shared c || export_dynamic c || in_export_list s || dso_ref s).
(* an import: not defined here, defined by a shared library, and used *)
Definition gnu_imported (c : cfg) (s : sym) : bool :=
  negb (defined s) && dso_def s && referenced s.

(* wild *)
Definition downgraded_to_local (s : sym) : bool :=
  vs_local s || excluded_lib s || negb (exportable_vis (svis s)).
Definition can_export (s : sym) (export_all : bool) : bool :=
  defined s && negb (match sbind s with Local => true | _ => false end) &&
  negb (match svis s with Hidden => true | _ => false end) &&
  negb (downgraded_to_local s) && (export_all || in_export_list s).
Definition wild_exported (c : cfg) (s : sym) : bool :=
  retained s &&
  (   can_export s (shared c || export_dynamic c)          (* load_symbol: exported when the symbol is loaded *)
   || (dso_ref s && can_export s true)).                    (* export_dynamic request sent by a shared library *)
Definition wild_imported (c : cfg) (s : sym) : bool :=
  negb (defined s) && dso_def s && referenced s.

(* ---- .symtab ---- *)
Record entry := { e_name : nat; e_local : bool }.
Definition symtab (locals globals : list nat) : list entry :=
  map (fun n => {| e_name := n; e_local := true |}) locals ++ map (fun n => {| e_name := n; e_local := false |}) globals.
Definition sh_info (locals globals : list nat) : nat := length locals.

(* ---- the finite sweep ---- *)
Definition all_bool := [true; false].
Definition all_syms : list sym :=
  flat_map (fun d => flat_map (fun b => flat_map (fun v => flat_map (fun r => flat_map (fun vl => flat_map (fun ex => flat_map (fun el =>
  flat_map (fun dr => flat_map (fun dd => map (fun rf =>
    {| defined := d; sbind := b; svis := v; retained := r; vs_local := vl; excluded_lib := ex; in_export_list := el; dso_ref := dr; dso_def := dd; referenced := rf |})
  all_bool) all_bool) all_bool) all_bool) all_bool) all_bool) all_bool) [Default; Protected; Hidden; Internal]) [Local; Global; Weak]) all_bool.
Definition all_cfgs : list cfg := flat_map (fun s => map (fun e => {| shared := s; export_dynamic := e |}) all_bool) all_bool.
Definition agree (c : cfg) (s : sym) : bool :=
  Bool.eqb (wild_exported c s) (gnu_exported c s) && Bool.eqb (wild_imported c s) (gnu_imported c s).
Definition sweep : bool := forallb (fun c => forallb (agree c) all_syms) all_cfgs.
