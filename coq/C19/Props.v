(* C19 — a link touches only its declared outputs: the property theorems (file operations of the output path;
   the user-requested side files — dependency file, layout, trace, save-dir — are declared outputs and are checked
   only by the directory snapshots of the correspondence check). Model: Cfs/Model.v. *)
From Coq Require Import NArith List Bool.
From WV Require Import Cfs.Model C18.Proofs C19.Proofs.
Import ListNotations.
Open Scope N_scope.

(* For every configuration, failure point (error return or kill) and prior directory contents in which the parking
   name chosen by unused_sibling_path is indeed unused: every name other than the output's is bound exactly as
   before — in particular nothing is left behind under the parking name ... *)
Theorem C19_other_names_unchanged :
  forall c s0, wf (tmp c) s0 -> forall p, p <> Out -> names (fst (link c s0)) p = names s0 p.
Proof.
  intros c s0 Hwf p Hp. pose proof (link_rel c s0 Hwf) as [H1 H2 _ _ _].
  destruct Hwf as (Ht & Hn & _).
  destruct (path_eqb p (tmp c)) eqn:E.
  - apply path_eqb_eq in E. subst p. rewrite H2, Hn. reflexivity.
  - apply H1; [exact Hp|]. intros ->. rewrite path_eqb_refl in E. discriminate.
Qed.
Print Assumptions C19_other_names_unchanged.

(* ... and every inode that existed before, other than the one the output name was bound to, keeps its contents *)
Theorem C19_other_files_keep_contents :
  forall c s0, wf (tmp c) s0 ->
    forall i, i < next_ino s0 -> names s0 Out <> Some i -> data (fst (link c s0)) i = data s0 i.
Proof. intros c s0 Hwf. exact (r_data _ _ _ (link_rel c s0 Hwf)). Qed.
Print Assumptions C19_other_files_keep_contents.

(* why the parking name has to be unused (the defect repaired in /repo: it used to be <stem>.delete) *)
Theorem C19_refuted_if_parking_name_exists :
  let s0 := {| names := fun p => match p with Out => Some 7 | Other 0 => Some 9 | _ => None end; data := fun _ => Old 1; next_ino := 100 |} in
  names s0 (Other 0) = Some 9 /\ names (fst (link (cfg_of true None true false Success false) s0)) (Other 0) = None.
Proof. vm_compute. split; reflexivity. Qed.
Print Assumptions C19_refuted_if_parking_name_exists.

(* NOT covered: another NAME for the old output's inode (a hard link).  With the default in-place update of an
   existing executable the inode is rewritten, so the other name shows the new bytes: known_findings.json *)
Theorem C19_refuted_for_hard_links :
  let s0 := {| names := fun p => match p with Out => Some 7 | Other 5 => Some 7 | _ => None end; data := fun _ => Old 1; next_ino := 100 |} in
  let s1 := fst (link (cfg_of false None true false Success false) s0) in
  names s1 (Other 5) = Some 7 /\ data s0 7 = Old 1 /\ data s1 7 = Fresh true.
Proof. vm_compute. repeat split; reflexivity. Qed.
Print Assumptions C19_refuted_for_hard_links.

Example C19_hypotheses_satisfiable : wf (tmp (cfg_of true None true false Success false)) (fs0 true).
Proof. repeat split; try discriminate. intros i H. vm_compute in H. injection H as <-. reflexivity. Qed.
