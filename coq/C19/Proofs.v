(* C19 — proofs over the Cfs model: a link changes nothing but the output name (and its own, fresh inodes). *)
From Coq Require Import NArith List Bool Lia.
From WV Require Import Cfs.Model.
Import ListNotations.
Open Scope N_scope.

Lemma path_eqb_eq a b : path_eqb a b = true <-> a = b.
Proof.
  destruct a, b; cbn [path_eqb]; try (split; [discriminate|intros H; discriminate H]); try (split; reflexivity).
  - rewrite N.eqb_eq. split; [intros ->; reflexivity|intros H; injection H as ->; reflexivity].
  - rewrite N.eqb_eq. split; [intros ->; reflexivity|intros H; injection H as ->; reflexivity].
Qed.
Lemma path_eqb_neq a b : a <> b -> path_eqb a b = false.
Proof. intros H. destruct (path_eqb a b) eqn:E; [apply path_eqb_eq in E; contradiction|reflexivity]. Qed.
Lemma path_eqb_refl a : path_eqb a a = true.
Proof. apply path_eqb_eq. reflexivity. Qed.

(* what a link may have done to the file system so far, relative to the start s0 and the parking name t *)
Record rel (t : path) (s0 s : fs) : Prop := {
  r_names : forall p, p <> Out -> p <> t -> names s p = names s0 p;
  r_tmp : names s t = None;
  r_data : forall i, i < next_ino s0 -> names s0 Out <> Some i -> data s i = data s0 i;
  r_next : next_ino s0 <= next_ino s;
  r_out : names s Out = None \/ names s Out = names s0 Out \/ exists i, names s Out = Some i /\ next_ino s0 <= i }.

Definition wf (t : path) (s0 : fs) : Prop :=
  t <> Out /\ names s0 t = None /\ (forall i, names s0 Out = Some i -> i < next_ino s0).

Lemma rel_refl t s0 : wf t s0 -> rel t s0 s0.
Proof. intros (Ht & Hn & Hi). constructor; auto; try lia. Qed.

Lemma rel_unlink_out t s0 s : t <> Out -> rel t s0 s -> rel t s0 (unlink s Out).
Proof.
  intros Ht [H1 H2 H3 H4 H5]. constructor; cbn [unlink bind_name names data next_ino]; auto.
  - intros p Hp Hpt. rewrite (path_eqb_neq p Out Hp). auto.
  - rewrite (path_eqb_neq t Out Ht). exact H2.
Qed.

Lemma rel_new_file t s0 s c : t <> Out -> rel t s0 s -> rel t s0 (new_file s Out c).
Proof.
  intros Ht [H1 H2 H3 H4 H5]. constructor; cbn [new_file names data next_ino]; auto.
  - intros p Hp Hpt. rewrite (path_eqb_neq p Out Hp). auto.
  - rewrite (path_eqb_neq t Out Ht). exact H2.
  - intros i Hi Hn. destruct (N.eqb_spec i (next_ino s)); [lia|]. auto.
  - lia.
  - right. right. exists (next_ino s). cbn. split; [reflexivity|exact H4].
Qed.

Lemma rel_set_out_data t s0 s i c : wf t s0 -> rel t s0 s -> names s Out = Some i -> rel t s0 (set_data s i c).
Proof.
  intros (Ht & Hn & Hw) [H1 H2 H3 H4 H5] Hi. constructor; cbn [set_data names data next_ino]; auto.
  intros j Hj Hnj. destruct (N.eqb_spec j i) as [->|Hne]; [|auto].
  exfalso. destruct H5 as [H5|[H5|[k [H5 Hk]]]].
  - rewrite H5 in Hi. discriminate.
  - rewrite H5 in Hi. apply Hnj. exact Hi.
  - rewrite H5 in Hi. injection Hi as ->. lia.
Qed.

Lemma rel_create_output t s0 s c m s' : wf t s0 -> rel t s0 s -> create_output c m s = Some s' -> rel t s0 s'.
Proof.
  intros Hwf Hr. pose proof Hwf as (Ht & _ & _). unfold create_output.
  destruct (names s Out) as [i|] eqn:E.
  - destruct (busy c).
    + destruct m; try discriminate. destruct (dir_writable c); [|discriminate].
      intros H. injection H as <-. apply rel_new_file; [exact Ht|]. apply rel_unlink_out; assumption.
    + destruct m; intros H; injection H as <-; apply rel_set_out_data; assumption.
  - intros H. injection H as <-. apply rel_new_file; assumption.
Qed.

Lemma rel_park t s0 s w : wf t s0 -> rel t s0 s ->
  rel t s0 (let (s', ok) := rename_w w s Out t in if ok then unlink s' t else s').
Proof.
  intros (Ht & Hn & Hw) Hr. unfold rename_w. destruct w; [|exact Hr].
  unfold rename. destruct (names s Out) as [i|] eqn:E; [|exact Hr].
  destruct Hr as [H1 H2 H3 H4 H5]. constructor; cbn [unlink bind_name names data next_ino]; auto.
  - intros p Hp Hpt. rewrite ?(path_eqb_neq p t Hpt), ?(path_eqb_neq p Out Hp). auto.
  - rewrite ?path_eqb_refl. reflexivity.
  - left. rewrite ?(path_eqb_neq Out t (fun H => Ht (eq_sym H))), ?path_eqb_refl. reflexivity.
Qed.

Lemma rel_unlink_w t s0 s w : t <> Out -> rel t s0 s -> rel t s0 (unlink_w w s Out).
Proof. intros Ht Hr. unfold unlink_w. destruct w; [apply rel_unlink_out; assumption|exact Hr]. Qed.

Lemma rel_fill t s0 s b : wf t s0 -> rel t s0 s -> rel t s0 (fill s b).
Proof.
  intros Hwf Hr. unfold fill. destruct (names s Out) as [i|] eqn:E; [|exact Hr].
  apply rel_set_out_data; assumption.
Qed.

Theorem link_rel c s0 : wf (tmp c) s0 -> rel (tmp c) s0 (fst (link c s0)).
Proof.
  intros Hwf. pose proof Hwf as (Ht & _ & _). pose proof (rel_refl _ _ Hwf) as R0.
  assert (Hfail : forall st s, rel (tmp c) s0 s ->
            rel (tmp c) s0 (if crash c then s else cleanup (dir_writable c) st s)).
  { intros st s Hr. destruct (crash c); [exact Hr|]. unfold cleanup. destruct st; [apply rel_unlink_w; assumption|exact Hr]. }
  unfold link.
  destruct (stop_at c); cbn [fst];
    try (apply Hfail; exact R0).
  all: destruct (on_set_size c (mode_of c s0) s0) as [s1|] eqn:E1; cbn [fst]; try (apply Hfail; exact R0).
  all: assert (R1 : rel (tmp c) s0 s1) by
        (unfold on_set_size in E1; destruct (background c);
         [ eapply rel_create_output; [exact Hwf| |exact E1];
           destruct (mode_of c s0); try exact R0; apply rel_park; assumption
         | injection E1 as <-; exact R0 ]).
  all: try (apply Hfail; exact R1).
  all: destruct (on_write_start c (mode_of c s0) s1) as [s2|] eqn:E2; cbn [fst]; try (apply Hfail; exact R1).
  all: assert (R2 : rel (tmp c) s0 s2) by
        (unfold on_write_start in E2; destruct (background c);
         [ injection E2 as <-; exact R1
         | eapply rel_create_output; [exact Hwf| |exact E2]; apply rel_unlink_w; assumption ]).
  all: try (apply Hfail; apply rel_fill; assumption).
  apply rel_fill; assumption.
Qed.
