From Coq Require Import List Bool Arith Lia.
From WV Require Import C40.Model.
Import ListNotations.

Section Proofs.
  Variable G B cap : nat.
  Hypothesis G_pos : 0 < G.
  Hypothesis cap_mult : B <= cap.

  Notation step := (step G B).
  Notation init := (init cap).
  Notation reachable := (reachable G B cap).

  (* ---- finite sums over nat-indexed functions ---- *)
  Fixpoint sumf (f : nat -> nat) (n : nat) : nat := match n with O => 0 | S k => sumf f k + f k end.

  Lemma sumf_ext f g n : (forall k, k < n -> f k = g k) -> sumf f n = sumf g n.
  Proof. induction n as [|n IH]; intros H; cbn; [reflexivity|]. rewrite IH by (intros; apply H; lia). rewrite H by lia. reflexivity. Qed.

  Lemma sumf_upd (f : nat -> nat) k v n : k < n -> sumf (upd f k v) n + f k = sumf f n + v.
  Proof.
    induction n as [|n IH]; intros H; [lia|]. cbn [sumf]. unfold upd at 2.
    destruct (Nat.eqb_spec n k) as [->|Hn].
    - rewrite (sumf_ext (upd f k v) f k); [lia|]. intros j Hj. unfold upd. destruct (Nat.eqb_spec j k); [lia|reflexivity].
    - assert (k < n) by lia. specialize (IH H0). lia.
  Qed.

  Lemma sumf_zero f n : (forall k, k < n -> f k = 0) -> sumf f n = 0.
  Proof. induction n as [|n IH]; intros H; cbn; [reflexivity|]. rewrite IH by (intros; apply H; lia). rewrite H by lia. reflexivity. Qed.

  Definition is_strings (x : slot) : nat := match x with SStrings => 1 | _ => 0 end.
  Definition is_merge (x : bst) : nat := match x with BMerge => 1 | _ => 0 end.
  Definition pend (o : option nat) : nat := match o with Some i => B - i | None => 0 end.

  Definition nstrings (sl : nat -> nat -> slot) : nat := sumf (fun g => sumf (fun b => is_strings (sl g b)) B) G.
  Definition total (s : state) : nat :=
    avail s + B * ipop s + sumf (fun g => pend (idel s g)) G + nstrings (slots s) + sumf (fun b => is_merge (bs s b)) B.

  Lemma nstrings_upd2 sl g b v : g < G -> b < B ->
    nstrings (upd2 sl g b v) + is_strings (sl g b) = nstrings sl + is_strings v.
  Proof.
    intros Hg Hb. unfold nstrings.
    set (F := fun (sl' : nat -> nat -> slot) (g' : nat) => sumf (fun b' => is_strings (sl' g' b')) B).
    assert (E : sumf (F (upd2 sl g b v)) G = sumf (upd (F sl) g (F (upd2 sl g b v) g)) G).
    { apply sumf_ext. intros k Hk. unfold upd. destruct (Nat.eqb_spec k g) as [->|Hn]; [reflexivity|].
      unfold F. apply sumf_ext. intros j Hj. unfold upd2. destruct (Nat.eqb_spec k g); [contradiction|]. reflexivity. }
    change (sumf (F (upd2 sl g b v)) G + is_strings (sl g b) = sumf (F sl) G + is_strings v).
    rewrite E. pose proof (sumf_upd (F sl) g (F (upd2 sl g b v) g) G Hg) as S1.
    assert (S2 : F (upd2 sl g b v) g + is_strings (sl g b) = F sl g + is_strings v).
    { unfold F.
      rewrite (sumf_ext (fun b' => is_strings (upd2 sl g b v g b')) (upd (fun b' => is_strings (sl g b')) b (is_strings v)) B).
      - apply (sumf_upd (fun b' => is_strings (sl g b')) b (is_strings v) B Hb).
      - intros j Hj. unfold upd2, upd. rewrite Nat.eqb_refl. cbn [andb]. destruct (Nat.eqb j b); reflexivity. }
    lia.
  Qed.

  Definition delivered (s : state) (g b : nat) : bool := match idel s g with Some i => b <? i | None => false end.
  Definition merging (x : bst) : bool := match x with BMerge | BLoad | BCas _ => true | _ => false end.
  Definition taken (s : state) (g b : nat) : bool := (g <? nb s b) || ((g =? nb s b) && merging (bs s b)).

  Record Inv (s : state) : Prop := {
    v_pop : popped s <= G;
    v_idel : forall g i, idel s g = Some i -> g < popped s /\ i <= B;
    v_idel2 : forall g, g < popped s -> idel s g <> None;
    v_out : forall b, B <= b -> bs s b = BParked;
    v_cas : forall b a, bs s b = BCas a -> B <= a;
    v_spcas : forall a, sp s = SpCas a -> B <= a;
    v_nb : forall b, b < B -> (bs s b <> BDone -> nb s b < G) /\ (bs s b = BDone -> nb s b = G);
    v_park : forall b, b < B -> bs s b = BParked -> slots s (nb s b) b = SWaiting;
    v_wait : forall g b, slots s g b = SWaiting -> g = nb s b /\ bs s b = BParked /\ delivered s g b = false;
    v_str : forall g b, slots s g b = SStrings -> g < G /\ b < B /\ delivered s g b = true /\ taken s g b = false;
    v_taken : forall g b, b < B -> taken s g b = true -> delivered s g b = true;
    v_deliv : forall g b, b < B -> delivered s g b = true -> taken s g b = false -> slots s g b = SStrings;
    v_total : total s = cap
  }.

  Lemma inv_init : Inv init.
  Proof.
    split; cbn [popped avail ipop idel slots nb bs sp Model.init].
    - lia.
    - intros g i H. discriminate.
    - intros g H. lia.
    - reflexivity.
    - intros b a H. discriminate.
    - intros a H. discriminate.
    - intros b Hb. split; [intros _; assumption|discriminate].
    - intros b _ _. reflexivity.
    - intros g b H. destruct (Nat.eqb_spec g 0); [|discriminate]. split; [assumption|]. split; reflexivity.
    - intros g b H. destruct (g =? 0); discriminate.
    - intros g b Hb H. unfold taken in H. cbn in H. destruct (Nat.eqb_spec g 0); cbn in H; discriminate.
    - intros g b Hb H. unfold delivered in H. cbn in H. discriminate.
    - unfold total, nstrings. cbn [popped avail ipop idel slots nb bs sp Model.init pend is_merge].
      rewrite (sumf_zero (fun _ => 0)) by reflexivity. rewrite (sumf_zero (fun _ : nat => 0) B) by reflexivity.
      rewrite sumf_zero; [lia|]. intros g Hg. apply sumf_zero. intros b Hb. destruct (g =? 0); reflexivity.
  Qed.

  Ltac same HI := first [exact (v_pop _ HI)|exact (v_idel _ HI)|exact (v_idel2 _ HI)|exact (v_out _ HI)|exact (v_cas _ HI)|exact (v_spcas _ HI)
                        |exact (v_nb _ HI)|exact (v_park _ HI)|exact (v_wait _ HI)|exact (v_str _ HI)|exact (v_taken _ HI)|exact (v_deliv _ HI)|exact (v_total _ HI)].

  Lemma step_spload s s' : Inv s -> step s ESpLoad = Some s' -> Inv s'.
  Proof.
    intros HI H. cbn [Model.step] in H. destruct (sp s) eqn:Esp; try discriminate. injection H as <-.
    split; cbn [popped avail ipop idel slots nb bs sp]; try (same HI).
    intros a Ha. destruct (Nat.ltb_spec (avail s) B); [discriminate|]. injection Ha as <-. assumption.
  Qed.

  Lemma step_spcas s s' : Inv s -> step s ESpCas = Some s' -> Inv s'.
  Proof.
    intros HI H. cbn [Model.step] in H. destruct (sp s) eqn:Esp; try discriminate.
    destruct (Nat.eqb_spec (avail s) a) as [E|E]; injection H as <-.
    - split; cbn [popped avail ipop idel slots nb bs sp]; try (same HI).
      + intros a' Ha. discriminate.
      + pose proof (v_total _ HI) as T. pose proof (v_spcas _ HI a Esp). unfold total in *.
        cbn [popped avail ipop idel slots nb bs sp]. nia.
    - split; cbn [popped avail ipop idel slots nb bs sp]; try (same HI). intros a' Ha. discriminate.
  Qed.

  Lemma idel_at_popped s : Inv s -> idel s (popped s) = None.
  Proof. intros HI. destruct (idel s (popped s)) as [i|] eqn:E; [|reflexivity]. destruct (v_idel _ HI _ _ E). lia. Qed.

  Lemma step_pop s s' : Inv s -> step s EPop = Some s' -> Inv s'.
  Proof.
    intros HI H. cbn [Model.step] in H. destruct (Nat.eqb_spec (ipop s) 0) as [E0|E0]; [discriminate|].
    pose proof (idel_at_popped s HI) as Hnone.
    destruct (Nat.ltb_spec (popped s) G) as [Hp|Hp]; injection H as <-.
    - assert (Hdel : forall g b, g <> popped s -> delivered {| popped := S (popped s); avail := avail s; ipop := ipop s - 1;
                 idel := upd (idel s) (popped s) (Some 0); slots := slots s; nb := nb s; bs := bs s; sp := sp s |} g b = delivered s g b).
      { intros g b Hg. unfold delivered. cbn [idel]. unfold upd. destruct (Nat.eqb_spec g (popped s)); [contradiction|reflexivity]. }
      assert (Hdelp : forall b, delivered {| popped := S (popped s); avail := avail s; ipop := ipop s - 1;
                 idel := upd (idel s) (popped s) (Some 0); slots := slots s; nb := nb s; bs := bs s; sp := sp s |} (popped s) b = false).
      { intros b. unfold delivered. cbn [idel]. unfold upd. rewrite Nat.eqb_refl. reflexivity. }
      split; cbn [popped avail ipop idel slots nb bs sp]; try (same HI).
      + lia.
      + intros g i. unfold upd. destruct (Nat.eqb_spec g (popped s)) as [->|Hg].
        * intros [= <-]. lia.
        * intros Hi. destruct (v_idel _ HI _ _ Hi). lia.
      + intros g Hg. unfold upd. destruct (Nat.eqb_spec g (popped s)); [discriminate|]. apply (v_idel2 _ HI). lia.
      + intros g b Hw. destruct (v_wait _ HI _ _ Hw) as (A & Bq & C). split; [assumption|]. split; [assumption|].
        destruct (Nat.eq_dec g (popped s)) as [->|Hg]; [apply Hdelp|rewrite Hdel by assumption; assumption].
      + intros g b Hs. destruct (v_str _ HI _ _ Hs) as (A & Bq & C & D). repeat split; try assumption.
        destruct (Nat.eq_dec g (popped s)) as [->|Hg]; [|rewrite Hdel by assumption; assumption].
        unfold delivered in C. rewrite Hnone in C. discriminate.
      + intros g b Hb Ht. pose proof (v_taken _ HI g b Hb Ht) as C.
        destruct (Nat.eq_dec g (popped s)) as [->|Hg]; [|rewrite Hdel by assumption; assumption].
        unfold delivered in C. rewrite Hnone in C. discriminate.
      + intros g b Hb Hd Ht. destruct (Nat.eq_dec g (popped s)) as [->|Hg]; [rewrite Hdelp in Hd; discriminate|].
        rewrite Hdel in Hd by assumption. apply (v_deliv _ HI); assumption.
      + pose proof (v_total _ HI) as T. unfold total in *. cbn [popped avail ipop idel slots nb bs sp].
        pose proof (sumf_upd (fun g => pend (idel s g)) (popped s) B G Hp) as S1.
        rewrite (sumf_ext (fun g => pend (upd (idel s) (popped s) (Some 0) g)) (upd (fun g => pend (idel s g)) (popped s) B) G).
        2:{ intros k _. unfold upd. destruct (Nat.eqb k (popped s)); [cbn; lia|reflexivity]. }
        cbn beta in S1. rewrite Hnone in S1. cbn [pend] in S1.
        set (X := sumf (upd (fun g => pend (idel s g)) (popped s) B) G) in *.
        set (Y := sumf (fun g => pend (idel s g)) G) in *. nia.
    - split; cbn [popped avail ipop idel slots nb bs sp]; try (same HI).
      pose proof (v_total _ HI) as T. unfold total in *. cbn [popped avail ipop idel slots nb bs sp]. nia.
  Qed.

  Lemma upd2_same sl g b v : upd2 sl g b v g b = v.
  Proof. unfold upd2. rewrite !Nat.eqb_refl. reflexivity. Qed.
  Lemma upd2_other sl g b v g' b' : (g', b') <> (g, b) -> upd2 sl g b v g' b' = sl g' b'.
  Proof.
    intros H. unfold upd2. destruct (Nat.eqb_spec g' g) as [->|]; [|reflexivity].
    destruct (Nat.eqb_spec b' b) as [->|]; [contradiction|reflexivity].
  Qed.
  Lemma updn_same {A} (f : nat -> A) k v : upd f k v k = v.
  Proof. unfold upd. rewrite Nat.eqb_refl. reflexivity. Qed.
  Lemma updn_other {A} (f : nat -> A) k v j : j <> k -> upd f k v j = f j.
  Proof. intros H. unfold upd. destruct (Nat.eqb_spec j k); [contradiction|reflexivity]. Qed.

  Lemma step_deliver s s' g : Inv s -> step s (EDeliver g) = Some s' -> Inv s'.
  Proof.
    intros HI H. cbn [Model.step] in H. destruct (idel s g) as [i|] eqn:Ei; [|discriminate].
    destruct (Nat.ltb_spec i B) as [HiB|]; [|discriminate]. injection H as <-.
    destruct (v_idel _ HI _ _ Ei) as [Hgp _]. pose proof (v_pop _ HI) as Hpop.
    set (woke := match slots s g i with SWaiting => true | _ => false end).
    set (bs' := if woke then upd (bs s) i BTake else bs s).
    assert (Hnd : delivered s g i = false) by (unfold delivered; rewrite Ei; apply Nat.ltb_irrefl).
    assert (Hnt : taken s g i = false).
    { destruct (taken s g i) eqn:Et; [|reflexivity]. rewrite (v_taken _ HI g i HiB Et) in Hnd. discriminate. }
    (* the bucket's merging status is not changed by a wake-up *)
    assert (Hmerg : forall b, merging (bs' b) = merging (bs s b)).
    { intros b. unfold bs'. destruct woke eqn:Ew; [|reflexivity].
      destruct (Nat.eq_dec b i) as [->|Hb]; [rewrite updn_same|rewrite updn_other by assumption; reflexivity].
      unfold woke in Ew. destruct (slots s g i) eqn:Es; try discriminate.
      destruct (v_wait _ HI _ _ Es) as (_ & Bp & _). rewrite Bp. reflexivity. }
    set (s' := {| popped := popped s; avail := avail s; ipop := ipop s; idel := upd (idel s) g (Some (S i));
                  slots := upd2 (slots s) g i SStrings; nb := nb s; bs := bs'; sp := sp s |}).
    assert (Htk : forall g' b', taken s' g' b' = taken s g' b').
    { intros g' b'. unfold taken, s'. cbn [nb bs]. rewrite Hmerg. reflexivity. }
    assert (Hdm : forall g' b', delivered s g' b' = true -> delivered s' g' b' = true).
    { intros g' b'. unfold delivered, s'. cbn [idel]. destruct (Nat.eq_dec g' g) as [->|Hg]; [rewrite updn_same, Ei|rewrite updn_other by assumption; auto].
      intros Hx. apply Nat.ltb_lt in Hx. apply Nat.ltb_lt. lia. }
    fold s'. split; cbn [popped avail ipop idel slots nb bs sp s'].
    - assumption.
    - intros g' i'. destruct (Nat.eq_dec g' g) as [->|Hg]; [rewrite updn_same|rewrite updn_other by assumption; apply (v_idel _ HI)].
      intros [= <-]. lia.
    - intros g' Hg'. destruct (Nat.eq_dec g' g) as [->|Hg]; [rewrite updn_same; discriminate|rewrite updn_other by assumption; apply (v_idel2 _ HI); assumption].
    - intros b Hb. unfold bs'. destruct woke; [rewrite updn_other by lia|]; apply (v_out _ HI); assumption.
    - intros b a. unfold bs'. destruct woke; [|apply (v_cas _ HI)].
      destruct (Nat.eq_dec b i) as [->|Hb]; [rewrite updn_same; discriminate|rewrite updn_other by assumption; apply (v_cas _ HI)].
    - apply (v_spcas _ HI).
    - intros b Hb. unfold bs'. destruct woke eqn:Ew; [|apply (v_nb _ HI); assumption].
      destruct (Nat.eq_dec b i) as [->|Hbi]; [rewrite updn_same|rewrite updn_other by assumption; apply (v_nb _ HI); assumption].
      split; [intros _|discriminate]. unfold woke in Ew. destruct (slots s g i) eqn:Es; try discriminate.
      destruct (v_wait _ HI _ _ Es) as (_ & Bp & _). apply (v_nb _ HI i Hb). rewrite Bp. discriminate.
    - intros b Hb Hp.
      assert (Hold : bs s b = BParked).
      { unfold bs' in Hp. destruct woke; [|assumption]. destruct (Nat.eq_dec b i) as [->|Hbi]; [rewrite updn_same in Hp; discriminate|rewrite updn_other in Hp by assumption; assumption]. }
      pose proof (v_park _ HI b Hb Hold) as Hw.
      destruct (Nat.eq_dec (nb s b) g) as [Eg|Eg]; [destruct (Nat.eq_dec b i) as [Eb|Eb]|].
      + (* the parked bucket is exactly the one being delivered to: it was woken, so it is not parked any more *)
        exfalso. subst b. rewrite Eg in Hw. unfold bs', woke in Hp. rewrite Hw in Hp. rewrite updn_same in Hp. discriminate.
      + rewrite upd2_other by (intros [= ? ?]; contradiction). assumption.
      + rewrite upd2_other by (intros [= ? ?]; contradiction). assumption.
    - intros g' b' Hw.
      assert (Hne : (g', b') <> (g, i)) by (intros [= -> ->]; rewrite upd2_same in Hw; discriminate).
      rewrite upd2_other in Hw by assumption. destruct (v_wait _ HI _ _ Hw) as (A & Bp & C).
      split; [assumption|]. split.
      + unfold bs'. destruct woke eqn:Ew; [|assumption].
        destruct (Nat.eq_dec b' i) as [->|Hb]; [|rewrite updn_other by assumption; assumption].
        exfalso. unfold woke in Ew. destruct (slots s g i) eqn:Es; try discriminate.
        destruct (v_wait _ HI _ _ Es) as (A' & _). apply Hne. congruence.
      + unfold delivered, s'. cbn [idel]. destruct (Nat.eq_dec g' g) as [->|Hg]; [rewrite updn_same|rewrite updn_other by assumption; exact C].
        unfold delivered in C. rewrite Ei in C. apply Nat.ltb_ge in C. apply Nat.ltb_ge.
        assert (b' <> i) by (intros ->; apply Hne; reflexivity). lia.
    - intros g' b' Hs. destruct (Nat.eq_dec g' g) as [->|Hg]; [destruct (Nat.eq_dec b' i) as [->|Hb]|].
      + split; [lia|]. split; [assumption|]. split.
        * unfold delivered, s'. cbn [idel]. rewrite updn_same. apply Nat.ltb_lt. lia.
        * rewrite Htk. assumption.
      + rewrite upd2_other in Hs by (intros [= ?]; contradiction). destruct (v_str _ HI _ _ Hs) as (A & Bq & C & D).
        repeat split; try assumption; [apply Hdm; assumption|rewrite Htk; assumption].
      + rewrite upd2_other in Hs by (intros [= ? ?]; contradiction). destruct (v_str _ HI _ _ Hs) as (A & Bq & C & D).
        repeat split; try assumption; [apply Hdm; assumption|rewrite Htk; assumption].
    - intros g' b' Hb Ht. rewrite Htk in Ht. apply Hdm. apply (v_taken _ HI); assumption.
    - intros g' b' Hb Hd Ht. rewrite Htk in Ht.
      destruct (Nat.eq_dec g' g) as [->|Hg]; [destruct (Nat.eq_dec b' i) as [->|Hbi]|].
      + apply upd2_same.
      + rewrite upd2_other by (intros [= ?]; contradiction). apply (v_deliv _ HI); try assumption.
        unfold delivered, s' in Hd. cbn [idel] in Hd. rewrite updn_same in Hd. apply Nat.ltb_lt in Hd.
        unfold delivered. rewrite Ei. apply Nat.ltb_lt. lia.
      + rewrite upd2_other by (intros [= ? ?]; contradiction). apply (v_deliv _ HI); try assumption.
        unfold delivered, s' in Hd. cbn [idel] in Hd. rewrite updn_other in Hd by assumption. exact Hd.
    - pose proof (v_total _ HI) as T. unfold total in *. unfold s'. cbn [popped avail ipop idel slots nb bs sp].
      assert (HgG : g < G) by lia.
      pose proof (nstrings_upd2 (slots s) g i SStrings HgG HiB) as S1.
      assert (Hns : is_strings (slots s g i) = 0).
      { destruct (slots s g i) eqn:Es; try reflexivity. destruct (v_str _ HI _ _ Es) as (_ & _ & C & _). congruence. }
      pose proof (sumf_upd (fun g0 => pend (idel s g0)) g (B - S i) G HgG) as S2.
      rewrite (sumf_ext (fun g0 => pend (upd (idel s) g (Some (S i)) g0)) (upd (fun g0 => pend (idel s g0)) g (B - S i)) G).
      2:{ intros k _. unfold upd. destruct (Nat.eqb k g); reflexivity. }
      cbn beta in S2. rewrite Ei in S2. cbn [pend] in S2.
      assert (Hm : sumf (fun b => is_merge (bs' b)) B = sumf (fun b => is_merge (bs s b)) B).
      { apply sumf_ext. intros b _. unfold bs'. destruct woke eqn:Ew; [|reflexivity].
        destruct (Nat.eq_dec b i) as [->|Hb]; [rewrite updn_same|rewrite updn_other by assumption; reflexivity].
        unfold woke in Ew. destruct (slots s g i) eqn:Es; try discriminate.
        destruct (v_wait _ HI _ _ Es) as (_ & Bp & _). rewrite Bp. reflexivity. }
      rewrite Hm. cbn [is_strings] in S1. rewrite Hns in S1. lia.
  Qed.

  Lemma active_in_range s b : Inv s -> bs s b <> BParked -> b < B.
  Proof. intros HI H. destruct (Nat.lt_ge_cases b B) as [|Hge]; [assumption|]. exfalso. apply H. apply (v_out _ HI). assumption. Qed.

  Lemma step_take s s' b : Inv s -> step s (ETake b) = Some s' -> Inv s'.
  Proof.
    intros HI H. cbn [Model.step] in H. destruct (bs s b) eqn:Eb; try discriminate.
    assert (HbB : b < B) by (apply (active_in_range s b HI); congruence).
    assert (HnG : nb s b < G) by (apply (v_nb _ HI b HbB); congruence).
    assert (Hnt : taken s (nb s b) b = false).
    { unfold taken. rewrite Nat.ltb_irrefl, Eb. cbn. rewrite andb_false_r. reflexivity. }
    destruct (slots s (nb s b) b) eqn:Es; injection H as <-.
    - (* SEmpty: park *)
      assert (Hnd : delivered s (nb s b) b = false).
      { destruct (delivered s (nb s b) b) eqn:Ed; [|reflexivity]. rewrite (v_deliv _ HI _ _ HbB Ed Hnt) in Es. discriminate. }
      set (s' := {| popped := popped s; avail := avail s; ipop := ipop s; idel := idel s; slots := upd2 (slots s) (nb s b) b SWaiting;
                    nb := nb s; bs := upd (bs s) b BParked; sp := sp s |}).
      assert (Htk : forall g' b', taken s' g' b' = taken s g' b').
      { intros g' b'. unfold taken, s'. cbn [nb bs]. destruct (Nat.eq_dec b' b) as [->|Hb]; [rewrite updn_same, Eb|rewrite updn_other by assumption]; reflexivity. }
      split; cbn [popped avail ipop idel slots nb bs sp s']; try (same HI).
      + intros b' Hb'. rewrite updn_other by lia. apply (v_out _ HI); assumption.
      + intros b' a. destruct (Nat.eq_dec b' b) as [->|Hb]; [rewrite updn_same; discriminate|rewrite updn_other by assumption; apply (v_cas _ HI)].
      + intros b' Hb'. destruct (Nat.eq_dec b' b) as [->|Hb]; [rewrite updn_same|rewrite updn_other by assumption; apply (v_nb _ HI); assumption].
        split; [intros _; assumption|discriminate].
      + intros b' Hb' Hp. destruct (Nat.eq_dec b' b) as [->|Hb]; [apply upd2_same|].
        rewrite updn_other in Hp by assumption. rewrite upd2_other by (intros [= ? ?]; contradiction). apply (v_park _ HI); assumption.
      + intros g' b' Hw. destruct (Nat.eq_dec b' b) as [->|Hb].
        * destruct (Nat.eq_dec g' (nb s b)) as [->|Hg].
          -- split; [reflexivity|]. split; [apply updn_same|assumption].
          -- rewrite upd2_other in Hw by (intros [= ?]; contradiction). destruct (v_wait _ HI _ _ Hw) as (A & Bp & _). congruence.
        * rewrite upd2_other in Hw by (intros [= ? ?]; contradiction). rewrite updn_other by assumption. apply (v_wait _ HI); assumption.
      + intros g' b' Hs.
        assert (Hne : (g', b') <> (nb s b, b)) by (intros [= -> ->]; rewrite upd2_same in Hs; discriminate).
        rewrite upd2_other in Hs by assumption. destruct (v_str _ HI _ _ Hs) as (A & Bq & C & D).
        repeat split; try assumption. change (taken s' g' b' = false). rewrite Htk. assumption.
      + intros g' b' Hb' Ht. change (taken s' g' b' = true) in Ht. rewrite Htk in Ht. apply (v_taken _ HI); assumption.
      + intros g' b' Hb' Hd Ht. change (taken s' g' b' = false) in Ht. rewrite Htk in Ht.
        change (delivered s g' b' = true) in Hd.
        assert (Hne : (g', b') <> (nb s b, b)) by (intros [= -> ->]; congruence).
        rewrite upd2_other by assumption. apply (v_deliv _ HI); assumption.
      + pose proof (v_total _ HI) as T. unfold total in *. unfold s'. cbn [popped avail ipop idel slots nb bs sp].
        pose proof (nstrings_upd2 (slots s) (nb s b) b SWaiting HnG HbB) as S1. rewrite Es in S1. cbn [is_strings] in S1.
        pose proof (sumf_upd (fun b0 => is_merge (bs s b0)) b 0 B HbB) as S2. cbn beta in S2. rewrite Eb in S2. cbn [is_merge] in S2.
        rewrite (sumf_ext (fun b0 => is_merge (upd (bs s) b BParked b0)) (upd (fun b0 => is_merge (bs s b0)) b 0) B).
        2:{ intros k _. unfold upd. destruct (Nat.eqb k b); reflexivity. }
        lia.
    - (* SStrings: take them *)
      destruct (v_str _ HI _ _ Es) as (_ & _ & Hdl & _).
      set (s' := {| popped := popped s; avail := avail s; ipop := ipop s; idel := idel s; slots := upd2 (slots s) (nb s b) b SEmpty;
                    nb := nb s; bs := upd (bs s) b BMerge; sp := sp s |}).
      assert (Htk : forall g' b', b' <> b -> taken s' g' b' = taken s g' b').
      { intros g' b' Hb. unfold taken, s'. cbn [nb bs]. rewrite updn_other by assumption. reflexivity. }
      assert (Htkb : forall g', taken s' g' b = (g' <=? nb s b)).
      { intros g'. unfold taken, s'. cbn [nb bs]. rewrite updn_same. cbn [merging]. rewrite andb_true_r.
        destruct (Nat.ltb_spec g' (nb s b)); destruct (Nat.eqb_spec g' (nb s b)); destruct (Nat.leb_spec g' (nb s b)); try reflexivity; lia. }
      assert (Htkb0 : forall g', taken s g' b = (g' <? nb s b)).
      { intros g'. unfold taken. rewrite Eb. cbn [merging]. rewrite andb_false_r, orb_false_r. reflexivity. }
      split; cbn [popped avail ipop idel slots nb bs sp s']; try (same HI).
      + intros b' Hb'. rewrite updn_other by lia. apply (v_out _ HI); assumption.
      + intros b' a. destruct (Nat.eq_dec b' b) as [->|Hb]; [rewrite updn_same; discriminate|rewrite updn_other by assumption; apply (v_cas _ HI)].
      + intros b' Hb'. destruct (Nat.eq_dec b' b) as [->|Hb]; [rewrite updn_same|rewrite updn_other by assumption; apply (v_nb _ HI); assumption].
        split; [intros _; assumption|discriminate].
      + intros b' Hb' Hp. destruct (Nat.eq_dec b' b) as [->|Hb]; [rewrite updn_same in Hp; discriminate|].
        rewrite updn_other in Hp by assumption. rewrite upd2_other by (intros [= ? ?]; contradiction). apply (v_park _ HI); assumption.
      + intros g' b' Hw.
        assert (Hne : (g', b') <> (nb s b, b)) by (intros [= -> ->]; rewrite upd2_same in Hw; discriminate).
        rewrite upd2_other in Hw by assumption. destruct (v_wait _ HI _ _ Hw) as (A & Bp & C).
        split; [assumption|]. split; [|assumption].
        destruct (Nat.eq_dec b' b) as [->|Hb]; [congruence|rewrite updn_other by assumption; assumption].
      + intros g' b' Hs.
        assert (Hne : (g', b') <> (nb s b, b)) by (intros [= -> ->]; rewrite upd2_same in Hs; discriminate).
        rewrite upd2_other in Hs by assumption. destruct (v_str _ HI _ _ Hs) as (A & Bq & C & D).
        repeat split; try assumption. change (taken s' g' b' = false).
        destruct (Nat.eq_dec b' b) as [->|Hb]; [|rewrite Htk by assumption; assumption].
        rewrite Htkb. rewrite Htkb0 in D. apply Nat.ltb_ge in D. apply Nat.leb_gt.
        assert (g' <> nb s b) by (intros ->; apply Hne; reflexivity). lia.
      + intros g' b' Hb' Ht. change (taken s' g' b' = true) in Ht.
        destruct (Nat.eq_dec b' b) as [->|Hb]; [|rewrite Htk in Ht by assumption; apply (v_taken _ HI); assumption].
        rewrite Htkb in Ht. apply Nat.leb_le in Ht.
        destruct (Nat.eq_dec g' (nb s b)) as [->|Hg]; [assumption|].
        apply (v_taken _ HI); [assumption|]. rewrite Htkb0. apply Nat.ltb_lt. lia.
      + intros g' b' Hb' Hd Ht. change (taken s' g' b' = false) in Ht. change (delivered s g' b' = true) in Hd.
        destruct (Nat.eq_dec b' b) as [->|Hb].
        * rewrite Htkb in Ht. apply Nat.leb_gt in Ht. rewrite upd2_other by (intros [= ?]; lia).
          apply (v_deliv _ HI); try assumption. rewrite Htkb0. apply Nat.ltb_ge. lia.
        * rewrite Htk in Ht by assumption. rewrite upd2_other by (intros [= ? ?]; contradiction). apply (v_deliv _ HI); assumption.
      + pose proof (v_total _ HI) as T. unfold total in *. unfold s'. cbn [popped avail ipop idel slots nb bs sp].
        pose proof (nstrings_upd2 (slots s) (nb s b) b SEmpty HnG HbB) as S1. rewrite Es in S1. cbn [is_strings] in S1.
        pose proof (sumf_upd (fun b0 => is_merge (bs s b0)) b 1 B HbB) as S2. cbn beta in S2. rewrite Eb in S2. cbn [is_merge] in S2.
        rewrite (sumf_ext (fun b0 => is_merge (upd (bs s) b BMerge b0)) (upd (fun b0 => is_merge (bs s b0)) b 1) B).
        2:{ intros k _. unfold upd. destruct (Nat.eqb k b); reflexivity. }
        lia.
    - (* SWaiting at its own slot cannot happen for a running bucket *)
      destruct (v_wait _ HI _ _ Es) as (_ & Bp & _). congruence.
  Qed.

  (* replacing a bucket's state by another one with the same merging status and the same is_merge count *)
  Lemma inv_set_bs s b x : Inv s -> b < B ->
    merging x = merging (bs s b) -> x <> BParked -> bs s b <> BParked -> x <> BDone -> bs s b <> BDone ->
    (forall a, x = BCas a -> B <= a) ->
    forall av ip, av + B * ip + is_merge x = avail s + B * ipop s + is_merge (bs s b) ->
    Inv {| popped := popped s; avail := av; ipop := ip; idel := idel s; slots := slots s; nb := nb s; bs := upd (bs s) b x; sp := sp s |}.
  Proof.
    intros HI HbB Hm Hxp Hbp Hxd Hbd Hcas av ip Hsum.
    set (s' := {| popped := popped s; avail := av; ipop := ip; idel := idel s; slots := slots s; nb := nb s; bs := upd (bs s) b x; sp := sp s |}).
    assert (Htk : forall g' b', taken s' g' b' = taken s g' b').
    { intros g' b'. unfold taken, s'. cbn [nb bs]. destruct (Nat.eq_dec b' b) as [->|Hb]; [rewrite updn_same, Hm|rewrite updn_other by assumption]; reflexivity. }
    split; cbn [popped avail ipop idel slots nb bs sp s']; try (same HI).
    - intros b' Hb'. rewrite updn_other by lia. apply (v_out _ HI); assumption.
    - intros b' a. destruct (Nat.eq_dec b' b) as [->|Hb]; [rewrite updn_same; apply Hcas|rewrite updn_other by assumption; apply (v_cas _ HI)].
    - intros b' Hb'. destruct (Nat.eq_dec b' b) as [->|Hb]; [rewrite updn_same|rewrite updn_other by assumption; apply (v_nb _ HI); assumption].
      split; [intros _; apply (v_nb _ HI b HbB); assumption|intros; contradiction].
    - intros b' Hb' Hp. destruct (Nat.eq_dec b' b) as [->|Hb]; [rewrite updn_same in Hp; contradiction|].
      rewrite updn_other in Hp by assumption. apply (v_park _ HI); assumption.
    - intros g' b' Hw. destruct (v_wait _ HI _ _ Hw) as (A & Bp & C). split; [assumption|]. split; [|assumption].
      destruct (Nat.eq_dec b' b) as [->|Hb]; [contradiction|rewrite updn_other by assumption; assumption].
    - intros g' b' Hs. destruct (v_str _ HI _ _ Hs) as (A & Bq & C & D). repeat split; try assumption.
      change (taken s' g' b' = false). rewrite Htk. assumption.
    - intros g' b' Hb' Ht. change (taken s' g' b' = true) in Ht. rewrite Htk in Ht. apply (v_taken _ HI); assumption.
    - intros g' b' Hb' Hd Ht. change (taken s' g' b' = false) in Ht. rewrite Htk in Ht. apply (v_deliv _ HI); assumption.
    - pose proof (v_total _ HI) as T. unfold total in *. unfold s'. cbn [popped avail ipop idel slots nb bs sp].
      pose proof (sumf_upd (fun b0 => is_merge (bs s b0)) b (is_merge x) B HbB) as S2. cbn beta in S2.
      rewrite (sumf_ext (fun b0 => is_merge (upd (bs s) b x b0)) (upd (fun b0 => is_merge (bs s b0)) b (is_merge x)) B).
      2:{ intros k _. unfold upd. destruct (Nat.eqb k b); reflexivity. }
      nia.
  Qed.

  Lemma step_return s s' b : Inv s -> step s (EReturn b) = Some s' -> Inv s'.
  Proof.
    intros HI H. cbn [Model.step] in H. destruct (bs s b) eqn:Eb; try discriminate. injection H as <-.
    assert (HbB : b < B) by (apply (active_in_range s b HI); congruence).
    apply (inv_set_bs s b BLoad HI HbB); rewrite ?Eb; try reflexivity; try discriminate; cbn [is_merge]; lia.
  Qed.

  Lemma inv_advance s b : Inv s -> b < B -> merging (bs s b) = true -> is_merge (bs s b) = 0 -> Inv (advance G s b).
  Proof.
    intros HI HbB Hm Him. unfold advance.
    assert (Hnp : bs s b <> BParked) by (intros E; rewrite E in Hm; discriminate).
    assert (Hnd : bs s b <> BDone) by (intros E; rewrite E in Hm; discriminate).
    assert (HnG : nb s b < G) by (apply (v_nb _ HI b HbB); assumption).
    set (x := if S (nb s b) =? G then BDone else BTake).
    set (s' := {| popped := popped s; avail := avail s; ipop := ipop s; idel := idel s; slots := slots s;
                  nb := upd (nb s) b (S (nb s b)); bs := upd (bs s) b x; sp := sp s |}).
    assert (Hxm : merging x = false) by (unfold x; destruct (S (nb s b) =? G); reflexivity).
    assert (Htk : forall g' b', b' <> b -> taken s' g' b' = taken s g' b').
    { intros g' b' Hb. unfold taken, s'. cbn [nb bs]. rewrite !updn_other by assumption. reflexivity. }
    assert (Htkb : forall g', taken s' g' b = taken s g' b).
    { intros g'. unfold taken, s'. cbn [nb bs]. rewrite !updn_same, Hxm, Hm, andb_false_r, andb_true_r, orb_false_r.
      destruct (Nat.ltb_spec g' (S (nb s b))); destruct (Nat.ltb_spec g' (nb s b)); destruct (Nat.eqb_spec g' (nb s b)); try reflexivity; lia. }
    assert (Htka : forall g' b', taken s' g' b' = taken s g' b').
    { intros g' b'. destruct (Nat.eq_dec b' b) as [->|Hb]; [apply Htkb|apply Htk; assumption]. }
    fold s'. split; cbn [popped avail ipop idel slots nb bs sp s']; try (same HI).
    - intros b' Hb'. rewrite updn_other by lia. apply (v_out _ HI); assumption.
    - intros b' a. destruct (Nat.eq_dec b' b) as [->|Hb]; [rewrite updn_same; unfold x; destruct (S (nb s b) =? G); discriminate|rewrite updn_other by assumption; apply (v_cas _ HI)].
    - intros b' Hb'. destruct (Nat.eq_dec b' b) as [->|Hb]; [rewrite !updn_same|rewrite !updn_other by assumption; apply (v_nb _ HI); assumption].
      unfold x. destruct (Nat.eqb_spec (S (nb s b)) G) as [E|E]; split; intros Hx; try congruence; try lia.
    - intros b' Hb' Hp. destruct (Nat.eq_dec b' b) as [->|Hb].
      + rewrite updn_same in Hp. unfold x in Hp. destruct (S (nb s b) =? G); discriminate.
      + rewrite updn_other in Hp by assumption. rewrite updn_other by assumption. apply (v_park _ HI); assumption.
    - intros g' b' Hw. destruct (v_wait _ HI _ _ Hw) as (A & Bp & C).
      assert (b' <> b) by (intros ->; contradiction). rewrite !updn_other by assumption. repeat split; assumption.
    - intros g' b' Hs. destruct (v_str _ HI _ _ Hs) as (A & Bq & C & D). repeat split; try assumption.
      change (taken s' g' b' = false). rewrite Htka. assumption.
    - intros g' b' Hb' Ht. change (taken s' g' b' = true) in Ht. rewrite Htka in Ht. apply (v_taken _ HI); assumption.
    - intros g' b' Hb' Hd Ht. change (taken s' g' b' = false) in Ht. rewrite Htka in Ht. apply (v_deliv _ HI); assumption.
    - pose proof (v_total _ HI) as T. unfold total in *. unfold s'. cbn [popped avail ipop idel slots nb bs sp].
      pose proof (sumf_upd (fun b0 => is_merge (bs s b0)) b 0 B HbB) as S2. cbn beta in S2. rewrite Him in S2.
      rewrite (sumf_ext (fun b0 => is_merge (upd (bs s) b x b0)) (upd (fun b0 => is_merge (bs s b0)) b 0) B).
      2:{ intros k _. unfold upd. destruct (Nat.eqb k b); [unfold x; destruct (S (nb s b) =? G); reflexivity|reflexivity]. }
      lia.
  Qed.

  Lemma step_bload s s' b : Inv s -> step s (EBLoad b) = Some s' -> Inv s'.
  Proof.
    intros HI H. cbn [Model.step] in H. destruct (bs s b) eqn:Eb; try discriminate.
    assert (HbB : b < B) by (apply (active_in_range s b HI); congruence).
    destruct (Nat.ltb_spec (avail s) B); injection H as <-.
    - apply inv_advance; try assumption; rewrite Eb; reflexivity.
    - unfold set_bs. apply (inv_set_bs s b (BCas (avail s)) HI HbB); rewrite ?Eb; try reflexivity; try discriminate; cbn [is_merge]; try lia.
      intros a [= <-]. assumption.
  Qed.

  Lemma step_bcas s s' b : Inv s -> step s (EBCas b) = Some s' -> Inv s'.
  Proof.
    intros HI H. cbn [Model.step] in H. destruct (bs s b) eqn:Eb; try discriminate.
    assert (HbB : b < B) by (apply (active_in_range s b HI); congruence).
    pose proof (v_cas _ HI b a Eb) as Ha.
    destruct (Nat.eqb_spec (avail s) a) as [E|E]; injection H as <-.
    - apply (inv_set_bs s b BLoad HI HbB); rewrite ?Eb; try reflexivity; try discriminate; cbn [is_merge]; nia.
    - apply inv_advance; try assumption; rewrite Eb; reflexivity.
  Qed.

  Theorem inv_step s s' e : Inv s -> step s e = Some s' -> Inv s'.
  Proof.
    intros HI H. destruct e.
    - eapply step_spload; eassumption.
    - eapply step_spcas; eassumption.
    - eapply step_pop; eassumption.
    - eapply step_deliver; eassumption.
    - eapply step_take; eassumption.
    - eapply step_return; eassumption.
    - eapply step_bload; eassumption.
    - eapply step_bcas; eassumption.
  Qed.

  Theorem inv_reachable s : reachable s -> Inv s.
  Proof.
    intros [es H]. revert s H. generalize inv_init. generalize init as s0.
    induction es as [|e t IH]; intros s0 H0 s H; cbn in H; [injection H as <-; assumption|].
    destruct (step s0 e) as [s1|] eqn:E; [|discriminate]. eapply IH; [eapply inv_step; eassumption|eassumption].
  Qed.

  (* ---------------- theorems ---------------- *)
  Theorem pool_restored s : reachable s -> (forall b, b < B -> bs s b = BDone) -> ipop s = 0 -> avail s = cap.
  Proof.
    intros Hr Hd Hip. pose proof (inv_reachable s Hr) as HI. pose proof (v_total _ HI) as T. unfold total in T.
    assert (Htk : forall g b, g < G -> b < B -> taken s g b = true).
    { intros g b Hg Hb. unfold taken. destruct (v_nb _ HI b Hb) as [_ Hn]. rewrite (Hn (Hd b Hb)).
      apply orb_true_iff. left. apply Nat.ltb_lt. assumption. }
    assert (S1 : sumf (fun b => is_merge (bs s b)) B = 0).
    { apply sumf_zero. intros b Hb. rewrite (Hd b Hb). reflexivity. }
    assert (S2 : nstrings (slots s) = 0).
    { unfold nstrings. apply sumf_zero. intros g Hg. apply sumf_zero. intros b Hb.
      destruct (slots s g b) eqn:Es; try reflexivity. destruct (v_str _ HI _ _ Es) as (_ & _ & _ & D). rewrite Htk in D by assumption. discriminate. }
    assert (S3 : sumf (fun g => pend (idel s g)) G = 0).
    { apply sumf_zero. intros g Hg. destruct (idel s g) as [i|] eqn:Ei; [|reflexivity]. cbn [pend].
      destruct B as [|B'] eqn:EB; [reflexivity|].
      assert (Hdl : delivered s g B' = true) by (apply (v_taken _ HI); [lia|apply Htk; lia]).
      unfold delivered in Hdl. rewrite Ei in Hdl. apply Nat.ltb_lt in Hdl. lia. }
    rewrite S1, S2, S3, Hip in T. lia.
  Qed.

  (* a bucket only ever merges the strings of its next group, which that group's input task delivered and which it had not taken *)
  Theorem take_is_next_group s s' b : reachable s -> step s (ETake b) = Some s' -> bs s' b = BMerge ->
    slots s (nb s b) b = SStrings /\ delivered s (nb s b) b = true /\ taken s (nb s b) b = false /\ nb s' b = nb s b /\ taken s' (nb s b) b = true.
  Proof.
    intros Hr H Hm. pose proof (inv_reachable s Hr) as HI. cbn [Model.step] in H.
    destruct (bs s b) eqn:Eb; try discriminate.
    destruct (slots s (nb s b) b) eqn:Es; injection H as <-; cbn [bs nb] in *; rewrite updn_same in Hm; try discriminate.
    destruct (v_str _ HI _ _ Es) as (_ & _ & C & D).
    repeat split; try assumption. unfold taken. cbn [nb bs]. rewrite updn_same, Nat.eqb_refl. cbn. apply orb_true_r.
  Qed.

  (* the group counter of a bucket moves only by one, and only after a merge (advance) *)
  Theorem groups_in_order s s' e b : step s e = Some s' -> nb s' b = nb s b \/ (nb s' b = S (nb s b) /\ merging (bs s b) = true).
  Proof.
    intros H. destruct e; cbn [Model.step] in H;
      repeat match type of H with
             | match ?c with _ => _ end = _ => destruct c eqn:?; try discriminate
             | (if ?c then _ else _) = _ => destruct c eqn:?; try discriminate
             end; injection H as <-; cbn [nb advance set_bs]; try (left; reflexivity).
    all: unfold upd; destruct (Nat.eqb_spec b b0) as [->|]; [right; split; [reflexivity|]|left; reflexivity].
    all: match goal with [ h : bs _ _ = _ |- _ ] => rewrite h; reflexivity end.
  Qed.

  Definition terminal (s : state) : Prop := forall e, step s e = None.

  (* partial progress: once every group has been popped, a state in which nothing can move is the finished state *)
  Theorem terminal_done_partial s : reachable s -> terminal s -> popped s = G ->
    (forall b, b < B -> bs s b = BDone) /\ avail s = cap /\ ipop s = 0.
  Proof.
    intros Hr Ht Hp. pose proof (inv_reachable s Hr) as HI.
    assert (Hip : ipop s = 0).
    { pose proof (Ht EPop) as H. cbn [Model.step] in H. destruct (Nat.eqb_spec (ipop s) 0); [assumption|].
      destruct (popped s <? G); discriminate. }
    assert (Hdel : forall g, g < G -> idel s g = Some B).
    { intros g Hg. destruct (idel s g) as [i|] eqn:Ei; [|exfalso; apply (v_idel2 _ HI g); [lia|assumption]].
      destruct (v_idel _ HI _ _ Ei) as [_ Hi]. pose proof (Ht (EDeliver g)) as H. cbn [Model.step] in H. rewrite Ei in H.
      destruct (Nat.ltb_spec i B); [discriminate|]. f_equal. lia. }
    assert (Hdone : forall b, b < B -> bs s b = BDone).
    { intros b Hb. destruct (bs s b) eqn:Eb; try reflexivity; exfalso.
      - pose proof (v_park _ HI b Hb Eb) as Hw. destruct (v_wait _ HI _ _ Hw) as (_ & _ & C).
        assert (HnG : nb s b < G) by (apply (v_nb _ HI b Hb); congruence).
        unfold delivered in C. rewrite (Hdel _ HnG) in C. apply Nat.ltb_ge in C. lia.
      - pose proof (Ht (ETake b)) as H. cbn [Model.step] in H. rewrite Eb in H. destruct (slots s (nb s b) b); discriminate.
      - pose proof (Ht (EReturn b)) as H. cbn [Model.step] in H. rewrite Eb in H. discriminate.
      - pose proof (Ht (EBLoad b)) as H. cbn [Model.step] in H. rewrite Eb in H. destruct (avail s <? B); discriminate.
      - pose proof (Ht (EBCas b)) as H. cbn [Model.step] in H. rewrite Eb in H. destruct (avail s =? a); discriminate. }
    split; [assumption|]. split; [apply pool_restored; assumption|assumption].
  Qed.

End Proofs.
