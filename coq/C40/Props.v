(* C40 — property theorems only.  All statements quantify over every reachable state of the transition function
   Model.step, i.e. over every interleaving of input tasks, bucket tasks and spawners, for any number G >= 1 of input
   groups, any number B of buckets and any pool capacity >= B. *)
From Coq Require Import List Bool Arith.
From WV Require Import C40.Model C40.Proofs.

Section Statements.
  Variable G B cap : nat.
  Hypothesis G_pos : 0 < G.
  Hypothesis cap_mult : B <= cap.

  (* exactly once, in group order: a bucket merges only the strings of its next group; they were delivered by that group's
     input task and had not been taken; afterwards they count as taken; the group counter moves by one, only after a merge *)
  Theorem C40_take_is_next_group : forall s s' b, reachable G B cap s -> step G B s (ETake b) = Some s' -> bs s' b = BMerge ->
    slots s (nb s b) b = SStrings /\ delivered s (nb s b) b = true /\ taken s (nb s b) b = false /\
    nb s' b = nb s b /\ taken s' (nb s b) b = true.
  Proof. exact (take_is_next_group G B cap G_pos cap_mult). Qed.
  Theorem C40_groups_in_order : forall s s' e b, step G B s e = Some s' ->
    nb s' b = nb s b \/ (nb s' b = S (nb s b) /\ merging (bs s b) = true).
  Proof. exact (groups_in_order G B). Qed.

  (* the conservation invariant and its consequence: when all buckets are done the pool is full again (the assert_eq! of merge_strings) *)
  Theorem C40_pool_conserved : forall s, reachable G B cap s -> total G B s = cap.
  Proof. intros s Hr. exact (v_total G B cap s (inv_reachable G B cap G_pos cap_mult s Hr)). Qed.
  Theorem C40_pool_restored : forall s, reachable G B cap s -> (forall b, b < B -> bs s b = BDone) -> ipop s = 0 -> avail s = cap.
  Proof. exact (pool_restored G B cap G_pos cap_mult). Qed.

  (* a delivered and not yet taken vector is always found in its slot (no hand-off is lost), and a bucket parked in a slot waits for a group that has not been delivered to it *)
  Theorem C40_no_lost_handoff : forall s g b, reachable G B cap s -> b < B -> delivered s g b = true -> taken s g b = false -> slots s g b = SStrings.
  Proof. intros s g b Hr. exact (v_deliv G B cap s (inv_reachable G B cap G_pos cap_mult s Hr) g b). Qed.
  Theorem C40_parked_waits_for_undelivered : forall s g b, reachable G B cap s -> slots s g b = SWaiting ->
    g = nb s b /\ bs s b = BParked /\ delivered s g b = false.
  Proof. intros s g b Hr. exact (v_wait G B cap s (inv_reachable G B cap G_pos cap_mult s Hr) g b). Qed.

  (* progress, PARTIAL: if nothing can move and every group has been popped, everything is finished.  Not proved: that a
     state in which nothing can move has popped every group (the "failed CAS never strands input groups" argument). *)
  Theorem C40_terminal_done_partial : forall s, reachable G B cap s -> terminal G B s -> popped s = G ->
    (forall b, b < B -> bs s b = BDone) /\ avail s = cap /\ ipop s = 0.
  Proof. exact (terminal_done_partial G B cap G_pos cap_mult). Qed.
End Statements.

Print Assumptions C40_take_is_next_group.
Print Assumptions C40_groups_in_order.
Print Assumptions C40_pool_conserved.
Print Assumptions C40_pool_restored.
Print Assumptions C40_no_lost_handoff.
Print Assumptions C40_parked_waits_for_undelivered.
Print Assumptions C40_terminal_done_partial.
