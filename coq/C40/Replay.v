(* C40 — trace validation: a recorded history is accepted iff every event is an enabled step of Model.step whose
   observable values (loaded value, CAS expectation and outcome, popped group, delivered bucket and whether a parked bucket
   was found, group a bucket tried to take and whether the strings were there) are the ones the model computes, and the
   history ends in the finished state. *)
From Coq Require Import List Bool Arith.
From WV Require Import C40.Model.
Import ListNotations.

Definition b2n (b : bool) : nat := if b then 1 else 0.

(* what the model says the event observes in state s *)
Definition observe (G B : nat) (s : state) (e : event) : nat * nat :=
  match e with
  | ESpLoad => (avail s, 0)
  | ESpCas => match sp s with SpCas a => (a, b2n (Nat.eqb (avail s) a)) | _ => (0, 2) end
  | EPop => if popped s <? G then (S (popped s), 0) else (0, 0)
  | EDeliver g => match idel s g with Some i => (i, b2n (match slots s g i with SWaiting => true | _ => false end)) | None => (0, 2) end
  | ETake b => (nb s b, b2n (match slots s (nb s b) b with SStrings => true | _ => false end))
  | EReturn b => (0, 0)
  | EBLoad b => (avail s, 0)
  | EBCas b => match bs s b with BCas a => (a, b2n (Nat.eqb (avail s) a)) | _ => (0, 2) end
  end.

Fixpoint replay (G B : nat) (s : state) (es : list (event * nat * nat)) (i : nat) : state + nat :=
  match es with
  | [] => inl s
  | (e, o1, o2) :: t =>
      let '(m1, m2) := observe G B s e in
      if Nat.eqb m1 o1 && Nat.eqb m2 o2 then
        match step G B s e with Some s' => replay G B s' t (S i) | None => inr i end
      else inr i
  end.

Definition finished (G B cap : nat) (s : state) : bool :=
  Nat.eqb (popped s) G && Nat.eqb (avail s) cap && Nat.eqb (ipop s) 0 &&
  forallb (fun b => match bs s b with BDone => true | _ => false end) (seq 0 B) &&
  forallb (fun g => match idel s g with Some i => Nat.eqb i B | None => false end) (seq 0 G) &&
  forallb (fun g => forallb (fun b => match slots s g b with SEmpty => true | _ => false end) (seq 0 B)) (seq 0 G) &&
  match sp s with SpEnd => true | _ => false end.

Definition validate (G B cap : nat) (es : list (event * nat * nat)) : nat * nat :=
  match replay G B (init cap) es 0 with
  | inr i => (1, i)
  | inl s => if finished G B cap s then (0, 0) else (2, 0)
  end.
