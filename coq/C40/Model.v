(* C40 — the hand-off protocol of libwild/src/string_merging.rs::add_input_sections:
   try_spawn_input_processing (try_reserve: load + compare_exchange on ReusePool.available; a failed CAS ends the spawner),
   process_input_section_group (pop a group, deliver one vector of strings per bucket through the per-(group,bucket) slot),
   work_with_bucket (take the strings of the next group or park in the slot; return the vector; re-run the spawner; advance),
   unreserve.  One event = one atomic instruction or one slot-mutex critical section.
   The model is executable: [step] is a partial function of the event label, so it is at the same time the transition
   relation the theorems quantify over and the validator that replays recorded histories (T3). *)
From Coq Require Import List Bool Arith Lia.
Import ListNotations.

Inductive slot := SEmpty | SStrings | SWaiting.
Inductive bst := BParked | BTake | BMerge | BLoad | BCas (a : nat) | BDone.
Inductive spst := SpLoad | SpCas (a : nat) | SpEnd.

Record state := {
  popped : nat;                        (* unprocessed queue = groups popped .. ngroups-1 *)
  avail : nat;                         (* ReusePool.available *)
  ipop : nat;                          (* input tasks that hold a reservation and have not popped yet *)
  idel : nat -> option nat;            (* group -> next bucket to deliver to (Some B = all delivered) *)
  slots : nat -> nat -> slot;          (* group, bucket *)
  nb : nat -> nat;                     (* bucket -> next_input_group_index *)
  bs : nat -> bst;
  sp : spst                            (* the spawner started by add_input_sections itself *)
}.

Inductive event :=
| ESpLoad | ESpCas            (* standalone spawner: load available / compare_exchange *)
| EPop                        (* an input task pops the queue (or finds it empty and unreserves) *)
| EDeliver (g : nat)          (* the input task of group g swaps its strings into the next bucket's slot *)
| ETake (b : nat)             (* bucket task: lock slot (nb b, b): take strings or park *)
| EReturn (b : nat)           (* return_strings_to_merge: available += 1 *)
| EBLoad (b : nat) | EBCas (b : nat).   (* the spawner run inline by the bucket task *)

Section M.
  Variable G : nat.      (* number of input groups, >= 1 *)
  Variable B : nat.      (* number of buckets = vectors per reservation (16) *)
  Variable cap : nat.    (* pool capacity = B * split parallelism *)

  Definition upd {A} (f : nat -> A) (k : nat) (v : A) : nat -> A := fun x => if Nat.eqb x k then v else f x.
  Definition upd2 (f : nat -> nat -> slot) (g b : nat) (v : slot) : nat -> nat -> slot :=
    fun x y => if Nat.eqb x g && Nat.eqb y b then v else f x y.

  Definition init : state :=
    {| popped := 0; avail := cap; ipop := 0; idel := fun _ => None;
       slots := fun g _ => if Nat.eqb g 0 then SWaiting else SEmpty;
       nb := fun _ => 0; bs := fun _ => BParked; sp := SpLoad |}.

  (* a bucket finished with group nb b: advance *)
  Definition advance (s : state) (b : nat) : state :=
    let n := S (nb s b) in
    {| popped := popped s; avail := avail s; ipop := ipop s; idel := idel s; slots := slots s;
       nb := upd (nb s) b n; bs := upd (bs s) b (if Nat.eqb n G then BDone else BTake); sp := sp s |}.

  Definition set_bs (s : state) (b : nat) (x : bst) : state :=
    {| popped := popped s; avail := avail s; ipop := ipop s; idel := idel s; slots := slots s; nb := nb s; bs := upd (bs s) b x; sp := sp s |}.

  Definition step (s : state) (e : event) : option state :=
    match e with
    | ESpLoad =>
        match sp s with
        | SpLoad => Some {| popped := popped s; avail := avail s; ipop := ipop s; idel := idel s; slots := slots s; nb := nb s; bs := bs s;
                           sp := if avail s <? B then SpEnd else SpCas (avail s) |}
        | _ => None end
    | ESpCas =>
        match sp s with
        | SpCas a =>
            if Nat.eqb (avail s) a
            then Some {| popped := popped s; avail := avail s - B; ipop := S (ipop s); idel := idel s; slots := slots s; nb := nb s; bs := bs s; sp := SpLoad |}
            else Some {| popped := popped s; avail := avail s; ipop := ipop s; idel := idel s; slots := slots s; nb := nb s; bs := bs s; sp := SpEnd |}
        | _ => None end
    | EPop =>
        if Nat.eqb (ipop s) 0 then None
        else if popped s <? G
        then Some {| popped := S (popped s); avail := avail s; ipop := ipop s - 1; idel := upd (idel s) (popped s) (Some 0);
                     slots := slots s; nb := nb s; bs := bs s; sp := sp s |}
        else Some {| popped := popped s; avail := avail s + B; ipop := ipop s - 1; idel := idel s; slots := slots s; nb := nb s; bs := bs s; sp := sp s |}
    | EDeliver g =>
        match idel s g with
        | Some i =>
            if i <? B then
              let woke := match slots s g i with SWaiting => true | _ => false end in
              Some {| popped := popped s; avail := avail s; ipop := ipop s; idel := upd (idel s) g (Some (S i));
                      slots := upd2 (slots s) g i SStrings; nb := nb s;
                      bs := if woke then upd (bs s) i BTake else bs s; sp := sp s |}
            else None
        | None => None end
    | ETake b =>
        match bs s b with
        | BTake =>
            match slots s (nb s b) b with
            | SStrings => Some {| popped := popped s; avail := avail s; ipop := ipop s; idel := idel s;
                                  slots := upd2 (slots s) (nb s b) b SEmpty; nb := nb s; bs := upd (bs s) b BMerge; sp := sp s |}
            | _ => Some {| popped := popped s; avail := avail s; ipop := ipop s; idel := idel s;
                           slots := upd2 (slots s) (nb s b) b SWaiting; nb := nb s; bs := upd (bs s) b BParked; sp := sp s |}
            end
        | _ => None end
    | EReturn b =>
        match bs s b with
        | BMerge => Some {| popped := popped s; avail := S (avail s); ipop := ipop s; idel := idel s; slots := slots s; nb := nb s;
                            bs := upd (bs s) b BLoad; sp := sp s |}
        | _ => None end
    | EBLoad b =>
        match bs s b with
        | BLoad => if avail s <? B then Some (advance s b) else Some (set_bs s b (BCas (avail s)))
        | _ => None end
    | EBCas b =>
        match bs s b with
        | BCas a =>
            if Nat.eqb (avail s) a
            then Some {| popped := popped s; avail := avail s - B; ipop := S (ipop s); idel := idel s; slots := slots s; nb := nb s;
                         bs := upd (bs s) b BLoad; sp := sp s |}
            else Some (advance s b)
        | _ => None end
    end.

  Fixpoint run (s : state) (es : list event) : option state :=
    match es with [] => Some s | e :: t => match step s e with Some s' => run s' t | None => None end end.

  Definition reachable (s : state) : Prop := exists es, run init es = Some s.
End M.
