(* C39 / C05 — the parallel traversal of libwild/src/layout.rs (find_required_sections,
   GroupActivationInputs::activate_group, GroupState::do_pending_work, GraphResources::send_work),
   as a labelled transition system.  One step = one critical section / atomic instruction:

     Activate g   activate_group up to (and including) the push to the delay queue
     Handle g     do_pending_work pops one work item and runs its handler (handler = `succ`,
                  de-duplicated through the global `done` set, as the atomic per-symbol flags /
                  section slots de-duplicate in the code); the requests it produces go to `outbox`
     Fail g       the handler returns an error: report_error; the worker is dropped
     Send g       one request leaves the outbox: same group -> local queue; other group ->
                  send_work: lock slot, take parked worker, push, unlock, spawn
     Swap g / Park g   the two outcomes of the slot lock at the end of do_pending_work
     Count g      activations_remaining.fetch_sub; the last one drains the delay queue

   A group's state is owned by exactly one of: the task running it, its slot (parked), the delay
   queue; Rust's move semantics enforce that (GroupState is moved, never shared), so [status]
   is a function here. *)
From Coq Require Import List Bool Arith Lia.
Import ListNotations.

Section TS.
  Variable item : Type.
  Variable item_eqb : item -> item -> bool.
  Hypothesis item_eqb_spec : forall a b, reflect (a = b) (item_eqb a b).
  Variable grp : item -> nat.                 (* the group whose worker must handle the item *)
  Variable succ : item -> list item.          (* requests produced when the item is handled for the first time *)
  Variable roots : nat -> list item.          (* what activation of a group queues *)
  Variable synthetic : nat -> bool.           (* the group holding the synthetic-symbols file *)
  Variable groups : list nat.

  Inductive status := NotAct | Running | Delayed | Parked | Dropped.

  Record gstate := { st : status; local : list item; outbox : list item; slot : list item; act : nat }.
  (* act: 0 not started; 1 activation task is running the worker's first do_pending_work;
          2 activation task is about to fetch_sub; 3 done *)

  Record state := { gs : nat -> gstate; done : list item; remaining : nat; delayq : option nat; errs : nat }.

  Definition upd (f : nat -> gstate) (g : nat) (x : gstate) : nat -> gstate :=
    fun h => if Nat.eqb h g then x else f h.

  Definition mem (i : item) (l : list item) : bool := existsb (item_eqb i) l.

  Definition g0 : gstate := {| st := NotAct; local := []; outbox := []; slot := []; act := 0 |}.
  Definition init : state :=
    {| gs := fun _ => g0; done := []; remaining := length groups; delayq := None; errs := 0 |}.

  Definition set_st (x : gstate) (s : status) := {| st := s; local := local x; outbox := outbox x; slot := slot x; act := act x |}.
  Definition first_return (x : gstate) : nat := if Nat.eqb (act x) 1 then 2 else act x.

  Inductive step : state -> state -> Prop :=
  | S_activate s g : In g groups -> st (gs s g) = NotAct -> (synthetic g = true -> delayq s = None) ->
      step s {| gs := upd (gs s) g {| st := if synthetic g then Delayed else Running; local := roots g; outbox := [];
                                      slot := slot (gs s g); act := if synthetic g then 2 else 1 |};
                done := done s; remaining := remaining s;
                delayq := if synthetic g then Some g else delayq s; errs := errs s |}
  | S_handle s g i l : st (gs s g) = Running -> outbox (gs s g) = [] -> local (gs s g) = i :: l ->
      step s {| gs := upd (gs s) g {| st := Running; local := l; outbox := if mem i (done s) then [] else succ i;
                                      slot := slot (gs s g); act := act (gs s g) |};
                done := if mem i (done s) then done s else i :: done s;
                remaining := remaining s; delayq := delayq s; errs := errs s |}
  | S_fail s g i l : st (gs s g) = Running -> outbox (gs s g) = [] -> local (gs s g) = i :: l ->
      step s {| gs := upd (gs s) g {| st := Dropped; local := []; outbox := []; slot := slot (gs s g);
                                      act := first_return (gs s g) |};
                done := done s; remaining := remaining s; delayq := delayq s; errs := S (errs s) |}
  | S_send_local s g n rest : st (gs s g) = Running -> outbox (gs s g) = n :: rest -> grp n = g ->
      step s {| gs := upd (gs s) g {| st := Running; local := n :: local (gs s g); outbox := rest;
                                      slot := slot (gs s g); act := act (gs s g) |};
                done := done s; remaining := remaining s; delayq := delayq s; errs := errs s |}
  | S_send s g n rest : st (gs s g) = Running -> outbox (gs s g) = n :: rest -> grp n <> g ->
      let h := grp n in
      let s1 := upd (gs s) g {| st := Running; local := local (gs s g); outbox := rest;
                                slot := slot (gs s g); act := act (gs s g) |} in
      step s {| gs := upd s1 h {| st := match st (s1 h) with Parked => Running | x => x end;
                                  local := local (s1 h); outbox := outbox (s1 h);
                                  slot := slot (s1 h) ++ [n]; act := act (s1 h) |};
                done := done s; remaining := remaining s; delayq := delayq s; errs := errs s |}
  | S_swap s g : st (gs s g) = Running -> outbox (gs s g) = [] -> local (gs s g) = [] -> slot (gs s g) <> [] ->
      step s {| gs := upd (gs s) g {| st := Running; local := slot (gs s g); outbox := []; slot := []; act := act (gs s g) |};
                done := done s; remaining := remaining s; delayq := delayq s; errs := errs s |}
  | S_park s g : st (gs s g) = Running -> outbox (gs s g) = [] -> local (gs s g) = [] -> slot (gs s g) = [] ->
      step s {| gs := upd (gs s) g {| st := Parked; local := []; outbox := []; slot := []; act := first_return (gs s g) |};
                done := done s; remaining := remaining s; delayq := delayq s; errs := errs s |}
  | S_count s g : act (gs s g) = 2 ->
      let s1 := upd (gs s) g {| st := st (gs s g); local := local (gs s g); outbox := outbox (gs s g);
                                slot := slot (gs s g); act := 3 |} in
      let last := Nat.eqb (remaining s) 1 in
      step s {| gs := match delayq s with
                      | Some d => if last then upd s1 d (set_st (s1 d) Running) else s1
                      | None => s1 end;
                done := done s; remaining := remaining s - 1;
                delayq := if last then None else delayq s; errs := errs s |}.

  Inductive reachable : state -> Prop :=
  | R_init : reachable init
  | R_step s s' : reachable s -> step s s' -> reachable s'.

  Definition terminal (s : state) : Prop := forall s', ~ step s s'.

  (* the closure the traversal is meant to compute *)
  Inductive Reach : item -> Prop :=
  | Reach_root g i : In g groups -> In i (roots g) -> Reach i
  | Reach_succ i n : Reach i -> In n (succ i) -> Reach n.
End TS.

Arguments st {item} _. Arguments local {item} _. Arguments outbox {item} _. Arguments slot {item} _. Arguments act {item} _.
Arguments gs {item} _ _. Arguments done {item} _. Arguments remaining {item} _. Arguments delayq {item} _. Arguments errs {item} _.
Arguments upd {item} _ _ _ _.
Arguments g0 {item}.
Arguments first_return {item} _.
