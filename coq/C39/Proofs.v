From Coq Require Import List Bool Arith Lia.
From WV Require Import C39.Model.
Import ListNotations.

Section Proofs.
  Variable item : Type.
  Variable item_eqb : item -> item -> bool.
  Hypothesis item_eqb_spec : forall a b, reflect (a = b) (item_eqb a b).
  Variable grp : item -> nat.
  Variable succ : item -> list item.
  Variable roots : nat -> list item.
  Variable synthetic : nat -> bool.
  Variable groups : list nat.
  Hypothesis groups_nodup : NoDup groups.
  Hypothesis grp_ok : forall i, In (grp i) groups.
  Hypothesis one_synthetic : forall g h, synthetic g = true -> synthetic h = true -> g = h.

  Notation state := (state item).
  Notation gstate := (gstate item).
  Notation step := (step item item_eqb grp succ roots synthetic groups).
  Notation reachable := (reachable item item_eqb grp succ roots synthetic groups).
  Notation init := (init item groups).
  Notation Reach := (Reach item succ roots groups).
  Notation mem := (mem item item_eqb).

  Lemma mem_In i l : mem i l = true <-> In i l.
  Proof.
    unfold Model.mem. rewrite existsb_exists. split.
    - intros (x & Hx & E). destruct (item_eqb_spec i x); [subst; assumption|discriminate].
    - intros H. exists i. split; [assumption|]. destruct (item_eqb_spec i i); [reflexivity|contradiction].
  Qed.

  Lemma upd_same (f : nat -> gstate) g x : upd f g x g = x.
  Proof. unfold upd. rewrite Nat.eqb_refl. reflexivity. Qed.
  Lemma upd_other (f : nat -> gstate) g x h : h <> g -> upd f g x h = f h.
  Proof. intros H. unfold upd. destruct (Nat.eqb_spec h g); [contradiction|reflexivity]. Qed.

  Definition pending (s : state) (n : item) : Prop :=
    exists g, In n (local (gs s g)) \/ In n (outbox (gs s g)) \/ In n (slot (gs s g)).

  Definition cnt (f : nat -> gstate) : nat := length (filter (fun g => negb (Nat.eqb (act (f g)) 3)) groups).


  Lemma pending_init n : ~ pending init n.
  Proof. intros (g & [H|[H|H]]); exact H. Qed.

  Lemma cnt_init : cnt (fun _ => g0) = length groups.
  Proof. unfold cnt. cbn. clear. induction groups as [|a l IH]; cbn; [reflexivity|]. f_equal. apply IH.
  Qed.

  Ltac updc h g := destruct (Nat.eq_dec h g) as [?|?]; [subst; rewrite ?upd_same in *|rewrite ?(upd_other _ _ _ h) in * by assumption].

  Record SInv (s : state) : Prop := {
    s_parked : forall g, st (gs s g) = Parked -> local (gs s g) = [] /\ outbox (gs s g) = [] /\ slot (gs s g) = [];
    s_notact : forall g, st (gs s g) = NotAct -> local (gs s g) = [] /\ outbox (gs s g) = [] /\ act (gs s g) = 0;
    s_act0 : forall g, act (gs s g) = 0 -> st (gs s g) = NotAct;
    s_act1 : forall g, act (gs s g) = 1 -> st (gs s g) = Running;
    s_actle : forall g, act (gs s g) <= 3;
    s_dropped : forall g, st (gs s g) = Dropped -> errs s > 0 /\ local (gs s g) = [] /\ outbox (gs s g) = [];
    s_delayed : forall g, st (gs s g) = Delayed <-> delayq s = Some g;
    s_delayed_act : forall g, st (gs s g) = Delayed -> 2 <= act (gs s g) /\ outbox (gs s g) = []
  }.

  Ltac fin := try solve [auto]; try solve [intuition (try discriminate; try lia; try congruence; auto)].

  Ltac fin2 HS := fin;
    try (let E := fresh "E" in intros E; match type of E with act _ = 0 => apply (s_act0 _ HS) in E | act _ = 1 => apply (s_act1 _ HS) in E end; congruence);
    try (split; [discriminate|let E := fresh "E" in intros E; apply (s_delayed _ HS) in E; congruence]).
  Lemma sinv_step s s' : SInv s -> step s s' -> SInv s'.
  Proof.
    intros HS Hs. pose proof HS as [P1 P2 P3 P4 P5 P6 P7 P8].
    inversion Hs; subst; clear Hs.
    - (* activate *)
      split; cbn [gs done remaining delayq errs]; intros h; updc h g; cbn [st local outbox slot act]; fin;
        destruct (synthetic g) eqn:Esy; fin.
      + split; [discriminate|]. intros E. apply P7 in E. congruence.
      + rewrite P7. split; intros E; [rewrite (H1 eq_refl) in E; discriminate|injection E as ->; contradiction].
    - (* handle *)
      split; cbn [gs done remaining delayq errs]; intros h; updc h g; cbn [st local outbox slot act]; fin2 HS.
    - (* fail *)
      split; cbn [gs done remaining delayq errs]; intros h; updc h g; cbn [st local outbox slot act]; unfold first_return; fin;
        try (destruct (Nat.eqb_spec (act (gs s g)) 1)); fin2 HS.
      all: intros E; destruct (P6 h E) as (A & B & C); repeat split; auto; lia.
    - (* send local *)
      split; cbn [gs done remaining delayq errs]; intros h; updc h (grp n); cbn [st local outbox slot act]; fin2 HS.
    - (* send to another group *)
      split; cbn [gs done remaining delayq errs]; intros k; unfold h, s1 in *; clear h s1;
        updc k (grp n); cbn [st local outbox slot act].
      all: try (rewrite ?(upd_other _ g _ (grp n)) in * by congruence).
      all: try (updc k g; cbn [st local outbox slot act]).
      all: fin2 HS.
      all: destruct (st (gs s (grp n))) eqn:Et; try discriminate; fin2 HS.
      all: try (intros _; first [apply (P2 _ Et)|apply (P6 _ Et)|apply (P8 _ Et)]).
      all: split; [intros _; apply P7; exact Et|reflexivity].
    - (* swap *)
      split; cbn [gs done remaining delayq errs]; intros h; updc h g; cbn [st local outbox slot act]; fin2 HS.
    - (* park *)
      split; cbn [gs done remaining delayq errs]; intros h; updc h g; cbn [st local outbox slot act]; unfold first_return; fin;
        try (destruct (Nat.eqb_spec (act (gs s g)) 1)); fin2 HS.
    - (* count *)
      unfold s1, last in *; clear s1 last.
      assert (Hg : st (gs s g) <> NotAct) by (intros E; destruct (P2 _ E) as (_ & _ & A); lia).
      destruct (delayq s) as [d|] eqn:Ed; [destruct (Nat.eqb_spec (remaining s) 1)|].
      + (* the last activation: the delayed group is released *)
        assert (Hd : st (gs s d) = Delayed) by (apply P7; reflexivity).
        split; cbn [gs done remaining delayq errs]; intros h;
          (destruct (Nat.eq_dec h d) as [->|Hhd]; [rewrite upd_same|rewrite (upd_other _ _ _ h) by assumption]);
          unfold set_st; cbn [st local outbox slot act];
          (destruct (Nat.eq_dec d g) as [Hdg|Hdg]; [try subst d; rewrite ?upd_same|rewrite ?(upd_other _ g _ d) by assumption]);
          try (destruct (Nat.eq_dec h g) as [->|Hhg]; [rewrite ?upd_same|rewrite ?(upd_other _ g _ h) by assumption]);
          cbn [st local outbox slot act]; fin2 HS.
        all: try (intros E; split; [lia|apply (P8 _ E)]).
        all: split; [intros E; apply P7 in E; congruence|discriminate].
      + (* not the last: nothing is released *)
        split; cbn [gs done remaining delayq errs]; intros h;
          (destruct (Nat.eq_dec h g) as [->|Hhg]; [rewrite ?upd_same|rewrite ?(upd_other _ g _ h) by assumption]);
          cbn [st local outbox slot act]; fin2 HS.
        all: intros E; split; [lia|apply (P8 _ E)].
      + split; cbn [gs done remaining delayq errs]; intros h;
          (destruct (Nat.eq_dec h g) as [->|Hhg]; [rewrite ?upd_same|rewrite ?(upd_other _ g _ h) by assumption]);
          cbn [st local outbox slot act]; fin2 HS.
        all: try (intros E; split; [lia|apply (P8 _ E)]).
        all: destruct (remaining s =? 1); (split; [intros E; apply P7 in E; congruence|discriminate]).
  Qed.

  Lemma sinv_init : SInv init.
  Proof.
    split; cbn; intros; try (intuition (try discriminate; try lia; auto)).
  Qed.

  (* ---- the activation counter ---- *)
  Lemma cnt_upd_same f g x : Nat.eqb (act (f g)) 3 = Nat.eqb (act x) 3 -> cnt (upd f g x) = cnt f.
  Proof.
    intros H. unfold cnt. f_equal. generalize groups as l. induction l as [|a l IH]; cbn; [reflexivity|].
    destruct (Nat.eq_dec a g) as [->|Hn]; [rewrite upd_same|rewrite upd_other by assumption].
    - rewrite <- H. rewrite IH. reflexivity.
    - rewrite IH. reflexivity.
  Qed.

  Lemma filter_upd_notin (f : nat -> gstate) g x (l : list nat) : ~ In g l ->
    filter (fun g0 => negb (act (upd f g x g0) =? 3)) l = filter (fun g0 => negb (act (f g0) =? 3)) l.
  Proof.
    induction l as [|b l IHl]; intros Hn; cbn; [reflexivity|].
    rewrite upd_other by (intros ->; apply Hn; left; reflexivity).
    rewrite IHl by (intros Hx'; apply Hn; right; assumption). reflexivity.
  Qed.

  Lemma cntl_upd_dec (f : nat -> gstate) g x (l : list nat) : NoDup l -> In g l -> act (f g) <> 3 -> act x = 3 ->
    S (length (filter (fun g0 => negb (act (upd f g x g0) =? 3)) l)) = length (filter (fun g0 => negb (act (f g0) =? 3)) l).
  Proof.
    intros Hnd Hin Hf Hx. induction l as [|a l IH]; [contradiction|]. cbn [filter].
    inversion Hnd as [|a' l' Hnotin Hnd' E0]; subst.
    destruct (Nat.eq_dec a g) as [->|Hn].
    - rewrite upd_same, Hx. cbn. rewrite (filter_upd_notin f g x l Hnotin).
      destruct (Nat.eqb_spec (act (f g)) 3); [contradiction|]. reflexivity.
    - rewrite upd_other by assumption. destruct Hin as [->|Hin]; [contradiction|].
      destruct (negb (act (f a) =? 3)); cbn [length]; rewrite <- (IH Hnd' Hin); reflexivity.
  Qed.

  Lemma cnt_upd_dec f g x : In g groups -> act (f g) <> 3 -> act x = 3 -> S (cnt (upd f g x)) = cnt f.
  Proof. intros. unfold cnt. apply cntl_upd_dec; assumption. Qed.

  Definition OutInv (s : state) : Prop := forall g, ~ In g groups -> st (gs s g) = NotAct /\ slot (gs s g) = [].

  Lemma outinv_step s s' : SInv s -> OutInv s -> step s s' -> OutInv s'.
  Proof.
    intros HS HO Hs. inversion Hs; subst; clear Hs; intros k Hk; cbn [gs].
    - assert (k <> g) by (intros ->; contradiction). rewrite upd_other by assumption. apply HO; assumption.
    - destruct (Nat.eq_dec k g) as [->|?]; [destruct (HO g Hk); congruence|rewrite upd_other by assumption; apply HO; assumption].
    - destruct (Nat.eq_dec k g) as [->|?]; [destruct (HO g Hk); congruence|rewrite upd_other by assumption; apply HO; assumption].
    - destruct (Nat.eq_dec k (grp n)) as [->|?]; [destruct (HO _ Hk); congruence|rewrite upd_other by assumption; apply HO; assumption].
    - unfold h, s1. assert (k <> grp n) by (intros ->; apply Hk; apply grp_ok).
      rewrite upd_other by assumption.
      destruct (Nat.eq_dec k g) as [->|?]; [destruct (HO g Hk); congruence|rewrite upd_other by assumption; apply HO; assumption].
    - destruct (Nat.eq_dec k g) as [->|?]; [destruct (HO g Hk); congruence|rewrite upd_other by assumption; apply HO; assumption].
    - destruct (Nat.eq_dec k g) as [->|?]; [destruct (HO g Hk); congruence|rewrite upd_other by assumption; apply HO; assumption].
    - unfold s1, last. destruct (HO k Hk) as [Hk1 Hk2].
      assert (Hkg : k <> g).
      { intros ->. destruct (s_notact _ HS g Hk1) as (_ & _ & A). lia. }
      destruct (delayq s) as [d|] eqn:Ed; [destruct (remaining s =? 1)|].
      + assert (Hkd : k <> d).
        { intros ->. assert (st (gs s d) = Delayed) by (apply (s_delayed _ HS); assumption). congruence. }
        rewrite !upd_other by assumption. split; assumption.
      + rewrite upd_other by assumption. split; assumption.
      + rewrite upd_other by assumption. split; assumption.
  Qed.

  Lemma rem_step s s' : SInv s -> OutInv s -> remaining s = cnt (gs s) -> step s s' -> remaining s' = cnt (gs s').
  Proof.
    intros HS HO HR Hs. inversion Hs; subst; clear Hs; cbn [gs remaining].
    - rewrite cnt_upd_same; [assumption|]. destruct (s_notact _ HS g H0) as (_ & _ & A). rewrite A.
      cbn. destruct (synthetic g); reflexivity.
    - rewrite cnt_upd_same; [assumption|reflexivity].
    - rewrite cnt_upd_same; [assumption|]. cbn [act]. unfold first_return.
      destruct (Nat.eqb_spec (act (gs s g)) 1) as [E|E]; [rewrite E; reflexivity|reflexivity].
    - rewrite cnt_upd_same; [assumption|reflexivity].
    - unfold h, s1. rewrite cnt_upd_same; [rewrite cnt_upd_same; [assumption|reflexivity]|reflexivity].
    - rewrite cnt_upd_same; [assumption|reflexivity].
    - rewrite cnt_upd_same; [assumption|]. cbn [act]. unfold first_return.
      destruct (Nat.eqb_spec (act (gs s g)) 1) as [E|E]; [rewrite E; reflexivity|reflexivity].
    - unfold s1, last.
      assert (Hg : In g groups).
      { destruct (in_dec Nat.eq_dec g groups) as [|Hn]; [assumption|]. destruct (HO g Hn) as [A _].
        destruct (s_notact _ HS g A) as (_ & _ & B). lia. }
      assert (Hdec : S (cnt (upd (gs s) g {| st := st (gs s g); local := local (gs s g); outbox := outbox (gs s g);
                                                 slot := slot (gs s g); act := 3 |})) = cnt (gs s)).
      { apply cnt_upd_dec; [assumption|lia|reflexivity]. }
      destruct (delayq s) as [d|]; [destruct (remaining s =? 1)|]; try lia.
      rewrite cnt_upd_same; [lia|]. unfold set_st. reflexivity.
  Qed.

  Hypothesis roots_route : forall g r, In r (roots g) -> grp r = g.

  Definition RouteInv (s : state) : Prop := forall g n, In n (local (gs s g)) \/ In n (slot (gs s g)) -> grp n = g.

  Lemma route_step s s' : SInv s -> RouteInv s -> step s s' -> RouteInv s'.
  Proof.
    intros HS HR Hs. inversion Hs; subst; clear Hs; intros k m; cbn [gs].
    - destruct (Nat.eq_dec k g) as [->|?]; [rewrite upd_same|rewrite upd_other by assumption; apply HR].
      cbn [local slot]. intros [A|A]; [apply roots_route; assumption|apply HR; right; assumption].
    - destruct (Nat.eq_dec k g) as [->|?]; [rewrite upd_same|rewrite upd_other by assumption; apply HR].
      cbn [local slot]. intros [A|A]; apply HR; [left; rewrite H1; right; assumption|right; assumption].
    - destruct (Nat.eq_dec k g) as [->|?]; [rewrite upd_same|rewrite upd_other by assumption; apply HR].
      cbn [local slot]. intros [[]|A]. apply HR. right. assumption.
    - destruct (Nat.eq_dec k (grp n)) as [->|?]; [rewrite upd_same|rewrite upd_other by assumption; apply HR].
      cbn [local slot]. intros [[->|A]|A]; [reflexivity|apply HR; left; assumption|apply HR; right; assumption].
    - unfold h, s1.
      destruct (Nat.eq_dec k (grp n)) as [->|?]; [rewrite upd_same|rewrite upd_other by assumption].
      + cbn [local slot]. rewrite upd_other by congruence. intros [A|A]; [apply HR; left; assumption|].
        apply in_app_or in A. destruct A as [A|[->|[]]]; [apply HR; right; assumption|reflexivity].
      + destruct (Nat.eq_dec k g) as [->|?]; [rewrite upd_same|rewrite upd_other by assumption; apply HR].
        cbn [local slot]. apply HR.
    - destruct (Nat.eq_dec k g) as [->|?]; [rewrite upd_same|rewrite upd_other by assumption; apply HR].
      cbn [local slot]. intros [A|[]]. apply HR. right. assumption.
    - destruct (Nat.eq_dec k g) as [->|?]; [rewrite upd_same|rewrite upd_other by assumption; apply HR].
      cbn [local slot]. intros [[]|[]].
    - unfold s1, last.
      assert (G : forall f : nat -> gstate, (forall x, local (f x) = local (gs s x) /\ slot (f x) = slot (gs s x)) ->
                  In m (local (f k)) \/ In m (slot (f k)) -> grp m = k).
      { intros f Hf. destruct (Hf k) as [-> ->]. apply HR. }
      destruct (delayq s) as [d|]; [destruct (remaining s =? 1)|]; apply G; intros x.
      + destruct (Nat.eq_dec x d) as [->|?]; [rewrite upd_same|rewrite upd_other by assumption];
          unfold set_st; cbn [local slot];
          (destruct (Nat.eq_dec d g) as [?|?] || idtac); try subst;
          repeat (first [rewrite upd_same|rewrite upd_other by assumption]); cbn [local slot]; try (split; reflexivity).
        all: destruct (Nat.eq_dec x g) as [->|?]; [rewrite upd_same|rewrite upd_other by assumption]; split; reflexivity.
      + destruct (Nat.eq_dec x g) as [->|?]; [rewrite upd_same|rewrite upd_other by assumption]; split; reflexivity.
      + destruct (Nat.eq_dec x g) as [->|?]; [rewrite upd_same|rewrite upd_other by assumption]; split; reflexivity.
  Qed.

  Definition queues (x : gstate) : list item := local x ++ outbox x ++ slot x.
  Definition pend (s : state) (n : item) : Prop := exists g, In n (queues (gs s g)).

  Lemma count_queues (f : nat -> gstate) g (dq : option nat) (last : bool) x :
    let s1 := upd f g {| st := st (f g); local := local (f g); outbox := outbox (f g); slot := slot (f g); act := 3 |} in
    queues ((match dq with Some d => if last then upd s1 d (set_st item (s1 d) Running) else s1 | None => s1 end) x) = queues (f x).
  Proof.
    cbn zeta. destruct dq as [d|]; [destruct last|].
    - destruct (Nat.eq_dec x d) as [->|?]; [rewrite upd_same|rewrite upd_other by assumption];
        unfold set_st, queues; cbn [local outbox slot];
        (destruct (Nat.eq_dec d g) as [->|?] || idtac); repeat (first [rewrite upd_same|rewrite upd_other by assumption]); cbn [local outbox slot]; try reflexivity.
      all: destruct (Nat.eq_dec x g) as [->|?]; [rewrite upd_same|rewrite upd_other by assumption]; reflexivity.
    - destruct (Nat.eq_dec x g) as [->|?]; [rewrite upd_same|rewrite upd_other by assumption]; reflexivity.
    - destruct (Nat.eq_dec x g) as [->|?]; [rewrite upd_same|rewrite upd_other by assumption]; reflexivity.
  Qed.

  (* every queued or handled item is in the closure *)
  Definition SoundInv (s : state) : Prop := forall n, In n (done s) \/ pend s n -> Reach n.

  Lemma sound_step s s' : SoundInv s -> step s s' -> SoundInv s'.
  Proof.
    intros HI Hs. inversion Hs; subst; clear Hs; intros m; unfold pend; cbn [gs done].
    - intros [A|(k & A)]; [apply HI; left; assumption|].
      destruct (Nat.eq_dec k g) as [->|?]; [rewrite upd_same in A|rewrite upd_other in A by assumption; apply HI; right; exists k; assumption].
      unfold queues in A. cbn [local outbox slot] in A. apply in_app_or in A. destruct A as [A|A].
      + eapply Reach_root; eassumption.
      + apply HI. right. exists g. unfold queues. apply in_or_app. right. apply in_or_app. right. exact A.
    - assert (Ri : Reach i).
      { apply HI. right. exists g. unfold queues. rewrite H1. left. reflexivity. }
      intros [A|(k & A)].
      + destruct (mem i (done s)); [apply HI; left; assumption|]. destruct A as [<-|A]; [assumption|apply HI; left; assumption].
      + destruct (Nat.eq_dec k g) as [->|?]; [rewrite upd_same in A|rewrite upd_other in A by assumption; apply HI; right; exists k; assumption].
        unfold queues in A. cbn [local outbox slot] in A. apply in_app_or in A. destruct A as [A|A].
        * apply HI. right. exists g. unfold queues. rewrite H1. right. apply in_or_app. left. assumption.
        * apply in_app_or in A. destruct A as [A|A].
          -- destruct (mem i (done s)); [contradiction|]. eapply Reach_succ; eassumption.
          -- apply HI. right. exists g. unfold queues. apply in_or_app. right. apply in_or_app. right. assumption.
    - intros [A|(k & A)]; [apply HI; left; assumption|].
      destruct (Nat.eq_dec k g) as [->|?]; [rewrite upd_same in A|rewrite upd_other in A by assumption; apply HI; right; exists k; assumption].
      unfold queues in A. cbn [local outbox slot] in A. apply HI. right. exists g. unfold queues.
      apply in_or_app. right. apply in_or_app. right. assumption.
    - intros [A|(k & A)]; [apply HI; left; assumption|].
      destruct (Nat.eq_dec k (grp n)) as [->|?]; [rewrite upd_same in A|rewrite upd_other in A by assumption; apply HI; right; exists k; assumption].
      unfold queues in A. cbn [local outbox slot] in A. apply HI. right. exists (grp n). unfold queues. rewrite H0.
      destruct A as [<-|A]; [apply in_or_app; right; left; reflexivity|].
      apply in_app_or in A. destruct A as [A|A]; [apply in_or_app; left; assumption|].
      apply in_app_or in A. destruct A as [A|A]; apply in_or_app; right; [right; apply in_or_app; left; assumption|right; apply in_or_app; right; assumption].
    - unfold h, s1 in *. intros [A|(k & A)]; [apply HI; left; assumption|].
      assert (Rn : Reach n). { apply HI. right. exists g. unfold queues. rewrite H0. apply in_or_app. right. left. reflexivity. }
      destruct (Nat.eq_dec k (grp n)) as [->|?]; [rewrite upd_same in A|rewrite upd_other in A by assumption].
      + unfold queues in A. cbn [local outbox slot] in A. rewrite upd_other in A by congruence.
        apply in_app_or in A. destruct A as [A|A]; [apply HI; right; exists (grp n); unfold queues; apply in_or_app; left; assumption|].
        apply in_app_or in A. destruct A as [A|A]; [apply HI; right; exists (grp n); unfold queues; apply in_or_app; right; apply in_or_app; left; assumption|].
        apply in_app_or in A. destruct A as [A|[<-|[]]]; [|assumption].
        apply HI; right; exists (grp n); unfold queues; apply in_or_app; right; apply in_or_app; right; assumption.
      + destruct (Nat.eq_dec k g) as [->|?]; [rewrite upd_same in A|rewrite upd_other in A by assumption; apply HI; right; exists k; assumption].
        unfold queues in A. cbn [local outbox slot] in A. apply HI. right. exists g. unfold queues. rewrite H0.
        apply in_app_or in A. destruct A as [A|A]; [apply in_or_app; left; assumption|].
        apply in_app_or in A. destruct A as [A|A]; apply in_or_app; right; [right; apply in_or_app; left; assumption|right; apply in_or_app; right; assumption].
    - intros [A|(k & A)]; [apply HI; left; assumption|].
      destruct (Nat.eq_dec k g) as [->|?]; [rewrite upd_same in A|rewrite upd_other in A by assumption; apply HI; right; exists k; assumption].
      unfold queues in A. cbn [local outbox slot] in A. rewrite app_nil_r in A. apply HI. right. exists g. unfold queues.
      apply in_or_app. right. apply in_or_app. right. assumption.
    - intros [A|(k & A)]; [apply HI; left; assumption|].
      destruct (Nat.eq_dec k g) as [->|?]; [rewrite upd_same in A|rewrite upd_other in A by assumption; apply HI; right; exists k; assumption].
      unfold queues in A. cbn [local outbox slot] in A. contradiction.
    - intros [A|(k & A)]; [apply HI; left; assumption|].
      unfold s1, last in A. rewrite count_queues in A. apply HI. right. exists k. assumption.
  Qed.

  Definition covered (s : state) (n : item) : Prop := In n (done s) \/ pend s n.

  Ltac inq := unfold queues; cbn [local outbox slot]; repeat rewrite in_app_iff; cbn [In]; tauto.

  Lemma cov_mono s s' : SInv s -> step s s' -> errs s' = 0 -> forall m, covered s m -> covered s' m.
  Proof.
    intros HS Hs He m [A|(k & A)].
    { left. inversion Hs; subst; cbn [done]; try assumption.
      destruct (mem i (done s)); [assumption|right; assumption]. }
    inversion Hs; subst; clear Hs; unfold covered, pend; cbn [gs done errs] in *.
    - right. exists k. destruct (Nat.eq_dec k g) as [->|?]; [rewrite upd_same|rewrite upd_other by assumption; assumption].
      destruct (s_notact _ HS g H0) as (Q1 & Q2 & _).
      revert A. unfold queues. rewrite Q1, Q2. inq.
    - destruct (Nat.eq_dec k g) as [->|?]; [|right; exists k; rewrite upd_other by assumption; assumption].
      revert A. unfold queues at 1. rewrite H0, H1. cbn [app]. intros [<-|A].
      + left. destruct (mem i (done s)) eqn:Em; [apply mem_In; assumption|left; reflexivity].
      + right. exists g. rewrite upd_same. revert A. inq.
    - discriminate.
    - right. destruct (Nat.eq_dec k (grp n)) as [->|?]; [|exists k; rewrite upd_other by assumption; assumption].
      exists (grp n). rewrite upd_same. revert A. unfold queues at 1. rewrite H0. inq.
    - right. unfold h, s1.
      destruct (Nat.eq_dec k g) as [->|?].
      + revert A. unfold queues at 1. rewrite H0. repeat rewrite in_app_iff. cbn [In]. intros [A|[[<-|A]|A]].
        * exists g. rewrite upd_other by congruence. rewrite upd_same. inq.
        * exists (grp n). rewrite upd_same. inq.
        * exists g. rewrite upd_other by congruence. rewrite upd_same. inq.
        * exists g. rewrite upd_other by congruence. rewrite upd_same. inq.
      + exists k. destruct (Nat.eq_dec k (grp n)) as [->|?]; [rewrite upd_same|rewrite !upd_other by assumption; assumption].
        rewrite upd_other by assumption. revert A. inq.
    - right. exists k. destruct (Nat.eq_dec k g) as [->|?]; [rewrite upd_same|rewrite upd_other by assumption; assumption].
      revert A. unfold queues at 1. rewrite H0, H1. inq.
    - right. exists k. destruct (Nat.eq_dec k g) as [->|?]; [|rewrite upd_other by assumption; assumption].
      exfalso. revert A. unfold queues. rewrite H0, H1, H2. cbn. tauto.
    - right. exists k. unfold s1, last. rewrite count_queues. assumption.
  Qed.

  Definition CompInv (s : state) : Prop := errs s = 0 ->
    (forall g r, In g groups -> st (gs s g) <> NotAct -> In r (roots g) -> covered s r) /\
    (forall i n, In i (done s) -> In n (succ i) -> covered s n).

  Lemma errs_mono s s' : step s s' -> errs s' = 0 -> errs s = 0.
  Proof. intros Hs. inversion Hs; subst; cbn [errs]; try tauto. discriminate. Qed.

  Lemma comp_step s s' : SInv s -> CompInv s -> step s s' -> CompInv s'.
  Proof.
    intros HS HC Hs He'. pose proof (errs_mono _ _ Hs He') as He. destruct (HC He) as [C1 C2].
    pose proof (cov_mono _ _ HS Hs He') as Mono.
    split.
    - intros g0 r Hg Hst Hr.
      destruct (st (gs s g0)) eqn:E0; try (apply Mono; apply (C1 g0 r Hg); [congruence|assumption]).
      (* g0 was not activated before this step: the step is its activation *)
      inversion Hs; subst; cbn [gs] in Hst.
      + destruct (Nat.eq_dec g0 g) as [->|Hn]; [|rewrite upd_other in Hst by assumption; congruence].
        right. exists g. cbn [gs]. rewrite upd_same. unfold queues. cbn [local]. apply in_or_app. left. assumption.
      + destruct (Nat.eq_dec g0 g) as [->|Hn]; [congruence|rewrite upd_other in Hst by assumption; congruence].
      + discriminate.
      + destruct (Nat.eq_dec g0 (grp n)) as [->|Hn]; [congruence|rewrite upd_other in Hst by assumption; congruence].
      + unfold h, s1 in Hst. exfalso.
        destruct (Nat.eq_dec g0 (grp n)) as [->|Hn]; [rewrite upd_same in Hst|rewrite upd_other in Hst by assumption].
        * cbn [st] in Hst. rewrite upd_other in Hst by congruence. rewrite E0 in Hst. congruence.
        * destruct (Nat.eq_dec g0 g) as [->|Hn']; [congruence|rewrite upd_other in Hst by assumption; congruence].
      + destruct (Nat.eq_dec g0 g) as [->|Hn]; [congruence|rewrite upd_other in Hst by assumption; congruence].
      + destruct (Nat.eq_dec g0 g) as [->|Hn]; [congruence|rewrite upd_other in Hst by assumption; congruence].
      + exfalso. unfold s1, last in Hst.
        assert (Hg0 : g0 <> g). { intros ->. destruct (s_notact _ HS g E0) as (_ & _ & A). lia. }
        destruct (delayq s) as [d|] eqn:Ed; [destruct (remaining s =? 1)|].
        * assert (g0 <> d). { intros ->. assert (st (gs s d) = Delayed) by (apply (s_delayed _ HS); assumption). congruence. }
          rewrite !upd_other in Hst by assumption. congruence.
        * rewrite upd_other in Hst by assumption. congruence.
        * rewrite upd_other in Hst by assumption. congruence.
    - intros i0 n0 Hi Hn.
      destruct (mem i0 (done s)) eqn:Em.
      + apply Mono. apply (C2 i0 n0); [apply mem_In; assumption|assumption].
      + (* i0 became done in this step: it is the handled item, its successors are in the outbox *)
        inversion Hs; subst; cbn [done] in Hi;
          try (exfalso; apply mem_In in Hi; congruence).
        destruct (mem i (done s)) eqn:Emi; [exfalso; apply mem_In in Hi; congruence|].
        destruct Hi as [<-|Hi]; [|exfalso; apply mem_In in Hi; congruence].
        right. exists g. cbn [gs]. rewrite upd_same. unfold queues. cbn [local outbox slot].
        apply in_or_app. right. apply in_or_app. left. assumption.
  Qed.

  (* ---------------- everything together ---------------- *)
  Record Inv (s : state) : Prop := {
    inv_s : SInv s; inv_out : OutInv s; inv_rem : remaining s = cnt (gs s);
    inv_route : RouteInv s; inv_sound : SoundInv s; inv_comp : CompInv s }.

  Lemma inv_init : Inv init.
  Proof.
    split.
    - apply sinv_init.
    - intros g _. split; reflexivity.
    - cbn. symmetry. apply cnt_init.
    - intros g n [[]|[]].
    - intros n [[]|(g & H)]. unfold queues in H. cbn in H. contradiction.
    - intros _. split; [intros g r _ H; cbn in H; congruence|intros i n []].
  Qed.

  Lemma inv_step s s' : Inv s -> step s s' -> Inv s'.
  Proof.
    intros [A B C D E F] Hs. split.
    - eapply sinv_step; eassumption.
    - eapply outinv_step; eassumption.
    - eapply rem_step; eassumption.
    - eapply route_step; eassumption.
    - eapply sound_step; eassumption.
    - eapply comp_step; eassumption.
  Qed.

  Theorem inv_reachable s : reachable s -> Inv s.
  Proof. induction 1; [apply inv_init|eapply inv_step; eassumption]. Qed.

  (* two small extra invariants used only by the terminal-state analysis *)
  Definition DInv (s : state) : Prop :=
    (forall g, st (gs s g) = Delayed -> synthetic g = true) /\ (delayq s <> None -> remaining s > 0).

  Lemma dinv_step s s' : Inv s -> DInv s -> step s s' -> DInv s'.
  Proof.
    intros [HS HO HR _ _ _] [D1 D2] Hs. split.
    - intros k. inversion Hs; subst; clear Hs; cbn [gs].
      + destruct (Nat.eq_dec k g) as [->|?]; [rewrite upd_same|rewrite upd_other by assumption; apply D1].
        cbn [st]. destruct (synthetic g); [reflexivity|discriminate].
      + destruct (Nat.eq_dec k g) as [->|?]; [rewrite upd_same; discriminate|rewrite upd_other by assumption; apply D1].
      + destruct (Nat.eq_dec k g) as [->|?]; [rewrite upd_same; discriminate|rewrite upd_other by assumption; apply D1].
      + destruct (Nat.eq_dec k (grp n)) as [->|?]; [rewrite upd_same; discriminate|rewrite upd_other by assumption; apply D1].
      + unfold h, s1. destruct (Nat.eq_dec k (grp n)) as [->|?]; [rewrite upd_same|rewrite upd_other by assumption].
        * cbn [st]. rewrite upd_other by congruence. intros E. apply D1. destruct (st (gs s (grp n))); congruence.
        * destruct (Nat.eq_dec k g) as [->|?]; [rewrite upd_same; discriminate|rewrite upd_other by assumption; apply D1].
      + destruct (Nat.eq_dec k g) as [->|?]; [rewrite upd_same; discriminate|rewrite upd_other by assumption; apply D1].
      + destruct (Nat.eq_dec k g) as [->|?]; [rewrite upd_same; discriminate|rewrite upd_other by assumption; apply D1].
      + unfold s1, last. intros E. apply D1.
        destruct (delayq s) as [d|]; [destruct (remaining s =? 1)|].
        * destruct (Nat.eq_dec k d) as [->|?]; [rewrite upd_same in E; discriminate|rewrite upd_other in E by assumption].
          destruct (Nat.eq_dec k g) as [->|?]; [rewrite upd_same in E|rewrite upd_other in E by assumption]; assumption.
        * destruct (Nat.eq_dec k g) as [->|?]; [rewrite upd_same in E|rewrite upd_other in E by assumption]; assumption.
        * destruct (Nat.eq_dec k g) as [->|?]; [rewrite upd_same in E|rewrite upd_other in E by assumption]; assumption.
    - inversion Hs; subst; clear Hs; cbn [delayq remaining]; try assumption.
      + (* activate: remaining = cnt > 0 because g itself is not yet counted *)
        intros _. rewrite HR.
        assert (Hn : act (gs s g) <> 3) by (destruct (s_notact _ HS g H0) as (_ & _ & A); lia).
        unfold cnt. clear - H Hn. induction groups as [|a l IH]; [contradiction|]. cbn [filter].
        destruct H as [->|H].
        * destruct (Nat.eqb_spec (act (gs s g)) 3); [contradiction|]. cbn. lia.
        * specialize (IH H). destruct (negb (act (gs s a) =? 3)); cbn [length]; lia.
      + unfold last. destruct (Nat.eqb_spec (remaining s) 1) as [E|E]; [intros X; congruence|].
        intros X. specialize (D2 X).
        (* remaining >= 1 and <> 1; it is also >= 1 after the decrement *)
        lia.
  Qed.

  Lemma dinv_reachable s : reachable s -> DInv s.
  Proof.
    induction 1 as [|s s' Hr IH Hs].
    - split; [cbn; discriminate|cbn; congruence].
    - eapply dinv_step; [apply inv_reachable; eassumption|eassumption|eassumption].
  Qed.

  (* ---------------- theorems ---------------- *)
  Theorem no_lost_work s g : reachable s -> slot (gs s g) <> [] -> st (gs s g) <> Parked.
  Proof. intros Hr Hne E. destruct (s_parked _ (inv_s _ (inv_reachable s Hr)) g E) as (_ & _ & A). contradiction. Qed.

  Theorem requests_are_routed s g n : reachable s -> In n (local (gs s g)) \/ In n (slot (gs s g)) -> grp n = g.
  Proof. intros Hr. apply (inv_route _ (inv_reachable s Hr)). Qed.

  Lemma running_can_step s g : st (gs s g) = Running -> exists s', step s s'.
  Proof.
    intros E. destruct (outbox (gs s g)) as [|n rest] eqn:Eo.
    - destruct (local (gs s g)) as [|i l] eqn:El.
      + destruct (slot (gs s g)) as [|x sl] eqn:Es.
        * eexists. eapply S_park; eassumption.
        * eexists. eapply S_swap; try eassumption. rewrite Es. discriminate.
      + eexists. eapply S_handle; eassumption.
    - destruct (Nat.eq_dec (grp n) g) as [En|En].
      + eexists. eapply S_send_local; eassumption.
      + eexists. eapply S_send; eassumption.
  Qed.

  Theorem terminal_closure s : reachable s -> terminal item item_eqb grp succ roots synthetic groups s -> errs s = 0 ->
    (forall g, In g groups -> st (gs s g) = Parked /\ queues (gs s g) = []) /\
    remaining s = 0 /\ delayq s = None /\
    (forall n, Reach n <-> In n (done s)).
  Proof.
    intros Hr Ht He.
    pose proof (inv_reachable s Hr) as [HS HO HR HRt HSd HC]. pose proof (dinv_reachable s Hr) as [D1 D2].
    assert (NoRun : forall g, st (gs s g) <> Running).
    { intros g E. destruct (running_can_step s g E) as [s' Hs]. exact (Ht s' Hs). }
    assert (NoNot : forall g, In g groups -> st (gs s g) <> NotAct).
    { intros g Hg E. eapply Ht. eapply S_activate; try eassumption.
      intros Hsy. destruct (delayq s) as [d|] eqn:Ed; [|reflexivity]. exfalso.
      assert (Hd : st (gs s d) = Delayed) by (apply (s_delayed _ HS); assumption).
      pose proof (one_synthetic g d Hsy (D1 d Hd)). subst. congruence. }
    assert (NoTwo : forall g, act (gs s g) <> 2).
    { intros g E. eapply Ht. eapply S_count. eassumption. }
    assert (All3 : forall g, In g groups -> act (gs s g) = 3).
    { intros g Hg. pose proof (s_actle _ HS g).
      destruct (act (gs s g)) as [|[|[|[|k]]]] eqn:Ea; try lia.
      - exfalso. apply (NoNot g Hg). apply (s_act0 _ HS). assumption.
      - exfalso. apply (NoRun g). apply (s_act1 _ HS). assumption.
      - exfalso. apply (NoTwo g). assumption. }
    assert (Rem0 : remaining s = 0).
    { rewrite HR. unfold cnt. clear - All3. induction groups as [|a l IH]; [reflexivity|]. cbn [filter].
      rewrite (All3 a (or_introl eq_refl)). cbn. apply IH. intros g Hg. apply All3. right. assumption. }
    assert (DqN : delayq s = None).
    { destruct (delayq s) eqn:Ed; [|reflexivity]. exfalso. assert (remaining s > 0) by (apply D2; congruence). lia. }
    assert (AllParked : forall g, In g groups -> st (gs s g) = Parked).
    { intros g Hg. destruct (st (gs s g)) eqn:E; try reflexivity; exfalso.
      - apply (NoNot g Hg E).
      - apply (NoRun g E).
      - apply (s_delayed _ HS) in E. congruence.
      - destruct (s_dropped _ HS g E). lia. }
    assert (Empty : forall g, queues (gs s g) = []).
    { intros g. destruct (in_dec Nat.eq_dec g groups) as [Hg|Hg].
      - destruct (s_parked _ HS g (AllParked g Hg)) as (A & B & C). unfold queues. rewrite A, B, C. reflexivity.
      - destruct (HO g Hg) as [A B]. destruct (s_notact _ HS g A) as (C & D & _). unfold queues. rewrite B, C, D. reflexivity. }
    assert (NoPend : forall n, ~ pend s n).
    { intros n (g & Hn). rewrite Empty in Hn. contradiction. }
    split; [intros g Hg; split; [apply AllParked; assumption|apply Empty]|].
    split; [assumption|]. split; [assumption|].
    destruct (HC He) as [C1 C2].
    intros n. split.
    - induction 1 as [g i Hg Hi|i n Hi IH Hn].
      + destruct (C1 g i Hg (NoNot g Hg) Hi) as [A|A]; [assumption|exfalso; exact (NoPend _ A)].
      + destruct (C2 i n IH Hn) as [A|A]; [assumption|exfalso; exact (NoPend _ A)].
    - intros Hn. apply HSd. left. assumption.
  Qed.

  (* ---------------- termination: a potential that every step decreases ---------------- *)
  Variable items : list item.
  Hypothesis items_nodup : NoDup items.
  Hypothesis items_all : forall i, In i items.
  Variable msucc mroots : nat.
  Hypothesis msucc_ok : forall i, length (succ i) <= msucc.
  Hypothesis mroots_ok : forall g, length (roots g) <= mroots.

  Definition phi (x : gstate) : nat :=
    (match st x with NotAct => mroots + 2 | Running => 1 | _ => 0 end) +
    length (local x) + 4 * length (outbox x) + 2 * length (slot x) + (if Nat.eqb (act x) 3 then 0 else 2).

  Fixpoint gsum (f : nat -> gstate) (l : list nat) : nat :=
    match l with [] => 0 | g :: t => phi (f g) + gsum f t end.

  Definition undone (d : list item) : nat := length (filter (fun x => negb (mem x d)) items).
  Definition Phi (s : state) : nat := gsum (gs s) groups + (4 * msucc + 1) * undone (done s).

  Lemma gsum_upd_notin f g v l : ~ In g l -> gsum (upd f g v) l = gsum f l.
  Proof.
    induction l as [|a l IH]; intros Hn; cbn [gsum]; [reflexivity|].
    rewrite upd_other by (intros ->; apply Hn; left; reflexivity).
    rewrite IH by (intros Hx; apply Hn; right; assumption). reflexivity.
  Qed.

  Lemma gsum_upd f g v l : NoDup l -> In g l -> gsum (upd f g v) l + phi (f g) = gsum f l + phi v.
  Proof.
    induction l as [|a l IH]; intros Hnd Hin; [contradiction|]. cbn [gsum].
    inversion Hnd as [|a' l' Hnotin Hnd' E0]; subst.
    destruct (Nat.eq_dec a g) as [->|Hn].
    - rewrite upd_same, gsum_upd_notin by assumption. lia.
    - rewrite upd_other by assumption. destruct Hin as [->|Hin]; [contradiction|].
      specialize (IH Hnd' Hin). lia.
  Qed.

  Lemma undone_add i d : mem i d = false -> undone (i :: d) + 1 = undone d.
  Proof.
    intros Hm. unfold undone. pose proof (items_all i) as Hin. revert Hin. generalize items_nodup.
    generalize items as l. induction l as [|a l IH]; intros Hnd Hin; [contradiction|]. cbn [filter].
    inversion Hnd as [|a' l' Hnotin Hnd' E0]; subst.
    destruct (item_eqb_spec a i) as [->|Hne].
    - (* a = i: counted before, not after; the tail does not contain i *)
      assert (E1 : mem i (i :: d) = true) by (apply mem_In; left; reflexivity).
      rewrite E1, Hm. cbn [negb length].
      assert (E2 : filter (fun x => negb (mem x (i :: d))) l = filter (fun x => negb (mem x d)) l).
      { clear - Hnotin item_eqb_spec. induction l as [|b l IHl]; cbn [filter]; [reflexivity|].
        assert (Hb : mem b (i :: d) = mem b d).
        { unfold Model.mem. cbn [existsb]. destruct (item_eqb_spec b i) as [->|]; [exfalso; apply Hnotin; left; reflexivity|reflexivity]. }
        rewrite Hb, IHl; [reflexivity|]. intros Hx. apply Hnotin. right. assumption. }
      rewrite E2. lia.
    - destruct Hin as [->|Hin]; [contradiction|].
      assert (Ha : mem a (i :: d) = mem a d).
      { unfold Model.mem. cbn [existsb]. destruct (item_eqb_spec a i); [contradiction|reflexivity]. }
      rewrite Ha. specialize (IH Hnd' Hin). destruct (negb (mem a d)); cbn [length]; lia.
  Qed.

  Lemma in_groups_of_active s g : Inv s -> st (gs s g) <> NotAct -> In g groups.
  Proof.
    intros HI Hn. destruct (in_dec Nat.eq_dec g groups) as [|Hg]; [assumption|].
    destruct (inv_out _ HI g Hg). contradiction.
  Qed.

  Theorem step_decreases s s' : Inv s -> step s s' -> Phi s' < Phi s.
  Proof.
    intros HI Hs. pose proof (inv_s _ HI) as HS.
    inversion Hs; subst; clear Hs; unfold Phi; cbn [gs done].
    - (* activate *)
      pose proof (gsum_upd (gs s) g {| st := if synthetic g then Delayed else Running; local := roots g; outbox := [];
                                     slot := slot (gs s g); act := if synthetic g then 2 else 1 |} groups groups_nodup H) as E.
      destruct (s_notact _ HS g H0) as (A & B & C). unfold phi in E at 1 2. cbn [st local outbox slot act] in E.
      rewrite H0, A, B, C in E. pose proof (mroots_ok g). cbn [length] in E.
      destruct (synthetic g); cbn in E; lia.
    - (* handle *)
      assert (Hg : In g groups) by (apply (in_groups_of_active s g HI); congruence).
      pose proof (gsum_upd (gs s) g {| st := Running; local := l; outbox := (if mem i (done s) then @nil item else succ i);
                                     slot := slot (gs s g); act := act (gs s g) |} groups groups_nodup Hg) as E.
      unfold phi in E at 1 2. cbn [st local outbox slot act] in E. rewrite H, H0, H1 in E. cbn [length] in E.
      destruct (mem i (done s)) eqn:Em.
      + cbn [length] in E. lia.
      + pose proof (undone_add i (done s) Em). pose proof (msucc_ok i). nia.
    - (* fail *)
      assert (Hg : In g groups) by (apply (in_groups_of_active s g HI); congruence).
      assert (Hfr : (if Nat.eqb (first_return (gs s g)) 3 then 0 else 2) <= (if Nat.eqb (act (gs s g)) 3 then 0 else 2)).
      { unfold first_return. destruct (Nat.eqb_spec (act (gs s g)) 1) as [E1|E1]; [rewrite E1; cbn; lia|lia]. }
      pose proof (gsum_upd (gs s) g {| st := Dropped; local := []; outbox := []; slot := slot (gs s g); act := first_return (gs s g) |}
                           groups groups_nodup Hg) as E.
      unfold phi in E at 1 2. cbn [st local outbox slot act] in E. rewrite H, H0, H1 in E. cbn [length] in E.
      set (a1 := if Nat.eqb (first_return (gs s g)) 3 then 0 else 2) in *.
      set (a2 := if Nat.eqb (act (gs s g)) 3 then 0 else 2) in *. lia.
    - (* send local *)
      assert (Hg : In (grp n) groups) by apply grp_ok.
      pose proof (gsum_upd (gs s) (grp n) {| st := Running; local := n :: local (gs s (grp n)); outbox := rest;
                                           slot := slot (gs s (grp n)); act := act (gs s (grp n)) |} groups groups_nodup Hg) as E.
      unfold phi in E at 1 2. cbn [st local outbox slot act] in E. rewrite H, H0 in E. cbn [length] in E. lia.
    - (* send *)
      unfold h, s1.
      assert (Hg : In g groups) by (apply (in_groups_of_active s g HI); congruence).
      pose proof (gsum_upd (gs s) g {| st := Running; local := local (gs s g); outbox := rest; slot := slot (gs s g); act := act (gs s g) |}
                           groups groups_nodup Hg) as E1.
      set (f1 := upd (gs s) g {| st := Running; local := local (gs s g); outbox := rest; slot := slot (gs s g); act := act (gs s g) |}) in *.
      pose proof (gsum_upd f1 (grp n) {| st := match st (f1 (grp n)) with Parked => Running | x => x end; local := local (f1 (grp n));
                                        outbox := outbox (f1 (grp n)); slot := slot (f1 (grp n)) ++ [n]; act := act (f1 (grp n)) |}
                           groups groups_nodup (grp_ok n)) as E2.
      unfold phi in E1 at 1 2. cbn [st local outbox slot act] in E1. rewrite H, H0 in E1. cbn [length] in E1.
      unfold phi in E2 at 1 2. cbn [st local outbox slot act] in E2. rewrite app_length in E2. cbn [length] in E2.
      destruct (st (f1 (grp n))); lia.
    - (* swap *)
      assert (Hg : In g groups) by (apply (in_groups_of_active s g HI); congruence).
      pose proof (gsum_upd (gs s) g {| st := Running; local := slot (gs s g); outbox := []; slot := []; act := act (gs s g) |}
                           groups groups_nodup Hg) as E.
      unfold phi in E at 1 2. cbn [st local outbox slot act] in E. rewrite H, H0, H1 in E. cbn [length] in E.
      destruct (slot (gs s g)) as [|x sl]; [contradiction|]. cbn [length] in E. lia.
    - (* park *)
      assert (Hg : In g groups) by (apply (in_groups_of_active s g HI); congruence).
      assert (Hfr : (if Nat.eqb (first_return (gs s g)) 3 then 0 else 2) <= (if Nat.eqb (act (gs s g)) 3 then 0 else 2)).
      { unfold first_return. destruct (Nat.eqb_spec (act (gs s g)) 1) as [E1|E1]; [rewrite E1; cbn; lia|lia]. }
      pose proof (gsum_upd (gs s) g {| st := Parked; local := []; outbox := []; slot := []; act := first_return (gs s g) |}
                           groups groups_nodup Hg) as E.
      unfold phi in E at 1 2. cbn [st local outbox slot act] in E. rewrite H, H0, H1, H2 in E. cbn [length] in E.
      set (a1 := if Nat.eqb (first_return (gs s g)) 3 then 0 else 2) in *.
      set (a2 := if Nat.eqb (act (gs s g)) 3 then 0 else 2) in *. lia.
    - (* count *)
      unfold s1, last.
      assert (Hg : In g groups).
      { apply (in_groups_of_active s g HI). intros E. destruct (s_notact _ HS g E) as (_ & _ & A). lia. }
      pose proof (gsum_upd (gs s) g {| st := st (gs s g); local := local (gs s g); outbox := outbox (gs s g); slot := slot (gs s g); act := 3 |}
                           groups groups_nodup Hg) as E1.
      set (f1 := upd (gs s) g {| st := st (gs s g); local := local (gs s g); outbox := outbox (gs s g); slot := slot (gs s g); act := 3 |}) in *.
      unfold phi in E1 at 1 2. cbn [st local outbox slot act] in E1. rewrite H in E1. cbn in E1.
      destruct (delayq s) as [d|] eqn:Ed; [destruct (remaining s =? 1)|]; try lia.
      assert (Hd : st (gs s d) = Delayed) by (apply (s_delayed _ HS); assumption).
      assert (Hdg : In d groups) by (apply (in_groups_of_active s d HI); congruence).
      pose proof (gsum_upd f1 d (set_st item (f1 d) Running) groups groups_nodup Hdg) as E2.
      assert (Hf1d : st (f1 d) = Delayed).
      { unfold f1. destruct (Nat.eq_dec d g) as [->|?]; [rewrite upd_same|rewrite upd_other by assumption]; assumption. }
      unfold phi in E2 at 1 2. unfold set_st in E2. cbn [st local outbox slot act] in E2. rewrite Hf1d in E2.
      unfold set_st. set (a1 := if act (f1 d) =? 3 then 0 else 2) in *. lia.
  Qed.

  (* every run from a reachable state is finite: at most Phi steps *)
  Inductive steps : nat -> state -> state -> Prop :=
  | steps_0 s : steps 0 s s
  | steps_S n s s1 s2 : step s s1 -> steps n s1 s2 -> steps (S n) s s2.

  Theorem every_run_finite n s s' : reachable s -> steps n s s' -> n <= Phi s.
  Proof.
    intros Hr Hst. induction Hst as [s|n s s1 s2 H1 H2 IH]; [lia|].
    pose proof (step_decreases s s1 (inv_reachable s Hr) H1).
    assert (reachable s1) by (eapply R_step; eassumption). specialize (IH H0). lia.
  Qed.

End Proofs.
