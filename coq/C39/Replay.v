(* C39 — trace validation: replays the event log recorded by the verif_hooks build (one event per critical section of
   layout.rs) against the protocol part of the transition system of Model.v (item lists abstracted to counts).
   Every event must be an enabled step with the recorded effect; the end-of-phase snapshot must be the terminal state
   that C39_terminal_closure talks about. *)
From Coq Require Import List Bool Arith NArith.
Import ListNotations.

Inductive pst := PNot | PRun | PDelayed | PParked | PDropped.
Record pg := { p_st : pst; p_slot : nat; p_act : nat }.
Record pstate := { p_g : nat -> pg; p_rem : nat; p_dq : option nat; p_errs : nat }.

Definition pupd (f : nat -> pg) (g : nat) (x : pg) : nat -> pg := fun h => if Nat.eqb h g then x else f h.
Definition pinit (n : nat) : pstate :=
  {| p_g := fun _ => {| p_st := PNot; p_slot := 0; p_act := 0 |}; p_rem := n; p_dq := None; p_errs := 0 |}.
Definition pst_eqb (a b : pst) : bool :=
  match a, b with PNot, PNot | PRun, PRun | PDelayed, PDelayed | PParked, PParked | PDropped, PDropped => true | _, _ => false end.
Definition first_ret (a : nat) : nat := if Nat.eqb a 1 then 2 else a.

(* event = (kind, a, b); returns None if the event is not an enabled step of the model *)
Definition pstep (s : pstate) (e : nat * nat * nat) : option pstate :=
  let '(k, a, b) := e in
  let x := p_g s a in
  match k with
  | 1 => (* Activate a *)
      if pst_eqb (p_st x) PNot
      then Some {| p_g := pupd (p_g s) a {| p_st := PRun; p_slot := p_slot x; p_act := 1 |}; p_rem := p_rem s; p_dq := p_dq s; p_errs := p_errs s |}
      else None
  | 2 => (* the synthetic group goes to the delay queue (capacity 1) *)
      if pst_eqb (p_st x) PRun && Nat.eqb (p_act x) 1 && match p_dq s with None => true | Some _ => false end
      then Some {| p_g := pupd (p_g s) a {| p_st := PDelayed; p_slot := p_slot x; p_act := 2 |}; p_rem := p_rem s; p_dq := Some a; p_errs := p_errs s |}
      else None
  | 3 => (* Count a, remaining afterwards = b *)
      if Nat.eqb (p_act x) 2 && Nat.eqb (S b) (p_rem s)
      then Some {| p_g := pupd (p_g s) a {| p_st := p_st x; p_slot := p_slot x; p_act := 3 |}; p_rem := b; p_dq := p_dq s; p_errs := p_errs s |}
      else None
  | 4 => (* the delayed group is released: only by the last activation *)
      match p_dq s with
      | Some d => if Nat.eqb d a && Nat.eqb (p_rem s) 0 && pst_eqb (p_st x) PDelayed
                  then Some {| p_g := pupd (p_g s) a {| p_st := PRun; p_slot := p_slot x; p_act := p_act x |}; p_rem := p_rem s; p_dq := None; p_errs := p_errs s |}
                  else None
      | None => None
      end
  | 5 => (* handler error: the worker is dropped *)
      if pst_eqb (p_st x) PRun
      then Some {| p_g := pupd (p_g s) a {| p_st := PDropped; p_slot := p_slot x; p_act := first_ret (p_act x) |}; p_rem := p_rem s; p_dq := p_dq s; p_errs := S (p_errs s) |}
      else None
  | 6 => (* Park: only with an empty slot *)
      if pst_eqb (p_st x) PRun && Nat.eqb (p_slot x) 0
      then Some {| p_g := pupd (p_g s) a {| p_st := PParked; p_slot := 0; p_act := first_ret (p_act x) |}; p_rem := p_rem s; p_dq := p_dq s; p_errs := p_errs s |}
      else None
  | 7 => (* Swap: takes the b > 0 queued items *)
      if pst_eqb (p_st x) PRun && Nat.eqb (p_slot x) b && negb (Nat.eqb b 0)
      then Some {| p_g := pupd (p_g s) a {| p_st := PRun; p_slot := 0; p_act := p_act x |}; p_rem := p_rem s; p_dq := p_dq s; p_errs := p_errs s |}
      else None
  | 8 => (* Send to a: the parked worker is taken iff there is one (b = 1) *)
      if Bool.eqb (pst_eqb (p_st x) PParked) (Nat.eqb b 1)
      then Some {| p_g := pupd (p_g s) a {| p_st := match p_st x with PParked => PRun | y => y end; p_slot := S (p_slot x); p_act := p_act x |};
                   p_rem := p_rem s; p_dq := p_dq s; p_errs := p_errs s |}
      else None
  | _ => None
  end.

Fixpoint preplay (s : pstate) (es : list (nat * nat * nat)) (i : nat) : pstate + nat :=
  match es with
  | [] => inl s
  | e :: t => match pstep s e with Some s' => preplay s' t (S i) | None => inr i end
  end.

(* final snapshot: (group, slot length, worker present) for every group, and the number of errors *)
Definition final_ok (s : pstate) (ngroups nerrs : nat) (snap : list (nat * nat * bool)) : bool :=
  Nat.leb (p_errs s) nerrs && Nat.eqb (length snap) ngroups &&
  forallb (fun '(g, len, worker) =>
             Nat.eqb (p_slot (p_g s g)) len && Bool.eqb (pst_eqb (p_st (p_g s g)) PParked) worker) snap &&
  (if Nat.eqb (p_errs s) 0      (* no worker was dropped: errors reported without dropping a worker do not affect the protocol *)
   then Nat.eqb (p_rem s) 0 && match p_dq s with None => true | Some _ => false end &&
        forallb (fun '(g, len, worker) => Nat.eqb len 0 && worker && Nat.eqb (p_act (p_g s g)) 3) snap
   else true).

(* 0 = accepted; S k = event k rejected; ngroups+1000000 style codes are avoided: second component tells *)
Definition validate (ngroups nerrs : nat) (es : list (nat * nat * nat)) (snap : list (nat * nat * bool)) : nat * nat :=
  match preplay (pinit ngroups) es 0 with
  | inr i => (1, i)
  | inl s => if final_ok s ngroups nerrs snap then (0, 0) else (2, 0)
  end.

(* the invariant the protocol theorem is about, on accepted traces: a parked group never has queued work *)
Definition pinv (s : pstate) : Prop := forall g, p_st (p_g s g) = PParked -> p_slot (p_g s g) = 0.

Lemma pstep_inv s e s' : pinv s -> pstep s e = Some s' -> pinv s'.
Proof.
  intros HI H. destruct e as [[k a] b]. unfold pstep in H.
  destruct k as [|[|[|[|[|[|[|[|[|k]]]]]]]]]; try discriminate.
  all: repeat match type of H with
       | (if ?c then _ else _) = _ => destruct c eqn:?; [|discriminate]
       | match ?c with Some _ => _ | None => _ end = _ => destruct c eqn:?; [|discriminate]
       end.
  all: injection H as <-; intros g; cbn [p_g]; unfold pupd; destruct (Nat.eqb g a) eqn:Eg; cbn [p_st p_slot]; try apply HI; try discriminate; try reflexivity.
  all: try (destruct (p_st (p_g s a)); discriminate).
Qed.

Theorem accepted_traces_keep_invariant n es : forall s, preplay (pinit n) es 0 = inl s -> pinv s.
Proof.
  assert (G : forall es s i s', pinv s -> preplay s es i = inl s' -> pinv s').
  { induction es0 as [|e t IH]; intros s i s' HI H; cbn in H; [injection H as <-; assumption|].
    destruct (pstep s e) eqn:E; [|discriminate]. eapply IH; [eapply pstep_inv; eassumption|eassumption]. }
  intros s H. eapply G; [|eassumption]. intros g Hg. cbn in Hg. discriminate.
Qed.
