(* C39 (and the reference-graph half of C05) — property theorems only.
   Everything is quantified over: any item type with decidable equality, any routing function, any successor (request)
   relation, any roots, any number of groups, any position of the synthetic group — and every interleaving, because the
   statements are about all [reachable] states of the transition system. *)
From Coq Require Import List Bool Arith.
Import ListNotations.
From WV Require Import C39.Model C39.Proofs.

Section Statements.
  Variable item : Type.
  Variable item_eqb : item -> item -> bool.
  Hypothesis item_eqb_spec : forall a b, reflect (a = b) (item_eqb a b).
  Variable grp : item -> nat.
  Variable succ : item -> list item.
  Variable roots : nat -> list item.
  Variable synthetic : nat -> bool.
  Variable groups : list nat.
  Hypothesis groups_nodup : NoDup groups.
  Hypothesis grp_ok : forall i, In (grp i) groups.
  Hypothesis one_synthetic : forall g h, synthetic g = true -> synthetic h = true -> g = h.
  Hypothesis roots_route : forall g r, In r (roots g) -> grp r = g.

  Notation reachable := (reachable item item_eqb grp succ roots synthetic groups).
  Notation step := (step item item_eqb grp succ roots synthetic groups).

  (* no lost wake-up: work sitting in a group's slot is never stranded behind a parked worker *)
  Theorem C39_no_lost_work : forall s g, reachable s -> slot (gs s g) <> [] -> st (gs s g) <> Parked.
  Proof. exact (no_lost_work item item_eqb item_eqb_spec grp succ roots synthetic groups groups_nodup grp_ok one_synthetic roots_route). Qed.

  (* every request is queued at (and only at) the group that must handle it *)
  Theorem C39_requests_are_routed : forall s g n, reachable s -> In n (local (gs s g)) \/ In n (slot (gs s g)) -> grp n = g.
  Proof. exact (requests_are_routed item item_eqb item_eqb_spec grp succ roots synthetic groups groups_nodup grp_ok one_synthetic roots_route). Qed.

  (* whatever the schedule: when nothing more can happen and no error was reported, every group is parked with empty queues,
     the activation counter is 0, the delay queue is empty, and the handled set is EXACTLY the closure of the roots *)
  Theorem C39_terminal_closure : forall s, reachable s -> terminal item item_eqb grp succ roots synthetic groups s -> errs s = 0 ->
    (forall g, In g groups -> st (gs s g) = Parked /\ queues item (gs s g) = []) /\
    remaining s = 0 /\ delayq s = None /\
    (forall n, Reach item succ roots groups n <-> In n (done s)).
  Proof. exact (terminal_closure item item_eqb item_eqb_spec grp succ roots synthetic groups groups_nodup grp_ok one_synthetic roots_route). Qed.

  (* termination: every step strictly decreases a natural-number potential, so every run is finite *)
  Variable items : list item.
  Hypothesis items_nodup : NoDup items.
  Hypothesis items_all : forall i, In i items.
  Variable msucc mroots : nat.
  Hypothesis msucc_ok : forall i, length (succ i) <= msucc.
  Hypothesis mroots_ok : forall g, length (roots g) <= mroots.

  Theorem C39_every_run_finite : forall n s s', reachable s ->
    steps item item_eqb grp succ roots synthetic groups n s s' ->
    n <= Phi item item_eqb groups items msucc mroots s.
  Proof.
    exact (every_run_finite item item_eqb item_eqb_spec grp succ roots synthetic groups groups_nodup grp_ok one_synthetic
             roots_route items items_nodup items_all msucc mroots msucc_ok mroots_ok).
  Qed.
End Statements.

Print Assumptions C39_no_lost_work.
Print Assumptions C39_requests_are_routed.
Print Assumptions C39_terminal_closure.
Print Assumptions C39_every_run_finite.
