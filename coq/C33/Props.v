(* C33 — --wrap redirects references exactly as GNU ld does: the property theorems.
   Model: C33/Model.v (wild: apply_wrapped_symbol_overrides as a fold over the --wrap list; GNU ld: one-step
   renaming of undefined references; `bind` = references from the defining object stay inside it). *)
From Coq Require Import NArith List Bool.
From WV Require Import C33.Model C33.Proofs.
Import ListNotations.
Open Scope N_scope.

(* For every name table (any set of objects, archive members and shared libraries), every list of wrapped base
   names (in any order, repetitions allowed) each of which has a __wrap_ definition (and no stray definition of __real_S when S itself is
   undefined), every referenced name binds under wild exactly as under GNU ld — in particular S -> __wrap_S and
   __real_S -> the original S, everything else unchanged. *)
Theorem C33_wrap_binds_as_gnu_ld :
  forall t ws,
    Forall (fun s => is_base s = true) ws ->
    (forall s, In s ws -> t (Wrap s) <> None /\ (t s = None -> t (Real s) = None)) ->
    forall n, wild_resolve t ws n = gnu_resolve t ws n.
Proof. exact wild_eq_gnu. Qed.
Print Assumptions C33_wrap_binds_as_gnu_ld.

(* ... hence also for references made from inside the defining object (unaffected in both) *)
Theorem C33_defining_object_unaffected :
  forall resolve own n d, own n = Some d -> bind resolve own n = Some d.
Proof. intros resolve own n d H. unfold bind. rewrite H. reflexivity. Qed.
Print Assumptions C33_defining_object_unaffected.

(* the closed form of wild's rewrite (no hypothesis on which wrappers exist) *)
Theorem C33_wild_table_closed_form :
  forall t ws, Forall (fun s => is_base s = true) ws -> forall n, wild_table t ws n = cf t ws n.
Proof. exact wild_table_closed_form. Qed.
Print Assumptions C33_wild_table_closed_form.

(* outside the hypotheses the statement is false of the model (and of wild: known_findings.json) *)
Theorem C33_refuted_wrapper_missing :     (* --wrap=S, S defined (id 1), no __wrap_S *)
  let t := of_list [(Base 1, 1)] in
  wild_resolve t [Base 1] (Base 1) = Some 1 /\ gnu_resolve t [Base 1] (Base 1) = None.
Proof. vm_compute. split; reflexivity. Qed.
Print Assumptions C33_refuted_wrapper_missing.

Theorem C33_refuted_wrap_given_twice :    (* the pinned tree, --wrap=S --wrap=S: __real_S ended up at the wrapper (repaired) *)
  let t := of_list [(Base 1, 1); (Wrap (Base 1), 2)] in
  wild_resolve_pinned t [Base 1; Base 1] (Real (Base 1)) = Some 2 /\ gnu_resolve t [Base 1; Base 1] (Real (Base 1)) = Some 1 /\
  wild_resolve t [Base 1; Base 1] (Real (Base 1)) = Some 1.
Proof. vm_compute. repeat split; reflexivity. Qed.
Print Assumptions C33_refuted_wrap_given_twice.

Theorem C33_refuted_real_defined_original_missing :
  let t := of_list [(Wrap (Base 1), 2); (Real (Base 1), 3)] in
  wild_resolve t [Base 1] (Real (Base 1)) = Some 3 /\ gnu_resolve t [Base 1] (Real (Base 1)) = None.
Proof. vm_compute. split; reflexivity. Qed.
Print Assumptions C33_refuted_real_defined_original_missing.

Example C33_hypotheses_satisfiable :
  let t := of_list [(Base 1, 1); (Wrap (Base 1), 2); (Base 2, 3)] in
  (t (Wrap (Base 1)) <> None) /\
  wild_resolve t [Base 1] (Base 1) = Some 2 /\ wild_resolve t [Base 1] (Real (Base 1)) = Some 1 /\ wild_resolve t [Base 1] (Base 2) = Some 3.
Proof. vm_compute. repeat split; discriminate || reflexivity. Qed.
