(* C33 — --wrap.  wild: SymbolDb::apply_wrapped_symbol_overrides (libwild/src/symbol_db.rs) rewrites the global
   name table once (all look-ups first, then the overrides, in --wrap order), before undefined references are resolved through it.
   GNU ld: bfd_wrapped_link_hash_lookup — a one-step renaming applied when an UNDEFINED reference is looked up.
   Names: a base name, or __wrap_ / __real_ in front of a name. *)
From Coq Require Import NArith List Bool.
Import ListNotations.
Open Scope N_scope.

Inductive name := Base (n : N) | Wrap (s : name) | Real (s : name).
Fixpoint name_eqb (a b : name) : bool :=
  match a, b with
  | Base x, Base y => x =? y
  | Wrap x, Wrap y | Real x, Real y => name_eqb x y
  | _, _ => false
  end.

(* the name table: defined global symbols (objects, archive members, shared libraries) -> symbol id *)
Definition table := name -> option N.
Definition upd (t : table) (k : name) (v : N) : table := fun n => if name_eqb n k then Some v else t n.

(* ---- wild ---- *)
(* every --wrap name is looked up in the table as it was before any override (t0), then the overrides are applied *)
Definition wild_step (t0 : table) (acc : table) (s : name) : table :=
  let acc1 := match t0 (Wrap s) with Some w => upd acc s w | None => acc end in
  match t0 s with Some o => upd acc1 (Real s) o | None => acc1 end.
Definition wild_table (t : table) (ws : list name) : table := fold_left (wild_step t) ws t.
Definition wild_resolve (t : table) (ws : list name) (n : name) : option N := wild_table t ws n.

(* the pinned tree: look-ups and overrides interleaved, so a repeated name sees its own earlier override *)
Definition wild_step_pinned (t : table) (s : name) : table :=
  let orig := t s in
  let t1 := match t (Wrap s) with Some w => upd t s w | None => t end in
  match orig with Some o => upd t1 (Real s) o | None => t1 end.
Definition wild_resolve_pinned (t : table) (ws : list name) (n : name) : option N := fold_left wild_step_pinned ws t n.

(* ---- GNU ld ---- *)
Definition wrapped (ws : list name) (s : name) : bool := existsb (name_eqb s) ws.
Definition gnu_resolve (t : table) (ws : list name) (n : name) : option N :=
  if wrapped ws n then t (Wrap n)
  else match n with
       | Real s => if wrapped ws s then t s else t n
       | _ => t n
       end.

(* a reference from object `o`: a global the object defines itself is bound inside the object in both linkers *)
Definition bind (resolve : name -> option N) (own : name -> option N) (n : name) : option N :=
  match own n with Some d => Some d | None => resolve n end.

(* finite tables for evaluation *)
Fixpoint of_list (l : list (name * N)) : table :=
  match l with
  | [] => fun _ => None
  | (k, v) :: r => fun n => if name_eqb n k then Some v else of_list r n
  end.

Definition is_base (n : name) : bool := match n with Base _ => true | _ => false end.
