(* C33 — proofs: the rewrite has a closed form on every list of base names (repetitions included), and that
   closed form is GNU ld's renaming when every wrapper exists. *)
From Coq Require Import NArith List Bool Lia.
From WV Require Import C33.Model.
Import ListNotations.
Open Scope N_scope.

Lemma name_eqb_eq a b : name_eqb a b = true <-> a = b.
Proof.
  revert b. induction a as [x|a IH|a IH]; intros [y|b|b]; cbn [name_eqb]; try (split; [discriminate|intros H; discriminate H]).
  - rewrite N.eqb_eq. split; [intros ->; reflexivity|intros H; injection H as ->; reflexivity].
  - rewrite IH. split; [intros ->; reflexivity|intros H; injection H as ->; reflexivity].
  - rewrite IH. split; [intros ->; reflexivity|intros H; injection H as ->; reflexivity].
Qed.
Lemma name_eqb_refl a : name_eqb a a = true.
Proof. apply name_eqb_eq. reflexivity. Qed.
Lemma name_eqb_neq a b : a <> b -> name_eqb a b = false.
Proof. intros H. destruct (name_eqb a b) eqn:E; [apply name_eqb_eq in E; contradiction|reflexivity]. Qed.

Lemma wrapped_in ws s : wrapped ws s = true <-> In s ws.
Proof.
  unfold wrapped. rewrite existsb_exists. split.
  - intros [x [Hx E]]. apply name_eqb_eq in E. subst. exact Hx.
  - intros H. exists s. split; [exact H|apply name_eqb_refl].
Qed.
Lemma wrapped_app ws s x : wrapped (ws ++ [x]) s = wrapped ws s || name_eqb s x.
Proof. unfold wrapped. rewrite existsb_app. cbn [existsb]. rewrite orb_false_r. reflexivity. Qed.

(* closed form of wild's table after the rewrite *)
Definition cf (t : table) (ws : list name) (n : name) : option N :=
  match n with
  | Base _ => if wrapped ws n then match t (Wrap n) with Some w => Some w | None => t n end else t n
  | Real s => if wrapped ws s then match t s with Some o => Some o | None => t n end else t n
  | Wrap _ => t n
  end.

Lemma wild_step_ext t0 t1 t2 s : (forall n, t1 n = t2 n) -> forall n, wild_step t0 t1 s n = wild_step t0 t2 s n.
Proof.
  intros H n. unfold wild_step.
  destruct (t0 (Wrap s)) as [w|]; destruct (t0 s) as [o|]; unfold upd; rewrite ?H; reflexivity.
Qed.

Theorem wild_table_closed_form t ws :
  Forall (fun s => is_base s = true) ws -> forall n, wild_table t ws n = cf t ws n.
Proof.
  induction ws as [|s ws' IH] using rev_ind; intros Hb n; [destruct n; reflexivity|].
  apply Forall_app in Hb. destruct Hb as [Hb Hs]. inversion Hs as [|? ? Hsb _]; subst.
  unfold wild_table. rewrite fold_left_app. cbn [fold_left].
  rewrite (wild_step_ext t _ (cf t ws') s (IH Hb)).
  destruct s as [b|x|x]; try discriminate. clear Hsb.
  unfold wild_step.
  destruct n as [c|y|y]; cbn [cf]; rewrite ?wrapped_app.
  - (* n = Base c *)
    destruct (name_eqb (Base c) (Base b)) eqn:E.
    + apply name_eqb_eq in E. injection E as ->. rewrite orb_true_r.
      destruct (t (Wrap (Base b))) as [w|] eqn:Ew; destruct (t (Base b)) as [o|] eqn:Et; unfold upd; cbn [name_eqb]; rewrite ?N.eqb_refl; cbn [cf];
        rewrite ?Ew, ?Et; try reflexivity; destruct (wrapped ws' (Base b)); reflexivity.
    + rewrite orb_false_r.
      destruct (t (Wrap (Base b))) as [w|] eqn:Ew; destruct (t (Base b)) as [o|] eqn:Et; unfold upd; cbn [name_eqb] in *; rewrite ?E; cbn [cf]; reflexivity.
  - (* n = Wrap y *)
    destruct (t (Wrap (Base b))) as [w|] eqn:Ew; destruct (t (Base b)) as [o|] eqn:Et; unfold upd; cbn [name_eqb cf]; reflexivity.
  - (* n = Real y *)
    destruct (name_eqb y (Base b)) eqn:E.
    + apply name_eqb_eq in E. subst y. rewrite orb_true_r.
      destruct (t (Wrap (Base b))) as [w|] eqn:Ew; destruct (t (Base b)) as [o|] eqn:Et; unfold upd; cbn [name_eqb]; rewrite ?N.eqb_refl; cbn [cf];
        rewrite ?Ew, ?Et; try reflexivity; destruct (wrapped ws' (Base b)); reflexivity.
    + rewrite orb_false_r.
      destruct (t (Wrap (Base b))) as [w|] eqn:Ew; destruct (t (Base b)) as [o|] eqn:Et; unfold upd; cbn [name_eqb]; rewrite ?E; cbn [cf]; reflexivity.
Qed.

Theorem wild_eq_gnu t ws :
  Forall (fun s => is_base s = true) ws ->
  (forall s, In s ws -> t (Wrap s) <> None /\ (t s = None -> t (Real s) = None)) ->
  forall n, wild_resolve t ws n = gnu_resolve t ws n.
Proof.
  intros Hb Hw n. unfold wild_resolve. rewrite (wild_table_closed_form t ws Hb).
  assert (Hnb : forall m, is_base m = false -> wrapped ws m = false).
  { intros m Hm. destruct (wrapped ws m) eqn:E; [|reflexivity]. apply wrapped_in in E.
    rewrite Forall_forall in Hb. rewrite (Hb m E) in Hm. discriminate. }
  unfold gnu_resolve. destruct n as [c|y|y]; cbn [cf].
  - destruct (wrapped ws (Base c)) eqn:E; [|reflexivity].
    apply wrapped_in in E. destruct (Hw _ E) as [H1 _]. destruct (t (Wrap (Base c))); [reflexivity|contradiction].
  - rewrite (Hnb (Wrap y) eq_refl). reflexivity.
  - rewrite (Hnb (Real y) eq_refl). destruct (wrapped ws y) eqn:E; [|reflexivity].
    apply wrapped_in in E. destruct (Hw _ E) as [_ H2]. destruct (t y) as [o|]; [reflexivity|]. apply H2. reflexivity.
Qed.
