(* C18 — a failed link leaves no output file produced by that link: the property theorems.
   Model: Cfs/Model.v (abstract file system + the file operations of one link, all write modes, background and
   main-thread creation, ETXTBSY fallback, the failure points before set_size / after set_size / in the write
   phase / after it, and remove_after_failed_link). *)
From Coq Require Import NArith List Bool.
From WV Require Import Cfs.Model C18.Proofs.
Import ListNotations.
Open Scope N_scope.

(* Every configuration (shared or executable, forced or default write mode, one or many threads, old output
   being executed or not, any name for the parked old output) in a directory wild may modify, every prior state of the output path and every failure point at which wild RETURNS an
   error: afterwards the output path is absent, or still bound to the old inode with its old contents. *)
Theorem C18_failed_link_leaves_no_output :
  forall c s0, prior_ok s0 -> crash c = false -> dir_writable c = true -> snd (link c s0) = false ->
    observe s0 (fst (link c s0)) = Absent \/ observe s0 (fst (link c s0)) = Untouched.
Proof. exact failed_link_outcome. Qed.
Print Assumptions C18_failed_link_leaves_no_output.

(* the other direction, so that the statement above is not met by never writing anything *)
Theorem C18_successful_link_writes_complete_file :
  forall c s0, snd (link c s0) = true ->
    exists i, names (fst (link c s0)) Out = Some i /\ data (fst (link c s0)) i = Fresh true.
Proof. exact successful_link_outcome. Qed.
Print Assumptions C18_successful_link_writes_complete_file.

(* NOT covered: the linking process being killed (panic, abort, SIGKILL) once the file exists — nobody is left to
   clean up; known_findings.json C18-killed-after-creation *)
Theorem C18_refuted_when_killed :
  observe (fs0 true) (fst (link (cfg_of false None true false InWrite true) (fs0 true))) = Changed (Fresh false) /\
  observe (fs0 false) (fst (link (cfg_of false None true false AfterSetSize true) (fs0 false))) = Changed (Fresh false).
Proof. exact killed_link_leaves_partial_file. Qed.
Print Assumptions C18_refuted_when_killed.

(* NOT covered either: a directory in which wild may not remove names, holding a writable old output — the old inode
   is reopened with O_TRUNC and cannot be removed afterwards; known_findings.json C18-unwritable-directory *)
Theorem C18_refuted_in_unwritable_directory :
  observe (fs0 true) (fst (link (cfg_ro true None true false InWrite false) (fs0 true))) = Changed (Fresh false).
Proof. exact unwritable_directory_leaves_modified_file. Qed.
Print Assumptions C18_refuted_in_unwritable_directory.

Example C18_hypotheses_satisfiable :
  prior_ok (fs0 true) /\ snd (link (cfg_of true None true false InWrite false) (fs0 true)) = false /\
  observe (fs0 true) (fst (link (cfg_of true None true false InWrite false) (fs0 true))) = Absent /\
  observe (fs0 true) (fst (link (cfg_of false None false false Early false) (fs0 true))) = Untouched.
Proof. split; [intros i H; exists 1; reflexivity|vm_compute; repeat split; reflexivity]. Qed.
