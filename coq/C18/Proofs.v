(* C18 — proofs over the Cfs model. *)
From Coq Require Import NArith List Bool Lia.
From WV Require Import Cfs.Model.
Import ListNotations.
Open Scope N_scope.

Definition prior_ok (s : fs) : Prop :=
  forall i, names s Out = Some i -> exists c, data s i = Old c.

Lemma observe_unlinked s0 s : observe s0 (unlink s Out) = Absent.
Proof. reflexivity. Qed.

Lemma observe_same s0 : prior_ok s0 -> observe s0 s0 = Absent \/ observe s0 s0 = Untouched.
Proof.
  intros Hp. unfold observe. destruct (names s0 Out) as [i|] eqn:E; [|left; reflexivity].
  right. rewrite N.eqb_refl. destruct (Hp i E) as [c ->]. reflexivity.
Qed.

(* a failing link that was not killed ends with the output name removed, or with nothing touched *)
Lemma failed_link_shape c s0 :
  crash c = false -> dir_writable c = true -> snd (link c s0) = false ->
  (exists s, fst (link c s0) = unlink s Out) \/ fst (link c s0) = s0.
Proof.
  intros Hc Hw. unfold link. rewrite Hc, Hw. unfold cleanup, unlink_w.
  destruct (stop_at c); cbn [fst snd].
  - intros _. right. reflexivity.
  - unfold on_set_size. destruct (background c).
    + destruct (create_output _ _ _); intros _; left; eexists; reflexivity.
    + intros _. right. reflexivity.
  - destruct (on_set_size c (mode_of c s0) s0) as [s1|]; cbn [fst snd].
    + destruct (on_write_start c (mode_of c s0) s1); intros _; left; eexists; reflexivity.
    + unfold on_set_size. destruct (background c); intros _; [left; eexists; reflexivity|right; reflexivity].
  - destruct (on_set_size c (mode_of c s0) s0) as [s1|] eqn:E1; cbn [fst snd].
    + destruct (on_write_start c (mode_of c s0) s1); intros _; left; eexists; reflexivity.
    + destruct (background c); intros _; [left; eexists; reflexivity|right; reflexivity].
  - destruct (on_set_size c (mode_of c s0) s0) as [s1|] eqn:E1; cbn [fst snd].
    + destruct (on_write_start c (mode_of c s0) s1); cbn [fst snd]; [discriminate|].
      intros _; left; eexists; reflexivity.
    + destruct (background c); intros _; [left; eexists; reflexivity|right; reflexivity].
Qed.

Theorem failed_link_outcome c s0 :
  prior_ok s0 -> crash c = false -> dir_writable c = true -> snd (link c s0) = false ->
  observe s0 (fst (link c s0)) = Absent \/ observe s0 (fst (link c s0)) = Untouched.
Proof.
  intros Hp Hc Hw Hf. destruct (failed_link_shape c s0 Hc Hw Hf) as [[s ->]| ->].
  - left. apply observe_unlinked.
  - apply observe_same. exact Hp.
Qed.

Lemma create_output_names c m s s' : create_output c m s = Some s' -> exists i, names s' Out = Some i.
Proof.
  unfold create_output. destruct (names s Out) as [i|] eqn:E.
  - destruct (busy c); destruct m; try destruct (dir_writable c); intros H; try discriminate; injection H as <-;
      cbn [new_file unlink bind_name set_data names path_eqb]; rewrite ?E; eauto.
  - intros H. injection H as <-. cbn [new_file names path_eqb]. eauto.
Qed.

(* a successful link leaves a complete fresh file *)
Theorem successful_link_outcome c s0 :
  snd (link c s0) = true -> exists i, names (fst (link c s0)) Out = Some i /\ data (fst (link c s0)) i = Fresh true.
Proof.
  unfold link.
  destruct (stop_at c);
    try (cbn [fst snd]; discriminate);
    (destruct (on_set_size c (mode_of c s0) s0) as [s1|] eqn:E1; [|cbn [fst snd]; discriminate]);
    try (cbn [fst snd]; discriminate);
    (destruct (on_write_start c (mode_of c s0) s1) as [s2|] eqn:E2; [|cbn [fst snd]; discriminate]);
    try (cbn [fst snd]; discriminate).
  intros _. cbn [fst snd].
  assert (Hex : exists i, names s2 Out = Some i).
  { unfold on_write_start in E2. destruct (background c) eqn:Eb.
    - injection E2 as <-. unfold on_set_size in E1. rewrite Eb in E1. eapply create_output_names. exact E1.
    - eapply create_output_names. exact E2. }
  destruct Hex as [i Hi]. exists i. unfold fill. rewrite Hi. cbn [set_data names data]. split; [exact Hi|]. rewrite N.eqb_refl. reflexivity.
Qed.

(* ... whereas a link that is KILLED (panic, abort, signal) after the file has been created leaves it behind *)
Definition fs0 (present : bool) : fs :=
  {| names := fun p => match p with Out => if present then Some 7 else None | _ => None end;
     data := fun _ => Old 1; next_ino := 100 |}.
Definition cfg_of (sh : bool) (fo : option wmode) (bg bu : bool) (st : stop) (cr : bool) : cfg :=
  {| shared := sh; forced := fo; background := bg; busy := bu; tmp := Other 0; dir_writable := true; stop_at := st; crash := cr |}.
Definition cfg_ro (sh : bool) (fo : option wmode) (bg bu : bool) (st : stop) (cr : bool) : cfg :=
  {| shared := sh; forced := fo; background := bg; busy := bu; tmp := Other 0; dir_writable := false; stop_at := st; crash := cr |}.

Theorem killed_link_leaves_partial_file :
  observe (fs0 true) (fst (link (cfg_of false None true false InWrite true) (fs0 true))) = Changed (Fresh false) /\
  observe (fs0 false) (fst (link (cfg_of false None true false AfterSetSize true) (fs0 false))) = Changed (Fresh false).
Proof. vm_compute. split; reflexivity. Qed.

(* ... and so does a link that fails inside a directory it may not modify, when the old file itself is writable *)
Theorem unwritable_directory_leaves_modified_file :
  observe (fs0 true) (fst (link (cfg_ro true None true false InWrite false) (fs0 true))) = Changed (Fresh false).
Proof. vm_compute. reflexivity. Qed.
