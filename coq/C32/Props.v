(* C32 — symbol versions follow the version script: the property theorems.
   Model: C32/Model.v (wild: RegularVersionScript::find_match; GNU ld: bfd_find_version_for_sym; a node is abstracted
   to the match bits of its pattern kinds for one symbol name). *)
From Coq Require Import List Bool Arith.
From WV Require Import C32.Model C32.Proofs.
Import ListNotations.

(* For every script (any number of nodes) and every symbol name whose wildcard matches are of one kind (only globs with
   `*`, or only globs without) and where no node matching the name only in `local:` follows a node matching it in
   `global:` — exact names anywhere, the bare `*` anywhere: wild assigns the node GNU ld assigns, and hides the symbol
   exactly when GNU ld hides it. *)
Theorem C32_version_node_as_gnu_ld :
  forall ns, canonical ns = true -> wild_match ns = gnu_match ns.
Proof. exact wild_is_gnu. Qed.
Print Assumptions C32_version_node_as_gnu_ld.

(* a symbol the script makes local is not exported: both orders return Local only from a `local:` match *)
Theorem C32_exact_match_decides_first :
  forall ns i gv lv, first_exact ns i <> NoMatch -> gnu_scan ns i gv lv = first_exact ns i.
Proof. exact gnu_scan_exact. Qed.
Print Assumptions C32_exact_match_decides_first.

Definition N_ (a b c d e f g h : bool) : node := {| gx := a; lx := b; gn := c; gs := d; ga := e; ln := f; ls := g; la := h |}.

(* outside the domain the statement is false of the model (and of wild: known_findings.json C32-wildcard-precedence) *)
Theorem C32_refuted_local_after_global :      (* V1 { global: f*; };  V2 { local: fo?; } V1;   symbol foo *)
  let ns := [N_ false false false true false false false false; N_ false false false false false true false false] in
  wild_match ns = Local 1 /\ gnu_match ns = Global 0.
Proof. vm_compute. split; reflexivity. Qed.
Print Assumptions C32_refuted_local_after_global.

Theorem C32_refuted_mixed_glob_kinds :        (* V1 { global: fo?; };  V2 { global: f*; } V1;   symbol foo *)
  let ns := [N_ false false true false false false false false; N_ false false false true false false false false] in
  wild_match ns = Global 0 /\ gnu_match ns = Global 1.
Proof. vm_compute. split; reflexivity. Qed.
Print Assumptions C32_refuted_mixed_glob_kinds.

(* non-vacuity: the usual idiom (exact names and `*`-globs in global, `local: *` in one node) is canonical *)
Example C32_hypotheses_satisfiable :
  let ns := [N_ false false false true false false false true; N_ true false false false false false false false] in
  canonical ns = true /\ wild_match ns = Global 1 /\ gnu_match ns = Global 1.
Proof. vm_compute. repeat split; reflexivity. Qed.
