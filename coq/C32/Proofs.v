(* C32 — proofs: on canonical match bits wild's order and GNU ld's order pick the same node. *)
From Coq Require Import List Bool Arith Lia.
From WV Require Import C32.Model.
Import ListNotations.

(* GNU ld's scan, unrolled: the first exact match, else (last global wildcard, else last local wildcard) *)
Lemma gnu_scan_exact ns : forall i gv lv,
  first_exact ns i <> NoMatch -> gnu_scan ns i gv lv = first_exact ns i.
Proof.
  induction ns as [|n r IH]; intros i gv lv H; [cbn in H; contradiction|].
  cbn [gnu_scan first_exact] in *. destruct (gx n); [reflexivity|]. destruct (lx n); [reflexivity|]. apply IH. exact H.
Qed.

(* last_with never yields Local when the local test is constantly false *)
Lemma last_with_nolocal g ns : forall i j, last_with g (fun _ => false) ns i <> Local j.
Proof.
  induction ns as [|n r IH]; intros i j; cbn [last_with]; [discriminate|].
  destruct (last_with g (fun _ => false) r (S i)) eqn:E; try discriminate.
  - exfalso. exact (IH (S i) _ E).
  - destruct (g n); discriminate.
Qed.

Lemma existsb_false_all {A} (f : A -> bool) l : existsb f l = false -> forall x, In x l -> f x = false.
Proof.
  induction l as [|y r IH]; intros H x Hx; [destruct Hx|]. cbn [existsb] in H. apply orb_false_iff in H. destruct H as [H1 H2].
  destruct Hx as [<-|Hx]; [exact H1|apply IH; assumption].
Qed.

Definition pick (gv lv : option nat) : verdict :=
  match gv, lv with Some g, _ => Global g | None, Some l => Local l | None, None => NoMatch end.

Lemma gnu_scan_noexact ns : forall i gv lv,
  first_exact ns i = NoMatch ->
  gnu_scan ns i gv lv =
    pick (match last_with gw (fun _ => false) ns i with Global g => Some g | _ => gv end)
         (match last_with lw (fun _ => false) ns i with Global l => Some l | _ => lv end).
Proof.
  induction ns as [|n r IH]; intros i gv lv H; [reflexivity|].
  cbn [gnu_scan first_exact last_with] in *.
  destruct (gx n); [discriminate|]. destruct (lx n); [discriminate|].
  rewrite (IH (S i) _ _ H).
  destruct (last_with gw (fun _ => false) r (S i)) as [g|g| ] eqn:Eg; [|exfalso; exact (last_with_nolocal _ _ _ _ Eg)|];
    (destruct (last_with lw (fun _ => false) r (S i)) as [l|l| ] eqn:El; [|exfalso; exact (last_with_nolocal _ _ _ _ El)|]);
    destruct (gw n), (lw n); reflexivity.
Qed.

(* with one wildcard kind absent, the scan over that kind finds nothing *)
Lemma last_with_none g l ns : forall i, existsb (fun x => g x || l x) ns = false -> last_with g l ns i = NoMatch.
Proof.
  induction ns as [|n r IH]; intros i H; [reflexivity|]. cbn [existsb last_with] in *.
  apply orb_false_iff in H. destruct H as [H1 H2]. apply orb_false_iff in H1. destruct H1 as [Hg Hl].
  rewrite (IH (S i) H2), Hg, Hl. reflexivity.
Qed.

Lemma last_with_ext g l g' l' ns : forall i,
  (forall x, In x ns -> g x = g' x /\ l x = l' x) -> last_with g l ns i = last_with g' l' ns i.
Proof.
  induction ns as [|n r IH]; intros i H; [reflexivity|]. cbn [last_with].
  rewrite (IH (S i)) by (intros x Hx; apply H; right; exact Hx).
  destruct (H n (or_introl eq_refl)) as [-> ->]. reflexivity.
Qed.

(* the heart: scanning from the end with "global before local inside a node" equals "last global, else last local"
   when no local-only node follows a global one *)
Lemma no_global_later_local_only g l r : forall i y,
  last_with g (fun _ => false) r i = NoMatch ->
  last_with l (fun _ => false) r i = Global y ->
  existsb (fun m => l m && negb (g m)) r = true.
Proof.
  induction r as [|m r IHr]; intros i y Eg El; [discriminate|].
  cbn [last_with existsb] in *.
  destruct (last_with g (fun _ => false) r (S i)) as [x|x|] eqn:Eg'; [discriminate|discriminate|].
  destruct (g m) eqn:Egm; [discriminate|]. cbn [negb andb]. rewrite andb_true_r.
  destruct (last_with l (fun _ => false) r (S i)) as [y'|y'|] eqn:El'.
  - rewrite (IHr (S i) y' Eg' El'). apply orb_true_r.
  - exfalso. exact (last_with_nolocal _ _ _ _ El').
  - destruct (l m); [reflexivity|discriminate].
Qed.

Fixpoint lnag (g l : node -> bool) (ns : list node) : bool :=
  match ns with [] => true | n :: r => lnag g l r && (negb (g n) || negb (existsb (fun m => l m && negb (g m)) r)) end.

Lemma last_with_is_pick g l ns : forall i,
  lnag g l ns = true ->
  last_with g l ns i =
    pick (match last_with g (fun _ => false) ns i with Global x => Some x | _ => None end)
         (match last_with l (fun _ => false) ns i with Global x => Some x | _ => None end).
Proof.
  induction ns as [|n r IH]; intros i H; [reflexivity|].
  cbn [lnag] in H. apply andb_prop in H. destruct H as [Hr Hn]. cbn [last_with]. rewrite (IH (S i) Hr).
  destruct (last_with g (fun _ => false) r (S i)) as [x|x|] eqn:Eg.
  - cbn [pick]. destruct (last_with l (fun _ => false) r (S i)); reflexivity.
  - exfalso. exact (last_with_nolocal _ _ _ _ Eg).
  - destruct (last_with l (fun _ => false) r (S i)) as [y|y|] eqn:El.
    + cbn [pick]. destruct (g n) eqn:Egn; [|reflexivity].
      exfalso. cbn [negb orb] in Hn. apply negb_true_iff in Hn.
      rewrite (no_global_later_local_only g l r (S i) y Eg El) in Hn. discriminate.
    + exfalso. exact (last_with_nolocal _ _ _ _ El).
    + cbn [pick]. destruct (g n), (l n); reflexivity.
Qed.

Lemma lnag_is_model ns : local_not_after_global ns = lnag gw lw ns.
Proof. induction ns as [|n r IH]; [reflexivity|]. cbn [local_not_after_global lnag]. rewrite IH. reflexivity. Qed.

Theorem wild_is_gnu ns : canonical ns = true -> wild_match ns = gnu_match ns.
Proof.
  intros Hc. unfold canonical in Hc. apply andb_prop in Hc. destruct Hc as [H1 H2].
  unfold wild_match, gnu_match.
  destruct (first_exact ns 0) as [x|x|] eqn:Ex.
  - rewrite gnu_scan_exact by (rewrite Ex; discriminate). rewrite Ex. reflexivity.
  - rewrite gnu_scan_exact by (rewrite Ex; discriminate). rewrite Ex. reflexivity.
  - cbn [orelse]. rewrite (gnu_scan_noexact ns 0 None None Ex).
    unfold one_class, any in H1. apply negb_true_iff in H1. apply andb_false_iff in H1.
    rewrite lnag_is_model in H2. rewrite <- (last_with_is_pick gw lw ns 0 H2).
    destruct H1 as [Hn|Hs].
    + rewrite (last_with_none gn ln ns 0 Hn). cbn [orelse].
      assert (E : last_with gs ls ns 0 = last_with gw lw ns 0).
      { apply last_with_ext. intros x Hx. unfold gw, lw.
        assert (Hx' : gn x || ln x = false) by exact (existsb_false_all _ _ Hn x Hx).
        apply orb_false_iff in Hx'. destruct Hx' as [-> ->]. split; reflexivity. }
      rewrite E. reflexivity.
    + rewrite (last_with_none gs ls ns 0 Hs).
      assert (E : last_with gn ln ns 0 = last_with gw lw ns 0).
      { apply last_with_ext. intros x Hx. unfold gw, lw.
        assert (Hx' : gs x || ls x = false) by exact (existsb_false_all _ _ Hs x Hx).
        apply orb_false_iff in Hx'. destruct Hx' as [-> ->]. rewrite !orb_false_r. split; reflexivity. }
      rewrite E. destruct (last_with gw lw ns 0); reflexivity.
Qed.
