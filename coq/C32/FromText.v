(* C32 — from the text of a version script to the version of a symbol, entirely inside the model:
   text --(C22/VScript.v parse_version_script)--> versions with classified patterns
        --(pattern matching: equality, C15's model of the glob crate / POSIX fnmatch)--> per-node match bits
        --(C32/Model.v wild_match / gnu_match)--> verdict. *)
From Coq Require Import NArith List Bool Arith.
From WV Require Import C15.Model C22.VScript C32.Model.
Import ListNotations.
Open Scope N_scope.

Definition all_matchers (l : list pm) : list matcher :=
  flat_map (fun p => match p with Single m => [m] | Multiple ms => ms | Cxx _ => [] end) l.   (* C++ patterns match demangled names: outside this model *)

Section M.
  Variable glob : list N -> list N -> bool.     (* globmatch for wild, fnmatch for GNU ld *)

  Definition has_exact (ms : list matcher) (name : list N) : bool :=
    existsb (fun m => match m with MExact t => beqb t name | MEscaped t => beqb t name | _ => false end) ms.
  Definition has_nonstar (ms : list matcher) (name : list N) : bool :=
    existsb (fun m => match m with MNonStar p => glob p name | _ => false end) ms.
  Definition has_star (ms : list matcher) (name : list N) : bool :=
    existsb (fun m => match m with MStar p => glob p name | _ => false end) ms.
  Definition has_all (ms : list matcher) : bool := existsb (fun m => match m with MAll => true | _ => false end) ms.

  Definition node_of (b : body) (name : list N) : node :=
    let g := all_matchers (globals b) in
    let l := all_matchers (locals b) in
    {| gx := has_exact g name; lx := has_exact l name; gn := has_nonstar g name; gs := has_star g name; ga := has_all g;
       ln := has_nonstar l name; ls := has_star l name; la := has_all l |}.
End M.

Definition any_glob (_ : list N) := true.

(* Some v = the script parses as a list of versions; None = parse error or an anonymous script *)
Definition nodes_of_text (glob : list N -> list N -> bool) (text name : list N) : option (list node) :=
  match parse_version_script any_glob text with
  | Ok (Versions vs) => Some (map (fun v => node_of glob (vbody v) name) vs)
  | _ => None
  end.
Definition wild_version_of (text name : list N) : option verdict :=
  match nodes_of_text globmatch text name with Some ns => Some (wild_match ns) | None => None end.
Definition gnu_version_of (text name : list N) : option verdict :=
  match nodes_of_text fnmatch text name with Some ns => Some (gnu_match ns) | None => None end.

(* ---- the two readings of the text agree wherever the node-level theorem applies ---- *)
From WV Require Import C15.Proofs C32.Proofs.

Lemma existsb_ext_in {A} (f g : A -> bool) l : (forall x, In x l -> f x = g x) -> existsb f l = existsb g l.
Proof.
  induction l as [|a l IH]; intros H; cbn [existsb]; [reflexivity|].
  rewrite (H a (or_introl eq_refl)), IH; [reflexivity|]. intros x Hx. apply H. right; exact Hx.
Qed.

Definition globs_no_bs (ms : list matcher) : Prop :=
  forall m, In m ms -> match m with MStar p | MNonStar p => no_bs p | _ => True end.

Lemma node_of_agree b name :
  globs_no_bs (all_matchers (globals b)) -> globs_no_bs (all_matchers (locals b)) ->
  node_of globmatch b name = node_of fnmatch b name.
Proof.
  intros Hg Hl. unfold node_of, has_nonstar, has_star.
  f_equal; apply existsb_ext_in; intros m Hm.
  - specialize (Hg m Hm). destruct m; try reflexivity. apply glob_is_fnmatch. exact Hg.
  - specialize (Hg m Hm). destruct m; try reflexivity. apply glob_is_fnmatch. exact Hg.
  - specialize (Hl m Hm). destruct m; try reflexivity. apply glob_is_fnmatch. exact Hl.
  - specialize (Hl m Hm). destruct m; try reflexivity. apply glob_is_fnmatch. exact Hl.
Qed.

(* For every script text that parses as a list of versions whose wildcard patterns contain no backslash, and every
   symbol name whose match bits are canonical (C32/Model.v): the version wild assigns — through its own glob matcher —
   is the one GNU ld assigns through fnmatch. *)
Theorem version_from_text_as_gnu_ld text name vs :
  parse_version_script any_glob text = Ok (Versions vs) ->
  (forall v, In v vs -> globs_no_bs (all_matchers (globals (vbody v))) /\ globs_no_bs (all_matchers (locals (vbody v)))) ->
  canonical (map (fun v => node_of fnmatch (vbody v) name) vs) = true ->
  wild_version_of text name = gnu_version_of text name.
Proof.
  intros Hp Hnb Hc. unfold wild_version_of, gnu_version_of, nodes_of_text. rewrite Hp.
  assert (E : map (fun v => node_of globmatch (vbody v) name) vs = map (fun v => node_of fnmatch (vbody v) name) vs).
  { apply map_ext_in. intros v Hv. destruct (Hnb v Hv) as [H1 H2]. apply node_of_agree; assumption. }
  rewrite E. f_equal. apply wild_is_gnu. exact Hc.
Qed.
