(* C32 — from the text of the script: property theorem.  Models: C22/VScript.v (parser), C15/Model.v (glob crate and POSIX
   fnmatch), C32/Model.v (the two searches). *)
From Coq Require Import NArith List Bool.
From WV Require Import C15.Model C15.Proofs C22.VScript C32.Model C32.FromText.
Import ListNotations.
Open Scope N_scope.

(* For every script TEXT that parses as a list of versions whose wildcard patterns contain no backslash, and every symbol
   name for which the per-version match bits are canonical: the version node wild assigns to the symbol — parsing the
   text, matching with the glob crate, searching in its own order — is the node GNU ld assigns by fnmatch and its order. *)
Theorem C32_version_from_text_as_gnu_ld :
  forall text name vs,
    parse_version_script any_glob text = Ok (Versions vs) ->
    (forall v, In v vs -> globs_no_bs (all_matchers (globals (vbody v))) /\ globs_no_bs (all_matchers (locals (vbody v)))) ->
    canonical (map (fun v => node_of fnmatch (vbody v) name) vs) = true ->
    wild_version_of text name = gnu_version_of text name.
Proof. exact version_from_text_as_gnu_ld. Qed.
Print Assumptions C32_version_from_text_as_gnu_ld.

Example C32_from_text_example :
  (* V1 { global: foo; ba*; local: *; };\nV2 { global: bar; } V1;   symbols foo, bar, baz, qux *)
  let text := [86;49;32;123;32;103;108;111;98;97;108;58;32;102;111;111;59;32;98;97;42;59;32;108;111;99;97;108;58;32;42;59;32;125;59;10;
               86;50;32;123;32;103;108;111;98;97;108;58;32;98;97;114;59;32;125;32;86;49;59;10] in
  wild_version_of text [102;111;111] = Some (Global 0) /\ wild_version_of text [98;97;114] = Some (Global 1) /\
  wild_version_of text [98;97;122] = Some (Global 0) /\ wild_version_of text [113;117;120] = Some (Local 0) /\
  gnu_version_of text [98;97;114] = Some (Global 1).
Proof. vm_compute. repeat split; reflexivity. Qed.
