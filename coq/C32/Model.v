(* C32 — which version node a symbol gets from a version script.
   wild:  libwild/src/version_script.rs RegularVersionScript::find_match (the lld order: first node with an exact
          match; else the last node with a matching glob that has no `*`; else the last node with a matching glob that
          has one; else the last node with the bare `*`; inside a node `global` is tried before `local`).
   GNU ld: bfd/elflink.c bfd_find_version_for_sym (nodes in script order; an exact match ends the search, global list
          before local list; a wildcard match is remembered and the search goes on; at the end a remembered global
          match beats a remembered local one, and the LAST node that matched is the one kept; the bare `*` counts only
          when nothing else matched — observed on GNU ld 2.40 and re-validated on every run).
   A node is abstracted to what it says about ONE symbol name: which of its pattern kinds match that name. *)
From Coq Require Import List Bool Arith.
Import ListNotations.

Record node := {
  gx : bool;   (* global: an exact pattern equals the name *)
  lx : bool;   (* local: an exact pattern equals the name *)
  gn : bool;   (* global: a glob without `*` matches *)
  gs : bool;   (* global: a glob with `*` (other than the bare `*`) matches *)
  ga : bool;   (* global: the bare `*` is present *)
  ln : bool; ls : bool; la : bool }.

Inductive verdict := Global (i : nat) | Local (i : nat) | NoMatch.

(* ---- wild ---- *)
Fixpoint first_exact (l : list node) (i : nat) : verdict :=
  match l with
  | [] => NoMatch
  | n :: r => if gx n then Global i else if lx n then Local i else first_exact r (S i)
  end.
(* scan from the last node to the first: the result of the later nodes, if any, wins *)
Fixpoint last_with (g l : node -> bool) (ns : list node) (i : nat) : verdict :=
  match ns with
  | [] => NoMatch
  | n :: r => match last_with g l r (S i) with
              | NoMatch => if g n then Global i else if l n then Local i else NoMatch
              | v => v
              end
  end.
Definition orelse (a b : verdict) : verdict := match a with NoMatch => b | _ => a end.
Definition wild_match (ns : list node) : verdict :=
  orelse (first_exact ns 0) (orelse (last_with gn ln ns 0) (orelse (last_with gs ls ns 0) (last_with ga la ns 0))).

(* ---- GNU ld ---- *)
(* wildcards other than the bare `*` *)
Definition gw (n : node) : bool := gn n || gs n.
Definition lw (n : node) : bool := ln n || ls n.
(* state: remembered global node, remembered local node *)
Fixpoint gnu_scan (ns : list node) (i : nat) (gv lv : option nat) : verdict :=
  match ns with
  | [] => match gv, lv with
          | Some g, _ => Global g
          | None, Some l => Local l
          | None, None => NoMatch
          end
  | n :: r =>
      if gx n then Global i
      else let gv := if gw n then Some i else gv in
           if lx n then Local i
           else let lv := if lw n then Some i else lv in
                gnu_scan r (S i) gv lv
  end.
(* the bare `*` (GNU ld accepts it once per script) is consulted only when nothing else matched *)
Definition gnu_match (ns : list node) : verdict := orelse (gnu_scan ns 0 None None) (last_with ga la ns 0).

(* the exported/hidden reading of a verdict *)
Definition exported (v : verdict) : option nat := match v with Global i => Some i | _ => None end.

(* ---- where the two orders agree ---- *)
Definition any (f : node -> bool) (ns : list node) : bool := existsb f ns.
(* not both kinds of wildcard (with and without `*`) match the name somewhere in the script *)
Definition one_class (ns : list node) : bool :=
  negb (any (fun x => gn x || ln x) ns && any (fun x => gs x || ls x) ns).
(* no node whose only wildcard match is local comes after a node with a global wildcard match *)
Fixpoint local_not_after_global (ns : list node) : bool :=
  match ns with
  | [] => true
  | n :: r => local_not_after_global r && (negb (gw n) || negb (existsb (fun m => lw m && negb (gw m)) r))
  end.
Definition canonical (ns : list node) : bool := one_class ns && local_not_after_global ns.
