(* C07 — proofs: each group processes exactly the string starts in its range; de-duplication hands out offsets of
   faithful copies; the backwards search finds the enclosing string; the bytes a reference reads are preserved. *)
From Coq Require Import NArith List Bool Arith Lia.
From WV Require Import C07.Model.
Import ListNotations.

Lemma nth_skipn_ {A} (l : list A) n j d : nth j (skipn n l) d = nth (n + j) l d.
Proof. revert l. induction n as [|n IH]; intros l; [reflexivity|]. destruct l; [destruct j; reflexivity|]. cbn [skipn Nat.add nth]. apply IH. Qed.
Lemma skipn_skipn_ {A} (l : list A) a b : skipn a (skipn b l) = skipn (b + a) l.
Proof. revert l. induction b as [|b IH]; intros l; [reflexivity|]. destruct l; [rewrite !skipn_nil; reflexivity|]. cbn [skipn Nat.add]. apply IH. Qed.

Lemma memchr0_some l k : memchr0 l = Some k ->
  k < length l /\ nth k l 1%N = 0%N /\ forall j, j < k -> nth j l 1%N <> 0%N.
Proof.
  revert k. induction l as [|b t IH]; intros k H; [discriminate|]. cbn [memchr0] in H.
  destruct (N.eqb_spec b 0) as [E|E].
  - injection H as <-. cbn. repeat split; [lia|exact E|intros j Hj; lia].
  - destruct (memchr0 t) as [k'|]; [|discriminate]. injection H as <-.
    destruct (IH k' eq_refl) as (H1 & H2 & H3). cbn [length nth]. repeat split; [lia|exact H2|].
    intros j Hj. destruct j; [exact E|]. apply H3. lia.
Qed.
Lemma memchr0_none l : memchr0 l = None -> forall j, j < length l -> nth j l 1%N <> 0%N.
Proof.
  induction l as [|b t IH]; intros H j Hj; [cbn in Hj; lia|]. cbn [memchr0] in H.
  destruct (N.eqb_spec b 0) as [E|E]; [discriminate|]. destruct (memchr0 t) eqn:Em; [discriminate|].
  destruct j; [exact E|]. cbn [nth]. apply IH; [reflexivity|cbn in Hj; lia].
Qed.

Definition start_or_end (data : list N) (p : nat) : Prop := p = length data \/ is_start data p.

(* the loop visits exactly the string starts in [pos, hi), each once *)
Lemma loop_spec data hi : forall fuel pos l,
  length data - pos <= fuel -> pos <= length data -> start_or_end data pos ->
  loop fuel (skipn pos data) pos hi = Some l ->
  (forall p, In p l <-> (is_start data p /\ pos <= p < hi)) /\ NoDup l.
Proof.
  induction fuel as [|f IH]; intros pos l Hf Hp Hs H.
  - cbn in H. injection H as <-. split; [|constructor]. intros p. split; [intros []|].
    intros [[Hlt _] Hr]. lia.
  - cbn [loop] in H. destruct (skipn pos data) as [|b t] eqn:Es.
    + injection H as <-. split; [|constructor]. intros p. split; [intros []|].
      intros [[Hlt _] Hr]. assert (length (skipn pos data) = 0) by (rewrite Es; reflexivity). rewrite skipn_length in H. lia.
    + destruct (Nat.ltb_spec pos hi) as [Hlt|Hge].
      2:{ injection H as <-. split; [|constructor]. intros p. split; [intros []|]. intros [_ Hr]. lia. }
      rewrite <- Es in H. unfold take_len in H.
      destruct (memchr0 (skipn pos data)) as [k|] eqn:Em; [|discriminate]. cbn [option_map] in H.
      destruct (memchr0_some _ _ Em) as (Hk & Hz & Hnz). rewrite skipn_length in Hk. rewrite nth_skipn_ in Hz.
      rewrite skipn_skipn_ in H.
      destruct (loop f (skipn (pos + S k) data) (pos + S k) hi) as [l'|] eqn:El; [|discriminate].
      injection H as <-.
      assert (Hlen : pos < length data) by lia.
      assert (Hst : is_start data pos) by (destruct Hs as [Hs|Hs]; [lia|exact Hs]).
      assert (Hs' : start_or_end data (pos + S k)).
      { destruct (Nat.eq_dec (pos + S k) (length data)) as [E|E]; [left; exact E|right].
        split; [lia|right]. replace (pos + S k - 1) with (pos + k) by lia. exact Hz. }
      destruct (IH (pos + S k) l' ltac:(lia) ltac:(lia) Hs' El) as [Hin Hnd].
      split.
      * intros p. cbn [In]. rewrite Hin. split.
        -- intros [<-|[Hps Hr]]; [split; [exact Hst|lia]|split; [exact Hps|lia]].
        -- intros [Hps Hr]. destruct (Nat.eq_dec pos p) as [E|E]; [left; exact E|right].
           split; [exact Hps|]. split; [|lia].
           (* no string starts strictly between pos and the byte after its terminator *)
           destruct (le_lt_dec (pos + S k) p) as [Hle|Hlt']; [exact Hle|exfalso].
           destruct Hps as [_ [Hp0|Hpz]]; [lia|].
           apply (Hnz (p - 1 - pos)); [lia|]. rewrite nth_skipn_. replace (pos + (p - 1 - pos)) with (p - 1) by lia. exact Hpz.
      * constructor; [|exact Hnd]. intros Hc. apply Hin in Hc. lia.
Qed.

Lemma advance_spec data lo : lo <= length data ->
  advance data lo <= length data /\ start_or_end data (advance data lo) /\
  (forall p, is_start data p -> (lo <= p <-> advance data lo <= p)).
Proof.
  intros Hlo. unfold advance. destruct (Nat.ltb_spec 0 lo) as [Hpos|Hz].
  2:{ assert (lo = 0) by lia. subst lo. split; [lia|]. split.
      - destruct data as [|b t]; [left; reflexivity|right; split; [cbn; lia|left; reflexivity]].
      - intros p _. lia. }
  destruct (N.eqb_spec (nth (lo - 1) data 1%N) 0) as [Ez|Enz].
  - split; [exact Hlo|]. split.
    + destruct (Nat.eq_dec lo (length data)) as [E|E]; [left; exact E|right; split; [lia|right; exact Ez]].
    + intros p _. lia.
  - destruct (memchr0 (skipn lo data)) as [k|] eqn:Em.
    + destruct (memchr0_some _ _ Em) as (Hk & Hzz & Hnz). rewrite skipn_length in Hk. rewrite nth_skipn_ in Hzz.
      split; [lia|]. split.
      * destruct (Nat.eq_dec (lo + k + 1) (length data)) as [E|E]; [left; exact E|right].
        split; [lia|right]. replace (lo + k + 1 - 1) with (lo + k) by lia. exact Hzz.
      * intros p [Hpl [Hp0|Hpz]]; [lia|]. split; [|lia]. intros Hle.
        destruct (le_lt_dec (lo + k + 1) p) as [H|H]; [exact H|exfalso].
        destruct (Nat.eq_dec (p - 1) (lo - 1)) as [E|E]; [rewrite E in Hpz; contradiction|].
        apply (Hnz (p - 1 - lo)); [lia|]. rewrite nth_skipn_. replace (lo + (p - 1 - lo)) with (p - 1) by lia. exact Hpz.
    + split; [lia|]. split; [left; reflexivity|].
      intros p [Hpl [Hp0|Hpz]]; [lia|]. split; [|lia]. intros Hle. exfalso.
      destruct (Nat.eq_dec (p - 1) (lo - 1)) as [E|E]; [rewrite E in Hpz; contradiction|].
      apply (memchr0_none _ Em (p - 1 - lo)); [rewrite skipn_length; lia|].
      rewrite nth_skipn_. replace (lo + (p - 1 - lo)) with (p - 1) by lia. exact Hpz.
Qed.

Theorem process_spec data lo hi l :
  lo <= length data -> process data lo hi = Some l ->
  (forall p, In p l <-> (is_start data p /\ lo <= p < hi)) /\ NoDup l.
Proof.
  intros Hlo H. unfold process in H.
  destruct (advance_spec data lo Hlo) as (Ha & Hs & Hiff).
  destruct (loop_spec data hi (length data) (advance data lo) l ltac:(lia) Ha Hs H) as [Hin Hnd].
  split; [|exact Hnd]. intros p. rewrite Hin. split.
  - intros [Hps Hr]. split; [exact Hps|]. split; [apply (Hiff p Hps); lia|lia].
  - intros [Hps Hr]. split; [exact Hps|]. split; [apply (Hiff p Hps); lia|lia].
Qed.

(* ---------- one bucket ---------- *)
Lemma list_eqb_eq a b : list_eqb a b = true <-> a = b.
Proof.
  revert b. induction a as [|x a IH]; intros [|y b]; cbn [list_eqb]; try (split; [discriminate|intros H; discriminate H]); [split; reflexivity|].
  rewrite andb_true_iff, N.eqb_eq, IH. split; [intros [-> ->]; reflexivity|intros H; injection H as -> ->; auto].
Qed.

Lemma offset_of_spec s strings : forall base o,
  offset_of s strings base = Some o ->
  exists pre post, strings = pre ++ s :: post /\ o = base + length (concat pre).
Proof.
  induction strings as [|x r IH]; intros base o H; [discriminate|]. cbn [offset_of] in H.
  destruct (list_eqb x s) eqn:E.
  - apply list_eqb_eq in E. subst x. injection H as <-. exists [], r. split; [reflexivity|cbn; lia].
  - destruct (IH _ _ H) as (pre & post & -> & ->). exists (x :: pre), post. split; [reflexivity|].
    cbn [concat]. rewrite app_length. lia.
Qed.

Lemma bytes_at_concat (pre post : list str) s :
  firstn (length s) (skipn (length (concat pre)) (concat (pre ++ s :: post))) = s.
Proof.
  rewrite concat_app. cbn [concat]. rewrite skipn_app, skipn_all, Nat.sub_diag. cbn [app skipn].
  rewrite firstn_app, firstn_all, Nat.sub_diag. cbn [firstn]. apply app_nil_r.
Qed.

(* the offset handed out points at a copy of the string, and earlier offsets stay valid *)
Theorem add_string_spec strings s strings' o :
  add_string strings s = (strings', o) ->
  firstn (length s) (skipn o (concat strings')) = s /\ exists extra, strings' = strings ++ extra.
Proof.
  unfold add_string. destruct (offset_of s strings 0) as [o'|] eqn:E; intros H; injection H as <- <-.
  - destruct (offset_of_spec _ _ _ _ E) as (pre & post & -> & ->). cbn [Nat.add]. split; [apply bytes_at_concat|exists []; symmetry; apply app_nil_r].
  - split; [|exists [s]; reflexivity].
    replace (strings ++ [s]) with (strings ++ s :: []) by reflexivity. apply bytes_at_concat.
Qed.

Lemma prefix_keeps_bytes (a b : list N) n o : o + n <= length a -> firstn n (skipn o (a ++ b)) = firstn n (skipn o a).
Proof.
  intros H. rewrite skipn_app. rewrite firstn_app. rewrite skipn_length.
  replace (n - (length a - o)) with 0 by lia. cbn [firstn]. rewrite app_nil_r. reflexivity.
Qed.

(* ---------- find_string ---------- *)
Lemma find_back_spec (r : recorded) o : forall fuel i,
  i <= o -> o - i < fuel ->
  (forall q, o - i < q <= o -> r q = None) ->
  match find_back r o i fuel with
  | Some x => exists s out, s <= o /\ r s = Some out /\ (forall q, s < q <= o -> r q = None) /\ x = out + (o - s)
  | None => forall q, q <= o -> r q = None
  end.
Proof.
  induction fuel as [|f IH]; intros i Hi Hf Hnone; [lia|]. cbn [find_back].
  destruct (r (o - i)) as [out|] eqn:Er.
  - exists (o - i), out. repeat split; [lia|exact Er|exact Hnone|]. f_equal. lia.
  - destruct (Nat.eqb_spec (o - i) 0) as [Ez|Enz].
    + intros q Hq. destruct (Nat.eq_dec q (o - i)) as [->|Hne]; [exact Er|apply Hnone; lia].
    + apply IH; [lia|lia|]. intros q Hq. destruct (Nat.eq_dec q (o - i)) as [->|Hne]; [exact Er|apply Hnone; lia].
Qed.

Theorem find_string_spec (r : recorded) o x :
  find_string r o = Some x ->
  exists s out, s <= o /\ r s = Some out /\ (forall q, s < q <= o -> r q = None) /\ x = out + (o - s).
Proof.
  unfold find_string. intros H.
  pose proof (find_back_spec r o (S o) 0 ltac:(lia) ltac:(lia) ltac:(intros q Hq; lia)) as Hs.
  rewrite H in Hs. exact Hs.
Qed.

Theorem find_string_total (r : recorded) o s out :
  s <= o -> r s = Some out -> exists x, find_string r o = Some x.
Proof.
  intros Hs Hr. unfold find_string.
  pose proof (find_back_spec r o (S o) 0 ltac:(lia) ltac:(lia) ltac:(intros q Hq; lia)) as H.
  destruct (find_back r o 0 (S o)) as [x|]; [eexists; reflexivity|]. rewrite (H s Hs) in Hr. discriminate.
Qed.

(* ---------- bytes preserved ---------- *)
(* the string of `data` that starts at s: up to and including its terminator *)
Definition string_at (data : list N) (s : nat) : option (list N) :=
  match take_len (skipn s data) with Some n => Some (firstn n (skipn s data)) | None => None end.

(* r records, for every string start of the section, an output offset at which `bytes` holds a copy of that string *)
Definition faithful (data : list N) (r : recorded) (bytes : list N) : Prop :=
  (forall s, is_start data s <-> exists out, r s = Some out) /\
  (forall s out str, r s = Some out -> string_at data s = Some str -> firstn (length str) (skipn out bytes) = str).

Lemma firstn_skipn_shift {A} (l : list A) n k : k <= n -> skipn k (firstn n l) = firstn (n - k) (skipn k l).
Proof. intros H. rewrite skipn_firstn_comm. reflexivity. Qed.

Theorem merged_bytes_preserved data r bytes o x :
  faithful data r bytes ->
  find_string r o = Some x ->
  exists s, is_start data s /\ s <= o /\ (forall q, s < q <= o -> ~ is_start data q) /\
    forall str, string_at data s = Some str -> o - s < length str ->
      firstn (length str - (o - s)) (skipn x bytes) = firstn (length str - (o - s)) (skipn o data).
Proof.
  intros [Hst Hcopy] Hf.
  destruct (find_string_spec r o x Hf) as (s & out & Hs & Hr & Hnone & ->).
  exists s. split; [apply Hst; exists out; exact Hr|]. split; [exact Hs|]. split.
  { intros q Hq Hc. apply Hst in Hc. destruct Hc as [o' Ho']. rewrite (Hnone q Hq) in Ho'. discriminate. }
  intros str Estr Hlen.
  pose proof (Hcopy s out str Hr Estr) as Hc.
  assert (E1 : skipn (o - s) (firstn (length str) (skipn out bytes)) = skipn (o - s) str) by (rewrite Hc; reflexivity).
  rewrite firstn_skipn_shift in E1 by lia. rewrite skipn_skipn_ in E1.
  rewrite E1. unfold string_at in Estr. destruct (take_len (skipn s data)) as [n|] eqn:En; [|discriminate].
  injection Estr as <-.
  assert (Hn : n <= length (skipn s data)).
  { unfold take_len in En. destruct (memchr0 (skipn s data)) as [k|] eqn:Ek; [|discriminate]. injection En as <-.
    destruct (memchr0_some _ _ Ek) as (Hk & _ & _). lia. }
  rewrite firstn_length_le by exact Hn. rewrite firstn_length_le in Hlen by exact Hn.
  rewrite firstn_skipn_shift by lia. rewrite skipn_skipn_. replace (s + (o - s)) with o by lia.
  reflexivity.
Qed.

(* ---------- all groups together ---------- *)
Lemma NoDup_app_ {A} (l1 l2 : list A) : NoDup l1 -> NoDup l2 -> (forall x, In x l1 -> In x l2 -> False) -> NoDup (l1 ++ l2).
Proof.
  induction l1 as [|x l1 IH]; intros H1 H2 Hd; [exact H2|]. cbn [app]. inversion H1; subst.
  constructor.
  - intros Hin. apply in_app_iff in Hin. destruct Hin as [Hin|Hin]; [contradiction|]. apply (Hd x); [left; reflexivity|exact Hin].
  - apply IH; [assumption|assumption|]. intros y Hy Hy'. apply (Hd y); [right; exact Hy|exact Hy'].
Qed.

Fixpoint process_all (data : list N) (cuts : list nat) : option (list (list nat)) :=
  match cuts with
  | a :: ((b :: _) as t) =>
      match process data a b, process_all data t with
      | Some l, Some ls => Some (l :: ls)
      | _, _ => None
      end
  | _ => Some []
  end.

Fixpoint nondecreasing (l : list nat) : Prop :=
  match l with a :: ((b :: _) as t) => a <= b /\ nondecreasing t | _ => True end.

Theorem every_start_in_exactly_one_group data : forall cuts ls,
  nondecreasing cuts -> (forall c, In c cuts -> c <= length data) ->
  process_all data cuts = Some ls ->
  (forall p, In p (concat ls) <-> (is_start data p /\ hd 0 cuts <= p < last cuts 0)) /\ NoDup (concat ls).
Proof.
  induction cuts as [|a t IH]; intros ls Hnd Hle H.
  - injection H as <-. split; [|constructor]. intros p. cbn. split; [intros []|lia].
  - destruct t as [|b t'].
    + injection H as <-. split; [|constructor]. intros p. cbn. split; [intros []|lia].
    + change (process_all data (a :: b :: t')) with
        (match process data a b, process_all data (b :: t') with Some l, Some ls => Some (l :: ls) | _, _ => None end) in H.
      destruct (process data a b) as [l|] eqn:El; [|discriminate].
      destruct (process_all data (b :: t')) as [ls'|] eqn:Els; [|discriminate]. injection H as <-.
      destruct Hnd as [Hab Hnd'].
      destruct (process_spec data a b l (Hle a (or_introl eq_refl)) El) as [Hin Hnodup].
      destruct (IH ls' Hnd' (fun c Hc => Hle c (or_intror Hc)) eq_refl) as [Hin' Hnodup'].
      cbn [hd] in *. assert (Hbl : b <= last (b :: t') 0).
      { clear -Hnd'. revert b Hnd'. induction t' as [|c t'' IHt]; intros b Hn; [cbn; lia|].
        destruct Hn as [Hbc Hn]. specialize (IHt c Hn). cbn [last] in *. destruct t''; lia. }
      replace (last (a :: b :: t') 0) with (last (b :: t') 0) by reflexivity.
      cbn [concat]. split.
      * intros p. rewrite in_app_iff, Hin, Hin'. split.
        -- intros [[Hs Hr]|[Hs Hr]]; (split; [exact Hs|lia]).
        -- intros [Hs Hr]. destruct (le_lt_dec b p); [right|left]; (split; [exact Hs|lia]).
      * apply NoDup_app_; [exact Hnodup|exact Hnodup'|]. intros p Hp Hp'. apply Hin in Hp. apply Hin' in Hp'. lia.
Qed.

(* remaining[offset_in_section - 1] never indexes out of bounds: group boundaries are multiples of MAP_BLOCK_SIZE inside
   the section's padded extent *)
Theorem split_offsets_in_bounds len b :
  0 < b -> b mod 256 = 0 -> b < (len + 255) / 256 * 256 -> b - 1 < len.
Proof.
  intros Hb Hm Hlt.
  pose proof (Nat.div_mod_eq b 256) as Eb. pose proof (Nat.div_mod_eq (len + 255) 256) as El.
  pose proof (Nat.mod_upper_bound (len + 255) 256 ltac:(lia)) as Hu.
  set (q := b / 256) in *. set (k := (len + 255) / 256) in *. set (r := (len + 255) mod 256) in *.
  assert (q < k) by nia. nia.
Qed.
