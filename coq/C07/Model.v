(* C07 — string merging, sequential semantics (libwild/src/string_merging.rs).
   - process_input_section: which strings of an input section a work group processes (range-restricted NUL splitting,
     including the "range starts part way through a string" skip);
   - MergeStringsSectionBucket::add_string: de-duplication inside a bucket and the offset handed out;
   - find_string / get_merged_string_output_address: exact offset, else backwards search plus the distance; addend
     applied after the lookup for a named symbol, before it for a section symbol.
   Bytes are N; a section is a list of bytes; offsets are nat. *)
From Coq Require Import NArith List Bool Arith.
Import ListNotations.

(* memchr(0, l) *)
Fixpoint memchr0 (l : list N) : option nat :=
  match l with
  | [] => None
  | b :: t => if N.eqb b 0 then Some O else option_map S (memchr0 t)
  end.

(* MergeString::take_string_hashed: length of the string at the head, terminator included; None = not terminated *)
Definition take_len (l : list N) : option nat := option_map S (memchr0 l).

(* the `while !remaining.is_empty() && input_offset < range.end` loop; None = the unterminated-string error *)
Fixpoint loop (fuel : nat) (rem : list N) (pos hi : nat) : option (list nat) :=
  match fuel with
  | O => Some []
  | S f =>
      match rem with
      | [] => Some []
      | _ => if pos <? hi then
               match take_len rem with
               | None => None
               | Some n => option_map (cons pos) (loop f (skipn n rem) (pos + n) hi)
               end
             else Some []
      end
  end.

(* where a group whose range starts at `lo` (relative to the section start) begins; lo = 0: the section start *)
Definition advance (data : list N) (lo : nat) : nat :=
  if 0 <? lo then
    if N.eqb (nth (lo - 1) data 1%N) 0 then lo
    else match memchr0 (skipn lo data) with Some k => lo + k + 1 | None => length data end
  else 0.

(* start offsets of the strings of `data` that the group with range [lo, hi) processes *)
Definition process (data : list N) (lo hi : nat) : option (list nat) :=
  let a := advance data lo in loop (length data) (skipn a data) a hi.

(* specification: p is the start of a string of `data` *)
Definition is_start (data : list N) (p : nat) : Prop :=
  p < length data /\ (p = 0 \/ nth (p - 1) data 1%N = 0%N).
Definition terminated (data : list N) : Prop := data = [] \/ last data 1%N = 0%N.

(* ---- one bucket ---- *)
Definition str := list N.
Fixpoint list_eqb (a b : str) : bool :=
  match a, b with
  | [], [] => true
  | x :: a', y :: b' => N.eqb x y && list_eqb a' b'
  | _, _ => false
  end.
(* the bucket: the distinct strings in insertion order; their offsets are the prefix sums of the lengths *)
Fixpoint offset_of (s : str) (strings : list str) (base : nat) : option nat :=
  match strings with
  | [] => None
  | x :: r => if list_eqb x s then Some base else offset_of s r (base + length x)
  end.
Definition add_string (strings : list str) (s : str) : list str * nat :=
  match offset_of s strings 0 with
  | Some o => (strings, o)
  | None => (strings ++ [s], length (concat strings))
  end.

(* ---- find_string over the offsets recorded for one input section ---- *)
(* recorded : start offset in the section -> output offset *)
Definition recorded := nat -> option nat.
Fixpoint find_back (r : recorded) (o : nat) (i : nat) (fuel : nat) : option nat :=
  match fuel with
  | O => None
  | S f => match r (o - i) with
           | Some out => Some (out + i)
           | None => if o - i =? 0 then None else find_back r o (S i) f
           end
  end.
Definition find_string (r : recorded) (o : nat) : option nat := find_back r o 0 (S o).

(* get_merged_string_output_address: symbol value v, addend a; named symbols apply the addend afterwards *)
Definition output_address (r : recorded) (named : bool) (v a : nat) : option nat :=
  if named then option_map (fun x => x + a) (find_string r v) else find_string r (v + a).
