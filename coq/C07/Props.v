(* C07 — string merging preserves every referenced string: the property theorems (sequential semantics).
   Model: C07/Model.v.  The parallel protocol that moves the strings between groups and buckets is C40's subject. *)
From Coq Require Import NArith List Bool Arith.
From WV Require Import C07.Model C07.Proofs.
Import ListNotations.

(* However the linear input space is cut into work groups (any number of cuts, anywhere — also in the middle of a
   string or exactly on a string start), a section's strings are processed each by exactly one group: the groups'
   lists together contain precisely the string starts of the section, without repetition. *)
Theorem C07_every_string_processed_exactly_once :
  forall data cuts ls,
    nondecreasing cuts -> (forall c, In c cuts -> c <= length data) ->
    process_all data cuts = Some ls ->
    (forall p, In p (concat ls) <-> (is_start data p /\ hd 0 cuts <= p < last cuts 0)) /\ NoDup (concat ls).
Proof. exact every_start_in_exactly_one_group. Qed.
Print Assumptions C07_every_string_processed_exactly_once.

Theorem C07_group_processes_its_range :
  forall data lo hi l, lo <= length data -> process data lo hi = Some l ->
    (forall p, In p l <-> (is_start data p /\ lo <= p < hi)) /\ NoDup l.
Proof. exact process_spec. Qed.
Print Assumptions C07_group_processes_its_range.

(* the index remaining[offset_in_section - 1] is always in bounds *)
Theorem C07_split_offsets_in_bounds :
  forall len b, 0 < b -> b mod 256 = 0 -> b < (len + 255) / 256 * 256 -> b - 1 < len.
Proof. exact split_offsets_in_bounds. Qed.
Print Assumptions C07_split_offsets_in_bounds.

(* de-duplication: the offset handed out for a string points at a copy of exactly that string, and the bucket only
   grows at its end (offsets handed out earlier stay valid) *)
Theorem C07_bucket_offset_points_at_the_string :
  forall strings s strings' o, add_string strings s = (strings', o) ->
    firstn (length s) (skipn o (concat strings')) = s /\ exists extra, strings' = strings ++ extra.
Proof. exact add_string_spec. Qed.
Print Assumptions C07_bucket_offset_points_at_the_string.

(* references: if every string start of a section has a recorded output offset holding a copy of its string, then a
   reference to ANY offset o of the section (also into the middle of a string) resolves to output bytes equal to the
   input bytes from o up to and including the terminator of the string that contains o *)
Theorem C07_merged_bytes_preserved :
  forall data r bytes o x,
    faithful data r bytes -> find_string r o = Some x ->
    exists s, is_start data s /\ s <= o /\ (forall q, s < q <= o -> ~ is_start data q) /\
      forall str, string_at data s = Some str -> o - s < length str ->
        firstn (length str - (o - s)) (skipn x bytes) = firstn (length str - (o - s)) (skipn o data).
Proof. exact merged_bytes_preserved. Qed.
Print Assumptions C07_merged_bytes_preserved.

Theorem C07_lookup_succeeds_inside_the_section :
  forall (r : recorded) o s out, s <= o -> r s = Some out -> exists x, find_string r o = Some x.
Proof. exact find_string_total. Qed.
Print Assumptions C07_lookup_succeeds_inside_the_section.

(* non-vacuity, and the boundary case a careless "always skip to the next NUL" would lose: a string that starts
   exactly on a group boundary belongs to the group that starts there *)
Example C07_string_on_the_boundary :
  let data := [97; 0; 98; 99; 0; 100; 0]%N in
  process data 0 2 = Some [0] /\ process data 2 5 = Some [2] /\ process data 3 7 = Some [5] /\
  process_all data [0; 2; 3; 7] = Some [[0]; [2]; [5]].
Proof. vm_compute. repeat split; reflexivity. Qed.
