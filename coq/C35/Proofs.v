From Coq Require Import ZArith List Bool Lia Arith.
From WV Require Import C35.Model.
Import ListNotations.

(* tokens are neither created nor destroyed while wild is alive or after it has unwound *)
Definition conserved (n : nat) (s : st) : Prop := pool s + held s + env_taken s = n + env_given s.
Definition inv (c : cfg) (n : nat) (s : st) : Prop :=
  conserved n s /\ env_given s <= env_taken s /\
  (pc s = Start -> held s = 0) /\
  (pc s = Exited -> result c <> Killed -> held s = 0) /\
  (explicit_threads c = None -> jobserver c = true -> threads s <= S (held s)) /\
  ((explicit_threads c <> None \/ jobserver c = false) -> held s = 0) /\
  (pc s = Start \/ pc s = Acquiring -> threads s = 1) /\
  (pc s = Acquiring -> explicit_threads c = None /\ jobserver c = true).

Lemma inv_init c n : inv c n (init n).
Proof. unfold inv, conserved, init; cbn. repeat split; intros; try lia; try discriminate. Qed.

Ltac spec_all :=
  repeat match goal with
         | H : ?A -> _, H' : ?A |- _ => specialize (H H')
         | H : ?x = ?x -> _ |- _ => specialize (H eq_refl)
         | H : (?x = ?x \/ _) -> _ |- _ => specialize (H (or_introl eq_refl))
         | H : (_ \/ ?x = ?x) -> _ |- _ => specialize (H (or_intror eq_refl))
         end.
Ltac fin :=
  unfold inv, conserved in *; cbn [pool held threads pc env_taken env_given] in *;
  repeat match goal with H : _ /\ _ |- _ => destruct H end;
  repeat split; intros;
  repeat match goal with H : _ \/ _ |- _ => destruct H end;
  try discriminate; try congruence; spec_all;
  repeat match goal with H : _ /\ _ |- _ => destruct H end; try lia; auto; try congruence.

Lemma inv_step c n s a : inv c n s -> inv c n (step c s a).
Proof.
  intros H. destruct a; cbn [step].
  - destruct (pool s) as [|p] eqn:Ep; [exact H|]. fin.
  - destruct (Nat.ltb_spec (env_given s) (env_taken s)); [|exact H]. fin.
  - unfold wild_step. destruct (pc s) eqn:Epc.
    + destruct (explicit_threads c) as [k|] eqn:Ex; [fin|]. destruct (jobserver c) eqn:Ej; fin.
    + destruct (pool s) as [|p] eqn:Ep; fin.
    + destruct (result c) eqn:Er; fin.
    + fin.
    + exact H.
Qed.

Lemma inv_run c n sched : inv c n (run c n sched).
Proof.
  unfold run. generalize (inv_init c n). generalize (init n).
  induction sched as [|a r IH]; intros s Hs; cbn [fold_left]; [exact Hs|]. apply IH. apply inv_step. exact Hs.
Qed.

(* wild always gets to the end when it is scheduled often enough: from any state five... the loop needs pool+2 steps *)
Lemma wild_terminates c : forall k s, pool s + 4 <= k + (match pc s with Start => 0 | Acquiring => 1 | Running => pool s + 2 | Unwinding => pool s + 3 | Exited => pool s + 4 end) ->
  pc (wild_n c k s) = Exited.
Proof.
  induction k as [|k IH]; intros s H; cbn [wild_n].
  - destruct (pc s) eqn:E; try lia. reflexivity.
  - apply IH. unfold wild_step. destruct (pc s) eqn:E.
    + destruct (explicit_threads c); [cbn; lia|]. destruct (jobserver c); cbn; lia.
    + destruct (pool s) as [|p] eqn:Ep; cbn; lia.
    + destruct (result c); cbn; lia.
    + cbn. lia.
    + rewrite E. lia.
Qed.
