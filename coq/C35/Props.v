(* C35 — jobserver tokens are conserved: the property theorems. Model: C35/Model.v. *)
From Coq Require Import ZArith List Bool Lia.
From WV Require Import C35.Model C35.Proofs.
Import ListNotations.

(* Whatever the other jobs do and however wild is interleaved with them: once wild has exited after a successful link, a
   link error or a panic, it holds nothing, so the jobserver has its n tokens minus what the OTHER jobs still hold. *)
Theorem C35_tokens_returned_after_exit :
  forall c n sched, let s := run c n sched in
    result c <> Killed -> pc s = Exited ->
    held s = 0 /\ pool s + (env_taken s - env_given s) = n.
Proof.
  intros c n sched s Hk He. destruct (inv_run c n sched) as (Hc & Hg & _ & Hx & _). fold s in Hc, Hg, Hx.
  unfold conserved in Hc. specialize (Hx He Hk). split; [exact Hx|lia].
Qed.
Print Assumptions C35_tokens_returned_after_exit.

(* At every moment: tokens are conserved (none invented, none lost) and, when the jobserver decides the thread count,
   wild runs at most one thread more than the tokens it holds. *)
Theorem C35_threads_bounded_by_tokens_held :
  forall c n sched, let s := run c n sched in
    pool s + held s + env_taken s = n + env_given s /\
    (explicit_threads c = None -> jobserver c = true -> threads s <= S (held s)) /\
    ((explicit_threads c <> None \/ jobserver c = false) -> held s = 0).
Proof.
  intros c n sched s. destruct (inv_run c n sched) as (Hc & _ & _ & _ & Ht & Hh & _). fold s in Hc, Ht, Hh. repeat split; assumption.
Qed.
Print Assumptions C35_threads_bounded_by_tokens_held.

(* wild does get to the end (the acquisition loop stops when the pipe is empty): pool + 4 of its own steps suffice *)
Theorem C35_wild_reaches_exit :
  forall c n, pc (wild_n c (n + 4) (init n)) = Exited.
Proof. intros c n. apply wild_terminates. cbn. lia. Qed.
Print Assumptions C35_wild_reaches_exit.

(* Outside the property's quantifier: a process killed while linking never runs its destructors and the tokens are gone *)
Theorem C35_refuted_when_killed :
  let c := {| explicit_threads := None; jobserver := true; ncpu := 8; result := Killed |} in
  let s := run c 3 [Wild; Wild; Wild; Wild; Wild; Wild] in
  pc s = Exited /\ held s = 3 /\ pool s = 0.
Proof. vm_compute. repeat split. Qed.
Print Assumptions C35_refuted_when_killed.

Example C35_example :
  let c := {| explicit_threads := None; jobserver := true; ncpu := 8; result := LinkError |} in
  let s := run c 4 [Wild; EnvTake; Wild; Wild; Wild; Wild; EnvGive; Wild; Wild; Wild] in
  (pc s, pool s, held s, env_taken s, env_given s) = (Exited, 4, 0, 1, 1).
Proof. vm_compute. reflexivity. Qed.
