(* C35 — jobserver tokens are conserved.  The token accounting of CommonArgs::activate_thread_pool and of the drop of
   args::ThreadPool (libwild/src/args.rs), with the other jobs of the make run as an environment that may take and give
   tokens at any moment.  `pool` is what the jobserver pipe holds; `held` what wild holds (Vec<Acquired>). *)
From Coq Require Import ZArith List Bool Lia.
Import ListNotations.

Inductive phase :=
| Start                 (* arguments parsed; thread pool not yet activated *)
| Acquiring             (* inside the `while let Ok(Some(_)) = client.try_acquire()` loop *)
| Running               (* rayon pool built, linking *)
| Unwinding             (* run() returned Ok/Err or a panic is unwinding: locals are being dropped *)
| Exited.

Inductive outcome := Success | LinkError | Panicked | Killed.

Record cfg := {
  explicit_threads : option nat;   (* --threads=N: the jobserver is not consulted *)
  jobserver : bool;                (* MAKEFLAGS carries a usable --jobserver-auth *)
  ncpu : nat;                      (* available_parallelism, used when there is no jobserver *)
  result : outcome;
}.

Record st := { pool : nat; held : nat; threads : nat; pc : phase; env_taken : nat; env_given : nat }.

Definition init (n : nat) : st := {| pool := n; held := 0; threads := 1; pc := Start; env_taken := 0; env_given := 0 |}.

Inductive action := EnvTake | EnvGive | Wild.

Definition wild_step (c : cfg) (s : st) : st :=
  match pc s with
  | Start =>
      match explicit_threads c with
      | Some n => {| pool := pool s; held := held s; threads := Nat.max 1 n; pc := Running; env_taken := env_taken s; env_given := env_given s |}
      | None =>
          if jobserver c then {| pool := pool s; held := held s; threads := threads s; pc := Acquiring; env_taken := env_taken s; env_given := env_given s |}
          else {| pool := pool s; held := held s; threads := Nat.max 1 (ncpu c); pc := Running; env_taken := env_taken s; env_given := env_given s |}
      end
  | Acquiring =>
      match pool s with
      | S p => {| pool := p; held := S (held s); threads := threads s; pc := Acquiring; env_taken := env_taken s; env_given := env_given s |}
      | O => {| pool := 0; held := held s; threads := S (held s); pc := Running; env_taken := env_taken s; env_given := env_given s |}
      end
  | Running =>
      match result c with
      | Killed => {| pool := pool s; held := held s; threads := 0; pc := Exited; env_taken := env_taken s; env_given := env_given s |}
      | _ => {| pool := pool s; held := held s; threads := threads s; pc := Unwinding; env_taken := env_taken s; env_given := env_given s |}
      end
  | Unwinding =>    (* drop(ThreadPool): every Acquired writes its byte back *)
      {| pool := pool s + held s; held := 0; threads := 0; pc := Exited; env_taken := env_taken s; env_given := env_given s |}
  | Exited => s
  end.

Definition step (c : cfg) (s : st) (a : action) : st :=
  match a with
  | Wild => wild_step c s
  | EnvTake =>
      match pool s with
      | S p => {| pool := p; held := held s; threads := threads s; pc := pc s; env_taken := S (env_taken s); env_given := env_given s |}
      | O => s
      end
  | EnvGive =>
      (* another job can only give back what it took *)
      if Nat.ltb (env_given s) (env_taken s)
      then {| pool := S (pool s); held := held s; threads := threads s; pc := pc s; env_taken := env_taken s; env_given := S (env_given s) |}
      else s
  end.

Definition run (c : cfg) (n : nat) (sched : list action) : st := fold_left (step c) sched (init n).

(* wild alone, k steps *)
Fixpoint wild_n (c : cfg) (k : nat) (s : st) : st := match k with O => s | S k' => wild_n c k' (wild_step c s) end.
