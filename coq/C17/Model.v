(* C17 — exit-status logic of libwild/src/subprocess.rs (wait_for_child_done, subprocess_result),
   wild/src/main.rs and error.rs::report_error_and_exit, over an abstract run:
   a fault of some kind strikes at some phase boundary (or nowhere). *)
From Coq Require Import NArith List Bool.
Import ListNotations.
Open Scope N_scope.

(* phase boundaries, in execution order (the hook points of the same names) *)
Inductive phase := Loaded | Symbols | Resolved | Layout | Written | Verified | Linked | Informed.
Definition phase_ix (p : phase) : N :=
  match p with Loaded => 0 | Symbols => 1 | Resolved => 2 | Layout => 3 | Written => 4 | Verified => 5 | Linked => 6 | Informed => 7 end.
Definition all_phases := [Loaded; Symbols; Resolved; Layout; Written; Verified; Linked; Informed].

Inductive fault := FError | FPanic | FAbort | FKill | FSegv.
Definition all_faults := [FError; FPanic; FAbort; FKill; FSegv].

(* Linux wait-status encoding (a definition of the abstract machine; validated by the tie) *)
Definition st_exited (code : N) : N := N.shiftl (N.land code 0xff) 8.
Definition st_signaled (sig : N) (core : bool) : N := N.lor sig (if core then 0x80 else 0).
Definition WIFEXITED (st : N) : bool := N.land st 0x7f =? 0.
Definition WEXITSTATUS (st : N) : N := N.land (N.shiftr st 8) 0xff.
Definition WTERMSIG (st : N) : N := N.land st 0x7f.

(* how a process that suffers [f] terminates: report_error_and_exit -> exit(-1) = 255; a Rust
   panic on the main thread -> 101; abort -> SIGABRT; raise(SIGKILL/SIGSEGV) *)
Definition fault_status (f : fault) : N :=
  match f with
  | FError => st_exited 255
  | FPanic => st_exited 101
  | FAbort => st_signaled 6 true
  | FKill => st_signaled 9 false
  | FSegv => st_signaled 11 true
  end.

(* the Informed point is reached only in fork mode (child, after inform_parent_done) *)
Definition reached (fork : bool) (p : phase) : bool :=
  match p with Linked | Informed => fork | _ => true end.

(* wait status of the process that runs the linker (child in fork mode, the only process otherwise) *)
Definition worker_status (fork : bool) (flt : option (phase * fault)) : N :=
  match flt with
  | Some (p, f) => if reached fork p then fault_status f else st_exited 0
  | None => st_exited 0
  end.

(* the byte on the pipe is sent by inform_parent_done, i.e. iff no fault strikes before Informed *)
Definition byte_sent (flt : option (phase * fault)) : bool :=
  match flt with
  | Some (p, _) => 7 <=? phase_ix p
  | None => true
  end.

(* wait_for_child_done.  [fixed] = false is the pinned tree (WEXITSTATUS applied unconditionally) *)
Definition parent_exit (fixed : bool) (byte : bool) (st : N) : N :=
  if byte then 0
  else if fixed then (if WIFEXITED st then WEXITSTATUS st else 128 + WTERMSIG st)
  else WEXITSTATUS st.

(* what the invoker of wild observes: a wait status *)
Definition final_status (fixed fork : bool) (flt : option (phase * fault)) : N :=
  if fork then st_exited (parent_exit fixed (byte_sent flt) (worker_status true flt))
  else worker_status false flt.

Definition exit_zero (st : N) : bool := WIFEXITED st && (WEXITSTATUS st =? 0).

(* the output file is on disk and complete iff P::write_output_file returned — no fault before Written — and no ERROR
   was returned inside Linker::run afterwards (points Written, Verified): link_for_arch then removes the output
   (remove_after_failed_link, the C18 repair).  Panics / signals leave it; faults after run() returned leave it. *)
Definition is_error (f : fault) : bool := match f with FError => true | _ => false end.
Definition output_complete (fork : bool) (flt : option (phase * fault)) : bool :=
  match flt with
  | Some (p, f) => negb (reached fork p) || ((4 <=? phase_ix p) && negb (is_error f && (phase_ix p <=? 5)))
  | None => true
  end.

Definition all_runs : list (bool * option (phase * fault)) :=
  flat_map (fun fork => (fork, None) :: flat_map (fun p => map (fun f => (fork, Some (p, f))) all_faults) all_phases)
           [true; false].
