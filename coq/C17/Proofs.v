From Coq Require Import NArith List Bool Lia.
From WV Require Import C17.Model.
Import ListNotations.
Open Scope N_scope.

Lemma all_phases_complete p : In p all_phases.
Proof. destruct p; cbn; tauto. Qed.
Lemma all_faults_complete f : In f all_faults.
Proof. destruct f; cbn; tauto. Qed.

Lemma all_runs_complete fork flt : In (fork, flt) all_runs.
Proof.
  unfold all_runs. apply in_flat_map. exists fork. split; [destruct fork; cbn; tauto|].
  destruct flt as [[p f]|]; [right|left; reflexivity].
  apply in_flat_map. exists p. split; [apply all_phases_complete|].
  apply (in_map (fun f0 => (fork, Some (p, f0)))). apply all_faults_complete.
Qed.

Definition run_ok (fixed : bool) (r : bool * option (phase * fault)) : bool :=
  let '(fork, flt) := r in implb (exit_zero (final_status fixed fork flt)) (output_complete fork flt).

Lemma fixed_all_ok : forallb (run_ok true) all_runs = true.
Proof. vm_compute. reflexivity. Qed.

Lemma exit0_implies_written fork flt :
  exit_zero (final_status true fork flt) = true -> output_complete fork flt = true.
Proof.
  intros H. pose proof fixed_all_ok as A. rewrite forallb_forall in A.
  specialize (A _ (all_runs_complete fork flt)). unfold run_ok in A. rewrite H in A. exact A.
Qed.

(* every fault, at every point before the success byte, gives a non-zero status *)
Lemma fault_before_inform_nonzero fork p f :
  reached fork p = true -> phase_ix p < 7 -> exit_zero (final_status true fork (Some (p, f))) = false.
Proof. destruct fork, p, f; vm_compute; intros; try reflexivity; try discriminate; lia. Qed.

(* pinned tree: refuted — the forked worker killed before anything is written, parent exits 0 *)
Lemma pinned_refuted :
  exit_zero (final_status false true (Some (Loaded, FKill))) = true /\
  output_complete true (Some (Loaded, FKill)) = false.
Proof. vm_compute. split; reflexivity. Qed.

(* general statement about the status decoding: for every possible wait status of the child *)
Lemma parent_exit_zero_iff st :
  parent_exit true false st = 0 <-> (WIFEXITED st = true /\ WEXITSTATUS st = 0).
Proof.
  unfold parent_exit. destruct (WIFEXITED st) eqn:E; split.
  - intros H. split; [reflexivity|assumption].
  - intros [_ H]. assumption.
  - intros H. lia.
  - intros [H _]. discriminate.
Qed.
