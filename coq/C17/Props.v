(* C17 — property theorems only. *)
From Coq Require Import NArith List Bool.
From WV Require Import C17.Model C17.Proofs.
Open Scope N_scope.

(* exit status 0 only if the output was completely written: every phase boundary x every fault kind x fork/no-fork *)
Theorem C17_exit0_implies_written : forall fork flt,
  exit_zero (final_status true fork flt) = true -> output_complete fork flt = true.
Proof. exact exit0_implies_written. Qed.

Theorem C17_fault_gives_nonzero : forall fork p f,
  reached fork p = true -> phase_ix p < 7 -> exit_zero (final_status true fork (Some (p, f))) = false.
Proof. exact fault_before_inform_nonzero. Qed.

(* for EVERY wait status of the child (not only the modelled faults): without the success byte the parent exits 0
   only if the child itself exited normally with code 0 *)
Theorem C17_parent_exit_zero_iff : forall st,
  parent_exit true false st = 0 <-> (WIFEXITED st = true /\ WEXITSTATUS st = 0).
Proof. exact parent_exit_zero_iff. Qed.

Theorem C17_pinned_tree_refuted :
  exit_zero (final_status false true (Some (Loaded, FKill))) = true /\
  output_complete true (Some (Loaded, FKill)) = false.
Proof. exact pinned_refuted. Qed.

Print Assumptions C17_exit0_implies_written.
Print Assumptions C17_fault_gives_nonzero.
Print Assumptions C17_parent_exit_zero_iff.
Print Assumptions C17_pinned_tree_refuted.
