From Coq Require Import ZArith List Bool Lia Arith.
From WV Require Import C34.Model.
Import ListNotations.
Open Scope Z_scope.

Lemma quiet_on_self b sites : report b b sites = [].
Proof. unfold report. induction sites as [|s r IH]; cbn [filter]; [reflexivity|]. rewrite Z.eqb_refl. cbn. exact IH. Qed.

Lemma quiet_when_relative_positions_agree r t sites :
  (forall s, In s sites -> relative r s = relative t s) -> report r t sites = [].
Proof.
  unfold report. induction sites as [|s l IH]; intros H; cbn [filter]; [reflexivity|].
  rewrite (H s (or_introl eq_refl)), Z.eqb_refl. cbn. apply IH. intros x Hx. apply H. right; exact Hx.
Qed.

Lemma redirect_reported b sites v t to :
  In (v, t) sites -> to <> points_at b v ->
  forall s, In s (report b (redirect b v to) sites) <-> In s sites /\ fst s = v.
Proof.
  intros Hin Hne s. unfold report. rewrite filter_In. unfold relative, redirect. cbn [sym_addr points_at]. split.
  - intros (Hs & Hd). split; [exact Hs|]. destruct (Nat.eqb_spec (fst s) v) as [E|E]; [exact E|]. rewrite Z.eqb_refl in Hd. discriminate.
  - intros (Hs & ->). split; [exact Hs|]. rewrite Nat.eqb_refl. apply negb_true_iff, Z.eqb_neq. lia.
Qed.
