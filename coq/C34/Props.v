(* C34 — linker-diff is quiet on equal binaries and catches broken relocations: the property theorems. *)
From Coq Require Import ZArith List Bool.
From WV Require Import C34.Model C34.Proofs.
Import ListNotations.
Open Scope Z_scope.

(* a binary against itself (or a byte-identical copy: the same function of the bytes): nothing is reported *)
Theorem C34_quiet_on_identical_binaries : forall b sites, report b b sites = [].
Proof. exact quiet_on_self. Qed.
Print Assumptions C34_quiet_on_identical_binaries.

(* more generally, two layouts in which every reference keeps its position relative to its symbol *)
Theorem C34_quiet_when_every_reference_agrees :
  forall r t sites, (forall s, In s sites -> relative r s = relative t s) -> report r t sites = [].
Proof. exact quiet_when_relative_positions_agree. Qed.
Print Assumptions C34_quiet_when_every_reference_agrees.

(* one reference redirected to any other address: reported, and only the sites of that reference are *)
Theorem C34_a_redirected_reference_is_reported :
  forall b sites v t to,
    In (v, t) sites -> to <> points_at b v ->
    forall s, In s (report b (redirect b v to) sites) <-> In s sites /\ fst s = v.
Proof. exact redirect_reported. Qed.
Print Assumptions C34_a_redirected_reference_is_reported.
