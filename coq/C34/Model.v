(* C34 — linker-diff on relocated references (linker-diff/src/asm_diff.rs).  For every relocation of the input objects
   the tool finds the place in each binary, reads back the address the reference now points at, and expresses it
   relative to the address the relocation's original symbol has IN THAT BINARY; binaries laid out differently agree
   when these relative positions agree.  A difference is reported per site. *)
From Coq Require Import ZArith List Bool.
Import ListNotations.
Open Scope Z_scope.

Record binary := {
  sym_addr : nat -> Z;          (* symbol -> its address in this binary *)
  points_at : nat -> Z;         (* relocation site -> the address the reference resolves to in this binary *)
}.
Definition site := (nat * nat)%type.        (* site id, the symbol its original relocation names *)

Definition relative (b : binary) (s : site) : Z := points_at b (fst s) - sym_addr b (snd s).
Definition report (reference test : binary) (sites : list site) : list site :=
  filter (fun s => negb (relative reference s =? relative test s)) sites.

(* a copy of b in which one reference has been redirected *)
Definition redirect (b : binary) (victim : nat) (to : Z) : binary :=
  {| sym_addr := sym_addr b; points_at := fun i => if Nat.eqb i victim then to else points_at b i |}.
