(* C37 — DT_NEEDED lists exactly the required libraries: on top of C03's loaded set. *)
From Coq Require Import List Bool Arith Sorting.Sorted Lia.
From WV Require Import C03.Model C03.Proofs.
Import ListNotations.

Section N.
  Variable files : list file.
  Variable S : list nat.
  Hypothesis S_is_L : forall i, In i S <-> InL files i.

  Lemma needed_spec i : In i (needed files S) <-> exists f, nth_error files i = Some f /\ dynamic f = true /\ InL files i.
  Proof.
    unfold needed. rewrite filter_In, in_seq. split.
    - intros [Hr H]. destruct (nth_error files i) as [f|] eqn:Ef; [|discriminate]. apply andb_prop in H. destruct H as [Hd Hm].
      exists f. split; [reflexivity|]. split; [assumption|]. apply S_is_L. apply mem_In. assumption.
    - intros (f & Hf & Hd & HL). split.
      + split; [lia|]. cbn. apply nth_error_Some. congruence.
      + rewrite Hf, Hd. cbn. apply mem_In. apply S_is_L. assumption.
  Qed.

  (* exactly the required libraries: listed iff it is a shared library that is part of the link *)
  Theorem C37_needed_iff_loaded_dynamic : forall i, In i (needed files S) <-> exists f, nth_error files i = Some f /\ dynamic f = true /\ InL files i.
  Proof. exact needed_spec. Qed.

  (* every library linked without --as-needed is listed *)
  Theorem C37_no_as_needed_always_listed : forall i f, nth_error files i = Some f -> dynamic f = true -> optional f = false -> In i (needed files S).
  Proof. intros i f Hf Hd Ho. apply needed_spec. exists f. repeat split; try assumption. eapply L_root; eassumption. Qed.

  (* an --as-needed library is listed only if some loaded file references, non-weakly, a name whose first definition it is *)
  Theorem C37_as_needed_only_if_referenced : forall i f, nth_error files i = Some f -> optional f = true -> In i (needed files S) ->
    exists j fj, InL files j /\ nth_error files j = Some fj /\ In i (requests files j fj).
  Proof.
    intros i f Hf Ho Hn. apply needed_spec in Hn. destruct Hn as (f' & Hf' & _ & HL).
    inversion HL as [i0 f0 Hf0 Ho0|j fj m Hj Hfj Hm]; subst.
    - rewrite Hf in Hf0. injection Hf0 as <-. congruence.
    - exists j, fj. repeat split; assumption.
  Qed.

  (* in command-line order, each at most once *)
  Theorem C37_needed_in_command_line_order : StronglySorted lt (needed files S).
  Proof.
    unfold needed. generalize (length files) as n. intros n. generalize 0 as k.
    induction n as [|n IH]; intros k; cbn [seq filter]; [constructor|].
    destruct (match nth_error files k with Some f => dynamic f && mem k S | None => false end).
    - constructor; [apply IH|]. apply Forall_forall. intros x Hx. apply filter_In in Hx. destruct Hx as [Hx _]. apply in_seq in Hx. lia.
    - apply IH.
  Qed.
End N.

Print Assumptions C37_needed_iff_loaded_dynamic.
Print Assumptions C37_no_as_needed_always_listed.
Print Assumptions C37_as_needed_only_if_referenced.
Print Assumptions C37_needed_in_command_line_order.
