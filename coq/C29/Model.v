(* C29 — model of libwild/src/alignment.rs (definitions only, executable).
   u64 arithmetic is modelled on N with the 2^64 bound explicit:
   the *_dbg functions return None where a debug build panics on overflow,
   the *_rel functions wrap modulo 2^64 as a release build does. *)
From Coq Require Import NArith List.
Open Scope N_scope.

Definition W : N := 2 ^ 64.
Definition MAX_EXP : N := 16.

(* u64::is_power_of_two / trailing_zeros, by their std specification *)
Definition is_pow2 (raw : N) : bool := raw =? 2 ^ N.log2 raw.

(* Alignment::new : Ok(exponent) | Err *)
Definition new (raw : N) : option N :=
  if is_pow2 raw then
    let e := N.log2 raw in
    if e <=? MAX_EXP then Some e else None
  else None.

Definition value (e : N) : N := 2 ^ e.          (* 1 << exponent *)
Definition mask (e : N) : N := value e - 1.

(* u64::next_multiple_of: match self % rhs { 0 => self, r => self + (rhs - r) } *)
Definition align_up_math (e v : N) : N :=
  let a := value e in
  let r := v mod a in
  if r =? 0 then v else v + (a - r).

Definition chk (x : N) : option N := if x <? W then Some x else None.

Definition align_up_dbg (e v : N) : option N := chk (align_up_math e v).
Definition align_up_rel (e v : N) : N := align_up_math e v mod W.

(* value & !mask  on 64-bit words *)
Definition align_down (e v : N) : N := N.ldiff v (mask e).

(* align_modulo exactly as written; [up] is the align_up used *)
Definition align_modulo_body (e ref_ off1 : N) : N :=
  let m := mask e in
  if N.land off1 m =? N.land ref_ m then off1
  else
    let adj := N.land ref_ m + value e - N.land off1 m in
    let adj' := if value e <? adj then adj - value e else adj in
    off1 + adj'.

Definition align_modulo_dbg (e ref_ off : N) : option N :=
  match align_up_dbg e off with
  | None => None
  | Some off1 => chk (align_modulo_body e ref_ off1)
  end.

Definition align_modulo_rel (e ref_ off : N) : N :=
  align_modulo_body e ref_ (align_up_rel e off) mod W.

(* which branch of the `adjustment > value` test is taken (evidence: dead-branch observation) *)
Definition align_modulo_second_branch (e ref_ off1 : N) : bool :=
  let m := mask e in
  negb (N.land off1 m =? N.land ref_ m) &&
  negb (value e <? N.land ref_ m + value e - N.land off1 m).
