(* C29 — non-vacuity: the hypotheses of the property theorems are met by concrete inputs
   (the repository's own six test points among them), and the reject class is inhabited. *)
From Coq Require Import NArith.
From WV Require Import C29.Model C29.Proofs.
Open Scope N_scope.

Example up_15 : align_up_dbg 4 15 = Some 16. Proof. vm_compute. reflexivity. Qed.
Example up_31 : align_up_dbg 4 31 = Some 32. Proof. vm_compute. reflexivity. Qed.
Example mod_1 : align_modulo_dbg 12 0x123456 0x987456 = Some 0x988456. Proof. vm_compute. reflexivity. Qed.
Example mod_2 : align_modulo_dbg 12 0x123456 0x987000 = Some 0x987456. Proof. vm_compute. reflexivity. Qed.
Example mod_3 : align_modulo_dbg 12 0x2afce 0x42af7e = Some 0x42bfce. Proof. vm_compute. reflexivity. Qed.
Example down_17 : align_down 4 17 = 16. Proof. vm_compute. reflexivity. Qed.
Example new_64k : new 65536 = Some 16. Proof. vm_compute. reflexivity. Qed.
Example new_128k : new 131072 = None. Proof. vm_compute. reflexivity. Qed.
Example new_0 : new 0 = None. Proof. vm_compute. reflexivity. Qed.
Example new_3 : new 3 = None. Proof. vm_compute. reflexivity. Qed.
(* the class the real code rejects (debug) / wraps (release) is non-empty and is covered *)
Example up_overflow : align_up_dbg 4 (W - 1) = None /\ align_up_rel 4 (W - 1) = 0.
Proof. vm_compute. split; reflexivity. Qed.
Example mod_overflow : align_modulo_dbg 12 5 (W - 100) = None.
Proof. vm_compute. reflexivity. Qed.
