From Coq Require Import NArith ZArith Lia List.
From WV Require Import C29.Model.
Open Scope N_scope.

Lemma value_pos e : 0 < value e.
Proof. unfold value. apply N.neq_0_lt_0. apply N.pow_nonzero. discriminate. Qed.

Lemma mask_ones e : mask e = N.ones e.
Proof. unfold mask, value. rewrite N.ones_equiv. rewrite N.sub_1_r. reflexivity. Qed.

Lemma land_mask e v : N.land v (mask e) = v mod value e.
Proof. rewrite mask_ones. apply N.land_ones. Qed.

Lemma chk_some x r : chk x = Some r <-> (x = r /\ r < W).
Proof.
  unfold chk. destruct (N.ltb_spec x W); split.
  - intros [= <-]. auto.
  - intros [-> _]. reflexivity.
  - discriminate.
  - intros [-> H']. lia.
Qed.

Lemma chk_none x : chk x = None <-> W <= x.
Proof. unfold chk. destruct (N.ltb_spec x W); split; try discriminate; try lia; auto. Qed.

(* ---- divisibility facts, phrased with mod ---- *)
Lemma mult_mod0 a m : 0 < a -> m mod a = 0 -> exists k, m = a * k.
Proof. intros Ha H. exists (m / a). rewrite (N.div_mod m a) at 1 by lia. rewrite H. lia. Qed.

Lemma align_up_math_spec e v :
  let a := value e in let r := align_up_math e v in
  r mod a = 0 /\ v <= r /\ r < v + a /\ (forall m, m mod a = 0 -> v <= m -> r <= m).
Proof.
  cbv zeta. pose proof (value_pos e) as Ha. unfold align_up_math.
  set (a := value e) in *.
  pose proof (N.div_mod v a ltac:(lia)) as Hdm.
  pose proof (N.mod_lt v a ltac:(lia)) as Hlt.
  set (q := v / a) in *. set (r := v mod a) in *.
  destruct (N.eqb_spec r 0) as [Hr|Hr].
  - split; [exact Hr|]. split; [lia|]. split; [lia|]. intros; assumption.
  - assert (Hs : v + (a - r) = a * (q + 1)) by lia.
    rewrite Hs. split; [rewrite N.mul_comm; apply N.mod_mul; lia|].
    split; [lia|]. split; [lia|].
    { intros m Hm Hvm. destruct (mult_mod0 a m Ha Hm) as [k ->].
      apply N.mul_le_mono_l.
      destruct (N.le_gt_cases (q + 1) k) as [|Hk]; [assumption|].
      assert (k <= q) by lia.
      assert (a * k <= a * q) by (apply N.mul_le_mono_l; assumption). lia. }
Qed.

Lemma align_down_eq e v : align_down e v = v - v mod value e.
Proof.
  unfold align_down. rewrite mask_ones. rewrite N.ldiff_ones_r.
  rewrite N.shiftr_div_pow2, N.shiftl_mul_pow2. fold (value e).
  pose proof (value_pos e) as Ha. set (a := value e) in *.
  pose proof (N.div_mod v a ltac:(lia)) as Hdm.
  set (q := v / a) in *. set (r := v mod a) in *. lia.
Qed.

Lemma align_down_spec e v :
  let a := value e in let r := align_down e v in
  r mod a = 0 /\ r <= v /\ v < r + a /\ (forall m, m mod a = 0 -> m <= v -> m <= r).
Proof.
  cbv zeta. rewrite align_down_eq. pose proof (value_pos e) as Ha.
  set (a := value e) in *.
  pose proof (N.div_mod v a ltac:(lia)) as Hdm.
  pose proof (N.mod_lt v a ltac:(lia)) as Hlt.
  set (q := v / a) in *. set (r := v mod a) in *.
  assert (Hs : v - r = a * q) by lia. rewrite Hs.
  split; [rewrite N.mul_comm; apply N.mod_mul; lia|].
  split; [lia|]. split; [lia|].
  intros m Hm Hmv. destruct (mult_mod0 a m Ha Hm) as [k ->].
  apply N.mul_le_mono_l.
  destruct (N.le_gt_cases k q) as [|Hk]; [assumption|].
  assert (q + 1 <= k) by lia.
  assert (a * (q + 1) <= a * k) by (apply N.mul_le_mono_l; assumption). lia.
Qed.

(* The body of align_modulo on an already aligned offset *)
Lemma align_modulo_body_spec e ref_ off1 :
  let a := value e in
  off1 mod a = 0 ->
  let r := align_modulo_body e ref_ off1 in
  r = off1 + ref_ mod a.
Proof.
  cbv zeta. intros H0. unfold align_modulo_body.
  rewrite !land_mask. rewrite H0.
  pose proof (value_pos e) as Ha. set (a := value e) in *.
  pose proof (N.mod_lt ref_ a ltac:(lia)) as Hlt.
  set (rm := ref_ mod a) in *.
  destruct (N.eqb_spec 0 rm) as [Hz|Hz].
  - lia.
  - rewrite N.sub_0_r.
    destruct (N.ltb_spec a (rm + a)); lia.
Qed.

Lemma align_modulo_second_branch_dead e ref_ off1 :
  off1 mod value e = 0 -> align_modulo_second_branch e ref_ off1 = false.
Proof.
  intros H0. unfold align_modulo_second_branch. rewrite !land_mask, H0.
  pose proof (value_pos e) as Ha. set (a := value e) in *.
  pose proof (N.mod_lt ref_ a ltac:(lia)) as Hlt.
  set (rm := ref_ mod a) in *.
  destruct (N.eqb_spec 0 rm); cbn [negb andb]; [reflexivity|].
  rewrite N.sub_0_r.
  destruct (N.ltb_spec a (rm + a)); [reflexivity|lia].
Qed.

Lemma mod_add_multiple a x y : 0 < a -> x mod a = 0 -> (x + y) mod a = y mod a.
Proof.
  intros Ha Hx. destruct (mult_mod0 a x Ha Hx) as [k ->].
  rewrite N.add_comm, N.mul_comm. apply N.mod_add. lia.
Qed.

(* Mathematical characterisation of the target of align_modulo *)
Definition modulo_target (e ref_ off : N) : N := align_up_math e off + ref_ mod value e.

Lemma modulo_target_spec e ref_ off :
  let a := value e in let r := modulo_target e ref_ off in
  align_up_math e off <= r /\ r mod a = ref_ mod a /\
  (forall m, align_up_math e off <= m -> m mod a = ref_ mod a -> r <= m).
Proof.
  cbv zeta. unfold modulo_target.
  destruct (align_up_math_spec e off) as (Hu0 & _ & _ & _).
  pose proof (value_pos e) as Ha. set (a := value e) in *. set (u := align_up_math e off) in *.
  pose proof (N.mod_lt ref_ a ltac:(lia)) as Hlt.
  split; [apply N.le_add_r|].
  split; [rewrite mod_add_multiple by assumption; apply N.mod_mod; lia|].
  intros m Hum Hm.
  destruct (mult_mod0 a u Ha Hu0) as [k Hk].
  pose proof (N.div_mod m a ltac:(lia)) as Hdm. rewrite Hm in Hdm.
  set (rm := ref_ mod a) in *. set (mq := m / a) in *.
  destruct (N.le_gt_cases k mq) as [Hle|Hgt].
  - assert (a * k <= a * mq) by (apply N.mul_le_mono_l; assumption). lia.
  - assert (mq + 1 <= k) by lia.
    assert (a * (mq + 1) <= a * k) by (apply N.mul_le_mono_l; assumption). lia.
Qed.

Lemma align_modulo_dbg_eq e ref_ off :
  align_modulo_dbg e ref_ off = chk (modulo_target e ref_ off).
Proof.
  unfold align_modulo_dbg, align_up_dbg, modulo_target.
  destruct (align_up_math_spec e off) as (Hu0 & _ & _ & _).
  set (u := align_up_math e off) in *.
  pose proof (align_modulo_body_spec e ref_ u Hu0) as Hb. cbv zeta in Hb.
  unfold chk at 1. destruct (N.ltb_spec u W).
  - rewrite Hb. reflexivity.
  - symmetry. apply chk_none. eapply N.le_trans; [eassumption|apply N.le_add_r].
Qed.

Lemma pow2_log2 e : N.log2 (2 ^ e) = e.
Proof. apply N.log2_pow2. lia. Qed.

Lemma new_spec raw e : new raw = Some e <-> (e <= MAX_EXP /\ raw = 2 ^ e).
Proof.
  unfold new, is_pow2. split.
  - destruct (N.eqb_spec raw (2 ^ N.log2 raw)) as [Hp|]; [|discriminate].
    destruct (N.leb_spec (N.log2 raw) MAX_EXP); [|discriminate].
    intros [= <-]. split; assumption.
  - intros [He ->]. rewrite pow2_log2. rewrite N.eqb_refl.
    destruct (N.leb_spec e MAX_EXP); [reflexivity|lia].
Qed.

(* ---------- property-level statements ---------- *)
Definition is_align_up (a v u : N) : Prop :=
  u mod a = 0 /\ v <= u /\ forall m, m mod a = 0 -> v <= m -> u <= m.
Definition is_align_down (a v d : N) : Prop :=
  d mod a = 0 /\ d <= v /\ forall m, m mod a = 0 -> m <= v -> m <= d.
Definition is_align_modulo (a ref_ off r : N) : Prop :=
  forall u, is_align_up a off u ->
    u <= r /\ r mod a = ref_ mod a /\ forall m, u <= m -> m mod a = ref_ mod a -> r <= m.

Lemma is_align_up_unique a v u1 u2 : is_align_up a v u1 -> is_align_up a v u2 -> u1 = u2.
Proof.
  intros (A1 & B1 & C1) (A2 & B2 & C2).
  apply N.le_antisymm; [apply C1|apply C2]; assumption.
Qed.

Lemma align_up_math_is e v : is_align_up (2 ^ e) v (align_up_math e v).
Proof. destruct (align_up_math_spec e v) as (A & B & _ & C). repeat split; assumption. Qed.

Lemma wrap_small x : x < W -> x mod W = x.
Proof. intros. apply N.mod_small. assumption. Qed.

Lemma align_up_accept e v r :
  align_up_dbg e v = Some r ->
  r < W /\ is_align_up (2 ^ e) v r /\ align_up_rel e v = r.
Proof.
  unfold align_up_dbg, align_up_rel. intros H. apply chk_some in H. destruct H as [<- Hlt].
  split; [assumption|]. split; [apply align_up_math_is|apply wrap_small; assumption].
Qed.

Lemma align_up_reject e v :
  align_up_dbg e v = None <-> (forall u, is_align_up (2 ^ e) v u -> W <= u).
Proof.
  unfold align_up_dbg. rewrite chk_none. split.
  - intros H u Hu. rewrite (is_align_up_unique _ _ _ _ Hu (align_up_math_is e v)). assumption.
  - intros H. apply H. apply align_up_math_is.
Qed.

Lemma align_up_reject_wraps_to_zero e v :
  e <= 64 -> v < W -> align_up_dbg e v = None -> align_up_rel e v = 0.
Proof.
  intros He Hv H. unfold align_up_dbg in H. apply chk_none in H. unfold align_up_rel.
  destruct (align_up_math_spec e v) as (H0 & _ & Hlt & _).
  fold (value e) in *. set (u := align_up_math e v) in *.
  (* u is a multiple of 2^e, W <= u < v + 2^e <= W + 2^e, and 2^e | W, so u = W *)
  assert (HW : W mod value e = 0).
  { unfold W, value. replace 64 with ((64 - e) + e) by lia. rewrite N.pow_add_r.
    apply N.mod_mul. apply N.pow_nonzero. discriminate. }
  pose proof (value_pos e) as Ha.
  destruct (mult_mod0 _ _ Ha H0) as [k Hk]. destruct (mult_mod0 _ _ Ha HW) as [w Hw].
  set (a := value e) in *.
  assert (k = w).
  { destruct (N.lt_trichotomy k w) as [Hc|[Hc|Hc]]; [|assumption|].
    - assert (a * k < a * w) by (apply N.mul_lt_mono_pos_l; assumption). lia.
    - assert (w + 1 <= k) by lia.
      assert (a * (w + 1) <= a * k) by (apply N.mul_le_mono_l; assumption). lia. }
  subst k. rewrite Hk, <- Hw. apply N.mod_same. unfold W. discriminate.
Qed.

Lemma align_down_is e v : is_align_down (2 ^ e) v (align_down e v).
Proof. destruct (align_down_spec e v) as (A & B & _ & C). repeat split; assumption. Qed.

Lemma align_down_fits e v : v < W -> align_down e v < W.
Proof. intros. destruct (align_down_spec e v) as (_ & B & _). lia. Qed.

Lemma align_modulo_accept e ref_ off r :
  align_modulo_dbg e ref_ off = Some r ->
  r < W /\ is_align_modulo (2 ^ e) ref_ off r /\ align_modulo_rel e ref_ off = r.
Proof.
  intros H. pose proof H as H'. rewrite align_modulo_dbg_eq in H'. apply chk_some in H'.
  destruct H' as [Ht Hlt]. split; [assumption|]. split.
  - intros u Hu. rewrite (is_align_up_unique _ _ _ _ Hu (align_up_math_is e off)).
    subst r. apply modulo_target_spec.
  - unfold align_modulo_rel, align_modulo_dbg in *.
    destruct (align_up_dbg e off) as [o1|] eqn:Hup; [|discriminate].
    apply align_up_accept in Hup. destruct Hup as (_ & _ & ->).
    apply chk_some in H. destruct H as [-> _]. apply wrap_small. assumption.
Qed.

Lemma align_modulo_reject e ref_ off :
  align_modulo_dbg e ref_ off = None <->
  (forall r, is_align_modulo (2 ^ e) ref_ off r -> W <= r).
Proof.
  rewrite align_modulo_dbg_eq, chk_none. split.
  - intros H r Hr.
    destruct (Hr _ (align_up_math_is e off)) as (A & B & C).
    destruct (modulo_target_spec e ref_ off) as (A' & B' & C').
    fold (value e) in *.
    assert (r = modulo_target e ref_ off).
    { apply N.le_antisymm; [apply C|apply C']; assumption. }
    subst r. assumption.
  - intros H. apply H. intros u Hu.
    rewrite (is_align_up_unique _ _ _ _ Hu (align_up_math_is e off)).
    apply modulo_target_spec.
Qed.
