(* C29 — property theorems only.  Each is closed by [exact <lemma>], pinned by [Check], and
   followed by [Print Assumptions]. *)
From Coq Require Import NArith.
From WV Require Import C29.Model C29.Proofs.
Open Scope N_scope.

(* aligning up: smallest multiple of the alignment not below the value; the only inputs the
   code does not answer (debug panic / release wrap to 0) are those with no 64-bit answer *)
Theorem C29_align_up_exact : forall e v r, align_up_dbg e v = Some r ->
  r < W /\ is_align_up (2 ^ e) v r /\ align_up_rel e v = r.
Proof. exact align_up_accept. Qed.
Theorem C29_align_up_rejects_only_unrepresentable : forall e v,
  align_up_dbg e v = None <-> (forall u, is_align_up (2 ^ e) v u -> W <= u).
Proof. exact align_up_reject. Qed.

Theorem C29_align_down_exact : forall e v, v < W ->
  align_down e v < W /\ is_align_down (2 ^ e) v (align_down e v).
Proof. intros e v H. split; [exact (align_down_fits e v H)|exact (align_down_is e v)]. Qed.

Theorem C29_align_modulo_exact : forall e ref_ off r, align_modulo_dbg e ref_ off = Some r ->
  r < W /\ is_align_modulo (2 ^ e) ref_ off r /\ align_modulo_rel e ref_ off = r.
Proof. exact align_modulo_accept. Qed.
Theorem C29_align_modulo_rejects_only_unrepresentable : forall e ref_ off,
  align_modulo_dbg e ref_ off = None <-> (forall r, is_align_modulo (2 ^ e) ref_ off r -> W <= r).
Proof. exact align_modulo_reject. Qed.

Theorem C29_new_accepts_iff : forall raw e, new raw = Some e <-> (e <= 16 /\ raw = 2 ^ e).
Proof. exact new_spec. Qed.

Check C29_align_up_exact : forall e v r, align_up_dbg e v = Some r ->
  r < W /\ (r mod 2 ^ e = 0 /\ v <= r /\ forall m, m mod 2 ^ e = 0 -> v <= m -> r <= m)
  /\ align_up_rel e v = r.
Check C29_align_down_exact : forall e v, v < W -> align_down e v < W /\
  (align_down e v mod 2 ^ e = 0 /\ align_down e v <= v /\
   forall m, m mod 2 ^ e = 0 -> m <= v -> m <= align_down e v).
Check C29_align_modulo_exact : forall e ref_ off r, align_modulo_dbg e ref_ off = Some r ->
  r < W /\
  (forall u, (u mod 2 ^ e = 0 /\ off <= u /\ forall m, m mod 2 ^ e = 0 -> off <= m -> u <= m) ->
     u <= r /\ r mod 2 ^ e = ref_ mod 2 ^ e /\
     forall m, u <= m -> m mod 2 ^ e = ref_ mod 2 ^ e -> r <= m)
  /\ align_modulo_rel e ref_ off = r.
Check C29_new_accepts_iff : forall raw e, new raw = Some e <-> (e <= 16 /\ raw = 2 ^ e).

Print Assumptions C29_align_up_exact.
Print Assumptions C29_align_up_rejects_only_unrepresentable.
Print Assumptions C29_align_down_exact.
Print Assumptions C29_align_modulo_exact.
Print Assumptions C29_align_modulo_rejects_only_unrepresentable.
Print Assumptions C29_new_accepts_iff.
