(* C27 — partial links are transparent.  What `-r` does to a relocation (elf_writer.rs write_rela_sections,
   build_sym_index_map): input sections of one name are concatenated into one output section; a relocation keeps its
   type, moves with its section, and a reference to an input section's section symbol becomes a reference to the merged
   section's symbol with the input section's offset added to the addend; symbols keep their names and move with their
   sections.  The final link then resolves the rewritten relocation. *)
From Coq Require Import ZArith List Bool Lia.
Import ListNotations.
Open Scope Z_scope.

Inductive target := TSec (i : nat) | TSym (n : nat).
Record reloc := { r_sec : nat; r_off : Z; r_tgt : target; r_add : Z; r_pc : bool }.

Record group := {
  merged : nat -> nat;                 (* input section -> the output section of the relocatable object it lands in *)
  off_in : nat -> Z;                   (* ... and its offset there *)
}.
Record symtab := { sym_def : nat -> option (nat * Z) }.     (* name -> (defining input section, value) if defined inside the group *)

(* the relocatable object *)
Definition rewrite (g : group) (r : reloc) : reloc :=
  {| r_sec := merged g (r_sec r);
     r_off := off_in g (r_sec r) + r_off r;
     r_tgt := match r_tgt r with TSec i => TSec (merged g i) | TSym n => TSym n end;
     r_add := match r_tgt r with TSec i => r_add r + off_in g i | TSym _ => r_add r end;
     r_pc := r_pc r |}.
Definition rewrite_sym (g : group) (d : option (nat * Z)) : option (nat * Z) :=
  match d with Some (i, v) => Some (merged g i, off_in g i + v) | None => None end.

(* a link: where sections end up, what outside symbols resolve to *)
Record placement := { addr : nat -> Z; ext : nat -> Z }.

Definition sym_value (p : placement) (defs : nat -> option (nat * Z)) (n : nat) : Z :=
  match defs n with Some (i, v) => addr p i + v | None => ext p n end.
Definition resolve (p : placement) (defs : nat -> option (nat * Z)) (r : reloc) : Z :=
  let s := match r_tgt r with TSec i => addr p i | TSym n => sym_value p defs n end in
  s + r_add r - (if r_pc r then addr p (r_sec r) + r_off r else 0).

(* where the ORIGINAL input sections are once the relocatable object has been placed by the final link *)
Definition through (g : group) (p : placement) : placement :=
  {| addr := fun i => addr p (merged g i) + off_in g i; ext := ext p |}.

(* had the addend not been adjusted for section-symbol targets *)
Definition rewrite_no_addend_fix (g : group) (r : reloc) : reloc :=
  {| r_sec := merged g (r_sec r); r_off := off_in g (r_sec r) + r_off r;
     r_tgt := match r_tgt r with TSec i => TSec (merged g i) | TSym n => TSym n end; r_add := r_add r; r_pc := r_pc r |}.
