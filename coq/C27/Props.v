(* C27 — partial links are transparent: the property theorems. Model: C27/Model.v. *)
From Coq Require Import ZArith List Bool.
From WV Require Import C27.Model C27.Proofs.
Import ListNotations.
Open Scope Z_scope.

(* Every relocation of every input, resolved by the final link through the relocatable object, has the value the psABI
   formula gives for the ORIGINAL reference at the places the original sections and symbols finally occupy: S + A, minus
   P for pc-relative kinds.  Holds for every grouping (merged, off_in), every placement by the final link, section-symbol
   and named targets, symbols defined inside or outside the group. *)
Theorem C27_relocation_through_a_partial_link_is_the_direct_one :
  forall g p defs r,
    resolve p (fun n => rewrite_sym g (defs n)) (rewrite g r) = resolve (through g p) defs r.
Proof. exact partial_link_transparent. Qed.
Print Assumptions C27_relocation_through_a_partial_link_is_the_direct_one.

(* Partial links of partial links: the same, with the groupings composed. *)
Theorem C27_nested_partial_links :
  forall g1 g2 p defs r,
    resolve p (fun n => rewrite_sym g2 (rewrite_sym g1 (defs n))) (rewrite g2 (rewrite g1 r)) = resolve (through (compose g1 g2) p) defs r.
Proof. exact nested_partial_links_transparent. Qed.
Print Assumptions C27_nested_partial_links.

(* the addend adjustment for section-symbol targets is what makes it true: without it a reference into the second of two
   concatenated sections lands in the first *)
Theorem C27_refuted_without_the_addend_adjustment :
  let g := {| merged := fun _ => 0%nat; off_in := fun i => match i with 0%nat => 0 | _ => 0x40 end |} in
  let p := {| addr := fun _ => 0x1000; ext := fun _ => 0 |} in
  let r := {| r_sec := 0%nat; r_off := 8; r_tgt := TSec 1%nat; r_add := 4; r_pc := false |} in
  resolve p (fun _ => None) (rewrite_no_addend_fix g r) = 0x1004 /\ resolve (through g p) (fun _ => None) r = 0x1044 /\
  resolve p (fun _ => None) (rewrite g r) = 0x1044.
Proof. vm_compute. repeat split. Qed.
Print Assumptions C27_refuted_without_the_addend_adjustment.
