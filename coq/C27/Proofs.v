From Coq Require Import ZArith List Bool Lia.
From WV Require Import C27.Model.
Import ListNotations.
Open Scope Z_scope.

Theorem partial_link_transparent g p defs r :
  resolve p (fun n => rewrite_sym g (defs n)) (rewrite g r) = resolve (through g p) defs r.
Proof.
  unfold resolve, rewrite, through, sym_value, rewrite_sym. cbn [r_sec r_off r_tgt r_add r_pc addr ext].
  destruct (r_tgt r) as [i|n]; [destruct (r_pc r); lia|].
  destruct (defs n) as [[i v]|]; destruct (r_pc r); lia.
Qed.

(* grouping twice is grouping once with the composed maps *)
Definition compose (g1 g2 : group) : group :=
  {| merged := fun i => merged g2 (merged g1 i); off_in := fun i => off_in g2 (merged g1 i) + off_in g1 i |}.
Lemma rewrite_compose g1 g2 r : rewrite g2 (rewrite g1 r) = rewrite (compose g1 g2) r.
Proof.
  unfold rewrite, compose. cbn [r_sec r_off r_tgt r_add r_pc merged off_in]. destruct (r_tgt r); f_equal; lia.
Qed.
Lemma rewrite_sym_compose g1 g2 d : rewrite_sym g2 (rewrite_sym g1 d) = rewrite_sym (compose g1 g2) d.
Proof. destruct d as [[i v]|]; cbn; [f_equal; f_equal; lia|reflexivity]. Qed.

Lemma resolve_ext p d1 d2 r : (forall n, d1 n = d2 n) -> resolve p d1 r = resolve p d2 r.
Proof. intros H. unfold resolve, sym_value. destruct (r_tgt r) as [i|n]; [reflexivity|]. rewrite H. reflexivity. Qed.

Theorem nested_partial_links_transparent g1 g2 p defs r :
  resolve p (fun n => rewrite_sym g2 (rewrite_sym g1 (defs n))) (rewrite g2 (rewrite g1 r)) = resolve (through (compose g1 g2) p) defs r.
Proof.
  rewrite rewrite_compose.
  rewrite (resolve_ext p _ (fun n => rewrite_sym (compose g1 g2) (defs n))) by (intros n; apply rewrite_sym_compose).
  apply partial_link_transparent.
Qed.
