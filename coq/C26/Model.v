(* C26 — diagnostics are deterministic.  Work items (input files, groups, graph-traversal tasks) run in an order chosen by
   the scheduler; each reports its own errors and warnings, which depend only on the item.  What wild prints is a
   function of the sequence in which the reports arrived.  Messages are abstracted to integers ordered like the
   message texts (the check ranks the real texts). *)
From Coq Require Import ZArith List Bool Sorting.Permutation.
Import ListNotations.
Open Scope Z_scope.

Definition msg := Z.
Definition item := nat.

Section Run.
  Variable errs : item -> list msg.       (* the errors a work item reports: a function of the item alone *)
  Variable warns : item -> list msg.

  (* a schedule = the order in which the items complete *)
  Definition arrived (sched : list item) : list msg := flat_map errs sched.
  Definition warned (sched : list item) : list msg := flat_map warns sched.
End Run.

(* --- the reporters --- *)
Fixpoint insert (x : msg) (l : list msg) : list msg :=
  match l with [] => [x] | y :: r => if x <=? y then x :: l else y :: insert x r end.
Fixpoint isort (l : list msg) : list msg := match l with [] => [] | x :: r => insert x (isort r) end.

(* layout.rs find_required_sections, resolution.rs resolve_symbols_and_select_archive_entries: sort by message, report
   the first *)
Definition report_sorted_first (l : list msg) : option msg := hd_error (isort l).
(* symbol_db.rs duplicate symbols: sort by message, report all of them in one error *)
Definition report_sorted_all (l : list msg) : list msg := isort l.
(* elf_writer.rs write_file_contents, symbol_db.rs read_symbols: results are kept per group, in group order, and the
   first error in that order is reported: the arrival order plays no part *)
Definition report_first_in_input_order (errs : item -> list msg) (items : list item) : option msg :=
  hd_error (flat_map errs items).

(* what the code did before: *)
Definition report_last_arrived (l : list msg) : option msg := hd_error (rev l).     (* errors.pop() *)
Definition report_first_arrived (l : list msg) : option msg := hd_error l.          (* ArrayQueue(1), try_for_each *)
