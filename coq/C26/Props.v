(* C26 — diagnostics are deterministic: the property theorems. Model: C26/Model.v. *)
From Coq Require Import ZArith List Bool Sorting.Permutation.
From WV Require Import C26.Model C26.Proofs.
Import ListNotations.
Open Scope Z_scope.

(* Whatever order the work items complete in (any two schedules of the same items are permutations of each other), the
   error wild reports is the same: the least message of the set, and `None` (no error) only if there was none. *)
Theorem C26_reported_error_is_schedule_independent :
  forall (errs : item -> list msg) sched sched',
    Permutation sched sched' ->
    report_sorted_first (arrived errs sched) = report_sorted_first (arrived errs sched') /\
    report_sorted_all (arrived errs sched) = report_sorted_all (arrived errs sched').
Proof.
  intros errs s s' Hp. unfold report_sorted_first, report_sorted_all, arrived.
  rewrite (isort_perm_eq _ _ (flat_map_perm errs s s' Hp)). split; reflexivity.
Qed.
Print Assumptions C26_reported_error_is_schedule_independent.

Theorem C26_reported_error_is_the_least_message :
  forall l, (forall m, report_sorted_first l = Some m -> In m l /\ forall x, In x l -> m <= x) /\
            (report_sorted_first l = None -> l = []).
Proof. intros l. split; [intros m; apply sorted_first_is_min|apply sorted_first_none]. Qed.
Print Assumptions C26_reported_error_is_the_least_message.

(* Sites that keep one result per group and look at them in input order do not see the schedule at all. *)
Theorem C26_first_error_in_input_order_is_the_first_failing_item :
  forall (errs : item -> list msg) before i after m rest,
    (forall j, In j before -> errs j = []) -> errs i = m :: rest ->
    report_first_in_input_order errs (before ++ i :: after) = Some m.
Proof.
  intros errs before i after m rest Hb Hi. unfold report_first_in_input_order. rewrite flat_map_app.
  assert (E : flat_map errs before = []).
  { induction before as [|b r IH]; [reflexivity|]. cbn [flat_map]. rewrite (Hb b (or_introl eq_refl)). apply IH. intros j Hj. apply Hb. right; exact Hj. }
  rewrite E. cbn [app flat_map]. rewrite Hi. reflexivity.
Qed.
Print Assumptions C26_first_error_in_input_order_is_the_first_failing_item.

(* The warnings form the same multiset under every schedule (their order on stderr is not part of the property). *)
Theorem C26_warning_set_is_schedule_independent :
  forall (warns : item -> list msg) sched sched',
    Permutation sched sched' ->
    Permutation (warned warns sched) (warned warns sched') /\
    forall w, In w (warned warns sched) <-> In w (warned warns sched').
Proof.
  intros warns s s' Hp. pose proof (flat_map_perm warns s s' Hp) as H. unfold warned. split; [exact H|].
  intros w. split; intros Hw; [eapply Permutation_in; [exact H|exact Hw]|eapply Permutation_in; [apply Permutation_sym; exact H|exact Hw]].
Qed.
Print Assumptions C26_warning_set_is_schedule_independent.

(* What the code did before — the last error pushed (errors.pop()) or the first to arrive (ArrayQueue(1), rayon's
   try_for_each / collect into Result) — depends on the schedule as soon as two items fail. *)
Theorem C26_refuted_for_arrival_order_reporters :
  let errs := fun i : item => [Z.of_nat i + 10] in
  Permutation [1%nat; 2%nat] [2%nat; 1%nat] /\
  report_last_arrived (arrived errs [1%nat; 2%nat]) <> report_last_arrived (arrived errs [2%nat; 1%nat]) /\
  report_first_arrived (arrived errs [1%nat; 2%nat]) <> report_first_arrived (arrived errs [2%nat; 1%nat]).
Proof. cbn. split; [apply perm_swap|]. split; discriminate. Qed.
Print Assumptions C26_refuted_for_arrival_order_reporters.

Example C26_example :
  report_sorted_first (arrived (fun i => if Nat.eqb i 2 then [] else [Z.of_nat i * 3; 40 - Z.of_nat i]) [3%nat; 1%nat; 2%nat; 0%nat]) = Some 0.
Proof. vm_compute. reflexivity. Qed.
