From Coq Require Import ZArith List Bool Lia Sorting.Permutation Sorting.Sorted.
From WV Require Import C26.Model.
Import ListNotations.
Open Scope Z_scope.

Lemma insert_perm x l : Permutation (x :: l) (insert x l).
Proof.
  induction l as [|y r IH]; cbn [insert]; [reflexivity|]. destruct (x <=? y); [reflexivity|].
  rewrite perm_swap. apply perm_skip. exact IH.
Qed.
Lemma isort_perm l : Permutation l (isort l).
Proof. induction l as [|x r IH]; cbn [isort]; [constructor|]. rewrite <- insert_perm. apply perm_skip. exact IH. Qed.

Lemma insert_sorted x l : StronglySorted Z.le l -> StronglySorted Z.le (insert x l).
Proof.
  induction l as [|y r IH]; intros Hs; cbn [insert]; [repeat constructor|].
  destruct (Z.leb_spec x y).
  - constructor; [exact Hs|]. inversion Hs as [|? ? Hr Hall]; subst. constructor; [exact H|].
    eapply Forall_impl; [|exact Hall]. cbn beta. intros; lia.
  - inversion Hs as [|? ? Hr Hall]; subst. constructor; [apply IH; exact Hr|].
    eapply Permutation_Forall; [apply insert_perm|]. constructor; [lia|exact Hall].
Qed.
Lemma isort_sorted l : StronglySorted Z.le (isort l).
Proof. induction l as [|x r IH]; cbn [isort]; [constructor|]. apply insert_sorted. exact IH. Qed.

(* two sorted permutations of each other are equal (Z.le is antisymmetric) *)
Lemma sorted_perm_eq : forall l l', StronglySorted Z.le l -> StronglySorted Z.le l' -> Permutation l l' -> l = l'.
Proof.
  induction l as [|x r IH]; intros l' Hs Hs' Hp.
  - apply Permutation_nil in Hp. subst. reflexivity.
  - destruct l' as [|y r']; [apply Permutation_sym, Permutation_nil in Hp; discriminate|].
    inversion Hs as [|? ? Hr Hall]; subst. inversion Hs' as [|? ? Hr' Hall']; subst.
    assert (x = y).
    { assert (In x (y :: r')) by (eapply Permutation_in; [exact Hp|left; reflexivity]).
      assert (In y (x :: r)) by (eapply Permutation_in; [apply Permutation_sym; exact Hp|left; reflexivity]).
      rewrite Forall_forall in Hall, Hall'. destruct H as [->|H]; [reflexivity|]. destruct H0 as [->|H0]; [reflexivity|].
      specialize (Hall _ H0). specialize (Hall' _ H). lia. }
    subst y. f_equal. apply IH; [exact Hr|exact Hr'|]. eapply Permutation_cons_inv. exact Hp.
Qed.

Lemma isort_perm_eq l l' : Permutation l l' -> isort l = isort l'.
Proof.
  intros Hp. apply sorted_perm_eq; [apply isort_sorted|apply isort_sorted|].
  rewrite <- (isort_perm l), <- (isort_perm l'). exact Hp.
Qed.

Lemma flat_map_perm {A B} (f : A -> list B) l l' : Permutation l l' -> Permutation (flat_map f l) (flat_map f l').
Proof.
  induction 1; cbn [flat_map].
  - constructor.
  - apply Permutation_app_head. assumption.
  - rewrite !app_assoc. apply Permutation_app_tail. apply Permutation_app_comm.
  - etransitivity; eassumption.
Qed.

(* the first element of a sorted list is its minimum *)
Lemma sorted_first_is_min l m : report_sorted_first l = Some m -> In m l /\ forall x, In x l -> m <= x.
Proof.
  unfold report_sorted_first. intros H. pose proof (isort_sorted l) as Hs. pose proof (isort_perm l) as Hp.
  destruct (isort l) as [|y r] eqn:E; [discriminate|]. cbn in H. inversion H; subst y.
  split; [eapply Permutation_in; [apply Permutation_sym; exact Hp|left; reflexivity]|].
  intros x Hx. assert (In x (m :: r)) by (eapply Permutation_in; [exact Hp|exact Hx]).
  inversion Hs as [|? ? Hr Hall]; subst. destruct H0 as [->|H0]; [lia|]. rewrite Forall_forall in Hall. apply Hall. exact H0.
Qed.
Lemma sorted_first_none l : report_sorted_first l = None -> l = [].
Proof.
  unfold report_sorted_first. intros H. pose proof (isort_perm l) as Hp. destruct (isort l); [|discriminate].
  apply Permutation_sym, Permutation_nil in Hp. exact Hp.
Qed.
