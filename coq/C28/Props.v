(* C28 — optional transformations don't change program behaviour: the property theorems.  They are corollaries of the
   models of C09, C14, C07 and C08. *)
From Coq Require Import NArith ZArith List Bool.
From WV Require Import C09.Model C28.Model C28.Proofs.
From WV Require C14.Props C07.Props C08.Props.
Import ListNotations.
Open Scope N_scope.

(* -z pack-relative-relocs: the loaded process image is the same at every address, at every load base *)
Theorem C28_packed_relative_relocations_are_invisible :
  forall m0 sites base x, NoDup (map s_place sites) -> loaded true base m0 sites x = loaded false base m0 sites x.
Proof. intros. apply relr_is_invisible. assumption. Qed.
Print Assumptions C28_packed_relative_relocations_are_invisible.

(* static vs static-PIE vs PIE: the position-independent image is the static image with every address word moved by the
   load base and everything else untouched (with or without RELR) *)
Theorem C28_position_independent_image_is_the_static_one_shifted :
  forall m0 sites relr base, NoDup (map s_place sites) ->
    (forall s, In s sites -> loaded relr base m0 sites (s_place s) = static_image m0 sites (s_place s) + base) /\
    (forall x, ~ In x (map s_place sites) -> loaded relr base m0 sites x = static_image m0 sites x).
Proof. intros. apply pie_vs_static. assumption. Qed.
Print Assumptions C28_position_independent_image_is_the_static_one_shifted.

(* --relax / --no-relax: a relaxed instruction has the effect of the original one (C14) *)
Definition C28_relaxation_preserves_the_instruction := C14.Props.C14_got_relax_preserves_semantics.
Check C28_relaxation_preserves_the_instruction.
Print Assumptions C28_relaxation_preserves_the_instruction.

(* string merging: every reference into a merged section still reads the bytes it read before (C07) *)
Definition C28_string_merging_preserves_what_references_read := C07.Props.C07_merged_bytes_preserved.
Check C28_string_merging_preserves_what_references_read.
Print Assumptions C28_string_merging_preserves_what_references_read.

(* --hash-style: the GNU table finds every exported definition under glibc's lookup (C08); the SysV table is tied by runs *)
Definition C28_gnu_hash_lookup_finds_every_definition := C08.Props.C08_gnu_lookup_finds.
Check C28_gnu_hash_lookup_finds_every_definition.
Print Assumptions C28_gnu_hash_lookup_finds_every_definition.
