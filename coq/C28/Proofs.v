From Coq Require Import NArith List Bool Lia.
From WV Require Import C09.Model C09.Proofs C28.Model.
Import ListNotations.
Open Scope N_scope.

Lemma in_dec_N (x : N) (l : list N) : {In x l} + {~ In x l}.
Proof. apply in_dec. apply N.eq_dec. Qed.

Lemma relr_is_invisible m0 sites base x :
  NoDup (map s_place sites) -> loaded true base m0 sites x = loaded false base m0 sites x.
Proof.
  intros Hn. unfold loaded.
  destruct (image_shift true m0 sites base Hn) as (A1 & B1). destruct (image_shift false m0 sites base Hn) as (A2 & B2).
  destruct (in_dec_N x (map s_place sites)) as [Hin|Hnin].
  - apply in_map_iff in Hin. destruct Hin as (s & <- & Hs). rewrite (A1 s Hs), (A2 s Hs). reflexivity.
  - rewrite (B1 x Hnin), (B2 x Hnin). reflexivity.
Qed.

Lemma static_image_spec : forall sites m0, NoDup (map s_place sites) ->
  (forall s, In s sites -> static_image m0 sites (s_place s) = s_target s) /\
  (forall x, ~ In x (map s_place sites) -> static_image m0 sites x = m0 x).
Proof.
  unfold static_image. induction sites as [|s r IH]; intros m0 Hn; cbn [fold_left map].
  - split; [intros s []|reflexivity].
  - cbn in Hn. inversion Hn as [|? ? Hs Hr]; subst. destruct (IH (upd m0 (s_place s) (s_target s)) Hr) as (A & B). split.
    + intros t [->|Ht]; [|apply A; exact Ht]. rewrite (B (s_place t) Hs). unfold upd. rewrite N.eqb_refl. reflexivity.
    + intros x Hx. rewrite B by (intros H; apply Hx; right; exact H). unfold upd.
      destruct (N.eqb_spec x (s_place s)) as [->|_]; [exfalso; apply Hx; left; reflexivity|reflexivity].
Qed.

(* the position-independent image loaded at base 0 is the static image; at base b every address word is b further *)
Lemma pie_vs_static m0 sites relr base :
  NoDup (map s_place sites) ->
  (forall s, In s sites -> loaded relr base m0 sites (s_place s) = static_image m0 sites (s_place s) + base) /\
  (forall x, ~ In x (map s_place sites) -> loaded relr base m0 sites x = static_image m0 sites x).
Proof.
  intros Hn. destruct (image_shift relr m0 sites base Hn) as (A & B). destruct (static_image_spec sites m0 Hn) as (C & D). unfold loaded. split.
  - intros s Hs. rewrite (A s Hs), (C s Hs). reflexivity.
  - intros x Hx. rewrite (B x Hx), (D x Hx). reflexivity.
Qed.
