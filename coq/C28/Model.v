(* C28 — optional transformations don't change program behaviour.  No new model: the transformations are the ones modelled
   for C09 (packed relative relocations, position independence), C14 (instruction relaxation), C07 (string merging) and
   C08 (hash tables).  This file only names the comparison the property makes: the same program image under two
   settings of an option. *)
From Coq Require Import NArith List Bool.
From WV Require Import C09.Model.
Import ListNotations.
Open Scope N_scope.

(* what a process sees of the image: the loaded memory, at every address *)
Definition loaded (relr_enabled : bool) (base : N) (m0 : N -> N) (sites : list site) : N -> N :=
  load base (emit relr_enabled m0 sites).
(* a non-relocatable (static, non-PIE) link writes the final values itself *)
Definition static_image (m0 : N -> N) (sites : list site) : N -> N :=
  fold_left (fun m s => upd m (s_place s) (s_target s)) sites m0.
