(* C15 — property theorems only. *)
From Coq Require Import NArith List Bool.
Import ListNotations.
From WV Require Import C15.Model C15.Proofs.
Open Scope N_scope.

(* For every list of rules whose patterns are "good" (no backslash, no "[^", four ordinary leading bytes; file patterns likewise
   escape-free), every section name and every file name: the keyed rule table returns exactly the first rule, in script order,
   whose section and file patterns POSIX-fnmatch; KEEP flag included. *)
Theorem C15_lookup_is_first_match_except_known : forall rs name file,
  (forall r, In r rs -> good r) -> (4 <= length name)%nat ->
  lookup rs name file = first_match rs 0 name file.
Proof. exact good_lookup_is_first_match. Qed.
Theorem C15_short_names_except_known : forall rs name file,
  (forall r, In r rs -> good r) -> (length name < 4)%nat ->
  lookup rs name file = NoRule /\ first_match rs 0 name file = NoRule.
Proof. exact good_short_name. Qed.

(* the general form, with the semantic side conditions explicit *)
Theorem C15_lookup_is_first_match_general : forall rs name file,
  (forall r, In r rs -> key_ok r) ->
  (forall r, In r rs -> rule_matches r name file = true -> key_eqb (key4 (key_text r)) (key4 name) = true) ->
  (forall r, In r rs -> rule_matches r name file = spec_matches r name file) ->
  (4 <= length name)%nat ->
  lookup rs name file = first_match rs 0 name file.
Proof. exact lookup_is_first_match. Qed.

(* refutations of the unrestricted statement: the three known classes *)
Theorem C15_short_prefix_refuted :
  let r := {| pat := [42; 102; 111; 111]; fpat := None; keep := false |} in
  let name := [46; 120; 102; 111; 111] in
  first_match [r] 0 name [] = Matched 0 false /\ lookup [r] name [] = NoRule.
Proof. exact short_prefix_refuted. Qed.
Theorem C15_short_key_panics :
  lookup [{| pat := [46; 116; 42]; fpat := None; keep := false |}] [46; 116; 101; 120; 116] [] = Panic.
Proof. exact short_key_panics. Qed.
Theorem C15_backslash_in_glob_refuted :
  let p := [46; 116; 101; 120; 116; 46; 92; 42; 42] in
  let name := [46; 116; 101; 120; 116; 46; 42; 120] in
  fnmatch p name = true /\ globmatch p name = false.
Proof. exact backslash_in_glob_refuted. Qed.

Print Assumptions C15_lookup_is_first_match_except_known.
Print Assumptions C15_short_names_except_known.
Print Assumptions C15_lookup_is_first_match_general.
Print Assumptions C15_short_prefix_refuted.
