(* C15 — property theorems only. *)
From Coq Require Import NArith List Bool.
Import ListNotations.
From WV Require Import C15.Model C15.Proofs.
Open Scope N_scope.

(* For every list of rules whose patterns are "good" (no backslash, no "[^"; file patterns likewise escape-free), every section
   name of any length and every file name: the rule table (hash-keyed rules plus the list of rules that cannot be keyed)
   returns exactly the first rule, in script order, whose section and file patterns POSIX-fnmatch; KEEP flag included.
   Patterns with fewer than four fixed leading bytes and names shorter than four bytes are covered since the repair in /repo. *)
Theorem C15_lookup_is_first_match_except_known : forall rs name file,
  (forall r, In r rs -> good r) ->
  lookup rs name file = first_match rs 0 name file.
Proof. exact good_lookup_is_first_match. Qed.

(* the general form, with the semantic side conditions explicit *)
Theorem C15_lookup_is_first_match_general : forall rs name file,
  (forall r, In r rs -> keyed r = true -> rule_matches r name file = true -> key_eqb (key4 (key_text r)) (key4 name) = true) ->
  (forall r, In r rs -> rule_matches r name file = spec_matches r name file) ->
  lookup rs name file = first_match rs 0 name file.
Proof. exact lookup_is_first_match. Qed.

(* the formerly failing class, now matched: `*foo`, `.t*`, a three-byte name *)
Theorem C15_short_patterns_now_match :
  lookup [{| pat := [42; 102; 111; 111]; fpat := None; keep := false |}] [46; 120; 102; 111; 111] [] = Matched 0 false /\
  lookup [{| pat := [46; 116; 42]; fpat := None; keep := true |}] [46; 116; 101; 120; 116] [] = Matched 0 true /\
  lookup [{| pat := [46; 97; 98]; fpat := None; keep := false |}] [46; 97; 98] [] = Matched 0 false.
Proof. exact short_patterns_now_match. Qed.

(* refutation of the unrestricted statement: the remaining known class *)
Theorem C15_backslash_in_glob_refuted :
  let p := [46; 116; 101; 120; 116; 46; 92; 42; 42] in
  let name := [46; 116; 101; 120; 116; 46; 42; 120] in
  fnmatch p name = true /\ globmatch p name = false.
Proof. exact backslash_in_glob_refuted. Qed.

Print Assumptions C15_lookup_is_first_match_except_known.
Print Assumptions C15_lookup_is_first_match_general.
Print Assumptions C15_short_patterns_now_match.
Print Assumptions C15_backslash_in_glob_refuted.
