From Coq Require Import NArith List Bool Arith Lia.
From WV Require Import C15.Model.
Import ListNotations.
Open Scope N_scope.

Lemma beq_eq a : forall b, beq a b = true <-> a = b.
Proof.
  induction a as [|x a IH]; intros [|y b]; cbn; split; intros H; try reflexivity; try discriminate.
  - apply andb_prop in H. destruct H as [H1 H2]. apply N.eqb_eq in H1. apply IH in H2. congruence.
  - injection H as -> ->. rewrite N.eqb_refl. apply IH. reflexivity.
Qed.

(* ---------- the keyed table finds the first match when keys are determined by matches ---------- *)
Lemma find_rule_lower sel rs : forall i name file j k, find_rule sel rs i name file = Matched j k -> (i <= j)%nat.
Proof.
  induction rs as [|r t IH]; intros i name file j k H; cbn [find_rule] in H; [discriminate|].
  destruct (sel r && rule_matches r name file); [injection H as <- _; lia|]. apply IH in H. lia.
Qed.

(* splitting the rules into two classes and taking the earlier of the two first matches is the first match overall *)
Lemma find_rule_split (sel : rule -> bool) rs : forall i name file,
  first_of (find_rule sel rs i name file) (find_rule (fun r => negb (sel r)) rs i name file) = find_rule (fun _ => true) rs i name file.
Proof.
  induction rs as [|r t IH]; intros i name file; cbn [find_rule]; [reflexivity|].
  destruct (rule_matches r name file) eqn:Em; destruct (sel r) eqn:Es; cbn [andb negb].
  - destruct (find_rule (fun r0 => negb (sel r0)) t (S i) name file) as [j l|] eqn:E; cbn [first_of]; [|reflexivity].
    apply find_rule_lower in E. destruct (Nat.ltb_spec i j); [reflexivity|lia].
  - destruct (find_rule sel t (S i) name file) as [j l|] eqn:E; cbn [first_of]; [|reflexivity].
    apply find_rule_lower in E. destruct (Nat.ltb_spec j i); [lia|reflexivity].
  - apply IH.
  - apply IH.
Qed.

Lemma find_rule_ext (s1 s2 : rule -> bool) rs : forall i name file,
  (forall r, In r rs -> rule_matches r name file = true -> s1 r = s2 r) ->
  find_rule s1 rs i name file = find_rule s2 rs i name file.
Proof.
  induction rs as [|r t IH]; intros i name file H; cbn [find_rule]; [reflexivity|].
  destruct (rule_matches r name file) eqn:Em.
  - rewrite (H r (or_introl eq_refl) Em). destruct (s2 r); cbn [andb]; [reflexivity|]. apply IH. intros r' Hin. apply H. right; exact Hin.
  - rewrite !andb_false_r. apply IH. intros r' Hin. apply H. right; exact Hin.
Qed.

Lemma find_rule_spec rs : forall i name file,
  (forall r, In r rs -> rule_matches r name file = spec_matches r name file) ->
  find_rule (fun _ => true) rs i name file = first_match rs i name file.
Proof.
  induction rs as [|r t IH]; intros i name file H; [reflexivity|]. cbn [find_rule first_match andb].
  rewrite (H r (or_introl eq_refl)). destruct (spec_matches r name file); [reflexivity|].
  apply IH. intros r' Hin. apply H. right. assumption.
Qed.

Theorem lookup_is_first_match rs name file :
  (forall r, In r rs -> keyed r = true -> rule_matches r name file = true -> key_eqb (key4 (key_text r)) (key4 name) = true) ->
  (forall r, In r rs -> rule_matches r name file = spec_matches r name file) ->
  lookup rs name file = first_match rs 0 name file.
Proof.
  intros Hkey Hag. unfold lookup.
  rewrite (find_rule_ext (fun r => keyed r && key_eqb (key4 (key_text r)) (key4 name)) keyed).
  - rewrite find_rule_split. apply find_rule_spec. assumption.
  - intros r Hin Hm. destruct (keyed r) eqn:Ek; [|reflexivity]. rewrite (Hkey r Hin Ek Hm). reflexivity.
Qed.

(* ---------- patterns with four ordinary leading bytes determine the name's first four bytes ---------- *)
Definition ordinary (esc : bool) (c : N) : bool := negb ((c =? STAR) || (c =? QM) || (c =? LB) || ((c =? BS) && esc)).

Lemma fnm_ordinary esc f c p n : ordinary esc c = true ->
  fnm esc (S f) (c :: p) n = match n with x :: n' => (x =? c) && fnm esc f p n' | [] => false end.
Proof.
  unfold ordinary. intros H. apply negb_true_iff in H.
  repeat (apply orb_false_iff in H; destruct H as [H ?]).
  cbn [fnm]. rewrite H, H1, H2. destruct esc; [rewrite andb_true_r in H0|rewrite andb_false_r]; rewrite ?H0; reflexivity.
Qed.

Lemma literal4 esc f c1 c2 c3 c4 p n :
  ordinary esc c1 = true -> ordinary esc c2 = true -> ordinary esc c3 = true -> ordinary esc c4 = true ->
  fnm esc (S (S (S (S f)))) (c1 :: c2 :: c3 :: c4 :: p) n = true ->
  exists n', n = c1 :: c2 :: c3 :: c4 :: n'.
Proof.
  intros O1 O2 O3 O4 H.
  rewrite fnm_ordinary in H by assumption. destruct n as [|x1 n]; [discriminate|].
  apply andb_prop in H. destruct H as [E1 H]. apply N.eqb_eq in E1.
  rewrite fnm_ordinary in H by assumption. destruct n as [|x2 n]; [discriminate|].
  apply andb_prop in H. destruct H as [E2 H]. apply N.eqb_eq in E2.
  rewrite fnm_ordinary in H by assumption. destruct n as [|x3 n]; [discriminate|].
  apply andb_prop in H. destruct H as [E3 H]. apply N.eqb_eq in E3.
  rewrite fnm_ordinary in H by assumption. destruct n as [|x4 n]; [discriminate|].
  apply andb_prop in H. destruct H as [E4 H]. apply N.eqb_eq in E4.
  subst. eauto.
Qed.

(* ---------- a pattern without special characters is an exact comparison ---------- *)
Lemma fnm_plain esc p : forall n, forallb (ordinary esc) p = true -> fnm esc (S (length p)) p n = beq n p.
Proof.
  induction p as [|c p IH]; intros n H.
  - destruct n; reflexivity.
  - cbn [forallb] in H. apply andb_prop in H. destruct H as [Hc Hp].
    cbn [length]. rewrite fnm_ordinary by assumption. destruct n as [|x n]; [reflexivity|].
    cbn [beq]. rewrite IH by assumption. reflexivity.
Qed.

(* ---------- without backslashes, escape handling is irrelevant (glob crate = fnmatch) ---------- *)
Definition no_bs (p : list N) : Prop := forall c, In c p -> c <> BS.

Lemma class_items_suffix f : forall p first acc g rest,
  class_items f p first acc = Some (g, rest) -> exists pre, p = pre ++ rest.
Proof.
  induction f as [|f IH]; intros p first acc g rest H; [discriminate|]. cbn [class_items] in H.
  destruct p as [|c p']; [discriminate|].
  destruct ((c =? RB) && negb first).
  - injection H as _ <-. exists [c]. reflexivity.
  - destruct p' as [|d [|e p'']].
    + apply IH in H. destruct H as [pre ->]. exists (c :: pre). reflexivity.
    + apply IH in H. destruct H as [pre Hp]. exists (c :: pre). cbn. f_equal. assumption.
    + destruct ((d =? DASH) && negb (e =? RB)).
      * apply IH in H. destruct H as [pre ->]. exists (c :: d :: e :: pre). reflexivity.
      * apply IH in H. destruct H as [pre Hp]. exists (c :: pre). cbn. f_equal. assumption.
Qed.

Lemma parse_class_suffix p cls rest : parse_class p = Some (cls, rest) -> exists pre, p = pre ++ rest.
Proof.
  unfold parse_class. destruct p as [|c p']; [discriminate|].
  destruct ((c =? BANG) || (c =? CARET)).
  - destruct (class_items (S (length p')) p' true (fun _ => false)) as [[g r]|] eqn:E; [|discriminate].
    intros H. injection H as _ <-. apply class_items_suffix in E. destruct E as [pre ->]. exists (c :: pre). reflexivity.
  - intros H. apply class_items_suffix in H. assumption.
Qed.

Lemma no_bs_suffix pre rest : no_bs (pre ++ rest) -> no_bs rest.
Proof. intros H c Hc. apply H. apply in_or_app. right. assumption. Qed.

Lemma existsb_ext' {A} (f g : A -> bool) l : (forall x, f x = g x) -> existsb f l = existsb g l.
Proof. intros H. induction l as [|a l IH]; cbn; [reflexivity|]. rewrite H, IH. reflexivity. Qed.

Lemma fnm_esc_irrelevant f : forall p n, no_bs p -> fnm true f p n = fnm false f p n.
Proof.
  induction f as [|f IH]; intros p n H; [reflexivity|]. cbn [fnm].
  destruct p as [|c p']; [reflexivity|].
  assert (Hp' : no_bs p') by (intros x Hx; apply H; right; assumption).
  assert (Hc : (c =? BS) = false) by (apply N.eqb_neq; apply H; left; reflexivity).
  destruct (c =? STAR); [apply existsb_ext'; intros x; apply IH; assumption|].
  destruct (c =? QM); [destruct n; [reflexivity|apply IH; assumption]|].
  destruct (c =? LB).
  - destruct (parse_class p') as [[cls rest]|] eqn:E.
    + destruct n as [|x n']; [reflexivity|]. f_equal. apply IH.
      apply parse_class_suffix in E. destruct E as [pre ->]. eapply no_bs_suffix. eassumption.
    + destruct n as [|x n']; [reflexivity|]. f_equal. apply IH. assumption.
  - rewrite Hc. cbn [andb]. destruct n as [|x n']; [reflexivity|]. f_equal. apply IH. assumption.
Qed.

Lemma glob_is_fnmatch p n : no_bs p -> globmatch p n = fnmatch p n.
Proof. intros H. unfold globmatch, fnmatch. symmetry. apply fnm_esc_irrelevant. assumption. Qed.

(* ---------- refutations (known findings) ---------- *)
Definition s (l : list N) := l.
(* patterns with fewer than four fixed leading bytes are matched too (they were not before the repair in /repo) *)
Lemma short_patterns_now_match :
  lookup [{| pat := [42; 102; 111; 111]; fpat := None; keep := false |}] [46; 120; 102; 111; 111] [] = Matched 0 false /\
  lookup [{| pat := [46; 116; 42]; fpat := None; keep := true |}] [46; 116; 101; 120; 116] [] = Matched 0 true /\
  lookup [{| pat := [46; 97; 98]; fpat := None; keep := false |}] [46; 97; 98] [] = Matched 0 false.
Proof. vm_compute. repeat split. Qed.
(* ".text.\**" : backslash is literal for the glob crate *)
Lemma backslash_in_glob_refuted :
  let p := [46; 116; 101; 120; 116; 46; 92; 42; 42] in
  let name := [46; 116; 101; 120; 116; 46; 42; 120] in
  fnmatch p name = true /\ globmatch p name = false.
Proof. vm_compute. split; reflexivity. Qed.

(* ---------- composition: rule sets made of "good" patterns ---------- *)
Definition lit4 (p : list N) : Prop :=
  exists c1 c2 c3 c4 rest, p = c1 :: c2 :: c3 :: c4 :: rest /\
    ordinary true c1 = true /\ ordinary true c2 = true /\ ordinary true c3 = true /\ ordinary true c4 = true.
Definition good (r : rule) : Prop :=
  no_bs (pat r) /\ rewrite_neg (pat r) = pat r /\
  match fpat r with None => True | Some fp => no_bs fp /\ rewrite_neg fp = fp end.

Lemma analyze_loop_no_bs p : forall t, no_bs p -> t <> EscapedExact -> analyze_loop p t false <> EscapedExact.
Proof.
  induction p as [|c p IH]; intros t H Ht; cbn [analyze_loop]; [assumption|].
  assert (Hc : (c =? BS) = false) by (apply N.eqb_neq; apply H; left; reflexivity).
  assert (Hp : no_bs p) by (intros x Hx; apply H; right; assumption).
  rewrite Hc. destruct (c =? STAR); [discriminate|].
  destruct ((c =? LB) || (c =? RB) || (c =? QM)); apply IH; try assumption; discriminate.
Qed.

Lemma analyze_no_bs p : no_bs p -> analyze p <> EscapedExact.
Proof.
  intros H. unfold analyze. destruct (existsb special p); [|discriminate].
  apply analyze_loop_no_bs; [assumption|discriminate].
Qed.

Lemma ordinary_weaken c : ordinary true c = true -> ordinary false c = true.
Proof.
  unfold ordinary. intros H. apply negb_true_iff in H. apply negb_true_iff.
  repeat (apply orb_false_iff in H; destruct H as [H ?]). rewrite H, H1, H2, andb_false_r. reflexivity.
Qed.

Lemma analyze_exact_plain p : analyze p = Exact -> no_bs p -> forallb (ordinary true) p = true.
Proof.
  unfold analyze. destruct (existsb special p) eqn:E.
  - (* analyze_loop returned Exact although a special character exists: impossible without backslashes *)
    intros H Hn. exfalso.
    assert (G : forall q t, no_bs q -> analyze_loop q t false = Exact -> t = Exact /\ existsb special q = false).
    { induction q as [|c q IH]; intros t Hq; cbn [analyze_loop existsb]; [auto|].
      assert (Hc : (c =? BS) = false) by (apply N.eqb_neq; apply Hq; left; reflexivity).
      assert (Hq' : no_bs q) by (intros x Hx; apply Hq; right; assumption).
      rewrite Hc. unfold special at 1. rewrite Hc.
      destruct (c =? STAR); [discriminate|]. destruct (c =? QM), (c =? LB), (c =? RB); cbn [orb];
        intros Hx; apply IH in Hx; try assumption; destruct Hx as [H1 H2]; try discriminate; auto. }
    destruct (G p Exact Hn H) as [_ G2]. congruence.
  - intros _ _. apply forallb_forall. intros c Hc.
    assert (Hs : special c = false).
    { apply not_true_is_false. intros Hx. assert (existsb special p = true) by (apply existsb_exists; eauto). congruence. }
    unfold special in Hs. unfold ordinary. repeat (apply orb_false_iff in Hs; destruct Hs as [Hs ?]).
    rewrite Hs, H2, H1, H0. reflexivity.
Qed.

Lemma good_key_text r : good r -> key_text r = pat r.
Proof.
  intros (Hb & _). unfold key_text. pose proof (analyze_no_bs _ Hb). destruct (analyze (pat r)); try reflexivity. contradiction.
Qed.

Lemma good_name_matches r name : good r -> name_matches r name = fnmatch (pat r) name.
Proof.
  intros (Hb & Hr & _). unfold name_matches. pose proof (analyze_no_bs _ Hb) as Hne.
  destruct (analyze (pat r)) eqn:Ea; try contradiction.
  - unfold fnmatch. rewrite fnm_plain; [reflexivity|]. apply analyze_exact_plain; assumption.
  - rewrite Hr. apply glob_is_fnmatch. assumption.
  - rewrite Hr. apply glob_is_fnmatch. assumption.
Qed.

Lemma good_rule_matches r name file : good r -> rule_matches r name file = spec_matches r name file.
Proof.
  intros G. unfold rule_matches, spec_matches. rewrite (good_name_matches r name G).
  destruct G as (_ & _ & Hf). destruct (fpat r) as [fp|]; [|reflexivity].
  destruct Hf as [Hb Hr]. rewrite Hr, glob_is_fnmatch by assumption. reflexivity.
Qed.

Lemma not_meta_ordinary c : meta c = false -> ordinary true c = true.
Proof.
  unfold meta, ordinary. intros H. repeat (apply orb_false_iff in H; destruct H as [H ?]). rewrite H, H2, H1, H0. reflexivity.
Qed.

(* a keyed rule that matches a name fixes the name's first four bytes *)
Lemma good_keyed r name file : good r -> keyed r = true -> rule_matches r name file = true ->
  key_eqb (key4 (key_text r)) (key4 name) = true.
Proof.
  intros G Hk H. rewrite (good_rule_matches r name file G) in H. unfold spec_matches in H.
  apply andb_prop in H. destruct H as [H _]. unfold keyed in Hk. rewrite (good_key_text r G) in *.
  unfold key4 in Hk at 1. destruct (Nat.ltb_spec (length (pat r)) 4) as [|Hlen]; [discriminate|].
  destruct (pat r) as [|c1 [|c2 [|c3 [|c4 rest]]]] eqn:Ep; cbn [length] in Hlen; try lia.
  assert (Hord : ordinary true c1 = true /\ ordinary true c2 = true /\ ordinary true c3 = true /\ ordinary true c4 = true).
  { destruct (analyze (c1 :: c2 :: c3 :: c4 :: rest)) eqn:Ea.
    - destruct G as (Hb & _). rewrite Ep in Hb. pose proof (analyze_exact_plain _ Ea Hb) as Hp. cbn [forallb] in Hp.
      repeat (apply andb_prop in Hp; destruct Hp as [? Hp]). auto.
    - destruct G as (Hb & _). rewrite Ep in Hb. exfalso. exact (analyze_no_bs _ Hb Ea).
    - cbn [firstn existsb] in Hk. apply negb_true_iff in Hk. repeat (apply orb_false_iff in Hk; destruct Hk as [? Hk]). auto using not_meta_ordinary.
    - cbn [firstn existsb] in Hk. apply negb_true_iff in Hk. repeat (apply orb_false_iff in Hk; destruct Hk as [? Hk]). auto using not_meta_ordinary. }
  destruct Hord as (O1 & O2 & O3 & O4).
  unfold fnmatch in H. cbn [length] in H.
  destruct (literal4 true _ c1 c2 c3 c4 rest name O1 O2 O3 O4 H) as [n' ->].
  unfold key4. cbn. rewrite !N.eqb_refl. reflexivity.
Qed.

Theorem good_lookup_is_first_match rs name file :
  (forall r, In r rs -> good r) ->
  lookup rs name file = first_match rs 0 name file.
Proof.
  intros G. apply lookup_is_first_match.
  - intros r Hin Hk Hm. apply (good_keyed r name file (G r Hin) Hk Hm).
  - intros r Hin. apply good_rule_matches. auto.
Qed.
