(* C15 — input-section pattern matching.
   Spec: POSIX fnmatch(pattern, name, 0) on byte strings.
   Model: libwild/src/glob_match.rs (analyze_glob_pattern, unescape_pattern, the "[^" -> "[!" rewrite),
   libwild/src/layout_rules.rs (SectionRule::new/matches, SectionRules::{from_rules, lookup} with its
   4-byte-prefix key), and the glob crate's matcher as used with default MatchOptions (= fnmatch
   without backslash escapes). *)
From Coq Require Import NArith List Bool Arith.
Import ListNotations.
Open Scope N_scope.

Definition byte := N.
Definition STAR : N := 42.  Definition QM : N := 63.  Definition LB : N := 91.  Definition RB : N := 93.
Definition BS : N := 92.    Definition BANG : N := 33. Definition CARET : N := 94. Definition DASH : N := 45.

Fixpoint beq (a b : list N) : bool :=
  match a, b with [], [] => true | x :: a', y :: b' => (x =? y) && beq a' b' | _, _ => false end.

(* ---- bracket expressions: returns the class test and the rest of the pattern after ']' ---- *)
(* items: after an optional negation; a leading ']' is literal *)
Fixpoint class_items (fuel : nat) (p : list N) (first : bool) (acc : N -> bool) : option ((N -> bool) * list N) :=
  match fuel with
  | O => None
  | S f =>
      match p with
      | [] => None                                            (* unterminated *)
      | c :: p' =>
          if (c =? RB) && negb first then Some (acc, p')
          else match p' with
               | d :: e :: p'' =>
                   if (d =? DASH) && negb (e =? RB)
                   then class_items f p'' false (fun x => acc x || ((c <=? x) && (x <=? e)))
                   else class_items f p' false (fun x => acc x || (x =? c))
               | _ => class_items f p' false (fun x => acc x || (x =? c))
               end
      end
  end.
Definition parse_class (p : list N) : option ((N -> bool) * list N) :=
  match p with
  | c :: p' => if (c =? BANG) || (c =? CARET)
               then match class_items (S (length p')) p' true (fun _ => false) with
                    | Some (f, r) => Some (fun x => negb (f x), r) | None => None end
               else class_items (S (length p)) p true (fun _ => false)
  | [] => None
  end.

Fixpoint suffixes (n : list N) : list (list N) := n :: match n with [] => [] | _ :: t => suffixes t end.

(* fnmatch; [esc] = backslash escapes enabled (POSIX default) or not (glob crate) *)
Fixpoint fnm (esc : bool) (fuel : nat) (p n : list N) : bool :=
  match fuel with
  | O => false
  | S f =>
      match p with
      | [] => match n with [] => true | _ => false end
      | c :: p' =>
          if c =? STAR then existsb (fnm esc f p') (suffixes n)
          else if c =? QM then match n with [] => false | _ :: n' => fnm esc f p' n' end
          else if c =? LB then
            match parse_class p' with
            | Some (cls, rest) => match n with x :: n' => cls x && fnm esc f rest n' | [] => false end
            | None => match n with x :: n' => (x =? LB) && fnm esc f p' n' | [] => false end
            end
          else if (c =? BS) && esc then
            match p' with
            | d :: p'' => match n with x :: n' => (x =? d) && fnm esc f p'' n' | [] => false end
            | [] => false
            end
          else match n with x :: n' => (x =? c) && fnm esc f p' n' | [] => false end
      end
  end.
Definition fnmatch (p n : list N) : bool := fnm true (S (length p)) p n.
Definition globmatch (p n : list N) : bool := fnm false (S (length p)) p n.

(* ---------------- wild ---------------- *)
Inductive ptype := Exact | EscapedExact | Star | NonStar.
Definition special (c : N) : bool := (c =? STAR) || (c =? QM) || (c =? BS) || (c =? LB) || (c =? RB).
Fixpoint analyze_loop (p : list N) (t : ptype) (skip : bool) : ptype :=
  match p with
  | [] => t
  | c :: p' =>
      if skip then analyze_loop p' t false            (* the byte after a backslash (it.next()) *)
      else if c =? BS then analyze_loop p' (match t with Exact => EscapedExact | _ => t end) true
      else if c =? STAR then Star
      else if (c =? LB) || (c =? RB) || (c =? QM) then analyze_loop p' NonStar false
      else analyze_loop p' t false
  end.
Definition analyze (p : list N) : ptype := if existsb special p then analyze_loop p Exact false else Exact.

Fixpoint unescape (p : list N) : list N :=
  match p with
  | [] => []
  | c :: p' => if c =? BS then match p' with d :: p'' => d :: unescape p'' | [] => [c] end
               else c :: unescape p'
  end.
(* pattern.replace("[^", "[!") *)
Fixpoint rewrite_neg (p : list N) : list N :=
  match p with
  | c :: ((d :: p'') as p') => if (c =? LB) && (d =? CARET) then LB :: BANG :: rewrite_neg p'' else c :: rewrite_neg p'
  | _ => p
  end.

Record rule := { pat : list N; fpat : option (list N); keep : bool }.

(* SectionNameMatcher: what the rule is compared with, and its hash key text *)
Definition key_text (r : rule) : list N :=
  match analyze (pat r) with EscapedExact => unescape (pat r) | _ => pat r end.
Definition name_matches (r : rule) (name : list N) : bool :=
  match analyze (pat r) with
  | Exact => beq name (pat r)
  | EscapedExact => beq name (unescape (pat r))
  | Star | NonStar => globmatch (rewrite_neg (pat r)) name
  end.
Definition rule_matches (r : rule) (name file : list N) : bool :=
  name_matches r name &&
  match fpat r with None => true | Some fp => globmatch (rewrite_neg fp) file end.

Inductive outcome := Matched (i : nat) (k : bool) | NoRule.

Definition key4 (s : list N) : option (list N) := if (length s <? 4)%nat then None else Some (firstn 4 s).
Definition key_eqb (a b : option (list N)) : bool :=
  match a, b with Some x, Some y => beq x y | _, _ => false end.

(* SectionNameMatcher::key_hash: a rule goes into the hash table iff its first four key bytes are fixed: the key text has at
   least four bytes and, for a wildcard pattern, none of them is a metacharacter *)
Definition meta (c : N) : bool := (c =? STAR) || (c =? QM) || (c =? LB) || (c =? BS).
Definition keyed (r : rule) : bool :=
  match key4 (key_text r) with
  | None => false
  | Some k => match analyze (pat r) with Star | NonStar => negb (existsb meta k) | _ => true end
  end.

(* the first rule, from position i, that satisfies `sel` and matches *)
Fixpoint find_rule (sel : rule -> bool) (rs : list rule) (i : nat) (name file : list N) : outcome :=
  match rs with
  | [] => NoRule
  | r :: t => if sel r && rule_matches r name file then Matched i (keep r) else find_rule sel t (S i) name file
  end.

Definition first_of (a b : outcome) : outcome :=
  match a, b with
  | Matched i k, Matched j l => if (i <? j)%nat then Matched i k else Matched j l
  | Matched i k, NoRule => Matched i k
  | NoRule, o => o
  end.

(* SectionRules::lookup: among the keyed rules whose key equals the name's first four bytes the first inserted one that
   matches (hash table), among the unkeyed rules the first that matches (linear list); of the two, the earlier rule *)
Definition lookup (rs : list rule) (name file : list N) : outcome :=
  first_of (find_rule (fun r => keyed r && key_eqb (key4 (key_text r)) (key4 name)) rs 0 name file)
           (find_rule (fun r => negb (keyed r)) rs 0 name file).

(* the specification: first rule in script order whose pattern fnmatch-es the name *)
Definition spec_matches (r : rule) (name file : list N) : bool :=
  fnmatch (pat r) name && match fpat r with None => true | Some fp => fnmatch fp file end.
Fixpoint first_match (rs : list rule) (i : nat) (name file : list N) : outcome :=
  match rs with
  | [] => NoRule
  | r :: t => if spec_matches r name file then Matched i (keep r) else first_match t (S i) name file
  end.
