(* C25 — the dependency file.  lib.rs write_dependency_file: the loaded files that are not temporary, each once, in load
   order, written as one Makefile rule `target: dep dep ...`; names are escaped for Make (escape_for_makefile).  The
   reader below is GNU Make's treatment of a rule line restricted to what matters here: `\ ` and `\#` are literal
   characters, `$$` is a dollar, an unescaped space separates words, the first unescaped `:` ends the target. *)
From Coq Require Import NArith List Bool.
Import ListNotations.
Open Scope N_scope.

Definition name := list N.          (* bytes *)
Definition SP := 32. Definition HASH := 35. Definition DOLLAR := 36. Definition COLON := 58. Definition BSL := 92. Definition NL := 10.

Record loaded := { path : name; temporary : bool }.

Definition name_eqb (a b : name) : bool := if list_eq_dec N.eq_dec a b then true else false.
Fixpoint mem (x : name) (l : list name) : bool := match l with [] => false | y :: r => name_eqb x y || mem x r end.
(* load order, first occurrence kept *)
Fixpoint dedup_acc (seen : list name) (l : list name) : list name :=
  match l with
  | [] => []
  | x :: r => if mem x seen then dedup_acc seen r else x :: dedup_acc (x :: seen) r
  end.
Definition deps_of (files : list loaded) : list name :=
  dedup_acc [] (map path (filter (fun f => negb (temporary f)) files)).

Fixpoint escape (n : name) : list N :=
  match n with
  | [] => []
  | c :: r => (if (c =? SP) || (c =? HASH) then [BSL; c] else if c =? DOLLAR then [DOLLAR; DOLLAR] else [c]) ++ escape r
  end.
(* without escaping, as the file was written before *)
Definition plain (n : name) : list N := n.

Definition render_with (esc : name -> list N) (target : name) (deps : list name) : list N :=
  esc target ++ [COLON] ++ flat_map (fun d => SP :: esc d) deps ++ [NL].
Definition render := render_with escape.

(* ---- Make's reading of the rule line ---- *)
Inductive mode := Normal | AfterBackslash | AfterDollar.
Record rd := { md : mode; cur : list N (* reversed *); words : list name (* reversed *); target_seen : option name }.

Definition push_word (r : rd) : rd :=
  match cur r with
  | [] => r
  | _ => {| md := Normal; cur := []; words := rev (cur r) :: words r; target_seen := target_seen r |}
  end.

Definition rstep (r : rd) (c : N) : rd :=
  match md r with
  | AfterBackslash =>
      if (c =? SP) || (c =? HASH) then {| md := Normal; cur := c :: cur r; words := words r; target_seen := target_seen r |}
      else {| md := Normal; cur := c :: BSL :: cur r; words := words r; target_seen := target_seen r |}
  | AfterDollar =>
      {| md := Normal; cur := c :: cur r; words := words r; target_seen := target_seen r |}   (* `$$` -> `$`; other `$x` kept as x *)
  | Normal =>
      if c =? BSL then {| md := AfterBackslash; cur := cur r; words := words r; target_seen := target_seen r |}
      else if c =? DOLLAR then {| md := AfterDollar; cur := cur r; words := words r; target_seen := target_seen r |}
      else if (c =? SP) || (c =? NL) then push_word r
      else if (c =? COLON) && (match target_seen r with None => true | Some _ => false end)
           then {| md := Normal; cur := []; words := []; target_seen := Some (rev (cur r)) |}
      else {| md := Normal; cur := c :: cur r; words := words r; target_seen := target_seen r |}
  end.

Definition read_rule (line : list N) : option (name * list name) :=
  let r := fold_left rstep line {| md := Normal; cur := []; words := []; target_seen := None |} in
  match target_seen (push_word r) with
  | Some t => Some (t, rev (words (push_word r)))
  | None => None
  end.

(* a name Make can carry on a rule line with this escaping *)
(* Makefile syntax has no way to write these in a file name: backslash, newline, colon, and the characters Make gives a
   meaning of its own on a rule line (= % * ? [ ~ ; ( ) | tab) *)
Definition special (c : N) : bool :=
  (c =? 61) || (c =? 37) || (c =? 42) || (c =? 63) || (c =? 91) || (c =? 126) || (c =? 59) || (c =? 40) || (c =? 41) || (c =? 124) || (c =? 9).
Definition safe_char (c : N) : bool := negb ((c =? BSL) || (c =? NL) || (c =? COLON)) && negb (special c).
Definition safe (n : name) : bool := forallb safe_char n && negb (match n with [] => true | _ => false end).
