(* C25 — the dependency file lists exactly the files the link read: the property theorems. Model: C25/Model.v. *)
From Coq Require Import NArith List Bool.
From WV Require Import C25.Model C25.Proofs.
Import ListNotations.
Open Scope N_scope.

(* the prerequisites are the non-temporary loaded files, each exactly once *)
Theorem C25_prerequisites_are_exactly_the_files_read :
  forall files,
    NoDup (deps_of files) /\
    forall x, In x (deps_of files) <-> exists f, In f files /\ temporary f = false /\ path f = x.
Proof. exact deps_exact. Qed.
Print Assumptions C25_prerequisites_are_exactly_the_files_read.

(* Make reads back the target and every prerequisite, whatever bytes the names contain (spaces, '#', '$', quotes, ...)
   other than a backslash, a newline or a colon *)
Theorem C25_make_reads_back_the_rule :
  forall target files,
    safe target = true -> Forall (fun d => safe d = true) (deps_of files) ->
    read_rule (render target (deps_of files)) = Some (target, deps_of files).
Proof. intros target files. apply read_render. Qed.
Print Assumptions C25_make_reads_back_the_rule.

(* written without escaping, a name with a space is read as two prerequisites *)
Theorem C25_refuted_without_escaping :
  let target := [111] in let dep := [97; 32; 98] in
  read_rule (render_with plain target [dep]) = Some (target, [[97]; [98]]) /\
  read_rule (render target [dep]) = Some (target, [dep]).
Proof. vm_compute. split; reflexivity. Qed.
Print Assumptions C25_refuted_without_escaping.

Example C25_example :
  deps_of [ {| path := [97]; temporary := false |}; {| path := [98]; temporary := true |}; {| path := [97]; temporary := false |}; {| path := [99; 36]; temporary := false |} ]
  = [[97]; [99; 36]].
Proof. vm_compute. reflexivity. Qed.
