From Coq Require Import NArith List Bool Lia.
From WV Require Import C25.Model.
Import ListNotations.
Open Scope N_scope.

Definition st0 (k : list N) (w : list name) (t : option name) : rd := {| md := Normal; cur := k; words := w; target_seen := t |}.

Lemma read_escaped : forall n k w t,
  forallb safe_char n = true ->
  fold_left rstep (escape n) (st0 k w t) = st0 (rev n ++ k) w t.
Proof.
  induction n as [|c r IH]; intros k w t Hs; cbn [escape forallb] in *; [reflexivity|].
  apply andb_true_iff in Hs. destruct Hs as (Hc & Hr). unfold safe_char in Hc. apply andb_true_iff in Hc. destruct Hc as (Hc & _). rewrite negb_true_iff in Hc.
  apply orb_false_iff in Hc. destruct Hc as (Hc & Hcol). apply orb_false_iff in Hc. destruct Hc as (Hb & Hn).
  rewrite fold_left_app. cbn [rev]. rewrite <- app_assoc. cbn [app].
  destruct ((c =? SP) || (c =? HASH)) eqn:E1.
  - cbn [fold_left]. unfold rstep at 2. cbn [md st0]. change (BSL =? BSL) with true. cbn match.
    unfold rstep at 1. cbn [md]. rewrite E1. cbn [cur words target_seen]. apply IH. exact Hr.
  - destruct (c =? DOLLAR) eqn:E2.
    + apply N.eqb_eq in E2. subst c. cbn [fold_left]. unfold rstep at 2. cbn [md st0].
      change (DOLLAR =? BSL) with false. change (DOLLAR =? DOLLAR) with true. cbn match.
      unfold rstep at 1. cbn [md cur words target_seen]. apply IH. exact Hr.
    + cbn [fold_left]. unfold rstep. cbn [md st0]. rewrite Hb, E2.
      apply orb_false_iff in E1. destruct E1 as (Es & _). rewrite Es, Hn, Hcol. cbn [orb andb]. cbn [cur words target_seen]. apply IH. exact Hr.
Qed.

Lemma safe_parts n : safe n = true -> forallb safe_char n = true /\ n <> [].
Proof. unfold safe. intros H. apply andb_true_iff in H. destruct H as (A & B). split; [exact A|]. destruct n; [discriminate|discriminate]. Qed.

Lemma read_deps : forall deps w t,
  Forall (fun d => safe d = true) deps ->
  fold_left rstep (flat_map (fun d => SP :: escape d) deps) (st0 [] w (Some t)) =
  match rev deps with
  | [] => st0 [] w (Some t)
  | last :: before => st0 (rev last) (before ++ w) (Some t)
  end.
Proof.
  intros deps. induction deps as [|d r IH] using rev_ind; intros w t Hs; [reflexivity|].
  rewrite flat_map_app, fold_left_app. apply Forall_app in Hs. destruct Hs as (Hr & Hd). inversion Hd as [|? ? Hd1 _]; subst.
  destruct (safe_parts d Hd1) as (Hsafe & Hne).
  rewrite IH by exact Hr. rewrite rev_app_distr. cbn [rev app flat_map]. rewrite app_nil_r. cbn [fold_left].
  destruct (rev r) as [|last before] eqn:E.
  - unfold rstep at 2. cbn [md st0]. change (SP =? BSL) with false. change (SP =? DOLLAR) with false. change ((SP =? SP) || (SP =? NL)) with true. cbn match.
    unfold push_word. cbn [cur st0]. fold (st0 [] w (Some t)). rewrite read_escaped by exact Hsafe. rewrite app_nil_r. reflexivity.
  - unfold rstep at 2. cbn [md st0]. change (SP =? BSL) with false. change (SP =? DOLLAR) with false. change ((SP =? SP) || (SP =? NL)) with true. cbn match.
    assert (Hl : rev last <> []).
    { assert (In last r) by (apply in_rev; rewrite E; left; reflexivity). rewrite Forall_forall in Hr. destruct (safe_parts last (Hr _ H)) as (_ & Hx).
      intros Hc. apply Hx. rewrite <- (rev_involutive last), Hc. reflexivity. }
    unfold push_word. cbn [cur st0]. destruct (rev last) as [|x xs] eqn:El; [contradiction|]. cbn [md words target_seen].
    fold (st0 [] (rev (x :: xs) :: before ++ w) (Some t)). rewrite read_escaped by exact Hsafe. rewrite app_nil_r.
    rewrite <- El, rev_involutive. reflexivity.
Qed.

Lemma rstep_colon k w : rstep (st0 k w None) COLON = st0 [] [] (Some (rev k)).
Proof. reflexivity. Qed.
Lemma rstep_nl k w t : rstep (st0 k w t) NL = push_word (st0 k w t).
Proof. reflexivity. Qed.
Lemma push_word_nonempty k w t : k <> [] -> push_word (st0 k w t) = st0 [] (rev k :: w) t.
Proof. intros H. unfold push_word. cbn [cur st0]. destruct k; [contradiction|reflexivity]. Qed.
Lemma push_word_empty w t : push_word (st0 [] w t) = st0 [] w t.
Proof. reflexivity. Qed.

Theorem read_render target deps :
  safe target = true -> Forall (fun d => safe d = true) deps ->
  read_rule (render target deps) = Some (target, deps).
Proof.
  intros Ht Hd. destruct (safe_parts target Ht) as (Hts & _).
  unfold read_rule, render, render_with. rewrite !fold_left_app.
  fold (st0 [] [] None). rewrite read_escaped by exact Hts. rewrite app_nil_r.
  change (fold_left rstep [COLON] (st0 (rev target) [] None)) with (rstep (st0 (rev target) [] None) COLON).
  rewrite rstep_colon, rev_involutive. rewrite read_deps by exact Hd.
  destruct (rev deps) as [|last before] eqn:E.
  - assert (deps = []) by (rewrite <- (rev_involutive deps), E; reflexivity). subst deps.
    cbn [fold_left]. rewrite rstep_nl, !push_word_empty. reflexivity.
  - assert (Hl : rev last <> []).
    { assert (In last deps) by (apply in_rev; rewrite E; left; reflexivity). rewrite Forall_forall in Hd. destruct (safe_parts last (Hd _ H)) as (_ & Hx).
      intros Hc. apply Hx. rewrite <- (rev_involutive last), Hc. reflexivity. }
    cbn [fold_left]. rewrite rstep_nl, (push_word_nonempty _ _ _ Hl), push_word_empty, rev_involutive, app_nil_r. cbn [target_seen words st0].
    f_equal. f_equal. rewrite <- (rev_involutive deps), E. reflexivity.
Qed.

(* ---- deps_of ---- *)
Lemma name_eqb_spec a b : name_eqb a b = true <-> a = b.
Proof. unfold name_eqb. destruct (list_eq_dec N.eq_dec a b); split; auto; discriminate. Qed.
Lemma mem_spec x l : mem x l = true <-> In x l.
Proof.
  induction l as [|y r IH]; cbn [mem In]; [split; [discriminate|contradiction]|].
  rewrite orb_true_iff, name_eqb_spec, IH. split; intros [H|H]; auto.
Qed.

Lemma dedup_acc_spec : forall l seen,
  NoDup (dedup_acc seen l) /\ (forall x, In x (dedup_acc seen l) <-> In x l /\ ~ In x seen).
Proof.
  induction l as [|y r IH]; intros seen; cbn [dedup_acc].
  - split; [constructor|]. intros x. split; [contradiction|intros [[] _]].
  - destruct (mem y seen) eqn:E.
    + apply mem_spec in E. destruct (IH seen) as (N1 & S1). split; [exact N1|]. intros x. rewrite S1. split.
      * intros (A & B). split; [right; exact A|exact B].
      * intros ([->|A] & B); [contradiction|split; assumption].
    + assert (Hn : ~ In y seen) by (intros H; apply mem_spec in H; congruence).
      destruct (IH (y :: seen)) as (N1 & S1). split.
      * constructor; [|exact N1]. intros H. apply S1 in H. destruct H as (_ & H). apply H. left; reflexivity.
      * intros x. cbn [In]. rewrite S1. cbn [In]. split.
        -- intros [->|(A & B)]; [split; [left; reflexivity|exact Hn]|split; [right; exact A|intros H; apply B; right; exact H]].
        -- intros ([->|A] & B); [left; reflexivity|]. destruct (list_eq_dec N.eq_dec y x) as [->|Hne]; [left; reflexivity|].
           right. split; [exact A|]. intros [H|H]; [contradiction|contradiction].
Qed.

Theorem deps_exact files :
  NoDup (deps_of files) /\
  forall x, In x (deps_of files) <-> exists f, In f files /\ temporary f = false /\ path f = x.
Proof.
  unfold deps_of. destruct (dedup_acc_spec (map path (filter (fun f => negb (temporary f)) files)) []) as (N1 & S1).
  split; [exact N1|]. intros x. rewrite S1. split.
  - intros (H & _). apply in_map_iff in H. destruct H as (f & <- & Hf). apply filter_In in Hf. destruct Hf as (Hin & Ht).
    exists f. repeat split; auto. destruct (temporary f); [discriminate|reflexivity].
  - intros (f & Hin & Ht & <-). split; [|intros []]. apply in_map. apply filter_In. split; [exact Hin|]. rewrite Ht. reflexivity.
Qed.
