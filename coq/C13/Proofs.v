(* C13 — reflective checks per instruction kind and their lifting to theorems over all words. *)
From Coq Require Import Arith NArith List Bool Lia.
From WV Require Import Base.BitReflect C13.Model.
Import ListNotations.
Open Scope N_scope.

(* the region the writer is allowed to touch.  For Movnz the writer also forces sf and the fixed
   opcode bits (31, 28:23) to the 64-bit MOVZ/MOVN encoding, so the region is everything except
   hw[22:21] and rd[4:0]; for a valid 64-bit MOVZ/MOVN those forced bits are already in place. *)
Definition region (k : kind) : N :=
  match k with A_MovnzPos | A_MovnzNeg => 0xFF9FFFE0 | _ => fm k end.

(* writer with the value variables restricted to [width k] bits *)
Definition wterm_inrange (k : kind) : wexpr :=
  subst 2 (Trunc (width k) (Var 2)) (subst 1 (Trunc (width k) (Var 1)) (wterm k)).

Definition local_ok (k : kind) : bool :=
  bits_agree_on (fun i => (i <? window k) && negb (N.testbit (region k) i)) (wterm_inrange k) old.
Definition indep_ok (k : kind) : bool :=
  bits_indep_on (fun i => (i <? window k) && N.testbit (region k) i) 0 (wterm k).

(* value classes for the decode round trip: aligned (low bit implicit) for B/J/Cb/Cj *)
Definition lowzero (k : kind) : N := match k with R_B | R_J | R_Cb | R_Cj => 1 | _ => 0 end.
Definition signed (k : kind) : bool :=
  match k with
  | A_LdrRegister | A_Add | L_Shift5 | L_Shift10 | L_Call30 | L_Call36 | A_MovnzPos | A_MovnzNeg => false
  | _ => true
  end.
(* an arbitrary in-range value: [width] bits with [lowzero] zero low bits *)
Definition inrange_val (k : kind) : wexpr :=
  Shl (Trunc (stored k - lowzero k) (Shr (Var 1) (lowzero k))) (lowzero k).
Definition canon_term (k : kind) : wexpr :=
  if signed k then SExt (stored k - 1) (inrange_val k) else inrange_val k.
Definition readback_ok (k : kind) : bool :=
  match rterm k with
  | Some rt =>
      bits_agree_on (fun _ => true)
        (subst 0 (subst 0 (And old (Const (N.ldiff (N.ones (window k)) (region k))))
                   (subst 2 (inrange_val k) (subst 1 (inrange_val k) (wterm k)))) rt) (canon_term k)
      && negb (mentions 0 (canon_term k)) && only_var 0 rt
  | None => false
  end.


(* ---------------- lifting the checks to statements over all words ---------------- *)

Lemma write_inrange k o x :
  x < 2 ^ width k -> pre k x < 2 ^ width k ->
  write k o x = eval (wenv o (pre k x) x) (wterm_inrange k).
Proof.
  intros Hx Hp. unfold write, wterm_inrange. rewrite !eval_subst. apply eval_ext.
  intros [|[|[|y]]]; unfold upd, wenv; cbn [Nat.eqb eval];
    rewrite ?trunc_small by assumption; reflexivity.
Qed.

Theorem local_sound k : local_ok k = true ->
  forall o x i, i < 64 -> i < window k -> x < 2 ^ width k -> pre k x < 2 ^ width k ->
  N.testbit (region k) i = false -> N.testbit (write k o x) i = N.testbit o i.
Proof.
  intros H o x i Hi Hw Hx Hp Hr. rewrite (write_inrange k o x Hx Hp).
  unfold local_ok in H.
  rewrite (bits_agree_on_sound _ _ _ H (wenv o (pre k x) x) i Hi).
  - reflexivity.
  - rewrite Hr. apply N.ltb_lt in Hw. rewrite Hw. reflexivity.
Qed.

Theorem indep_sound k : indep_ok k = true ->
  forall o1 o2 x i, i < 64 -> i < window k -> N.testbit (region k) i = true ->
  N.testbit (write k o1 x) i = N.testbit (write k o2 x) i.
Proof.
  intros H o1 o2 x i Hi Hw Hr. unfold write, indep_ok in *.
  apply (bits_indep_on_sound _ _ _ H _ _ i Hi).
  - rewrite Hr. apply N.ltb_lt in Hw. rewrite Hw. reflexivity.
  - intros [|y] Hy; [congruence|reflexivity].
Qed.

(* decode(encode) = canonical value, stated on the terms; [v1] ranges over all N and
   [inrange_val] maps it onto an arbitrary in-range (aligned) field value *)
Definition enc_in (k : kind) (o v1 : N) : N :=
  let x := eval (wenv 0 v1 v1) (inrange_val k) in
  eval (wenv (N.land o (N.ldiff (N.ones (window k)) (region k))) x x) (wterm k).
Definition canon (k : kind) (v1 : N) : N := eval (wenv 0 v1 v1) (canon_term k).

Theorem readback_sound k rt : rterm k = Some rt -> readback_ok k = true ->
  forall o v1 i, i < 64 -> N.testbit (eval (fun _ => enc_in k o v1) rt) i = N.testbit (canon k v1) i.
Proof.
  intros Hrt H o v1 i Hi. unfold readback_ok in H. rewrite Hrt in H.
  apply andb_prop in H. destruct H as [H Ho]. apply andb_prop in H. destruct H as [H Hm].
  apply negb_true_iff in Hm.
  pose proof (bits_agree_on_sound _ _ _ H (wenv o v1 v1) i Hi eq_refl) as E.
  unfold canon. rewrite (eval_no_mention 0 (canon_term k) (wenv 0 v1 v1) (wenv o v1 v1) Hm).
  2:{ intros [|y] Hy; [congruence|reflexivity]. }
  rewrite <- E. rewrite !eval_subst. f_equal.
  apply (eval_only_var 0); [assumption|]. unfold upd at 1. cbn [Nat.eqb].
  unfold enc_in. cbn [eval old]. apply eval_ext.
  intros [|[|[|z]]]; unfold upd, wenv; cbn [Nat.eqb]; try reflexivity;
    apply eval_ext; intros [|[|[|q]]]; reflexivity.
Qed.

(* ---------------- which kinds pass (decided by computation) ---------------- *)
Definition or_only (k : kind) : bool :=       (* AArch64 writers that never clear the field *)
  match k with
  | A_Adr | A_Movkz | A_Ldr | A_LdrRegister | A_Add | A_LdSt | A_TstBr | A_Bcond | A_JumpCall => true
  | _ => false
  end.
Definition is_call30 (k : kind) : bool := match k with L_Call30 => true | _ => false end.

Lemma local_all_but_call30 k : is_call30 k = false -> local_ok k = true.
Proof. destruct k; intros H; try discriminate H; vm_compute; reflexivity. Qed.

Lemma indep_all_but_known k : is_call30 k = false -> or_only k = false -> indep_ok k = true.
Proof. destruct k; intros H1 H2; try discriminate H1; try discriminate H2; vm_compute; reflexivity. Qed.

Definition readback_proved (k : kind) : bool :=
  match k with
  | A_Adr | A_Movkz | A_Ldr | A_LdrRegister | A_Add | A_LdSt | A_TstBr | A_Bcond | A_JumpCall
  | R_I | R_S | R_B | R_J | R_Cb | R_Cj | L_Shift5 | L_Shift10 | L_Branch21 | L_Branch26 => true
  | _ => false
  end.
Lemma readback_for_proved k : readback_proved k = true -> exists rt, rterm k = Some rt /\ readback_ok k = true.
Proof. destruct k; intros H; try discriminate H; eexists; split; try reflexivity; vm_compute; reflexivity. Qed.

(* ---------------- refutations: witnesses for the known classes ---------------- *)
Lemma indep_refuted_A_Add :
  N.testbit (write A_Add 0x913FFC00 0x120) 10 <> N.testbit (write A_Add 0x91000000 0x120) 10.
Proof. vm_compute. discriminate. Qed.
Lemma indep_refuted_or_only k : or_only k = true -> indep_ok k = false.
Proof. destruct k; intros H; try discriminate H; vm_compute; reflexivity. Qed.
Lemma local_refuted_Call30 :   (* in-range value (28 bits) spills into bit 32 = rd of the second instruction *)
  0x8000000 < 2 ^ width L_Call30 /\ N.testbit (fm L_Call30) 32 = false /\
  N.testbit (write L_Call30 0 0x8000000) 32 <> N.testbit 0 32.
Proof. vm_compute. repeat split; discriminate. Qed.
Lemma readback_refuted_Call30 : read_any L_Call30 (write L_Call30 0 1) = Some 0x4000.
Proof. vm_compute. reflexivity. Qed.
Lemma readback_refuted_Call36 : read_any L_Call36 (write L_Call36 0 0x12345) = Some 0xa345.
Proof. vm_compute. reflexivity. Qed.
Lemma local_refuted_Call36_pre :  (* v + 0x8000 carries into bit 36: 21 bits handed to a 20-bit field *)
  0xFFFFF8000 < 2 ^ width L_Call36 /\ N.testbit (fm L_Call36) 25 = false /\
  N.testbit (write L_Call36 0 0xFFFFF8000) 25 = true.
Proof. vm_compute. repeat split; reflexivity. Qed.
Lemma readback_refuted_R_U :   (* hi20 = 0x12345 is written; the decoder returns 0x11B45 (no shift back) *)
  write R_U 0 0x12345678 = 0x12345000 /\ read_any R_U (write R_U 0 0x12345678) = Some 0x11B45.
Proof. vm_compute. split; reflexivity. Qed.
Lemma readback_refuted_R_Ui :
  read_any R_Ui (write R_Ui 0 0x12345678) = Some 0x11B45678.
Proof. vm_compute. reflexivity. Qed.

(* ---------------- property-level statements ---------------- *)
Lemma window_le64 k : window k <= 64.
Proof. destruct k; vm_compute; discriminate. Qed.

Lemma write_local_except_known k : is_call30 k = false ->
  forall o x i, i < window k -> x < 2 ^ width k -> pre k x < 2 ^ width k ->
  N.testbit (region k) i = false -> N.testbit (write k o x) i = N.testbit o i.
Proof.
  intros Hk o x i Hi. pose proof (window_le64 k).
  apply local_sound; [apply local_all_but_call30; assumption|lia|assumption].
Qed.

Lemma write_indep_except_known k : is_call30 k = false -> or_only k = false ->
  forall o1 o2 x i, i < window k -> N.testbit (region k) i = true ->
  N.testbit (write k o1 x) i = N.testbit (write k o2 x) i.
Proof.
  intros H1 H2 o1 o2 x i Hi. pose proof (window_le64 k).
  apply indep_sound; [apply indep_all_but_known; assumption|lia|assumption].
Qed.

Lemma readback_except_known k : readback_proved k = true ->
  forall o v1, exists r, read k (enc_in k o v1) = Some r /\
    forall i, i < 64 -> N.testbit r i = N.testbit (canon k v1) i.
Proof.
  intros H o v1. destruct (readback_for_proved k H) as (rt & Hrt & Hok).
  exists (eval (fun _ => enc_in k o v1) rt). split.
  - unfold read. rewrite Hrt. reflexivity.
  - intros i Hi. apply (readback_sound k rt Hrt Hok). assumption.
Qed.
