(* C13 — property theorems only. *)
From Coq Require Import NArith.
From WV Require Import Base.BitReflect C13.Model C13.Proofs.
Open Scope N_scope.

(* (1) only the bits of the immediate field change — every kind except the known class L_Call30 *)
Theorem C13_write_local_except_known : forall k, is_call30 k = false ->
  forall o x i, i < window k -> x < 2 ^ width k -> pre k x < 2 ^ width k ->
  N.testbit (region k) i = false -> N.testbit (write k o x) i = N.testbit o i.
Proof. exact write_local_except_known. Qed.

(* (2) the new field content does not depend on the old window — except the known classes *)
Theorem C13_write_indep_except_known : forall k, is_call30 k = false -> or_only k = false ->
  forall o1 o2 x i, i < window k -> N.testbit (region k) i = true ->
  N.testbit (write k o1 x) i = N.testbit (write k o2 x) i.
Proof. exact write_indep_except_known. Qed.

(* (3) decoding gives back the written value (all 64 result bits), for every in-range value *)
Theorem C13_readback_except_known : forall k, readback_proved k = true ->
  forall o v1, exists r, read k (enc_in k o v1) = Some r /\
    forall i, i < 64 -> N.testbit r i = N.testbit (canon k v1) i.
Proof. exact readback_except_known. Qed.

(* the full-strength statements are false of the faithful model: witnesses *)
Theorem C13_indep_refuted_aarch64_or_only : forall k, or_only k = true -> indep_ok k = false.
Proof. exact indep_refuted_or_only. Qed.
Theorem C13_indep_refuted_witness :
  N.testbit (write A_Add 0x913FFC00 0x120) 10 <> N.testbit (write A_Add 0x91000000 0x120) 10.
Proof. exact indep_refuted_A_Add. Qed.
Theorem C13_local_refuted_call30 :
  0x8000000 < 2 ^ width L_Call30 /\ N.testbit (fm L_Call30) 32 = false /\
  N.testbit (write L_Call30 0 0x8000000) 32 <> N.testbit 0 32.
Proof. exact local_refuted_Call30. Qed.
Theorem C13_local_refuted_call36_carry :
  0xFFFFF8000 < 2 ^ width L_Call36 /\ N.testbit (fm L_Call36) 25 = false /\
  N.testbit (write L_Call36 0 0xFFFFF8000) 25 = true.
Proof. exact local_refuted_Call36_pre. Qed.
Theorem C13_readback_refuted_call30 : read_any L_Call30 (write L_Call30 0 1) = Some 0x4000.
Proof. exact readback_refuted_Call30. Qed.
Theorem C13_readback_refuted_call36 : read_any L_Call36 (write L_Call36 0 0x12345) = Some 0xa345.
Proof. exact readback_refuted_Call36. Qed.
Theorem C13_readback_refuted_riscv_utype :
  write R_U 0 0x12345678 = 0x12345000 /\ read_any R_U (write R_U 0 0x12345678) = Some 0x11B45.
Proof. exact readback_refuted_R_U. Qed.

Check C13_write_local_except_known : forall k, is_call30 k = false ->
  forall o x i, i < window k -> x < 2 ^ width k -> pre k x < 2 ^ width k ->
  N.testbit (region k) i = false -> N.testbit (write k o x) i = N.testbit o i.
Check C13_write_indep_except_known : forall k, is_call30 k = false -> or_only k = false ->
  forall o1 o2 x i, i < window k -> N.testbit (region k) i = true ->
  N.testbit (write k o1 x) i = N.testbit (write k o2 x) i.

Print Assumptions C13_write_local_except_known.
Print Assumptions C13_write_indep_except_known.
Print Assumptions C13_readback_except_known.
Print Assumptions C13_indep_refuted_aarch64_or_only.
Print Assumptions C13_local_refuted_call30.
Print Assumptions C13_readback_refuted_riscv_utype.
