(* C13 — instruction immediate-field writers/readers of linker-utils, as BitReflect terms.
   Transcribed from linker-utils/src/{aarch64,riscv64,loongarch64}.rs (write_to_value, read_value).
   Variables: 0 = the instruction window before the write (little-endian, up to 64 bits),
              1 = the value handed to write_to_value after the arithmetic pre-step [pre]
   The field masks [fm] are written from the ISA manuals (Arm ARM C6.2, RISC-V unprivileged +
   "C" extension, LoongArch vol.1), NOT from the code's clear-masks. *)
From Coq Require Import NArith List Bool.
From WV Require Import Base.BitReflect.
Import ListNotations.
Open Scope N_scope.

Definition old := Var 0.
Definition v := Var 1.
Definition bits (lo hi : N) (e : wexpr) : wexpr := Trunc (hi - lo) (Shr e lo).  (* extract_bit_range(lo..hi) *)
Definition bit1 (p : N) (e : wexpr) := bits p (p + 1) e.
Definition u32 (e : wexpr) := Trunc 32 e.
Definition u64 (e : wexpr) := Trunc 64 e.
Definition ors (l : list wexpr) : wexpr := fold_right Or (Const 0) l.
Definition keep (mask : N) := And old (Const mask).

Inductive kind :=
| A_Adr | A_Movkz | A_MovnzPos | A_MovnzNeg | A_Ldr | A_LdrRegister | A_Add | A_LdSt | A_TstBr | A_Bcond | A_JumpCall
| R_Ui | R_U | R_I | R_S | R_B | R_J | R_Cb | R_Cj | R_Clui
| L_Shift5 | L_Shift10 | L_Branch21 | L_Branch26 | L_Call30 | L_Call36.

Definition all_kinds : list kind :=
  [A_Adr; A_Movkz; A_MovnzPos; A_MovnzNeg; A_Ldr; A_LdrRegister; A_Add; A_LdSt; A_TstBr; A_Bcond; A_JumpCall;
   R_Ui; R_U; R_I; R_S; R_B; R_J; R_Cb; R_Cj; R_Clui;
   L_Shift5; L_Shift10; L_Branch21; L_Branch26; L_Call30; L_Call36].

Definition kind_id (k : kind) : N :=
  match k with
  | A_Adr => 0 | A_Movkz => 1 | A_MovnzPos => 2 | A_MovnzNeg => 3 | A_Ldr => 4 | A_LdrRegister => 5 | A_Add => 6
  | A_LdSt => 7 | A_TstBr => 8 | A_Bcond => 9 | A_JumpCall => 10
  | R_Ui => 11 | R_U => 12 | R_I => 13 | R_S => 14 | R_B => 15 | R_J => 16 | R_Cb => 17 | R_Cj => 18 | R_Clui => 19
  | L_Shift5 => 20 | L_Shift10 => 21 | L_Branch21 => 22 | L_Branch26 => 23 | L_Call30 => 24 | L_Call36 => 25
  end.

Definition kind_of_id (n : N) : option kind := find (fun k => kind_id k =? n) all_kinds.

(* number of bits of the window that the writer may touch *)
Definition window (k : kind) : N :=
  match k with
  | R_Cb | R_Cj | R_Clui => 16
  | R_Ui | L_Call30 | L_Call36 => 64
  | _ => 32
  end.

Definition W64 : N := 2 ^ 64.
Definition lnot64 (x : N) : N := N.lxor (x mod W64) (N.ones 64).

(* arithmetic step performed on the value before the bitwise part *)
Definition pre (k : kind) (x : N) : N :=
  match k with
  | R_U | R_Ui | R_Clui => (x + 0x800) mod W64
  | L_Call36 => (x + 0x8000) mod W64         (* debug builds panic on overflow; x < 2^36 in range *)
  | A_MovnzNeg => lnot64 x
  | _ => x
  end.

Definition rv_u (o x : wexpr) : wexpr :=   (* x is already value + 0x800 *)
  Or (And o (Const 0x00000FFF)) (u32 (Shl (bits 12 32 x) 12)).
Definition rv_i (o x : wexpr) : wexpr :=
  Or (And o (Const 0x000FFFFF)) (u32 (Shl x 20)).

(* the writer: new window as a function of old window and (pre-stepped) value *)
Definition wterm (k : kind) : wexpr :=
  match k with
  (* AArch64: or_from_slice only (no clearing), except Movnz *)
  | A_Adr => Or old (u32 (Or (u32 (Shl (u32 (bits 0 2 v)) 29)) (u32 (Shl (u32 (bits 2 32 v)) 5))))
  | A_Movkz | A_Ldr | A_TstBr | A_Bcond => Or old (u32 (Shl (u32 v) 5))
  | A_LdrRegister | A_Add | A_LdSt => Or old (u32 (Shl (u32 v) 10))
  | A_JumpCall => Or old (u32 v)
  | A_MovnzPos => Or (keep 0x0060001F) (Or (Const 0xd2800000) (u32 (Shl (u32 (bits 0 16 v)) 5)))
  | A_MovnzNeg => Or (keep 0x0060001F) (Or (Const 0x92800000) (u32 (Shl (u32 (bits 0 16 v)) 5)))
  (* RISC-V *)
  | R_U => rv_u old v
  | R_I => rv_i old v
  | R_Ui => Or (rv_u (Trunc 32 old) v) (Shl (rv_i (Shr old 32) (Var 2)) 32)
  | R_S => Or (keep 0x01FFF07F) (u32 (u64 (Or (Shl (bits 0 5 v) 7) (Shl (bits 5 12 v) 25))))
  | R_B => Or (keep 0x01FFF07F)
              (u32 (ors [Shl (bit1 11 v) 7; Shl (bits 1 5 v) 8; Shl (bits 5 11 v) 25; Shl (bit1 12 v) 31]))
  | R_J => Or (keep 0x00000FFF)
              (u32 (ors [Shl (bits 12 20 v) 12; Shl (bit1 11 v) 20; Shl (bits 1 11 v) 21; Shl (bit1 20 v) 31]))
  | R_Cb => Or (keep 0xE383)
               (Trunc 16 (ors [Shl (bit1 5 v) 2; Shl (bits 1 3 v) 3; Shl (bits 6 8 v) 5; Shl (bits 3 5 v) 10; Shl (bit1 8 v) 12]))
  | R_Cj => Or (keep 0xE003)
               (Trunc 16 (ors [Shl (bit1 5 v) 2; Shl (bits 1 4 v) 3; Shl (bit1 7 v) 6; Shl (bit1 6 v) 7; Shl (bit1 10 v) 8;
                               Shl (bits 8 10 v) 9; Shl (bit1 4 v) 11; Shl (bit1 11 v) 12]))
  | R_Clui => Or (keep 0xEF83)
                 (Trunc 16 (Or (Shl (And (Shr v 12) (Const 0x1f)) 2) (Shl (And (Shr (Shr v 12) 5) (Const 1)) 12)))
  (* LoongArch *)
  | L_Shift5 => Or (keep 0xFE00001F) (u32 (u64 (Shl v 5)))
  | L_Shift10 => Or (keep 0xFFC003FF) (u32 (u64 (Shl v 10)))
  | L_Branch26 => Or (keep 0xFC000000) (u32 (Or (u64 (Shl (And v (Const 0xffff)) 10)) (Shr v 16)))
  | L_Branch21 => Or (keep 0xFC0003E0) (u32 (Or (u64 (Shl (And v (Const 0xffff)) 10)) (Shr v 16)))
  | L_Call30 => Or (keep 0xFFF803FFFE00001F)
                   (Or (u64 (Shl (And v (Const 0x1ff)) 42)) (u64 (Shl (And v (Const 0xFFFFFFFFFFFFFE00)) 5)))
  | L_Call36 => Or (keep 0xFC0003FFFE00001F)
                   (Or (u64 (Shl (And (Var 2) (Const 0xffff)) 42)) (u64 (Shl (Shr v 16) 5)))
  end.
(* R_Ui and L_Call36 use the raw value in one half and the pre-stepped value in the other:
   Var 1 = pre-stepped value, Var 2 = raw value. *)

Definition wenv (o pv raw : N) : env := fun x => match x with 0%nat => o | 1%nat => pv | 2%nat => raw | _ => 0 end.

Definition write (k : kind) (o x : N) : N := eval (wenv o (pre k x) x) (wterm k).

(* immediate field of the instruction (ISA manuals) and its width in bits *)
Definition fm (k : kind) : N :=
  match k with
  | A_Adr => 0x60FFFFE0 | A_Movkz => 0x001FFFE0 | A_MovnzPos | A_MovnzNeg => 0x601FFFE0
  | A_Ldr | A_Bcond => 0x00FFFFE0 | A_LdrRegister | A_Add | A_LdSt => 0x003FFC00
  | A_TstBr => 0x0007FFE0 | A_JumpCall => 0x03FFFFFF
  | R_U | R_J => 0xFFFFF000 | R_I => 0xFFF00000 | R_S | R_B => 0xFE000F80
  | R_Ui => 0xFFF00000FFFFF000
  | R_Cb => 0x1C7C | R_Cj => 0x1FFC | R_Clui => 0x107C
  | L_Shift5 => 0x01FFFFE0 | L_Shift10 => 0x003FFC00 | L_Branch26 => 0x03FFFFFF | L_Branch21 => 0x03FFFC1F
  | L_Call30 => 0x03FFFC0001FFFFE0 | L_Call36 => 0x03FFFC0001FFFFE0
  end.

(* width (in bits) of the value the field can hold *)
Definition width (k : kind) : N :=
  match k with
  | A_Adr => 21 | A_Movkz | A_MovnzPos | A_MovnzNeg => 16 | A_Ldr | A_Bcond => 19
  | A_LdrRegister | A_Add | A_LdSt => 12 | A_TstBr => 14 | A_JumpCall => 26
  | R_U | R_I | R_S | R_Ui => 32 | R_B => 13 | R_J => 21 | R_Cb => 9 | R_Cj => 12 | R_Clui => 18
  | L_Shift5 => 20 | L_Shift10 => 12 | L_Branch26 => 26 | L_Branch21 => 21 | L_Call30 => 28 | L_Call36 => 36
  end.

(* number of value bits the field stores (LO12-style kinds receive a wider value and keep 12 bits) *)
Definition stored (k : kind) : N := match k with R_I | R_S => 12 | _ => width k end.

(* hypothesis on the prior instruction word under which locality is claimed:
   Movnz rewrites sf and the fixed opcode bits; they are unchanged only for a 64-bit MOVZ/MOVN *)
Definition old_ok (k : kind) (o : N) : bool :=
  match k with
  | A_MovnzPos | A_MovnzNeg => N.land o 0x9F800000 =? 0x92800000
  | _ => true
  end.

(* ---- decoders (read_value): value as a function of the window (Var 0) ---- *)
Definition wd := Var 0.
Definition slow (n : N) (e : wexpr) : wexpr := SExt (n - 1) (Trunc n e).   (* low_bits_signed(n) *)
(* ((imm as i32) << k) >> k as u64 : sign-extend a (32-k)-bit field to 64 bits *)
Definition sx32 (k : N) (e : wexpr) : wexpr := SExt (31 - k) (Trunc (32 - k) e).

Definition rterm (k : kind) : option wexpr :=
  match k with
  | A_Adr => Some (Or (Trunc 2 (Shr wd 29)) (u64 (Shl (slow 19 (Shr (u32 wd) 5)) 2)))
  | A_Movkz => Some (slow 16 (Shr (u32 wd) 5))
  | A_Ldr | A_Bcond => Some (slow 19 (Shr (u32 wd) 5))
  | A_LdrRegister | A_Add => Some (Trunc 12 (Shr (u32 wd) 10))
  | A_LdSt => Some (slow 12 (Shr (u32 wd) 10))
  | A_TstBr => Some (slow 14 (Shr (u32 wd) 5))
  | A_JumpCall => Some (slow 26 (u32 wd))
  | A_MovnzPos | A_MovnzNeg => None        (* uses a 64-bit NOT: handled arithmetically *)
  | R_I => Some (sx32 20 (Trunc 12 (Shr (u32 wd) 20)))
  | R_S => Some (sx32 20 (Or (Shl (Trunc 7 (Shr (u32 wd) 25)) 5) (Trunc 5 (Shr (u32 wd) 7))))
  | R_B => Some (sx32 19 (ors [Shl (Trunc 1 (Shr (u32 wd) 31)) 12; Shl (Trunc 1 (Shr (u32 wd) 7)) 11;
                               Shl (Trunc 6 (Shr (u32 wd) 25)) 5; Shl (Trunc 4 (Shr (u32 wd) 8)) 1]))
  | R_J => Some (sx32 11 (ors [Shl (Trunc 1 (Shr (u32 wd) 31)) 20; Shl (Trunc 8 (Shr (u32 wd) 12)) 12;
                               Shl (Trunc 1 (Shr (u32 wd) 20)) 11; Shl (Trunc 10 (Shr (u32 wd) 21)) 1]))
  | R_Cb => Some (sx32 23 (ors [Shl (Trunc 1 (Shr (Trunc 16 wd) 12)) 8; Shl (Trunc 2 (Shr (Trunc 16 wd) 5)) 6;
                                Shl (Trunc 1 (Shr (Trunc 16 wd) 2)) 5; Shl (Trunc 2 (Shr (Trunc 16 wd) 10)) 3;
                                Shl (Trunc 2 (Shr (Trunc 16 wd) 3)) 1]))
  | R_Cj => Some (sx32 20 (ors [Shl (Trunc 1 (Shr (Trunc 16 wd) 12)) 11; Shl (Trunc 1 (Shr (Trunc 16 wd) 8)) 10;
                                Shl (Trunc 2 (Shr (Trunc 16 wd) 9)) 8; Shl (Trunc 1 (Shr (Trunc 16 wd) 6)) 7;
                                Shl (Trunc 1 (Shr (Trunc 16 wd) 7)) 6; Shl (Trunc 1 (Shr (Trunc 16 wd) 2)) 5;
                                Shl (Trunc 1 (Shr (Trunc 16 wd) 11)) 4; Shl (Trunc 3 (Shr (Trunc 16 wd) 3)) 1]))
  | R_U | R_Ui | R_Clui => None            (* decoders subtract 0x800: arithmetic, see Proofs *)
  | L_Shift5 => Some (Trunc 20 (Shr (u32 wd) 5))
  | L_Shift10 => Some (Trunc 12 (Shr (u32 wd) 10))
  | L_Branch26 => Some (sx32 6 (Or (Shl (Trunc 10 (u32 wd)) 16) (Trunc 16 (Shr (u32 wd) 10))))
  | L_Branch21 => Some (sx32 11 (Or (Shl (Trunc 5 (u32 wd)) 16) (Trunc 16 (Shr (u32 wd) 10))))
  | L_Call30 => Some (Or (u32 (Shl (Trunc 19 (Shr (u32 (Shr wd 32)) 5)) 9)) (Trunc 9 (Shr (u32 wd) 10)))
  | L_Call36 => None                       (* subtracts 0x8000: arithmetic *)
  end.

Definition read (k : kind) (w : N) : option N :=
  match rterm k with Some t => Some (eval (fun _ => w) t) | None => None end.

(* arithmetic decoders, transcribed *)
Definition read_arith_u (w : N) : N :=
  let imm := N.land (N.shiftr (N.land w (N.ones 32)) 12) 0xfffff in
  (sext64 19 imm + (W64 - 0x800)) mod W64.
Definition read_arith (k : kind) (w : N) : option N :=
  match k with
  | R_U => Some (read_arith_u w)
  | R_Clui => let w16 := N.land w (N.ones 16) in
              let nz := N.lor (N.shiftl (N.land (N.shiftr w16 12) 1) 5) (N.land (N.shiftr w16 2) 0x1f) in
              let hi20 := sext64 5 nz in
              Some (((N.shiftl hi20 12) mod W64 + (W64 - 0x800)) mod W64)
  | L_Call36 => let insn1 := N.land w (N.ones 32) in let insn2 := N.land (N.shiftr w 32) (N.ones 32) in
                let hi := N.land (N.shiftr insn1 5) 0xfffff in let lo := N.land (N.shiftr insn2 10) 0xffff in
                Some (N.lor (N.land ((N.shiftl hi 16 + (W64 - 0x8000)) mod W64) 0xffffffff) lo)
  | A_MovnzPos | A_MovnzNeg =>
      let w32 := N.land w (N.ones 32) in
      let neg := negb (N.testbit w32 30) in
      let x := N.land (N.shiftr w32 5) (N.ones 16) in
      Some (if neg then lnot64 x else x)
  | R_Ui => match read_arith_u (N.land w (N.ones 32)), None with
            | hi, _ =>
              let w2 := N.land (N.shiftr w 32) (N.ones 32) in
              let lo := sext64 11 (N.land (N.shiftr w2 20) 0xfff) in
              Some (N.lor ((N.shiftl hi 12) mod W64) lo)
            end
  | _ => None
  end.

Definition read_any (k : kind) (w : N) : option N :=
  match read k w with Some x => Some x | None => read_arith k w end.
