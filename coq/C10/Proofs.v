(* C10 — proofs: the search table is a sorted arrangement of exactly the kept FDEs; the unwinder's lookup finds the FDE
   of any pc inside a retained function. *)
From Coq Require Import ZArith List Bool Lia Sorting.Sorted.
From WV Require Import C30.Model C30.Proofs C10.Model.
Import ListNotations.
Open Scope Z_scope.

Lemma insert_in {A} (key : A -> Z) x l y : In y (insert key x l) <-> y = x \/ In y l.
Proof.
  induction l as [|z t IH]; cbn [insert In]; [intuition|].
  destruct (key x <=? key z); cbn [In]; [intuition|]. rewrite IH. intuition.
Qed.
Lemma isort_in {A} (key : A -> Z) l y : In y (isort key l) <-> In y l.
Proof. induction l as [|x t IH]; cbn [isort In]; [tauto|]. rewrite insert_in, IH. intuition. Qed.
Lemma insert_length {A} (key : A -> Z) x l : length (insert key x l) = S (length l).
Proof. induction l as [|z t IH]; cbn [insert length]; [reflexivity|]. destruct (key x <=? key z); cbn [length]; [reflexivity|]. rewrite IH. reflexivity. Qed.
Lemma isort_length {A} (key : A -> Z) l : length (isort key l) = length l.
Proof. induction l as [|x t IH]; cbn [isort length]; [reflexivity|]. rewrite insert_length, IH. reflexivity. Qed.

(* one entry per kept FDE, and nothing else *)
Theorem table_is_the_kept_fdes hdr fdes :
  (forall h, In h (table hdr fdes) <-> exists f, In f fdes /\ kept f = true /\ h = entry_of f) /\
  length (table hdr fdes) = length (filter kept fdes).
Proof.
  unfold table. split.
  - intros h. rewrite isort_in, in_map_iff. split.
    + intros [f [<- Hf]]. apply filter_In in Hf. exists f. tauto.
    + intros [f (Hin & Hk & ->)]. exists f. split; [reflexivity|]. apply filter_In. tauto.
  - rewrite isort_length, map_length. reflexivity.
Qed.

(* sorted by start address *)
Theorem table_sorted hdr fdes : StronglySorted (fun a b => h_start a <= h_start b) (table hdr fdes).
Proof.
  unfold table. pose proof (isort_sorted (fun h => h_start h - hdr) (map entry_of (filter kept fdes))) as H.
  induction H as [|a l Hs IH Hall]; constructor; [exact IH|].
  eapply Forall_impl; [|exact Hall]. unfold le_key. intros; lia.
Qed.

(* the lookup on a sorted table whose ranges do not overlap *)
Definition disjoint (t : list hentry) : Prop :=
  forall a b, In a t -> In b t -> a <> b -> h_start a + h_len a <= h_start b \/ h_start b + h_len b <= h_start a.

Lemma hentry_eq_dec (a b : hentry) : {a = b} + {a <> b}.
Proof. decide equality; apply Z.eq_dec. Qed.

Lemma last_le_spec t : forall pc best,
  StronglySorted (fun a b => h_start a <= h_start b) t ->
  forall h, In h t -> h_start h <= pc ->
    (forall h', In h' t -> h_start h' <= pc -> h_start h' <= h_start h) ->
    (forall h', In h' t -> h_start h' = h_start h -> h' = h) ->
    last_le t pc best = Some h.
Proof.
  induction t as [|x r IH]; intros pc best Hs h Hin Hle Hmax Huniq; [destruct Hin|].
  inversion Hs as [|? ? Hs' Hall]; subst. cbn [last_le].
  assert (Hx : h_start x <= pc).
  { destruct Hin as [->|Hin]; [exact Hle|]. rewrite Forall_forall in Hall. specialize (Hall _ Hin). lia. }
  destruct (Z.leb_spec (h_start x) pc) as [_|H]; [|lia].
  destruct (in_dec hentry_eq_dec h r) as [Hr|Hnr].
  - apply IH; [exact Hs'|exact Hr|exact Hle| |].
    + intros h' Hh' Hle'. apply Hmax; [right; exact Hh'|exact Hle'].
    + intros h' Hh' He. apply Huniq; [right; exact Hh'|exact He].
  - destruct Hin as [->|Hin]; [|contradiction].
    destruct r as [|y r']; [reflexivity|]. cbn [last_le].
    destruct (Z.leb_spec (h_start y) pc) as [Hy|Hy]; [|reflexivity].
    exfalso. apply Hnr. left.
    apply Huniq; [right; left; reflexivity|].
    pose proof (Hmax y (or_intror (or_introl eq_refl)) Hy). inversion Hall; subst. lia.
Qed.

Theorem unwinder_finds_the_fde t pc h :
  StronglySorted (fun a b => h_start a <= h_start b) t -> disjoint t ->
  (forall a, In a t -> 0 < h_len a) ->
  In h t -> h_start h <= pc < h_start h + h_len h ->
  unwinder_finds t pc = Some (h_fde h).
Proof.
  intros Hs Hd Hlen Hin [Hlo Hhi]. unfold unwinder_finds.
  rewrite (last_le_spec t pc None Hs h Hin Hlo).
  - destruct (Z.ltb_spec pc (h_start h + h_len h)); [reflexivity|lia].
  - intros h' Hh' Hle'. destruct (hentry_eq_dec h' h) as [->|Hne]; [lia|].
    destruct (Hd h' h Hh' Hin Hne) as [H|H]; [pose proof (Hlen h' Hh'); lia|lia].
  - intros h' Hh' He. destruct (hentry_eq_dec h' h) as [E|Hne]; [exact E|exfalso].
    pose proof (Hlen h' Hh'). pose proof (Hlen h Hin). destruct (Hd h' h Hh' Hin Hne); lia.
Qed.
