(* C10 — .eh_frame / .eh_frame_hdr (libwild/src/elf_writer.rs write_eh_frame_relocations, sort_eh_frame_hdr_entries).
   Per input object the .eh_frame section is a sequence of entries; a CIE is always copied; an FDE is copied iff the
   section its pc-begin relocation points into has been given an address (was loaded) and is not empty; every copied FDE
   gets one search-table entry {frame_ptr = function address - address of .eh_frame_hdr (signed 32 bit),
   frame_info_ptr = address of the FDE - address of .eh_frame_hdr}; the table is then sorted by frame_ptr.
   The consumer is libgcc's binary search over that table (specification below). *)
From Coq Require Import ZArith List Bool.
From WV Require Import C30.Model.       (* the stable insertion sort *)
Import ListNotations.
Open Scope Z_scope.

(* an FDE as the writer sees it: where its function's section was placed (None = not loaded), the section's size,
   the function's offset in the section, the FDE's length, and where the FDE itself ends up *)
Record fde := { f_sec_addr : option Z; f_sec_size : Z; f_off : Z; f_len : Z; f_id : Z }.

Definition kept (f : fde) : bool :=
  match f_sec_addr f with Some _ => negb (f_sec_size f =? 0) | None => false end.
Definition start_of (f : fde) : Z := match f_sec_addr f with Some a => a + f_off f | None => 0 end.

Record hentry := { h_start : Z; h_fde : Z; h_len : Z }.      (* frame_ptr + hdr, the FDE it points to, that FDE's range *)
Definition entry_of (f : fde) : hentry := {| h_start := start_of f; h_fde := f_id f; h_len := f_len f |}.

(* the table wild writes: one entry per kept FDE, in input order, then sorted by the signed hdr-relative start *)
Definition table (hdr : Z) (fdes : list fde) : list hentry :=
  isort (fun h => h_start h - hdr) (map entry_of (filter kept fdes)).

(* ---- the consumer: libgcc's binary search returns the LAST table entry whose start is <= pc (it relies on the table being
   sorted by start — here that entry is found by a scan that stops at the first larger start), then checks pc against
   that FDE's range ---- *)
Fixpoint last_le (t : list hentry) (pc : Z) (best : option hentry) : option hentry :=
  match t with
  | [] => best
  | h :: r => if h_start h <=? pc then last_le r pc (Some h) else best     (* sorted: nothing further can qualify *)
  end.
Definition unwinder_finds (t : list hentry) (pc : Z) : option Z :=
  match last_le t pc None with
  | Some h => if pc <? h_start h + h_len h then Some (h_fde h) else None
  | None => None
  end.
