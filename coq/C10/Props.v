(* C10 — unwind tables cover every retained function: the property theorems. Model: C10/Model.v. *)
From Coq Require Import ZArith List Bool Sorting.Sorted.
From WV Require Import C10.Model C10.Proofs.
Import ListNotations.
Open Scope Z_scope.

(* the search table has exactly one entry per FDE whose function's section was loaded and is not empty, nothing else ... *)
Theorem C10_table_is_exactly_the_kept_fdes :
  forall hdr fdes,
    (forall h, In h (table hdr fdes) <-> exists f, In f fdes /\ kept f = true /\ h = entry_of f) /\
    length (table hdr fdes) = length (filter kept fdes).
Proof. exact table_is_the_kept_fdes. Qed.
Print Assumptions C10_table_is_exactly_the_kept_fdes.

(* ... and is sorted by start address, wherever .eh_frame_hdr sits relative to the code (the sort key is the SIGNED
   hdr-relative offset) *)
Theorem C10_table_sorted_by_start_address :
  forall hdr fdes, StronglySorted (fun a b => h_start a <= h_start b) (table hdr fdes).
Proof. exact table_sorted. Qed.
Print Assumptions C10_table_sorted_by_start_address.

(* hence the unwinder finds the FDE of every pc inside a retained function (functions do not overlap) *)
Theorem C10_unwinder_finds_the_fde :
  forall hdr fdes pc h,
    disjoint (table hdr fdes) -> (forall a, In a (table hdr fdes) -> 0 < h_len a) ->
    In h (table hdr fdes) -> h_start h <= pc < h_start h + h_len h ->
    unwinder_finds (table hdr fdes) pc = Some (h_fde h).
Proof. intros hdr fdes pc h Hd Hl Hin Hr. apply unwinder_finds_the_fde; [apply table_sorted|assumption..]. Qed.
Print Assumptions C10_unwinder_finds_the_fde.

(* an ordering by the UNSIGNED 32-bit offset (what a careless sort key gives) breaks it when code lies below the header *)
Theorem C10_refuted_for_an_unsigned_sort_key :
  let hdr := 0x400000 in
  let fdes := [ {| f_sec_addr := Some 0x1000000; f_sec_size := 16; f_off := 0; f_len := 16; f_id := 1 |};
                {| f_sec_addr := Some 0x10000; f_sec_size := 16; f_off := 0; f_len := 16; f_id := 2 |} ] in
  let t := C30.Model.isort (fun h => (h_start h - hdr) mod 2 ^ 32) (map entry_of (filter kept fdes)) in
  unwinder_finds t 0x10004 = None /\ unwinder_finds (table hdr fdes) 0x10004 = Some 2.
Proof. vm_compute. split; reflexivity. Qed.
Print Assumptions C10_refuted_for_an_unsigned_sort_key.
