(* C06 — output bytes are deterministic.  The four mechanisms by which wild keeps the scheduler, the thread count and
   the previous contents of the output file out of the result:
   (1) results of parallel work are stored by index (input_data.rs load_inputs `files_by_index`, per-group vectors);
   (2) collections whose order would otherwise follow arrival are sorted by a key that identifies the element
       (elf.rs create_gnu_hash_layout: (bucket, name); resolution.rs canonicalise_undefined_symbols: symbol id);
   (3) results produced by groups in any order are consumed strictly in group order
       (symbol_db.rs populate_symbol_db, string_merging.rs next_input_group_index);
   (4) every byte of the output buffer is either written from the layout or zero-filled
       (file_writer.rs split_output_into_sections, elf_writer.rs fill_padding, write_gnu_hash_tables). *)
From Coq Require Import ZArith List Bool Arith Sorting.Permutation.
Import ListNotations.

(* ---- (1) scatter by index ---- *)
Fixpoint update {A} (l : list A) (i : nat) (v : A) : list A :=
  match l, i with
  | [], _ => []
  | _ :: r, O => v :: r
  | x :: r, S j => x :: update r j v
  end.
Definition scatter {A} (f : nat -> A) (d : A) (n : nat) (completion_order : list nat) : list A :=
  fold_left (fun arr i => update arr i (f i)) completion_order (repeat d n).

(* ---- (2) sort by an identifying key ---- *)
Section Sort.
  Context {A : Type} (key : A -> Z).
  Fixpoint insert_by (x : A) (l : list A) : list A :=
    match l with [] => [x] | y :: r => if (key x <=? key y)%Z then x :: l else y :: insert_by x r end.
  Fixpoint sort_by (l : list A) : list A := match l with [] => [] | x :: r => insert_by x (sort_by r) end.
End Sort.

(* ---- (3) ordered consumption of per-group results ---- *)
Record merger (A : Type) := { next : nat; parked : list (nat * A); consumed : list A }.
Arguments next {A}. Arguments parked {A}. Arguments consumed {A}.
Arguments Build_merger {A}.

Fixpoint take_parked {A} (k : nat) (l : list (nat * A)) : option (A * list (nat * A)) :=
  match l with
  | [] => None
  | (g, v) :: r => if Nat.eqb g k then Some (v, r) else
      match take_parked k r with Some (w, r') => Some (w, (g, v) :: r') | None => None end
  end.
(* drain: while the next group's result is parked, consume it *)
Fixpoint drain {A} (fuel : nat) (m : merger A) : merger A :=
  match fuel with
  | O => m
  | S f => match take_parked (next m) (parked m) with
           | Some (v, rest) => drain f {| next := S (next m); parked := rest; consumed := consumed m ++ [v] |}
           | None => m
           end
  end.
(* a group finishes: park its result, then drain *)
Definition complete {A} (res : nat -> A) (m : merger A) (g : nat) : merger A :=
  drain (S (length (parked m))) {| next := next m; parked := (g, res g) :: parked m; consumed := consumed m |}.
Definition merge_all {A} (res : nat -> A) (completion_order : list nat) : merger A :=
  fold_left (complete res) completion_order {| next := 0; parked := []; consumed := [] |}.

(* ---- (4) the output buffer ---- *)
Inductive region := Pad (len : nat) | Data (bytes : list Z).
Definition rlen (r : region) : nat := match r with Pad n => n | Data b => length b end.
Fixpoint total (rs : list region) : nat := match rs with [] => 0 | r :: t => rlen r + total t end.
(* writing over whatever the buffer held: padding is zero-filled, data copied; bytes past the regions stay *)
Fixpoint write_regions (rs : list region) (buf : list Z) : list Z :=
  match rs with
  | [] => buf
  | Pad n :: t => repeat 0%Z n ++ write_regions t (skipn n buf)
  | Data b :: t => b ++ write_regions t (skipn (length b) buf)
  end.
(* had a padding region been skipped instead of filled *)
Fixpoint write_regions_nofill (rs : list region) (buf : list Z) : list Z :=
  match rs with
  | [] => buf
  | Pad n :: t => firstn n buf ++ write_regions_nofill t (skipn n buf)
  | Data b :: t => b ++ write_regions_nofill t (skipn (length b) buf)
  end.
