From Coq Require Import ZArith List Bool Arith Lia Sorting.Permutation Sorting.Sorted.
From WV Require Import C06.Model.
Import ListNotations.

(* ---------------- (1) scatter ---------------- *)
Lemma update_length {A} (l : list A) i v : length (update l i v) = length l.
Proof. revert i; induction l as [|x r IH]; intros [|j]; cbn; auto. Qed.
Lemma nth_update_same {A} (l : list A) i v d : i < length l -> nth i (update l i v) d = v.
Proof. revert i; induction l as [|x r IH]; intros [|j] H; cbn in *; try lia; auto. apply IH. lia. Qed.
Lemma nth_update_other {A} (l : list A) i j v d : i <> j -> nth j (update l i v) d = nth j l d.
Proof. revert i j; induction l as [|x r IH]; intros [|i] [|j] H; cbn; auto; try lia. Qed.

Lemma scatter_fold {A} (f : nat -> A) d : forall order arr j,
  j < length arr ->
  length (fold_left (fun arr i => update arr i (f i)) order arr) = length arr /\
  nth j (fold_left (fun arr i => update arr i (f i)) order arr) d = if in_dec Nat.eq_dec j order then f j else nth j arr d.
Proof.
  induction order as [|i r IH]; intros arr j Hj; cbn [fold_left]; [split; reflexivity|].
  destruct (IH (update arr i (f i)) j ltac:(rewrite update_length; exact Hj)) as (L & N). rewrite update_length in L.
  split; [exact L|]. rewrite N. destruct (in_dec Nat.eq_dec j r) as [Hin|Hnin].
  - destruct (in_dec Nat.eq_dec j (i :: r)) as [_|H]; [reflexivity|]. exfalso; apply H; right; exact Hin.
  - destruct (Nat.eq_dec i j) as [->|Hne].
    + rewrite nth_update_same by exact Hj. destruct (in_dec Nat.eq_dec j (j :: r)) as [_|H]; [reflexivity|]. exfalso; apply H; left; reflexivity.
    + rewrite nth_update_other by exact Hne. destruct (in_dec Nat.eq_dec j (i :: r)) as [[H|H]|_]; [contradiction|contradiction|reflexivity].
Qed.

Lemma scatter_is_map {A} (f : nat -> A) d n order :
  (forall j, j < n -> In j order) -> scatter f d n order = map f (seq 0 n).
Proof.
  intros Hall. unfold scatter. apply (nth_ext _ _ d d).
  - destruct n as [|n']; [|].
    + cbn. clear Hall. induction order as [|i r IH]; cbn; [reflexivity|exact IH].
    + destruct (scatter_fold f d order (repeat d (S n')) 0 ltac:(rewrite repeat_length; lia)) as (L & _).
      rewrite L, repeat_length, map_length, seq_length. reflexivity.
  - intros j Hj.
    assert (Hjn : j < n).
    { destruct n as [|n']; [exfalso|].
      - assert (E : forall order', fold_left (fun arr i => update arr i (f i)) order' (@nil A) = []) by (induction order' as [|? ? IH']; cbn; auto).
        rewrite E in Hj. cbn in Hj. lia.
      - destruct (scatter_fold f d order (repeat d (S n')) 0 ltac:(rewrite repeat_length; lia)) as (L & _). rewrite L, repeat_length in Hj. exact Hj. }
    destruct (scatter_fold f d order (repeat d n) j ltac:(rewrite repeat_length; exact Hjn)) as (_ & N). rewrite N.
    destruct (in_dec Nat.eq_dec j order) as [_|H]; [|exfalso; apply H, Hall, Hjn].
    rewrite (nth_indep _ d (f 0)) by (rewrite map_length, seq_length; exact Hjn). rewrite map_nth, seq_nth by exact Hjn. reflexivity.
Qed.

(* ---------------- (2) sort by key ---------------- *)
Section Sort.
  Context {A : Type} (key : A -> Z).
  Local Open Scope Z_scope.
  Definition kle (a b : A) := key a <= key b.

  Lemma insert_by_perm x l : Permutation (x :: l) (insert_by key x l).
  Proof. induction l as [|y r IH]; cbn [insert_by]; [reflexivity|]. destruct (key x <=? key y); [reflexivity|]. rewrite perm_swap. apply perm_skip, IH. Qed.
  Lemma sort_by_perm l : Permutation l (sort_by key l).
  Proof. induction l as [|x r IH]; cbn [sort_by]; [constructor|]. rewrite <- insert_by_perm. apply perm_skip, IH. Qed.
  Lemma insert_by_sorted x l : StronglySorted kle l -> StronglySorted kle (insert_by key x l).
  Proof.
    induction l as [|y r IH]; intros Hs; cbn [insert_by]; [repeat constructor|].
    destruct (Z.leb_spec (key x) (key y)).
    - constructor; [exact Hs|]. inversion Hs as [|? ? Hr Hall]; subst. constructor; [exact H|].
      eapply Forall_impl; [|exact Hall]. unfold kle. cbn beta. intros; lia.
    - inversion Hs as [|? ? Hr Hall]; subst. constructor; [apply IH; exact Hr|].
      eapply Permutation_Forall; [apply insert_by_perm|]. constructor; [unfold kle; lia|exact Hall].
  Qed.
  Lemma sort_by_sorted l : StronglySorted kle (sort_by key l).
  Proof. induction l as [|x r IH]; cbn [sort_by]; [constructor|]. apply insert_by_sorted, IH. Qed.

  Lemma key_inj l a b : NoDup (map key l) -> In a l -> In b l -> key a = key b -> a = b.
  Proof.
    induction l as [|x r IH]; intros Hn Ha Hb E; [contradiction|]. cbn in Hn. inversion Hn as [|? ? Hx Hr]; subst.
    destruct Ha as [->|Ha], Hb as [->|Hb]; auto.
    - exfalso. apply Hx. rewrite E. apply in_map. exact Hb.
    - exfalso. apply Hx. rewrite <- E. apply in_map. exact Ha.
  Qed.

  Lemma sorted_perm_eq : forall l l', NoDup (map key l) -> StronglySorted kle l -> StronglySorted kle l' -> Permutation l l' -> l = l'.
  Proof.
    induction l as [|x r IH]; intros l' Hn Hs Hs' Hp.
    - apply Permutation_nil in Hp. subst. reflexivity.
    - destruct l' as [|y r']; [apply Permutation_sym, Permutation_nil in Hp; discriminate|].
      inversion Hs as [|? ? Hr Hall]; subst. inversion Hs' as [|? ? Hr' Hall']; subst.
      assert (Hy : In y (x :: r)) by (eapply Permutation_in; [apply Permutation_sym; exact Hp|left; reflexivity]).
      assert (Hx : In x (y :: r')) by (eapply Permutation_in; [exact Hp|left; reflexivity]).
      assert (x = y).
      { apply (key_inj (x :: r)); [exact Hn|left; reflexivity|exact Hy|].
        rewrite Forall_forall in Hall, Hall'. unfold kle in *.
        destruct Hy as [->|Hy]; [reflexivity|]. destruct Hx as [->|Hx]; [reflexivity|].
        specialize (Hall _ Hy). specialize (Hall' _ Hx). lia. }
      subst y. f_equal. cbn in Hn. inversion Hn; subst. apply IH; [assumption|exact Hr|exact Hr'|]. eapply Permutation_cons_inv. exact Hp.
  Qed.

  Lemma sort_by_perm_eq l l' : NoDup (map key l) -> Permutation l l' -> sort_by key l = sort_by key l'.
  Proof.
    intros Hn Hp. apply sorted_perm_eq; [|apply sort_by_sorted|apply sort_by_sorted|].
    - eapply Permutation_NoDup; [|exact Hn]. apply Permutation_map. apply sort_by_perm.
    - rewrite <- (sort_by_perm l), <- (sort_by_perm l'). exact Hp.
  Qed.
End Sort.

(* ---------------- (4) the output buffer ---------------- *)
Lemma skipn_add {A} : forall a b (l : list A), skipn a (skipn b l) = skipn (b + a) l.
Proof. intros a b; revert a; induction b as [|b IH]; intros a l; [reflexivity|]. destruct l as [|x r]; [rewrite !skipn_nil; reflexivity|]. cbn [skipn plus]. apply IH. Qed.

Lemma write_regions_prior_independent : forall rs b1 b2,
  total rs <= length b1 -> total rs <= length b2 -> skipn (total rs) b1 = skipn (total rs) b2 ->
  write_regions rs b1 = write_regions rs b2.
Proof.
  induction rs as [|r t IH]; intros b1 b2 H1 H2 Ht; cbn [write_regions total] in *.
  - cbn in Ht. exact Ht.
  - destruct r as [n|b]; cbn [rlen] in *; f_equal; apply IH; rewrite ?skipn_length; try lia; rewrite !skipn_add; exact Ht.
Qed.
Lemma write_regions_length : forall rs b, total rs <= length b -> length (write_regions rs b) = length b.
Proof.
  induction rs as [|r t IH]; intros b H; cbn [write_regions total] in *; [reflexivity|].
  destruct r as [n|d]; cbn [rlen] in *; rewrite app_length, IH by (rewrite skipn_length; lia); rewrite ?repeat_length, skipn_length; lia.
Qed.

(* ---------------- (3) ordered consumption ---------------- *)
Section Merge.
  Context {A : Type} (res : nat -> A).

  Lemma take_parked_some : forall k (l : list (nat * A)) v rest,
    take_parked k l = Some (v, rest) ->
    exists l1 l2, l = l1 ++ (k, v) :: l2 /\ rest = l1 ++ l2 /\ ~ In k (map fst l1).
  Proof.
    induction l as [|[g w] r IH]; intros v rest H; cbn [take_parked] in H; [discriminate|].
    destruct (Nat.eqb_spec g k) as [->|Hne].
    - inversion H; subst. exists [], rest. repeat split; auto.
    - destruct (take_parked k r) as [[w' r']|] eqn:E; [|discriminate]. inversion H; subst.
      destruct (IH _ _ eq_refl) as (l1 & l2 & -> & -> & Hn). exists ((g, w) :: l1), l2. repeat split; auto.
      cbn. intros [H1|H1]; [congruence|contradiction].
  Qed.
  Lemma take_parked_none : forall k (l : list (nat * A)), take_parked k l = None -> ~ In k (map fst l).
  Proof.
    induction l as [|[g w] r IH]; intros H; cbn [take_parked] in H; [intros []|].
    destruct (Nat.eqb_spec g k) as [->|Hne]; [discriminate|]. destruct (take_parked k r) as [[w' r']|] eqn:E; [discriminate|].
    cbn. intros [H1|H1]; [congruence|]. exact (IH eq_refl H1).
  Qed.

  (* the invariant: consumed is the results of groups 0..next-1, in order; parked holds completed groups beyond next *)
  Definition minv (done : list nat) (m : merger A) : Prop :=
    consumed m = map res (seq 0 (next m)) /\
    NoDup (map fst (parked m)) /\
    (forall g v, In (g, v) (parked m) -> v = res g /\ next m <= g) /\
    (forall g, In g done <-> g < next m \/ In g (map fst (parked m))).

  Lemma drain_inv : forall fuel done m, minv done m -> length (parked m) <= fuel ->
    minv done (drain fuel m) /\ ~ In (next (drain fuel m)) (map fst (parked (drain fuel m))).
  Proof.
    induction fuel as [|f IH]; intros done m Hi Hf; [cbn [drain]; split; [exact Hi|]; destruct (parked m); [intros []|cbn in Hf; lia]|]. cbn [drain].
    destruct (take_parked (next m) (parked m)) as [[v rest]|] eqn:E.
    - destruct (take_parked_some _ _ _ _ E) as (l1 & l2 & Hp & Hr & Hn).
      destruct Hi as (I1 & I2 & I3 & I4).
      assert (Hv : v = res (next m)). { apply (I3 (next m) v). rewrite Hp. apply in_or_app. right; left; reflexivity. }
      apply IH.
      + unfold minv; cbn [next parked consumed]. repeat split.
        * rewrite I1, seq_S, map_app. cbn. rewrite Hv. reflexivity.
        * rewrite Hp, map_app in I2. cbn in I2. apply NoDup_remove_1 in I2. rewrite Hr, map_app. exact I2.
        * assert (In (g, v0) (parked m)) by (rewrite Hp; rewrite Hr in H; apply in_app_or in H; apply in_or_app; destruct H; [left|right; right]; assumption).
          apply (I3 _ _ H0).
        * assert (Hin : In (g, v0) (parked m)) by (rewrite Hp; rewrite Hr in H; apply in_app_or in H; apply in_or_app; destruct H; [left|right; right]; assumption).
          destruct (I3 _ _ Hin) as (_ & Hle). destruct (Nat.eq_dec g (next m)) as [->|Hne]; [|lia].
          exfalso. rewrite Hp, map_app in I2. cbn in I2. apply NoDup_remove_2 in I2. apply I2. rewrite <- map_app, <- Hr.
          change (next m) with (fst (next m, v0)). apply in_map. exact H.
        * intros Hg. apply I4 in Hg. destruct Hg as [Hg|Hg]; [left; lia|].
          rewrite Hp, map_app in Hg. cbn in Hg. apply in_app_or in Hg. rewrite Hr, map_app.
          destruct Hg as [Hg|[Hg|Hg]]; [right; apply in_or_app; left; exact Hg|left; lia|right; apply in_or_app; right; exact Hg].
        * intros [Hg|Hg]; apply I4.
          -- destruct (Nat.eq_dec g (next m)) as [->|Hne]; [right; rewrite Hp, map_app; apply in_or_app; right; left; reflexivity|left; lia].
          -- right. rewrite Hr, map_app in Hg. rewrite Hp, map_app. apply in_app_or in Hg. apply in_or_app. destruct Hg; [left|right; right]; assumption.
      + cbn [parked]. rewrite Hp, app_length in Hf. cbn [length] in Hf. rewrite Hr, app_length. clear - Hf. lia.
    - split; [exact Hi|]. apply take_parked_none. exact E.
  Qed.

  Lemma complete_inv done m g : minv done m -> ~ In g done ->
    minv (g :: done) (complete res m g) /\ ~ In (next (complete res m g)) (map fst (parked (complete res m g))).
  Proof.
    intros (I1 & I2 & I3 & I4) Hg. unfold complete. apply drain_inv; [|cbn; lia].
    unfold minv; cbn [next parked consumed]. repeat split.
    - exact I1.
    - cbn. constructor; [|exact I2]. intros H. apply Hg. apply I4. right; exact H.
    - destruct H as [H|H]; [inversion H; reflexivity|apply (I3 _ _ H)].
    - destruct H as [H|H]; [inversion H; subst|apply (I3 _ _ H)].
      destruct (le_lt_dec (next m) g0) as [Hl|Hl]; [exact Hl|]. exfalso. apply Hg. apply I4. left; exact Hl.
    - intros [->|H]; [right; left; reflexivity|]. apply I4 in H. destruct H; [left|right; right]; assumption.
    - intros [H|[H|H]]; [right; apply I4; left; exact H|left; exact H|right; apply I4; right; exact H].
  Qed.

  Lemma merge_fold_inv : forall order done m, minv done m -> ~ In (next m) (map fst (parked m)) -> NoDup order -> (forall g, In g order -> ~ In g done) ->
    let m' := fold_left (complete res) order m in
    minv (rev order ++ done) m' /\ ~ In (next m') (map fst (parked m')).
  Proof.
    induction order as [|g r IH]; intros done m Hi Hd Hn Hfresh; cbn [fold_left rev app]; [split; assumption|].
    inversion Hn as [|? ? Hg Hr]; subst.
    destruct (complete_inv done m g Hi (Hfresh g (or_introl eq_refl))) as (Hi' & Hd').
    specialize (IH (g :: done) _ Hi' Hd' Hr).
    rewrite <- app_assoc. cbn [app]. apply IH. intros x Hx [->|Hx']; [contradiction|]. apply (Hfresh x (or_intror Hx) Hx').
  Qed.

  Theorem merge_all_in_group_order n order :
    Permutation order (seq 0 n) ->
    let m := merge_all res order in consumed m = map res (seq 0 n) /\ parked m = [] /\ next m = n.
  Proof.
    intros Hp. cbn zeta. unfold merge_all.
    assert (Hn : NoDup order) by (eapply Permutation_NoDup; [apply Permutation_sym; exact Hp|apply seq_NoDup]).
    destruct (merge_fold_inv order [] {| next := 0; parked := []; consumed := [] |}) as ((I1 & I2 & I3 & I4) & Hd); auto.
    1: { unfold minv; cbn. repeat split; auto; try constructor; try contradiction; try lia. all: try (intros [H|[]]; lia). }
    set (m := fold_left (complete res) order _) in *.
    rewrite app_nil_r in I4.
    assert (Hdone : forall g, In g (rev order) <-> g < n).
    { intros g. rewrite <- in_rev. split; intros H.
      - apply (Permutation_in _ Hp) in H. apply in_seq in H. lia.
      - apply (Permutation_in _ (Permutation_sym Hp)). apply in_seq. lia. }
    assert (Hnext : next m = n).
    { destruct (lt_eq_lt_dec (next m) n) as [[Hlt|Heq]|Hgt]; [|exact Heq|].
      - exfalso. apply Hdone in Hlt. apply I4 in Hlt. destruct Hlt as [Hlt|Hlt]; [lia|contradiction].
      - exfalso. assert (In n (rev order)) by (apply I4; left; exact Hgt). apply Hdone in H. lia. }
    split; [rewrite I1, Hnext; reflexivity|]. split; [|exact Hnext].
    destruct (parked m) as [|[g v] r] eqn:E; [reflexivity|]. exfalso.
    destruct (I3 g v (or_introl eq_refl)) as (_ & Hle).
    assert (In g (rev order)) by (apply I4; right; left; reflexivity). apply Hdone in H. lia.
  Qed.
End Merge.
