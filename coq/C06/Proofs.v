From Coq Require Import ZArith List Bool Arith Lia Sorting.Permutation Sorting.Sorted.
From WV Require Import C06.Model.
Import ListNotations.

(* ---------------- (1) scatter ---------------- *)
Lemma update_length {A} (l : list A) i v : length (update l i v) = length l.
Proof. revert i; induction l as [|x r IH]; intros [|j]; cbn; auto. Qed.
Lemma nth_update_same {A} (l : list A) i v d : i < length l -> nth i (update l i v) d = v.
Proof. revert i; induction l as [|x r IH]; intros [|j] H; cbn in *; try lia; auto. apply IH. lia. Qed.
Lemma nth_update_other {A} (l : list A) i j v d : i <> j -> nth j (update l i v) d = nth j l d.
Proof. revert i j; induction l as [|x r IH]; intros [|i] [|j] H; cbn; auto; try lia. Qed.

Lemma scatter_fold {A} (f : nat -> A) d : forall order arr j,
  j < length arr ->
  length (fold_left (fun arr i => update arr i (f i)) order arr) = length arr /\
  nth j (fold_left (fun arr i => update arr i (f i)) order arr) d = if in_dec Nat.eq_dec j order then f j else nth j arr d.
Proof.
  induction order as [|i r IH]; intros arr j Hj; cbn [fold_left]; [split; reflexivity|].
  destruct (IH (update arr i (f i)) j ltac:(rewrite update_length; exact Hj)) as (L & N). rewrite update_length in L.
  split; [exact L|]. rewrite N. destruct (in_dec Nat.eq_dec j r) as [Hin|Hnin].
  - destruct (in_dec Nat.eq_dec j (i :: r)) as [_|H]; [reflexivity|]. exfalso; apply H; right; exact Hin.
  - destruct (Nat.eq_dec i j) as [->|Hne].
    + rewrite nth_update_same by exact Hj. destruct (in_dec Nat.eq_dec j (j :: r)) as [_|H]; [reflexivity|]. exfalso; apply H; left; reflexivity.
    + rewrite nth_update_other by exact Hne. destruct (in_dec Nat.eq_dec j (i :: r)) as [[H|H]|_]; [contradiction|contradiction|reflexivity].
Qed.

Lemma scatter_is_map {A} (f : nat -> A) d n order :
  (forall j, j < n -> In j order) -> scatter f d n order = map f (seq 0 n).
Proof.
  intros Hall. unfold scatter. apply (nth_ext _ _ d d).
  - destruct n as [|n']; [|].
    + cbn. clear Hall. induction order as [|i r IH]; cbn; [reflexivity|exact IH].
    + destruct (scatter_fold f d order (repeat d (S n')) 0 ltac:(rewrite repeat_length; lia)) as (L & _).
      rewrite L, repeat_length, map_length, seq_length. reflexivity.
  - intros j Hj.
    assert (Hjn : j < n).
    { destruct n as [|n']; [exfalso|].
      - assert (E : forall order', fold_left (fun arr i => update arr i (f i)) order' (@nil A) = []) by (induction order' as [|? ? IH']; cbn; auto).
        rewrite E in Hj. cbn in Hj. lia.
      - destruct (scatter_fold f d order (repeat d (S n')) 0 ltac:(rewrite repeat_length; lia)) as (L & _). rewrite L, repeat_length in Hj. exact Hj. }
    destruct (scatter_fold f d order (repeat d n) j ltac:(rewrite repeat_length; exact Hjn)) as (_ & N). rewrite N.
    destruct (in_dec Nat.eq_dec j order) as [_|H]; [|exfalso; apply H, Hall, Hjn].
    rewrite (nth_indep _ d (f 0)) by (rewrite map_length, seq_length; exact Hjn). rewrite map_nth, seq_nth by exact Hjn. reflexivity.
Qed.

(* ---------------- (2) sort by key ---------------- *)
Section Sort.
  Context {A : Type} (key : A -> Z).
  Local Open Scope Z_scope.
  Definition kle (a b : A) := key a <= key b.

  Lemma insert_by_perm x l : Permutation (x :: l) (insert_by key x l).
  Proof. induction l as [|y r IH]; cbn [insert_by]; [reflexivity|]. destruct (key x <=? key y); [reflexivity|]. rewrite perm_swap. apply perm_skip, IH. Qed.
  Lemma sort_by_perm l : Permutation l (sort_by key l).
  Proof. induction l as [|x r IH]; cbn [sort_by]; [constructor|]. rewrite <- insert_by_perm. apply perm_skip, IH. Qed.
  Lemma insert_by_sorted x l : StronglySorted kle l -> StronglySorted kle (insert_by key x l).
  Proof.
    induction l as [|y r IH]; intros Hs; cbn [insert_by]; [repeat constructor|].
    destruct (Z.leb_spec (key x) (key y)).
    - constructor; [exact Hs|]. inversion Hs as [|? ? Hr Hall]; subst. constructor; [exact H|].
      eapply Forall_impl; [|exact Hall]. unfold kle. cbn beta. intros; lia.
    - inversion Hs as [|? ? Hr Hall]; subst. constructor; [apply IH; exact Hr|].
      eapply Permutation_Forall; [apply insert_by_perm|]. constructor; [unfold kle; lia|exact Hall].
  Qed.
  Lemma sort_by_sorted l : StronglySorted kle (sort_by key l).
  Proof. induction l as [|x r IH]; cbn [sort_by]; [constructor|]. apply insert_by_sorted, IH. Qed.

  Lemma key_inj l a b : NoDup (map key l) -> In a l -> In b l -> key a = key b -> a = b.
  Proof.
    induction l as [|x r IH]; intros Hn Ha Hb E; [contradiction|]. cbn in Hn. inversion Hn as [|? ? Hx Hr]; subst.
    destruct Ha as [->|Ha], Hb as [->|Hb]; auto.
    - exfalso. apply Hx. rewrite E. apply in_map. exact Hb.
    - exfalso. apply Hx. rewrite <- E. apply in_map. exact Ha.
  Qed.

  Lemma sorted_perm_eq : forall l l', NoDup (map key l) -> StronglySorted kle l -> StronglySorted kle l' -> Permutation l l' -> l = l'.
  Proof.
    induction l as [|x r IH]; intros l' Hn Hs Hs' Hp.
    - apply Permutation_nil in Hp. subst. reflexivity.
    - destruct l' as [|y r']; [apply Permutation_sym, Permutation_nil in Hp; discriminate|].
      inversion Hs as [|? ? Hr Hall]; subst. inversion Hs' as [|? ? Hr' Hall']; subst.
      assert (Hy : In y (x :: r)) by (eapply Permutation_in; [apply Permutation_sym; exact Hp|left; reflexivity]).
      assert (Hx : In x (y :: r')) by (eapply Permutation_in; [exact Hp|left; reflexivity]).
      assert (x = y).
      { apply (key_inj (x :: r)); [exact Hn|left; reflexivity|exact Hy|].
        rewrite Forall_forall in Hall, Hall'. unfold kle in *.
        destruct Hy as [->|Hy]; [reflexivity|]. destruct Hx as [->|Hx]; [reflexivity|].
        specialize (Hall _ Hy). specialize (Hall' _ Hx). lia. }
      subst y. f_equal. cbn in Hn. inversion Hn; subst. apply IH; [assumption|exact Hr|exact Hr'|]. eapply Permutation_cons_inv. exact Hp.
  Qed.

  Lemma sort_by_perm_eq l l' : NoDup (map key l) -> Permutation l l' -> sort_by key l = sort_by key l'.
  Proof.
    intros Hn Hp. apply sorted_perm_eq; [|apply sort_by_sorted|apply sort_by_sorted|].
    - eapply Permutation_NoDup; [|exact Hn]. apply Permutation_map. apply sort_by_perm.
    - rewrite <- (sort_by_perm l), <- (sort_by_perm l'). exact Hp.
  Qed.
End Sort.

(* ---------------- (4) the output buffer ---------------- *)
Lemma skipn_add {A} : forall a b (l : list A), skipn a (skipn b l) = skipn (b + a) l.
Proof. intros a b; revert a; induction b as [|b IH]; intros a l; [reflexivity|]. destruct l as [|x r]; [rewrite !skipn_nil; reflexivity|]. cbn [skipn plus]. apply IH. Qed.

Lemma write_regions_prior_independent : forall rs b1 b2,
  total rs <= length b1 -> total rs <= length b2 -> skipn (total rs) b1 = skipn (total rs) b2 ->
  write_regions rs b1 = write_regions rs b2.
Proof.
  induction rs as [|r t IH]; intros b1 b2 H1 H2 Ht; cbn [write_regions total] in *.
  - cbn in Ht. exact Ht.
  - destruct r as [n|b]; cbn [rlen] in *; f_equal; apply IH; rewrite ?skipn_length; try lia; rewrite !skipn_add; exact Ht.
Qed.
Lemma write_regions_length : forall rs b, total rs <= length b -> length (write_regions rs b) = length b.
Proof.
  induction rs as [|r t IH]; intros b H; cbn [write_regions total] in *; [reflexivity|].
  destruct r as [n|d]; cbn [rlen] in *; rewrite app_length, IH by (rewrite skipn_length; lia); rewrite ?repeat_length, skipn_length; lia.
Qed.
