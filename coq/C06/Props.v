(* C06 — output bytes are deterministic: the property theorems. Model: C06/Model.v. *)
From Coq Require Import ZArith List Bool Arith Lia Sorting.Permutation.
From WV Require Import C06.Model C06.Proofs.
Import ListNotations.

(* (1) results stored by index: whatever order the parallel tasks complete in (every index at least once), the table
   is `map f [0..n)`. *)
Theorem C06_indexed_results_ignore_completion_order :
  forall (A : Type) (f : nat -> A) d n order order',
    (forall j, j < n -> In j order) -> (forall j, j < n -> In j order') ->
    scatter f d n order = scatter f d n order' /\ scatter f d n order = map f (seq 0 n).
Proof. intros A f d n o o' H H'. rewrite (scatter_is_map f d n o H), (scatter_is_map f d n o' H'). split; reflexivity. Qed.
Print Assumptions C06_indexed_results_ignore_completion_order.

(* (2) a collection sorted by a key that identifies its elements comes out the same for every arrival order *)
Theorem C06_sorted_by_identifying_key_ignores_arrival_order :
  forall (A : Type) (key : A -> Z) l l',
    NoDup (map key l) -> Permutation l l' -> sort_by key l = sort_by key l'.
Proof. intros A key l l'. apply sort_by_perm_eq. Qed.
Print Assumptions C06_sorted_by_identifying_key_ignores_arrival_order.

(* (3) per-group results are consumed in group order whatever order the groups finish in, and nothing stays parked *)
Theorem C06_group_results_consumed_in_group_order :
  forall (A : Type) (res : nat -> A) n order,
    Permutation order (seq 0 n) ->
    let m := merge_all res order in consumed m = map res (seq 0 n) /\ parked m = [] /\ next m = n.
Proof. intros A res n order. apply merge_all_in_group_order. Qed.
Print Assumptions C06_group_results_consumed_in_group_order.

(* (4) the regions tile the file: the bytes written do not depend on what the file held before (same length), and
   the length is unchanged *)
Theorem C06_output_independent_of_previous_contents :
  forall rs prior1 prior2,
    total rs = length prior1 -> total rs = length prior2 ->
    write_regions rs prior1 = write_regions rs prior2 /\ length (write_regions rs prior1) = total rs.
Proof.
  intros rs b1 b2 H1 H2. split.
  - apply write_regions_prior_independent; try lia. rewrite H1 at 1. rewrite H2. rewrite !skipn_all. reflexivity.
  - rewrite write_regions_length; lia.
Qed.
Print Assumptions C06_output_independent_of_previous_contents.

(* any function of the output bytes — the fast build ID is one — inherits the determinism *)
Theorem C06_build_id_is_a_function_of_the_bytes :
  forall (H : list Z -> list Z) rs prior1 prior2,
    total rs = length prior1 -> total rs = length prior2 -> H (write_regions rs prior1) = H (write_regions rs prior2).
Proof. intros H rs b1 b2 H1 H2. f_equal. apply C06_output_independent_of_previous_contents; assumption. Qed.

(* were a padding region left as it was, the old contents would show through *)
Theorem C06_refuted_without_zero_fill :
  let rs := [Data [1; 2]; Pad 2; Data [3]]%Z in
  total rs = 5 /\ write_regions_nofill rs [9; 9; 9; 9; 9]%Z <> write_regions_nofill rs [0; 0; 0; 0; 0]%Z /\
  write_regions rs [9; 9; 9; 9; 9]%Z = [1; 2; 0; 0; 3]%Z.
Proof. cbn. repeat split; discriminate. Qed.
Print Assumptions C06_refuted_without_zero_fill.

Example C06_example_merge : consumed (merge_all (fun g => g * 10) [2; 0; 3; 1]) = [0; 10; 20; 30].
Proof. vm_compute. reflexivity. Qed.
Example C06_example_scatter : scatter (fun i => i * i) 0 4 [3; 1; 0; 2; 1] = [0; 1; 4; 9].
Proof. vm_compute. reflexivity. Qed.
