//! C15 — section rule table through libwild::verif_hooks::layout_rules::lookup.
fn unhex(s: &str) -> Vec<u8> {
    if s == "-" {
        return Vec::new();
    }
    (0..s.len() / 2)
        .map(|i| u8::from_str_radix(&s[2 * i..2 * i + 2], 16).unwrap())
        .collect()
}

/// `q PAT:FILEPAT|~:KEEP,...  NAME:FILE,...` (hex fields; FILEPAT `~` = none) -> `i:k` / `-` per query, or `REJECT`
pub fn run_case(t: &[&str]) -> String {
    let rules_owned: Vec<(Vec<u8>, Option<Vec<u8>>, bool)> = t[1]
        .split(',')
        .map(|r| {
            let f: Vec<&str> = r.split(':').collect();
            (unhex(f[0]), if f[1] == "~" { None } else { Some(unhex(f[1])) }, f[2] == "1")
        })
        .collect();
    let queries_owned: Vec<(Vec<u8>, Vec<u8>)> = t[2]
        .split(',')
        .map(|q| {
            let f: Vec<&str> = q.split(':').collect();
            (unhex(f[0]), unhex(f[1]))
        })
        .collect();
    let rules: Vec<(&[u8], Option<&[u8]>, bool)> =
        rules_owned.iter().map(|(p, f, k)| (p.as_slice(), f.as_deref(), *k)).collect();
    let queries: Vec<(&[u8], Option<&[u8]>)> =
        queries_owned.iter().map(|(n, f)| (n.as_slice(), Some(f.as_slice()))).collect();
    match libwild::verif_hooks::layout_rules::lookup(&rules, &queries) {
        Err(()) => "REJECT".to_string(),
        Ok(v) => v
            .iter()
            .map(|o| match o {
                Some((i, k)) => format!("{i}:{}", u8::from(*k)),
                None => "-".to_string(),
            })
            .collect::<Vec<_>>()
            .join(","),
    }
}
