use crate::p64;
use libwild::verif_hooks::alignment as a;

/// Case forms: `new RAW` | `up E V` | `down E V` | `mod E REF OFF`
pub fn run_case(t: &[&str]) -> String {
    match t[0] {
        "new" => match a::new(p64(t[1])) {
            Some(e) => format!("S {e}"),
            None => "N".to_string(),
        },
        "up" => format!("{}", a::align_up(p64(t[1]) as u8, p64(t[2]))),
        "down" => format!("{}", a::align_down(p64(t[1]) as u8, p64(t[2]))),
        "mod" => format!("{}", a::align_modulo(p64(t[1]) as u8, p64(t[2]), p64(t[3]))),
        _ => "BADCASE".to_string(),
    }
}
