//! C12/C13 — public API of linker-utils: relocation tables, verify/write_to_buffer, instruction
//! field writers/readers.
use crate::p64;
use linker_utils::elf::AArch64Instruction as A;
use linker_utils::elf::LoongArch64Instruction as L;
use linker_utils::elf::RelocationInstruction as RI;
use linker_utils::elf::RelocationKindInfo;
use linker_utils::elf::RelocationSize;
use linker_utils::elf::RiscVInstruction as R;

pub fn table(arch: &str, r_type: u32) -> Option<RelocationKindInfo> {
    match arch {
        "x86_64" => linker_utils::x86_64::relocation_from_raw(r_type),
        "aarch64" => linker_utils::aarch64::relocation_type_from_raw(r_type),
        "riscv64" => linker_utils::riscv64::relocation_type_from_raw(r_type),
        "loongarch64" => linker_utils::loongarch64::relocation_type_from_raw(r_type),
        _ => panic!("arch"),
    }
}

pub fn insn_name(i: RI) -> String {
    match i {
        RI::AArch64(a) => format!("A64.{a:?}"),
        RI::RiscV(a) => format!("RV.{a:?}"),
        RI::LoongArch64(a) => format!("LA.{a:?}"),
    }
}

pub fn insn_by_name(s: &str) -> RI {
    match s {
        "A64.Adr" => RI::AArch64(A::Adr),
        "A64.Movkz" => RI::AArch64(A::Movkz),
        "A64.Movnz" => RI::AArch64(A::Movnz),
        "A64.Ldr" => RI::AArch64(A::Ldr),
        "A64.LdrRegister" => RI::AArch64(A::LdrRegister),
        "A64.Add" => RI::AArch64(A::Add),
        "A64.LdSt" => RI::AArch64(A::LdSt),
        "A64.TstBr" => RI::AArch64(A::TstBr),
        "A64.Bcond" => RI::AArch64(A::Bcond),
        "A64.JumpCall" => RI::AArch64(A::JumpCall),
        "RV.UiType" => RI::RiscV(R::UiType),
        "RV.UType" => RI::RiscV(R::UType),
        "RV.IType" => RI::RiscV(R::IType),
        "RV.SType" => RI::RiscV(R::SType),
        "RV.BType" => RI::RiscV(R::BType),
        "RV.JType" => RI::RiscV(R::JType),
        "RV.CbType" => RI::RiscV(R::CbType),
        "RV.CjType" => RI::RiscV(R::CjType),
        "RV.CluiType" => RI::RiscV(R::CluiType),
        "LA.Shift5" => RI::LoongArch64(L::Shift5),
        "LA.Shift10" => RI::LoongArch64(L::Shift10),
        "LA.Branch21" => RI::LoongArch64(L::Branch21),
        "LA.Branch26" => RI::LoongArch64(L::Branch26),
        "LA.Call30" => RI::LoongArch64(L::Call30),
        "LA.Call36" => RI::LoongArch64(L::Call36),
        _ => panic!("unknown instruction {s}"),
    }
}

/// `dump ARCH R_TYPE` -> one row or `-`
pub fn dump(t: &[&str]) -> String {
    let r_type = p64(t[1]) as u32;
    match table(t[0], r_type) {
        None => "-".to_string(),
        Some(i) => {
            let size = match i.size {
                RelocationSize::ByteSize(n) => format!("B {n}"),
                RelocationSize::BitMasking(m) => {
                    format!("M {} {} {}", insn_name(m.instruction), m.range.start, m.range.end)
                }
            };
            let mask = match i.mask {
                None => "nomask".to_string(),
                Some(m) => format!("{m:?}").replace(' ', ""),
            };
            format!(
                "{:?} | {} | {} | {} {} | {} | {} | {}",
                i.kind, size, mask, i.range.min, i.range.max, i.alignment, i.bias, i.thunkable
            )
            .replace("  ", " ")
        }
    }
}

/// `w KIND OLD VALUE NEG` -> new 64-bit little-endian window, guard ok flag
pub fn c13(t: &[&str]) -> String {
    match t[0] {
        "w" => {
            let insn = insn_by_name(t[1]);
            let old = p64(t[2]);
            let v = p64(t[3]);
            let neg = t[4] == "1";
            let mut buf = [0xA5u8; 16];
            buf[..8].copy_from_slice(&old.to_le_bytes());
            insn.write_to_value(v, neg, &mut buf[..8]);
            let new = u64::from_le_bytes(buf[..8].try_into().unwrap());
            let guard = buf[8..].iter().all(|b| *b == 0xA5);
            format!("{new} {}", u8::from(guard))
        }
        "r" => {
            let insn = insn_by_name(t[1]);
            let w = p64(t[2]);
            let (v, n) = insn.read_value(&w.to_le_bytes());
            format!("{v} {}", u8::from(n))
        }
        _ => "BADCASE".into(),
    }
}

/// `v ARCH R_TYPE VALUE OLD` -> `E` (verify/write error) | `OK <new 16 bytes as two u64 LE>`
pub fn c12(t: &[&str]) -> String {
    let info = table(t[1], p64(t[2]) as u32).expect("no such relocation");
    let value = p64(t[3]);
    let old = p64(t[4]);
    let mut buf = [0u8; 16];
    buf[..8].copy_from_slice(&old.to_le_bytes());
    buf[8..].copy_from_slice(&old.to_le_bytes());
    match info.write_to_buffer(value, &mut buf) {
        Ok(()) => format!(
            "OK {} {}",
            u64::from_le_bytes(buf[..8].try_into().unwrap()),
            u64::from_le_bytes(buf[8..].try_into().unwrap())
        ),
        Err(_) => "E".to_string(),
    }
}
