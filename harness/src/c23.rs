//! C23 — what layout reserves for one resolution, through libwild::verif_hooks::elf::allocate_resolution.
/// `FLAGBITS OKIND RELR` -> six byte counts
pub fn run_case(t: &[&str]) -> String {
    let r = libwild::verif_hooks::elf::allocate_resolution(t[0].parse().unwrap(), t[1].parse().unwrap(), t[2] == "1");
    r.iter().map(|x| x.to_string()).collect::<Vec<_>>().join(" ")
}
