//! C14 — x86-64 relaxations: `ElfX86_64::new_relaxation` + `Relaxation::apply` through
//! libwild::verif_hooks::x86_64::new_relaxation, and `RelaxationKind::apply` directly.
use linker_utils::x86_64::RelaxationKind;

fn unhex(s: &str) -> Vec<u8> {
    if s == "-" {
        return Vec::new();
    }
    (0..s.len() / 2)
        .map(|i| u8::from_str_radix(&s[2 * i..2 * i + 2], 16).unwrap())
        .collect()
}
fn hex(b: &[u8]) -> String {
    if b.is_empty() {
        return "-".into();
    }
    b.iter().map(|x| format!("{x:02x}")).collect()
}

fn kind_from(name: &str, arg: u8) -> Option<RelaxationKind> {
    Some(match name {
        "MovIndirectToLea" => RelaxationKind::MovIndirectToLea,
        "MovIndirectToAbsolute" => RelaxationKind::MovIndirectToAbsolute,
        "RexMovIndirectToAbsolute" => RelaxationKind::RexMovIndirectToAbsolute(arg),
        "RexAddIndirectToAbsolute" => RelaxationKind::RexAddIndirectToAbsolute(arg),
        "RexSubIndirectToAbsolute" => RelaxationKind::RexSubIndirectToAbsolute(arg),
        "RexCmpIndirectToAbsolute" => RelaxationKind::RexCmpIndirectToAbsolute(arg),
        "CallIndirectToRelative" => RelaxationKind::CallIndirectToRelative,
        "JmpIndirectToRelative" => RelaxationKind::JmpIndirectToRelative,
        "NoOp" => RelaxationKind::NoOp,
        "TlsGdToLocalExec" => RelaxationKind::TlsGdToLocalExec,
        "TlsGdToLocalExecLarge" => RelaxationKind::TlsGdToLocalExecLarge,
        "TlsLdToLocalExec" => RelaxationKind::TlsLdToLocalExec,
        "TlsLdToLocalExecNoPlt" => RelaxationKind::TlsLdToLocalExecNoPlt,
        "TlsLdToLocalExec64" => RelaxationKind::TlsLdToLocalExec64,
        "TlsGdToInitialExec" => RelaxationKind::TlsGdToInitialExec,
        "TlsDescToLocalExec" => RelaxationKind::TlsDescToLocalExec(arg),
        "TlsDescToInitialExec" => RelaxationKind::TlsDescToInitialExec,
        "SkipTlsDescCall" => RelaxationKind::SkipTlsDescCall,
        _ => return None,
    })
}

/// `n RTYPE HEX OFF FLAGS OKIND EXEC ADDEND` -> `KIND|RELINFO|mand|HEX|off|addend|skip` or `NONE`
/// `a KIND ARG HEX OFF ADDEND`               -> `HEX|off|addend`
/// `i RTYPE`                                  -> Debug of relocation_from_raw(RTYPE) or `NONE`
pub fn run_case(t0: &[&str]) -> String {
    let t: Vec<&str> = std::iter::once("c14").chain(t0.iter().copied()).collect();
    match t[1] {
        "n" => {
            let r = libwild::verif_hooks::x86_64::new_relaxation(
                t[2].parse().unwrap(),
                &unhex(t[3]),
                t[4].parse().unwrap(),
                t[5].parse().unwrap(),
                t[6].parse().unwrap(),
                t[7] == "1",
                t[8].parse().unwrap(),
            );
            match r {
                None => "NONE".into(),
                Some((k, ri, m, b, o, a, s)) => {
                    format!("{}|{}|{}|{}|{}|{}|{}", k.replace(' ', ""), ri.replace(' ', ""), u8::from(m), hex(&b), o, a, u8::from(s))
                }
            }
        }
        "a" => {
            let k = kind_from(t[2], t[3].parse().unwrap()).unwrap();
            let mut b = unhex(t[4]);
            let mut o: u64 = t[5].parse().unwrap();
            let mut a: i64 = t[6].parse().unwrap();
            k.apply(&mut b, &mut o, &mut a);
            format!("{}|{}|{}", hex(&b), o, a)
        }
        "i" => match linker_utils::x86_64::relocation_from_raw(t[2].parse().unwrap()) {
            None => "NONE".into(),
            Some(ri) => format!("{ri:?}").replace(' ', ""),
        },
        _ => "BAD".into(),
    }
}
