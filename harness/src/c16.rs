//! C16 — linker-script expressions through libwild::verif_hooks::linker_script.
use libwild::verif_hooks::linker_script as ls;

fn unhex(s: &str) -> String {
    let b: Vec<u8> = (0..s.len() / 2)
        .map(|i| u8::from_str_radix(&s[2 * i..2 * i + 2], 16).unwrap())
        .collect();
    String::from_utf8(b).unwrap()
}

/// `x HEX` -> `<ast or REJECT> | <value or P or E>`
pub fn run_case(t: &[&str]) -> String {
    let text = unhex(t[1]);
    let ast = ls::parse_expression(&text).unwrap_or_else(|| "REJECT".to_string());
    let val = match ls::eval_const(&text) {
        Ok(v) => format!("{v}"),
        Err(e) => e.to_string(),
    };
    format!("{ast} | {val}")
}
