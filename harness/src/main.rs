//! wvh — runs the IMPLEMENTATION (crates under /repo) on case files; one canonical output line per
//! case line. Every call is wrapped in catch_unwind; a panic is the outcome `PANIC`.
use std::io::BufRead;
use std::io::Write;

mod c29;
mod relocs;
mod c16;
mod c02;
mod c15;
mod c14;
mod c23;
mod c11;
mod c22;

fn main() {
    std::panic::set_hook(Box::new(|_| {}));
    let args: Vec<String> = std::env::args().collect();
    let cmd = args.get(1).map(String::as_str).unwrap_or("");
    let f: fn(&[&str]) -> String = match cmd {
        "c29" => c29::run_case,
        "dump" => relocs::dump,
        "c13" => relocs::c13,
        "c12" => relocs::c12,
        "c16" => c16::run_case,
        "c02" => c02::run_case,
        "c15" => c15::run_case,
        "c14" => c14::run_case,
        "c23" => c23::run_case,
        "c11" => c11::run_case,
        "c22" => c22::run_case,
        _ => {
            eprintln!("unknown subcommand {cmd}");
            std::process::exit(2);
        }
    };
    let stdin = std::io::stdin();
    let stdout = std::io::stdout();
    let mut out = std::io::BufWriter::new(stdout.lock());
    for line in stdin.lock().lines() {
        let line = line.unwrap();
        if line.is_empty() {
            continue;
        }
        let toks: Vec<&str> = line.split_whitespace().collect();
        let r = std::panic::catch_unwind(|| f(&toks));
        match r {
            Ok(s) => writeln!(out, "{s}").unwrap(),
            Err(_) => writeln!(out, "PANIC").unwrap(),
        }
    }
}

pub fn p64(s: &str) -> u64 {
    if let Some(h) = s.strip_prefix("0x") {
        u64::from_str_radix(h, 16).unwrap()
    } else {
        s.parse().unwrap()
    }
}
