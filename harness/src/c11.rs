//! C11 — thunk block assignment through libwild::verif_hooks::thunks::assign_thunk_blocks.
/// `RANGE OFFSET SIZE,SIZE,...` -> `NBLOCKS block:owner,...` (`-` for an object that was never assigned)
pub fn run_case(t: &[&str]) -> String {
    let range: u64 = t[0].parse().unwrap();
    let mut off: u64 = t[1].parse().unwrap();
    let mut objs = Vec::new();
    for s in t[2].split(',') {
        let z: u64 = s.parse().unwrap();
        objs.push((off, off + z));
        off += z;
    }
    let (n, r) = libwild::verif_hooks::thunks::assign_thunk_blocks(&objs, range);
    let parts: Vec<String> = r
        .iter()
        .map(|x| match x {
            Some((b, o)) => format!("{b}:{}", u8::from(*o)),
            None => "-".into(),
        })
        .collect();
    format!("{n} {}", parts.join(","))
}
