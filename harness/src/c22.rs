//! C22 — the tokenizer, the archive iterator and the version-script / export-list parsers through libwild::verif_hooks.
fn unhex(s: &str) -> Vec<u8> {
    (0..s.len() / 2).map(|i| u8::from_str_radix(&s[2 * i..2 * i + 2], 16).unwrap()).collect()
}
fn hex(b: &[u8]) -> String {
    b.iter().map(|x| format!("{x:02x}")).collect()
}
/// `tok HEX(utf-8)` -> `OK hex,hex,...` | `ERR message`;  `ar HEX` -> `name:off:len;...` then ` ERR message` if any
pub fn run_case(t: &[&str]) -> String {
    match t[0] {
        "tok" => {
            let bytes = unhex(t.get(1).copied().unwrap_or(""));
            let Ok(text) = String::from_utf8(bytes) else { return "NOTUTF8".to_owned() };
            match libwild::verif_hooks::args::arguments_from_string(&text) {
                Ok(args) => format!("OK {}", args.iter().map(|a| hex(a.as_bytes())).collect::<Vec<_>>().join(",")),
                Err(e) => format!("ERR {}", e.lines().next().unwrap_or("")),
            }
        }
        "ar" => {
            let (entries, err) = libwild::verif_hooks::archive::entries(&unhex(t.get(1).copied().unwrap_or("")));
            let mut s = entries.iter().map(|(n, o, l)| format!("{}:{o}:{l}", hex(n))).collect::<Vec<_>>().join(";");
            if let Some(e) = err {
                s.push_str(&format!(" ERR {}", e.lines().next().unwrap_or("")));
            }
            format!("AR {s}")
        }
        // `vs HEX` / `el HEX` -> the canonical rendering of the parsed version script / export list, lines joined by '|'
        "vs" => libwild::verif_hooks::scripts::version_script(&unhex(t.get(1).copied().unwrap_or(""))).trim_end().replace('\n', "|"),
        "el" => libwild::verif_hooks::scripts::export_list(&unhex(t.get(1).copied().unwrap_or(""))).trim_end().replace('\n', "|"),
        _ => "BAD".to_owned(),
    }
}
