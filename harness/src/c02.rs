//! C02 — SymbolPrioritySelector through libwild::verif_hooks::symbol_db::select.
/// `s CODE:SIZE CODE:SIZE ...` -> index of best or `-`
pub fn run_case(t: &[&str]) -> String {
    let cands: Vec<(u8, u64)> = t[1..]
        .iter()
        .map(|c| {
            let (a, b) = c.split_once(':').unwrap();
            (a.parse().unwrap(), b.parse().unwrap())
        })
        .collect();
    match libwild::verif_hooks::symbol_db::select(&cands) {
        Some(i) => format!("{i}"),
        None => "-".to_string(),
    }
}
