"""Dependency-free ELF64 little-endian reader: headers, sections, segments, symbol tables, dynamic
section, RELA/RELR, hash tables, notes.  Used to turn wild's OUTPUT into the abstract records the
models talk about."""
import struct


class Elf:
    def __init__(self, path):
        self.path = path
        self.b = b = open(path, "rb").read()
        if b[:4] != b"\x7fELF" or b[4] != 2 or b[5] != 1:
            raise ValueError("not an ELF64 LE file: " + path)
        (self.e_type, self.e_machine, _v, self.e_entry, self.e_phoff, self.e_shoff, self.e_flags, _ehs, self.e_phentsize,
         self.e_phnum, self.e_shentsize, self.e_shnum, self.e_shstrndx) = struct.unpack_from("<HHIQQQIHHHHHH", b, 16)
        self.phdrs = []
        for i in range(self.e_phnum):
            t, fl, off, va, pa, fsz, msz, al = struct.unpack_from("<IIQQQQQQ", b, self.e_phoff + i * self.e_phentsize)
            self.phdrs.append(dict(type=t, flags=fl, offset=off, vaddr=va, paddr=pa, filesz=fsz, memsz=msz, align=al))
        self.shdrs = []
        for i in range(self.e_shnum):
            n, t, fl, ad, off, sz, lk, inf, al, es = struct.unpack_from("<IIQQQQIIQQ", b, self.e_shoff + i * self.e_shentsize)
            self.shdrs.append(dict(name_off=n, type=t, flags=fl, addr=ad, offset=off, size=sz, link=lk, info=inf, align=al, entsize=es, index=i))
        if self.e_shnum and self.e_shstrndx < self.e_shnum:
            st = self.shdrs[self.e_shstrndx]
            for s in self.shdrs:
                s["name"] = self.cstr(st["offset"] + s["name_off"])
        self.by_name = {}
        for s in self.shdrs:
            self.by_name.setdefault(s.get("name", ""), s)

    def cstr(self, off):
        e = self.b.index(b"\0", off)
        return self.b[off:e].decode("latin1")

    def section(self, name):
        return self.by_name.get(name)

    def data(self, sec):
        if sec is None or sec["type"] == 8:
            return b""
        return self.b[sec["offset"]:sec["offset"] + sec["size"]]

    def symbols(self, secname):
        sec = self.section(secname)
        if sec is None:
            return []
        strsec = self.shdrs[sec["link"]]
        d = self.data(sec)
        out = []
        for i in range(len(d) // 24):
            n, info, other, shndx, val, sz = struct.unpack_from("<IBBHQQ", d, i * 24)
            out.append(dict(index=i, name=self.cstr(strsec["offset"] + n), bind=info >> 4, type=info & 15, vis=other & 3,
                            shndx=shndx, value=val, size=sz))
        return out

    def dynamic(self):
        sec = self.section(".dynamic")
        d = self.data(sec)
        out = []
        for i in range(len(d) // 16):
            tag, val = struct.unpack_from("<qQ", d, i * 16)
            out.append((tag, val))
            if tag == 0:
                break
        return out

    def words(self, secname, fmt="<I"):
        d = self.data(self.section(secname))
        n = struct.calcsize(fmt)
        return [struct.unpack_from(fmt, d, i * n)[0] for i in range(len(d) // n)]

    def relas(self, secname):
        d = self.data(self.section(secname))
        out = []
        for i in range(len(d) // 24):
            off, info, add = struct.unpack_from("<QQq", d, i * 24)
            out.append(dict(offset=off, type=info & 0xffffffff, sym=info >> 32, addend=add))
        return out

    def vaddr_to_off(self, va):
        for p in self.phdrs:
            if p["type"] == 1 and p["vaddr"] <= va < p["vaddr"] + p["filesz"]:
                return va - p["vaddr"] + p["offset"]
        return None

    def read_va(self, va, n):
        off = self.vaddr_to_off(va)
        if off is None:
            return None
        return self.b[off:off + n]


def gnu_hash(name):
    h = 5381
    for c in name.encode("latin1") if isinstance(name, str) else name:
        h = (h * 33 + c) & 0xffffffff
    return h


def sysv_hash(name):
    h = 0
    for c in name.encode("latin1") if isinstance(name, str) else name:
        h = ((h << 4) + c) & 0xffffffff
        g = h & 0xf0000000
        h ^= g >> 24
        h &= ~g & 0xffffffff
    return h


def gnu_lookup(e, name):
    """glibc do_lookup_x, new-hash path, over the file's own .gnu.hash/.dynsym. Returns dynsym index or None."""
    sec = e.section(".gnu.hash")
    if sec is None:
        return None
    d = e.data(sec)
    nb, symbase, bloom_n, shift = struct.unpack_from("<IIII", d, 0)
    bloom = [struct.unpack_from("<Q", d, 16 + 8 * i)[0] for i in range(bloom_n)]
    boff = 16 + 8 * bloom_n
    buckets = [struct.unpack_from("<I", d, boff + 4 * i)[0] for i in range(nb)]
    coff = boff + 4 * nb
    nchain = (len(d) - coff) // 4
    chains = [struct.unpack_from("<I", d, coff + 4 * i)[0] for i in range(nchain)]
    syms = e.symbols(".dynsym")
    h = gnu_hash(name)
    w = bloom[(h // 64) & (bloom_n - 1)] if bloom_n else 0
    if not ((w >> (h % 64)) & (w >> ((h >> shift) % 64)) & 1):
        return None
    if nb == 0:
        return None
    b = buckets[h % nb]
    if b == 0:
        return None
    i = b
    while True:
        k = i - symbase
        if k < 0 or k >= nchain:
            return ("OUT_OF_TABLE", i)
        c = chains[k]
        if ((c ^ h) >> 1) == 0 and i < len(syms) and syms[i]["name"] == name:
            return i
        if c & 1:
            return None
        i += 1


def sysv_lookup(e, name):
    w = e.words(".hash")
    if len(w) < 2:
        return None
    nb, nc = w[0], w[1]
    buckets = w[2:2 + nb]
    chains = w[2 + nb:2 + nb + nc]
    syms = e.symbols(".dynsym")
    if nb == 0:
        return None
    i = buckets[sysv_hash(name) % nb]
    fuel = nc + 1
    while i != 0 and fuel > 0:
        if i >= len(syms) or i >= nc:
            return ("OUT_OF_TABLE", i)
        if syms[i]["name"] == name:
            return i
        i = chains[i]
        fuel -= 1
    return None if fuel > 0 else ("CYCLE", i)
