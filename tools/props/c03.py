"""C03 — archive members are loaded exactly when needed (and C37's loaded shared libraries).
Theorems: coq/C03/Props.v.  Tie (T2): generated link lines (objects, archives, thin archives, --whole-archive regions, --start-lib groups,
shared libraries under --as-needed / --no-as-needed, weak and strong references, chains and cycles across archives); the loaded set is read
from wild's output (one marker symbol per file; DT_NEEDED for shared libraries) and compared with the specified least fixed point, which is
computed by the driver and VERIFIED by the Coq certificate checker (C03_certificate_sound) on every case."""
from wvlib import *
import elfread, tempfile

TRUSTED = [
    "Coq 8.16.1 kernel incl. vm_compute; axioms: none",
    "model C03/Model.v: is_optional, name table = first global definition in command-line order, resolve_symbol's request rule, worklist with at-most-once activation",
    "when several files define a name, the property text is silent: the model follows the mechanism (the member that is the FIRST definition in command-line order is the one loaded); "
    "ld/lld may pick differently (observations 15/21 in DESIGN.md), which is not counted as a violation",
    "tie: wild binary on generated link lines; marker symbols / DT_NEEDED read with tools/elfread.py; symbol versions, hidden visibility and LTO are outside the generator",
]
IMPORTS = """From Coq Require Import List Bool Arith. Import ListNotations.
From WV Require Import C03.Model.
Definition F (o d : bool) (ds : list nat) (us : list (nat * bool)) : file := {| optional := o; dynamic := d; defs := ds; undefs := us |}.
Definition chk (files : list file) (S : list nat) := (closed_ok files S && derivable_ok files S [], needed files S).
"""


def gen_case(rng):
    nnames = rng.randrange(3, 9)
    files = []      # dict(kind, group, defs, undefs)
    nobj = rng.randrange(1, 3)
    items = []      # link-line items: ("obj", [fileidx]) / ("ar", [idx...], whole, thin) / ("lib", [idx...]) / ("so", idx, as_needed)
    for _ in range(nobj):
        files.append(dict(kind="obj"))
        items.append(("obj", [len(files) - 1]))
    for _ in range(rng.randrange(1, 4)):
        members = []
        for _ in range(rng.randrange(1, 4)):
            files.append(dict(kind="member"))
            members.append(len(files) - 1)
        items.append(("ar", members, rng.random() < 0.2, rng.random() < 0.3))
    if rng.random() < 0.4:
        members = []
        for _ in range(rng.randrange(1, 3)):
            files.append(dict(kind="member"))
            members.append(len(files) - 1)
        items.append(("lib", members))
    for _ in range(rng.choice([0, 0, 1, 2])):
        files.append(dict(kind="so"))
        items.append(("so", len(files) - 1, rng.random() < 0.6))
    first = items[0]
    rest = items[1:]
    rng.shuffle(rest)
    items = [first] + rest
    # renumber files in link order
    order = []
    for it in items:
        order += it[1] if it[0] != "so" else [it[1]]
    remap = {old: new for new, old in enumerate(order)}
    files = [files[o] for o in order]
    items = [(it[0], [remap[x] for x in it[1]], *it[2:]) if it[0] != "so" else ("so", remap[it[1]], it[2]) for it in items]
    # definitions: every name defined by 1-2 files (weak when duplicated), never by the first object
    for f in files:
        f["defs"], f["undefs"] = [], []
    for n in range(nnames):
        definers = rng.sample(range(1, len(files)), min(len(files) - 1, rng.choice([1, 1, 1, 2])))
        for d in definers:
            files[d]["defs"].append(n)
    multi = {n for n in range(nnames) if sum(1 for f in files if n in f["defs"]) > 1}
    # references
    for i, f in enumerate(files):
        for _ in range(rng.choice([0, 1, 1, 2, 3])):
            n = rng.randrange(nnames)
            if n in f["defs"] or any(u[0] == n for u in f["undefs"]):
                continue
            if f["kind"] == "so" and rng.random() < 0.5:
                continue
            f["undefs"].append((n, rng.random() < 0.3))
    # for each flag, whole-archive members are non-optional
    # (the modifiers are regions, see build(): a --start-lib group that follows a --whole-archive archive is still inside
    #  the region, and its objects are members "in a whole-archive region")
    whole = False
    for it in items:
        if it[0] == "obj":
            files[it[1][0]]["optional"] = False
        elif it[0] == "ar":
            whole = bool(it[2])
            for m in it[1]:
                files[m]["optional"] = not it[2]
        elif it[0] == "lib":
            for m in it[1]:
                files[m]["optional"] = not whole
        else:
            files[it[1]]["optional"] = it[2]
    return files, items, multi


def closure(files):
    def first_def(n):
        for i, f in enumerate(files):
            if n in f["defs"]:
                return i
        return None
    order = [i for i, f in enumerate(files) if not f["optional"]]
    seen = set(order)
    k = 0
    while k < len(order):
        i = order[k]
        k += 1
        f = files[i]
        for (n, weak) in f["undefs"]:
            if weak:
                continue
            m = first_def(n)
            if m is None or m == i:
                continue
            if f["kind"] == "so" and files[m]["kind"] == "so":
                continue
            if m not in seen:
                seen.add(m)
                order.append(m)
    return order


def build(d, files, items, multi):
    paths = {}
    for i, f in enumerate(files):
        s = [f'.section .text.mark_{i},"ax",@progbits\n.globl mark_{i}\n.type mark_{i},@function\nmark_{i}: ret']
        for n in f["defs"]:
            bind = ".weak" if n in multi else ".globl"
            s.append(f'.section .text.fn_{n}_{i},"ax",@progbits\n{bind} fn_{n}\n.type fn_{n},@function\nfn_{n}: ret')
        s.append(f'.section .data.refs_{i},"aw",@progbits')
        for (n, weak) in f["undefs"]:
            if weak:
                s.append(f".weak fn_{n}")
            s.append(f" .quad fn_{n}")
        if i == 0:
            s.append('.section .text._start,"ax",@progbits\n.globl _start\n_start: ret')
        open(f"{d}/f{i}.s", "w").write("\n".join(s) + "\n")
        sh(f"as -o {d}/f{i}.o {d}/f{i}.s", check=True)
        paths[i] = f"{d}/f{i}.o"
    argv = []
    k = 0
    # the two modifiers are regions: a flag is written only where the state an archive (--whole-archive) or a shared
    # library (--as-needed) needs differs from the current one, so shared libraries sit inside --whole-archive regions
    # and archives inside --as-needed regions; each modifier must affect its own kind of input only
    whole = asneeded = False
    for it in items:
        if it[0] == "obj":
            argv.append(paths[it[1][0]])
        elif it[0] == "ar":
            k += 1
            ap = f"{d}/lib{k}.a"
            sh(["ar", "rcsT" if it[3] else "rcs", ap] + [paths[m] for m in it[1]], check=True)
            if bool(it[2]) != whole:
                whole = bool(it[2])
                argv.append("--whole-archive" if whole else "--no-whole-archive")
            argv.append(ap)
        elif it[0] == "lib":
            argv += ["--start-lib"] + [paths[m] for m in it[1]] + ["--end-lib"]
        else:
            sp = f"{d}/libso{it[1]}.so"
            sh(["ld", "-shared", "-soname", f"libso{it[1]}.so", "-o", sp, paths[it[1]], "--allow-shlib-undefined"], check=True)
            if bool(it[2]) != asneeded:
                asneeded = bool(it[2])
                argv.append("--as-needed" if asneeded else "--no-as-needed")
            argv.append(sp)
    return argv


def run(chk, replay=None):
    coq = coq_build(["C03"], ["C03/Props.v"])
    chk.add_coq(coq)
    okw, outw, wild = wild_build()
    if not okw:
        chk.tie_break("wild does not build", outw[-2000:])
        return chk.finish(TRUSTED)
    rng = chk.rng
    ncase = 60 if chk.tier == "quick" else 600
    d0 = tempfile.mkdtemp(prefix="wv-c03-")
    coq_items, meta = [], []
    stats = {"links": 0, "files": 0, "optional": 0, "loaded_optional": 0, "with_shared": 0, "thin": 0, "whole": 0, "link_errors": 0}
    samples = []
    try:
        for ci in range(ncase):
            files, items, multi = gen_case(rng)
            d = f"{d0}/c{ci}"
            os.makedirs(d)
            argv = build(d, files, items, multi)
            exp = closure(files)
            out = f"{d}/out"
            rc, o = sh([wild, "--no-gc-sections", "--allow-shlib-undefined", "--unresolved-symbols=ignore-all", "-o", out] + argv, timeout=60)
            stats["links"] += 1
            stats["files"] += len(files)
            stats["optional"] += sum(1 for f in files if f["optional"])
            stats["with_shared"] += any(f["kind"] == "so" for f in files)
            stats["thin"] += any(it[0] == "ar" and it[3] for it in items)
            stats["whole"] += any(it[0] == "ar" and it[2] for it in items)
            rep = {"seed": chk.seed, "case": ci, "files": [dict(kind=f["kind"], optional=f["optional"], defs=f["defs"], undefs=f["undefs"]) for f in files],
                   "link_line": [os.path.basename(a) for a in argv]}
            if rc != 0:
                stats["link_errors"] += 1
                chk.tie_break("generated link line rejected by wild (generator problem or implementation error)", dict(rep, stderr=o[-300:]))
                continue
            e = elfread.Elf(out)
            names = {s["name"] for s in e.symbols(".symtab") if s["shndx"] != 0}
            needed_obs = []
            dynstr = e.section(".dynstr")
            for tag, val in e.dynamic():
                if tag == 1 and dynstr is not None:
                    needed_obs.append(e.cstr(dynstr["offset"] + val))
            loaded_obs = sorted(i for i, f in enumerate(files) if f["kind"] != "so" and f"mark_{i}" in names)
            exp_nd = sorted(i for i in exp if files[i]["kind"] != "so")
            exp_needed = [f"libso{i}.so" for i in sorted(exp) if files[i]["kind"] == "so"]
            stats["loaded_optional"] += sum(1 for i in loaded_obs if files[i]["optional"])
            fl = "[" + "; ".join(f"F {'true' if f['optional'] else 'false'} {'true' if f['kind'] == 'so' else 'false'} [{'; '.join(map(str, f['defs']))}] "
                                 f"[{'; '.join('(%d, %s)' % (n, 'true' if w else 'false') for n, w in f['undefs'])}]" for f in files) + "]"
            coq_items.append(f"chk {fl} [{'; '.join(map(str, exp))}]")
            meta.append((rep, exp, exp_nd, exp_needed, loaded_obs, needed_obs))
            if len(samples) < 3:
                samples.append({"link_line": rep["link_line"], "loaded": loaded_obs, "needed": needed_obs})
    finally:
        shutil.rmtree(d0, ignore_errors=True)
    per = (len(coq_items) + NCPU - 1) // NCPU
    bodies = ["Eval vm_compute in [\n" + ";\n".join(coq_items[k * per:(k + 1) * per]) + "].\n" for k in range(NCPU) if coq_items[k * per:(k + 1) * per]]
    verdicts = []
    for rc, out in coq_eval_sharded("c03", IMPORTS, bodies, timeout=600):
        if rc != 0:
            chk.tie_break("model evaluation failed (coqc)", out[-1500:])
        else:
            verdicts += parse_coq_value(out)
    nontrivial = 0
    if len(verdicts) == len(meta):
        for (rep, exp, exp_nd, exp_needed, loaded_obs, needed_obs), v in zip(meta, verdicts):
            okcert, needed_model = v
            if not okcert:
                chk.tie_break("the driver's closure is not accepted by the Coq certificate checker", rep)
                continue
            if any(rep["files"][i]["optional"] for i in exp):
                nontrivial += 1
            if loaded_obs != exp_nd:
                missing = [i for i in exp_nd if i not in loaded_obs]
                extra = [i for i in loaded_obs if i not in exp_nd]
                chk.violation(f"loaded files differ from the specified set: missing {missing} (needed members not loaded), extra {extra} (loaded without a non-weak reference)",
                              dict(rep, expected=exp_nd, observed=loaded_obs))
            if [f"libso{i}.so" for i in needed_model] != exp_needed:
                chk.tie_break("model `needed` differs from the driver's expectation", rep)
    chk.cov.update({
        "evaluations": stats["links"], "distinct_nontrivial": nontrivial,
        "rule": "link lines: 1-2 objects first, then shuffled archives (1-3 members, 20% --whole-archive, 30% thin), --start-lib groups, shared libraries (60% --as-needed); 3-8 names each defined "
                "by 1-2 files (weak when duplicated); 0-3 references per file (30% weak); closure computed by the driver, verified by the Coq certificate checker, compared with marker symbols "
                "in wild's output; non-trivial = some optional file is in the expected set",
        "stats": stats, "samples": samples,
    })
    chk.assumptions = TRUSTED
    return chk.finish(TRUSTED)
