"""C14 — x86-64 GOT and TLS relaxations preserve instruction semantics.
Theorems: coq/C14/Props.v over the hand-written model (Model.v = RelaxationKind::apply + new_relaxation as a
zipper over (bytes, offset); Isa.v = decoder + effect semantics of the instruction forms involved).
Tie T2: every case runs ElfX86_64::new_relaxation + Relaxation::apply (verif_hooks::x86_64::new_relaxation) and
the model; the semantic predicate (Check.got_check / tls_check) is then evaluated on the IMPLEMENTATION's patched
bytes over a lattice of symbol values.  Spec validation: the decoder against objdump; end-to-end: real links run
on this host with absolute symbols at boundary values."""
from wvlib import *
import tempfile, shutil

TRUSTED = [
    "Coq 8.16.1 kernel incl. vm_compute; axioms: none",
    "C14/Isa.v: the x86-64 decoder/semantics of the ~20 instruction forms involved is hand-written from the Intel SDM / APX spec; "
    "validated against objdump (mnemonic, destination register, length) for legacy/REX forms; REX2/EVEX forms are not known to binutils 2.40 and are validated only by review",
    "effects abstract the flags: two ALU instructions with equal (op, width, operands, NF) are taken to set flags identically",
    "TLS originals (__tls_get_addr / TLSDESC call sequences) are specified by the psABI: result = TP + tpoff(S) (resp. tpoff(S)); %fs:0 holds TP",
    "psABI form assumption: the relocated instruction is the ModRM rip-relative form the relocation type is defined for (wild does not check mod/rm bits; neither does GNU ld)",
    "relocation value computation after the rewrite (S+A, S+A-P, TPOFF, G+A-P) is modelled in Check.new_value; range check and field width come from the regenerated C12 table",
]

KIND_CODES = {"MovIndirectToLea": 0, "MovIndirectToAbsolute": 1, "RexMovIndirectToAbsolute": 2, "RexAddIndirectToAbsolute": 3,
              "RexSubIndirectToAbsolute": 4, "RexCmpIndirectToAbsolute": 5, "CallIndirectToRelative": 6, "JmpIndirectToRelative": 7,
              "NoOp": 8, "TlsGdToLocalExec": 9, "TlsGdToLocalExecLarge": 10, "TlsLdToLocalExec": 11, "TlsLdToLocalExecNoPlt": 12,
              "TlsLdToLocalExec64": 13, "TlsGdToInitialExec": 14, "TlsDescToLocalExec": 15, "TlsDescToInitialExec": 16, "SkipTlsDescCall": 17}
COQ_KINDS = ["MovIndirectToLea", "MovIndirectToAbsolute", "(RexMov %d)", "(RexAdd %d)", "(RexSub %d)", "(RexCmp %d)", "CallRel", "JmpRel", "NoOp",
             "TlsGdLe", "TlsGdLeLarge", "TlsLdLe", "TlsLdLeNoPlt", "TlsLdLe64", "TlsGdIe", "(TlsDescLe %d)", "TlsDescIe", "SkipTlsDescCall"]
RTS = [2, 4, 9, 19, 20, 22, 31, 34, 35, 41, 42, 43, 44, 45, 50]
TPC = 140737488289792
M64 = 1 << 64

IMPORTS = """From Coq Require Import ZArith List Bool. Import ListNotations.
From WV Require Import C14.Model C14.Isa C14.Check.
Open Scope Z_scope.
Definition W (b a : list Z) : win := {| before := b; after := a |}.
"""


def zl(bs):
    return "[" + "; ".join(str(b) for b in bs) + "]"


def zi(v):
    return f"({v})" if v < 0 else str(v)


def gen_case(rng):
    """(rt, bytes, off, flags, ok, exec, addend) — structured, mostly relaxable; a malformed stream rides along"""
    r = rng.random()
    fld = [rng.randrange(256) for _ in range(4)] if rng.random() < 0.3 else [0, 0, 0, 0]
    tail = [rng.randrange(256) for _ in range(rng.randrange(0, 6))]
    if r < 0.30:      # REX forms
        rex = rng.choice([0x48, 0x4c] * 4 + [0x49, 0x44, 0x40, 0x4a, 0x4d])
        op = rng.choice([0x8b] * 4 + [0x2b, 0x3b, 0x03] * 2 + [0x8d, 0x85, 0x33, 0x0b])
        hdr = [rex, op, 5 | (rng.randrange(8) << 3)]
        rts = [42, 42, 22, 22, 9, 34, 43, 44]
    elif r < 0.42:    # REX2 forms
        pay = rng.choice([0x48, 0x4c] * 3 + [0x08, 0x18, 0x58, 0xc8])
        op = rng.choice([0x8b] * 3 + [0x2b, 0x3b, 0x03, 0x8d] * 2 + [0x85])
        hdr = [0xd5, pay, op, 5 | (rng.randrange(8) << 3)]
        rts = [43, 43, 44, 44, 45, 42, 22]
    elif r < 0.58:    # no-prefix forms
        op, modrm = rng.choice([(0x8b, None)] * 4 + [(0xff, 0x15), (0xff, 0x25)] * 3 + [(0xff, 0x35), (0x2b, None), (0x85, None), (0xe8, None)])
        hdr = [op, (5 | (rng.randrange(8) << 3)) if modrm is None else modrm]
        if rng.random() < 0.3:
            hdr = [rng.choice([0x66, 0x48, 0x41, 0x4c, 0x44])] + hdr
        rts = [41, 41, 41, 9, 9, 4, 2, 31]
    elif r < 0.68:    # EVEX add (APX)
        l5 = rng.choice([0xf4, 0x74, 0xe4, 0x64, 0xd4, 0x54, 0xfc, 0xf5, 0xb4])
        l4 = rng.choice([0xfc, 0x84 | (rng.randrange(16) << 3), 0xfd, 0x7c, 0xf8])
        l3 = rng.choice([0x18, 0x10, 0x0c, 0x14, 0x1c, 0x00, 0x08])
        hdr = [0x62, l5, l4, l3, rng.choice([0x01, 0x03, 0x03, 0x2b]), 5 | (rng.randrange(8) << 3)]
        rts = [50, 50, 50, 22, 44]
    elif r < 0.76:    # TLS GD
        if rng.random() < 0.6:
            hdr = [0x66, 0x48, 0x8d, 0x3d]
            tail = [0x66, 0x66, 0x48, 0xe8, 0, 0, 0, 0] + tail
        else:
            hdr = [0x48, 0x8d, 0x3d]
            tail = [0x48, 0xb8] + [0] * 8 + [0x48, 0x01, 0xd8, 0xff, 0xd0] + tail
        rts = [19, 19, 19, 20]
    elif r < 0.86:    # TLS LD
        hdr = [0x48, 0x8d, 0x3d]
        v = rng.randrange(3)
        tail = ([0xe8, 0, 0, 0, 0], [0xff, 0x15, 0, 0, 0, 0], [0x48, 0xb8] + [0] * 8 + [0x48, 0x01, 0xd8, 0xff, 0xd0])[v] + tail
        rts = [20, 20, 20, 19]
    elif r < 0.95:    # TLSDESC
        if rng.random() < 0.7:
            hdr = [rng.choice([0x48, 0x4c]), 0x8d, 5 | (rng.randrange(8) << 3)]
            if rng.random() < 0.3:
                hdr = [0xd5] + hdr
            rts = [34, 34, 45]
        else:
            hdr = [0x90]
            fld = [0xff, 0x10, 0x90, 0x90]
            rts = [35]
    else:             # noise
        hdr = [rng.randrange(256) for _ in range(rng.randrange(0, 7))]
        rts = RTS
    rt = rng.choice(rts) if rng.random() < 0.9 else rng.choice(RTS + [1, 10, 26])
    if rng.random() < 0.12 and hdr:
        hdr[rng.randrange(len(hdr))] = rng.randrange(256)
    if rng.random() < 0.08 and tail:
        tail[rng.randrange(len(tail))] = rng.randrange(256)
    junk = [rng.randrange(256) for _ in range(rng.choice([0, 0, 1, 2, 3, 5]))]
    if rng.random() < 0.06 and len(hdr) > 1:       # start of section cuts into the instruction (underflow paths)
        hdr = hdr[rng.randrange(1, len(hdr)):]
        junk = []
    if rng.random() < 0.05:
        tail = tail[:rng.randrange(0, len(tail) + 1)]
    pre = junk + hdr
    flags = rng.choice([8, 8, 8, 9, 9, 1, 0, 10, 2, 12, 4, 3, 11, rng.randrange(16)])
    ok = rng.randrange(6)
    ex = 0 if rng.random() < 0.06 else 1
    return (rt, pre + fld + tail, len(pre), flags, ok, ex, -4)


def exhaustive_cases():
    out = []
    for rt, hdrs in ((42, [[rex, op, 5 | (reg << 3)] for rex in (0x48, 0x4c) for op in (0x8b, 0x2b, 0x3b, 0x03) for reg in range(8)]),
                     (43, [[0xd5, rex, op, 5 | (reg << 3)] for rex in (0x48, 0x4c) for op in (0x8b, 0x2b, 0x3b) for reg in range(8)]),
                     (22, [[rex, op, 5 | (reg << 3)] for rex in (0x48, 0x4c) for op in (0x8b, 0x03) for reg in range(8)]),
                     (44, [[0xd5, rex, op, 5 | (reg << 3)] for rex in (0x48, 0x4c) for op in (0x8b, 0x03) for reg in range(8)]),
                     (41, [[0x8b, 5 | (reg << 3)] for reg in range(8)] + [[0xff, 0x15], [0xff, 0x25]]),
                     (9, [p + [0x8b, 5 | (reg << 3)] for p in ([], [0x48], [0x4c], [0x66], [0x44]) for reg in range(8)]),
                     (34, [[rex, 0x8d, 5 | (reg << 3)] for rex in (0x48, 0x4c) for reg in range(8)]),
                     (45, [[0xd5, rex, 0x8d, 5 | (reg << 3)] for rex in (0x48, 0x4c) for reg in range(8)])):
        for h in hdrs:
            for flags in (8, 9, 1, 0):
                for ok in (0, 1, 3, 4):
                    out.append((rt, [0x90] + h + [0, 0, 0, 0, 0x90], 1 + len(h), flags, ok, 1, -4))
    return out


def parse_kind(s):
    name, _, arg = s.partition("(")
    return KIND_CODES[name], int(arg.rstrip(")")) if arg else 0


def insn_len_before(rt, bs, off):
    """bytes of the original instruction in front of the relocated field (psABI form)"""
    if rt in (42, 22):
        return 3
    if rt in (43, 44):
        return 4
    if rt == 41:
        return 2
    if rt == 9:
        if off >= 3 and (0x40 <= bs[off - 3] <= 0x4f or bs[off - 3] == 0x66):
            return 3
        return 2
    return None


LATTICE = [0, 1, 0x1000, 0x401000, (1 << 31) - 1, 1 << 31, (1 << 32) - 1, 1 << 32, (1 << 47) - 8, 1 << 63, M64 - 1,
           -1, -8, -0x1000, -(1 << 31), -(1 << 31) - 1]


def objdump_check(chk, seqs, shows):
    """seqs: list of byte lists; shows: the model's `show` of each. Compares mnemonic / destination register / length."""
    d = tempfile.mkdtemp(prefix="c14od")
    n_ok = n_skip = 0
    try:
        with open(d + "/t.s", "w") as f:
            f.write(".text\n")
            for i, s in enumerate(seqs):
                f.write(f"L{i}:\n .byte " + ",".join(str(b) for b in s) + "\n .byte 0x90,0x90,0x90,0x90,0x90,0x90,0x90,0x90\n")
        rc, out = sh(f"cd {d} && as --64 t.s -o t.o && objdump -d --no-show-raw-insn t.o > t.txt && objdump -d t.o > t2.txt", timeout=120)
        if rc != 0:
            chk.tie_break("objdump cross-check could not run", out[-500:])
            return 0, 0
        cur = None
        first = {}
        for line in open(d + "/t2.txt"):
            m = re.match(r"^[0-9a-f]+ <L(\d+)>:", line)
            if m:
                cur = int(m.group(1))
                continue
            m = re.match(r"^\s*[0-9a-f]+:\t((?:[0-9a-f]{2} )+)\s*\t?(.*)$", line)
            if m and cur is not None:
                nb = len(m.group(1).split())
                txt = m.group(2).strip()
                if cur not in first:
                    first[cur] = [nb, txt]
                elif not txt:                      # continuation line of a long instruction
                    first[cur][0] += nb
                else:
                    cur = None
        regs64 = ["rax", "rcx", "rdx", "rbx", "rsp", "rbp", "rsi", "rdi"] + [f"r{i}" for i in range(8, 16)]
        regs32 = ["eax", "ecx", "edx", "ebx", "esp", "ebp", "esi", "edi"] + [f"r{i}d" for i in range(8, 16)]
        regs16 = ["ax", "cx", "dx", "bx", "sp", "bp", "si", "di"] + [f"r{i}w" for i in range(8, 16)]
        alu = ["add", "or", "adc", "sbb", "and", "sub", "xor", "cmp"]
        for i, (s, sh_) in enumerate(zip(seqs, shows)):
            if i not in first:
                continue
            nb, txt = first[i]
            if sh_[0] == 0:
                n_skip += 1
                continue
            tag, w, reg, ln = sh_[:4]
            if reg >= 16 or s[0] in (0xd5, 0x62):
                n_skip += 1
                continue
            words = [x for x in txt.replace("addr32 ", "").replace("data16 ", "").replace("cs ", "").split() if not x.startswith("rex")]
            mn = words[0] if words else ""
            ops = words[1] if len(words) > 1 else ""
            rname = {64: regs64, 32: regs32, 16: regs16}.get(w, regs64)[reg] if w else None
            exp_mn = {1: "mov", 2: "mov", 3: "mov", 4: "lea", 9: "call", 10: "jmp", 11: "call", 12: "jmp"}.get(tag)
            if tag in (5, 6, 7, 8):
                exp_mn = alu[sh_[4]]
            good = True
            if tag == 13:
                good = mn.startswith("nop") or (mn == "xchg" and "%ax,%ax" in ops)
            else:
                good = mn.rstrip("qlw") == exp_mn or mn == exp_mn
                if tag in (1, 2, 3, 4, 5, 6, 7):
                    good = good and ops.endswith("%" + rname)
                if tag in (9, 10):
                    good = good and ops.startswith("*")
                if tag in (1, 5):
                    good = good and ops.startswith("$")
            good = good and nb == ln
            if good:
                n_ok += 1
            else:
                chk.tie_break("spec validation: the model's decoder disagrees with objdump",
                              {"bytes": bytes(s).hex(), "objdump": txt, "objdump_len": nb, "model_show": sh_})
    finally:
        shutil.rmtree(d, ignore_errors=True)
    return n_ok, n_skip


E2E_SRC = r"""
.text
.globl _start
.macro fail n
 mov $\n, %edi
 jmp done
.endm
_start:
 movabs $VAL, %r15
 movq absval@GOTPCREL(%rip), %rax
 cmp %r15, %rax
 je 1f
 fail 1
1: movq absval@GOTPCREL(%rip), %r12
 cmp %r15, %r12
 je 1f
 fail 2
1: movl absval@GOTPCREL(%rip), %ecx
 mov %r15d, %edx
 cmp %rdx, %rcx
 je 1f
 fail 3
1: movabs $0x1122334455667788, %rbx
 mov %rbx, %rsi
 subq absval@GOTPCREL(%rip), %rbx
 sub %r15, %rsi
 cmp %rsi, %rbx
 je 1f
 fail 4
1: mov %r15, %r9
 cmpq absval@GOTPCREL(%rip), %r9
 je 1f
 fail 5
1: mov %r15, %r10
 xor $1, %r10
 cmpq absval@GOTPCREL(%rip), %r10
 jne 1f
 fail 6
1: movq func@GOTPCREL(%rip), %rax
 lea func(%rip), %rcx
 cmp %rax, %rcx
 je 1f
 fail 7
1: xor %ebp, %ebp
 call *func@GOTPCREL(%rip)
 cmp $77, %ebp
 je 1f
 fail 8
1: jmp *last@GOTPCREL(%rip)
 fail 9
last:
 xor %edi, %edi
done:
 mov $60, %eax
 syscall
func:
 mov $77, %ebp
 ret
"""


def e2e(chk, wild, values):
    d = tempfile.mkdtemp(prefix="c14e2e")
    res = []
    try:
        open(d + "/t.s", "w").write(E2E_SRC)
        for v in values:
            rc, out = sh(f"cd {d} && as --64 --defsym VAL={v:#x} t.s -o t.o", timeout=60)
            if rc != 0:
                chk.tie_break("end-to-end: as failed", out[-400:])
                return res
            for extra, name in (("", "relax"), ("--no-relax", "norelax")):
                for pie in ("", "-pie"):
                    exe = f"{d}/t_{name}{pie}"
                    rc, out = sh(f"cd {d} && timeout 60 {wild} t.o -o {exe} --defsym=absval={v:#x} {extra} {pie}", timeout=90)
                    if rc != 0:
                        res.append((v, name, pie, "link-rejected"))
                        continue
                    rc2, out2 = sh(f"timeout 10 {exe}", timeout=20)
                    res.append((v, name, pie, rc2))
                    if rc2 != 0:
                        chk.violation(f"linked program computes a different value: absval={v:#x} {name} {pie or 'non-pie'}: check #{rc2} failed "
                                      f"(1/2 mov REX.W, 3 mov 32-bit, 4 sub, 5/6 cmp, 7 mov->lea, 8 call, 9 jmp)",
                                      {"kind": "e2e", "value": v, "mode": name, "pie": pie, "exit": rc2, "source": E2E_SRC})
    finally:
        shutil.rmtree(d, ignore_errors=True)
    return res


def run(chk, replay=None):
    coq = coq_build(["C12", "C14"], ["C14/Props.v"])
    chk.add_coq(coq)
    ok, out, binp = harness_build(False)
    if not ok:
        chk.tie_break("harness does not build against /repo", out[-3000:])
        return chk.finish(TRUSTED)
    rng = chk.rng
    cases = []
    if replay:
        cases = [tuple(c) for c in json.load(open(replay))["replay"].get("cases", [])]
    else:
        cp = os.path.join(ROOT, "corpus", "C14.json")
        if os.path.exists(cp):
            cases += [tuple(c) for c in json.load(open(cp))]
        ex = exhaustive_cases()
        if chk.tier == "quick":
            rng.shuffle(ex)
            ex = ex[:1500]
        cases += ex
        cases += [gen_case(rng) for _ in range(3000 if chk.tier == "quick" else 40000)]
    log("c14: cases", len(cases))
    infos = dict(zip(range(60), run_impl(binp, "c14", [f"i {t}" for t in range(60)])))
    lines = [f"n {rt} {bytes(bs).hex() or '-'} {off} {fl} {ok_} {ex} {ad}" for rt, bs, off, fl, ok_, ex, ad in cases]
    res = run_impl(binp, "c14", lines)
    items = [f"run_n {rt} {zl(list(reversed(bs[:off])))} {zl(bs[off:])} {fl} {ok_} {ex} {zi(ad)}" for rt, bs, off, fl, ok_, ex, ad in cases]
    per = (len(items) + NCPU - 1) // NCPU
    bodies = ["Eval vm_compute in [\n" + ";\n".join(items[k * per:(k + 1) * per]) + "].\n" for k in range(NCPU) if items[k * per:(k + 1) * per]]
    mres = []
    okm = True
    for rc, out in coq_eval_sharded("c14", IMPORTS, bodies, timeout=900):
        if rc != 0:
            chk.tie_break("model evaluation failed (coqc)", out[-1500:])
            okm = False
            continue
        mres += parse_coq_value(out)
    stats = {"cases": len(cases), "relaxed": 0, "none": 0, "panic": 0, "model_mismatch": 0, "by_kind": {}, "sem_checked": 0, "sem_same": 0,
             "sem_rejected": 0, "sem_not_psabi_form": 0, "tls_checked": 0}
    sem_items = []     # (case index, description, coq expr, V)
    if okm and len(mres) != len(cases):
        chk.tie_break("model evaluation: wrong number of answers", {"cases": len(cases), "answers": len(mres)})
        okm = False
    if okm:
        for ci, (c, r, m) in enumerate(zip(cases, res, mres)):
            rt, bs, off, fl, ok_, ex, ad = c
            code, mb, ma = m
            rep = {"cases": [list(c)], "impl": r, "model": m}
            if r == "NONE":
                stats["none"] += 1
                if code != [0]:
                    stats["model_mismatch"] += 1
                    chk.tie_break("correspondence C14.new_relaxation: implementation declines, model relaxes", rep)
                continue
            if r == "PANIC":
                stats["panic"] += 1
                if code[0] not in (2, 3):
                    stats["model_mismatch"] += 1
                    chk.tie_break("correspondence C14.new_relaxation: implementation panics, model does not", rep)
                continue
            kind_s, ri, mand, hx, noff, nad, skip = r.split("|")
            stats["relaxed"] += 1
            kc, io = parse_kind(kind_s)
            stats["by_kind"][kind_s] = stats["by_kind"].get(kind_s, 0) + 1
            nbs = list(bytes.fromhex(hx)) if hx != "-" else []
            noff, nad = int(noff), int(nad)
            cands = [t for t, s in infos.items() if s == ri]
            agree = (code[0] == 1 and code[1:3] == [kc, io] and code[3] in cands and code[4] == int(mand) and code[5] == noff - off
                     and code[6] == nad and code[7] == int(skip) and list(reversed(mb)) + ma == nbs)
            if not agree:
                stats["model_mismatch"] += 1
                chk.tie_break("correspondence C14.new_relaxation/apply: model and implementation differ", rep)
            # ---- property predicate on the implementation's own output ----
            if not cands:
                chk.tie_break("implementation relocation info matches no x86-64 relocation type", rep)
                continue
            rtn = code[3] if (code[0] == 1 and code[3] in cands) else cands[0]
            d = noff - off
            G = 0x404000 + 8 * (ci % 64)
            P = 0x401000 + off
            wb, wa = zl(list(reversed(bs[:off]))), zl(bs[off:])
            nb_, na_ = zl(list(reversed(nbs[:noff]))), zl(nbs[noff:])
            rex2_ok = not (rt in (43, 44, 45) and (off < 4 or bs[off - 4] != 0xd5))     # CODE_4 types are defined for REX2 instructions only
            if not rex2_ok:
                stats["sem_not_psabi_form"] += 1
            elif kc <= 7 and rt in (9, 41, 42, 43, 22, 44):
                n = insn_len_before(rt, bs, off)
                if n is None or off < n:
                    continue
                for V in LATTICE:
                    sem_items.append((ci, "got", f"got_check {n} {zi(d)} (W {wb} {wa}) (W {nb_} {na_}) {rtn} {zi(nad)} {G} {zi(V)} {P}", V, G, P))
            elif kc == 3 and rt == 50:
                pass      # EVEX forms: decided by the model-level theorem only (see DESIGN.md, C14 partial)
            elif 9 <= kc <= 17:
                rexb = bs[off - 3] if off >= 3 else 0
                modrm = bs[off - 1] if off >= 1 else 0
                dreg = ((rexb >> 2) & 1) * 8 + ((modrm >> 3) & 7) + (16 if io == 4 else 0)
                for V in (-8, -0x1000, -(1 << 31), -(1 << 31) - 1, 0, 0x7fffffff, 1 << 31):
                    tp = lambda x: (TPC + x) % M64
                    prm = {9: (2, 4, 0, tp(V), 16), 10: (3, 3, 0, tp(V), 22), 14: (2, 4, 0, tp(V % M64), 16), 11: (1, 3, 0, TPC, 12),
                           12: (1, 3, 0, TPC, 13), 13: (2, 3, 0, TPC, 22), 15: (1, 3 if io == 3 else 4, dreg, V % M64, 7 if io == 3 else 8),
                           16: (1, 3, dreg, V % M64, 7), 17: (1, 0, 0, 1229782938247303441 + 7, 2)}[kc]
                    if kc == 15 and io not in (3, 4):
                        continue
                    k_, n_, reg_, exp_, len_ = prm
                    sem_items.append((ci, "tls", f"tls_check {k_} {n_} {zi(d)} (W {nb_} {na_}) {rtn} {zi(nad)} {G} {zi(V)} {P} {reg_} {exp_} {len_}", V, G, P))
    log("c14: model eval done; sem items", len(sem_items))
    # evaluate the semantic predicate
    viol = 0
    if sem_items:
        per = (len(sem_items) + NCPU - 1) // NCPU
        bodies = ["Eval vm_compute in [\n" + ";\n".join(x[2] for x in sem_items[k * per:(k + 1) * per]) + "].\n"
                  for k in range(NCPU) if sem_items[k * per:(k + 1) * per]]
        sres = []
        oks = True
        for rc, out in coq_eval_sharded("c14s", IMPORTS, bodies, timeout=1200):
            if rc != 0:
                chk.tie_break("semantic predicate evaluation failed (coqc)", out[-1500:])
                oks = False
                continue
            sres += parse_coq_value(out)
        if oks and len(sres) == len(sem_items):
            seen = set()
            for (ci, fam, expr, V, G, P), v in zip(sem_items, sres):
                if fam == "tls":
                    stats["tls_checked"] += 1
                stats["sem_checked"] += 1
                if v == 1:
                    stats["sem_same"] += 1
                elif v == 0:
                    stats["sem_rejected"] += 1
                elif v == 3:
                    stats["sem_not_psabi_form"] += 1
                elif v == 2 and ci not in seen:
                    seen.add(ci)
                    viol += 1
                    c = cases[ci]
                    chk.violation(f"relaxed instruction behaves differently: r_type {c[0]} bytes {bytes(c[1]).hex()} offset {c[2]} flags {c[3]} output kind {c[4]} "
                                  f"-> {res[ci].split('|')[0]} {res[ci].split('|')[3]}; symbol value {V:#x} (GOT slot {G:#x}, place {P:#x})",
                                  {"cases": [list(c)], "value": V, "got": G, "place": P, "impl": res[ci], "predicate": expr})
        elif oks:
            chk.tie_break("semantic predicate: wrong number of answers", {"items": len(sem_items), "answers": len(sres)})
    log("c14: sem eval done")
    # decoder vs objdump on the distinct instruction encodings seen
    seqs = []
    seen = set()
    for c, r in zip(cases, res):
        rt, bs, off = c[0], c[1], c[2]
        n = insn_len_before(rt, bs, off)
        if n and off >= n and r not in ("NONE", "PANIC"):
            for s in (bs[off - n:off + 4], list(bytes.fromhex(r.split("|")[3]))[off - n:off + 4]):
                if len(s) == n + 4 and tuple(s) not in seen and len(seqs) < 600:
                    seen.add(tuple(s))
                    seqs.append(s)
    for s in ([0x64, 0x48, 0x8b, 4, 0x25, 0, 0, 0, 0], [0x48, 0x8d, 0x80, 1, 0, 0, 0], [0x66, 0x0f, 0x1f, 0x44, 0, 0], [0x66, 0x90], [0x67, 0xe8, 1, 0, 0, 0],
              [0x66, 0x66, 0x66, 0x64, 0x48, 0x8b, 4, 0x25, 0, 0, 0, 0], [0x66, 0x66, 0x66, 0x66, 0x2e, 0x0f, 0x1f, 0x84, 0, 0, 0, 0, 0], [0x48, 3, 5, 0, 0, 0, 0]):
        seqs.append(s)
    n_od = n_sk = 0
    if seqs:
        rc, out = coq_eval("c14show", "Eval vm_compute in [\n" + ";\n".join(f"show {zl(s + [0x90] * 8)}" for s in seqs) + "].\n", IMPORTS)
        if rc != 0:
            chk.tie_break("decoder evaluation failed", out[-800:])
        else:
            n_od, n_sk = objdump_check(chk, seqs, parse_coq_value(out))
    log("c14: objdump done")
    # end to end
    okw, outw, wild = wild_build()
    e2e_res = []
    if okw:
        vals = [0x1000, 0x7fffffff, 0x80000000, 0xffffffff, 0x100000000, M64 - 1] if chk.tier == "quick" else \
               [0, 1, 0x1000, 0x7ffffffe, 0x7fffffff, 0x80000000, 0x80000001, 0xfffffffe, 0xffffffff, 0x100000000, 0x7fffffffffff, 1 << 63, M64 - 0x80000000, M64 - 0x80000001, M64 - 1]
        e2e_res = e2e(chk, wild, vals)
    else:
        chk.tie_break("wild does not build", outw[-2000:])
    chk.cov.update({
        "evaluations": stats["cases"] + stats["sem_checked"], "distinct_nontrivial": stats["relaxed"],
        "rule": "windows = junk + instruction header (REX / REX2 / plain / EVEX / TLS templates, 12% mutated, 6% cut by the section start) + field + tail, "
                "r_type mostly the matching one, flags x output kind x exec; plus the exhaustive register/opcode/flag sweep of the relaxable forms; "
                "non-trivial = the implementation relaxes; each relaxed GOT/TLS case is then decoded and executed (model ISA) for 16 symbol values",
        "exhaustive": chk.tier != "quick",
        "stats": stats, "objdump_agree": n_od, "objdump_skipped_apx": n_sk,
        "e2e": {"runs": len(e2e_res), "rejected": sum(1 for x in e2e_res if x[3] == "link-rejected"), "ok": sum(1 for x in e2e_res if x[3] == 0)},
    })
    return chk.finish(TRUSTED)
