"""C18 — a failed link leaves no output file produced by that link.
Theorems: coq/C18/Props.v over the shared abstract file system Cfs/Model.v.
Tie T2: the real (hooked) wild is run over the configuration matrix — output kind x forced write mode x threads x
--no-fork x prior state of the output path (absent / present / present and being executed) x failure point (natural:
undefined symbol, relocation overflow in the write phase; injected: WILD_VERIF_POINT=<phase>:error) — and the state of
the output path afterwards (absent / same inode and bytes / changed) is compared with the model's `observe (link ...)`.
The property predicate itself (exit != 0  =>  absent or untouched) is evaluated on every real run."""
from wvlib import *
import tempfile, shutil, hashlib, itertools

TRUSTED = [
    "Coq 8.16.1 kernel incl. vm_compute; axioms: none",
    "Cfs/Model.v: the file operations of one link are transcribed by hand from file_writer.rs / lib.rs; kernel behaviour (rename, unlink, O_TRUNC, ETXTBSY) is the model's definition; tied by outcome on every run",
    "failure points are reached by natural errors (undefined symbol, relocation overflow) and by the guarded WILD_VERIF_POINT error injection at phase boundaries; a failure inside timing::finalise_perfetto_trace (after a complete link) is outside the matrix",
    "a link that is killed (panic/abort/signal) is outside the theorem and recorded as a known finding",
]

IMPORTS = """From Coq Require Import NArith List Bool. Import ListNotations.
From WV Require Import Cfs.Model C18.Proofs.
Open Scope N_scope.
Definition enc (s : seen) : N := match s with Absent => 0 | Untouched => 1 | Changed (Fresh true) => 2 | Changed (Fresh false) => 3 | Changed _ => 4 end.
Definition run (sh : bool) (fo : N) (bg bu : bool) (st : N) (cr present ro : bool) : N * bool :=
  let c := (if ro then cfg_ro else cfg_of) sh (match fo with 1 => Some UpdateInPlace | 2 => Some UnlinkAndReplace | _ => None end) bg bu
                  (match st with 0 => Early | 1 => AfterSetSize | 2 => InWrite | 3 => AfterWrite | _ => Success end) cr in
  let r := link c (fs0 present) in (enc (observe (fs0 present) (fst r)), snd r).
"""

OK_SRC = """.text
.globl _start
.type _start,@function
_start:
 lea d(%rip), %rax
 mov $60, %eax
 xor %edi, %edi
 syscall
.globl f
.type f,@function
f: ret
.data
.globl d
.hidden d
d: .long absval
"""
UNDEF_SRC = OK_SRC + ".text\n call nosuchsymbol\n"

# stop -> how to reach it: (env WILD_VERIF_POINT value or None, source variant, defsym)
STOPS = {
    0: [("loaded:error", "ok", 5), ("symbols:error", "ok", 5), ("resolved:error", "ok", 5), (None, "undef", 5)],
    1: [("layout:error", "ok", 5)],
    2: [(None, "ok", 1 << 33)],                     # R_X86_64_32 overflow: fails while relocations are applied
    3: [("written:error", "ok", 5), ("verified:error", "ok", 5)],
    4: [(None, "ok", 5)],
}
KILLS = [("layout:panic", 1), ("layout:abort", 1), ("layout:kill", 1), ("written:panic", 3), ("written:kill", 3)]


def sha(p):
    return hashlib.sha256(open(p, "rb").read()).hexdigest()


def one_run(d, wild, shared, forced, threads1, nofork, prior, stop, how, kill=None, ro=False):
    """returns (exit code, seen class 0 absent / 1 untouched / 2 changed, detail)"""
    point, variant, defsym = how
    out = f"{d}/out.bin"
    for f in (out, out + ".delete", f"{d}/out.delete"):
        try:
            os.remove(f)
        except OSError:
            pass
    sleeper = None
    st0 = None
    if prior in ("present", "busy"):
        if prior == "busy":
            shutil.copy("/bin/sleep", out)
            os.chmod(out, 0o755)
            for attempt in range(50):          # another worker thread's fork may still hold our write descriptor: ETXTBSY
                try:
                    sleeper = subprocess.Popen([out, "30"])
                    break
                except OSError as e:
                    if e.errno != 26 or attempt == 49:
                        raise
                    time.sleep(0.05)
            time.sleep(0.05)
        else:
            open(out, "wb").write(b"OLD OUTPUT " * 50)
            os.chmod(out, 0o644)
        st0 = (os.stat(out).st_ino, sha(out), os.stat(out).st_mtime_ns)
    args = [wild, f"{d}/{variant}.o", "-o", out, f"--defsym=absval={defsym:#x}"]
    if shared:
        args.append("-shared")
        if variant == "undef":
            args += ["-z", "defs"]          # an undefined symbol is an error in a shared object only on request
    if forced == 1:
        args.append("--update-in-place")
    elif forced == 2:
        args.append("--no-update-in-place")
    if threads1:
        args.append("--threads=1")
    if nofork:
        args.append("--no-fork")
    if ro:      # a directory the linker may not modify, holding an old output it may write (run as uid 65534)
        os.chmod(out, 0o666)
        os.chmod(d, 0o555)
        args = ["setpriv", "--reuid=65534", "--regid=65534", "--clear-groups"] + args
    env = dict(os.environ)
    env.pop("WILD_VERIF_POINT", None)
    if kill or point:
        env["WILD_VERIF_POINT"] = kill or point
    try:
        r = subprocess.run(args, env=env, stdout=subprocess.PIPE, stderr=subprocess.STDOUT, timeout=60)
        rc, msg = r.returncode, r.stdout.decode(errors="replace")[-300:]
    except subprocess.TimeoutExpired:
        rc, msg = "TIMEOUT", ""
    finally:
        if sleeper:
            sleeper.kill()
            sleeper.wait()
        if ro:
            os.chmod(d, 0o755)
    if not os.path.lexists(out):
        seen = 0
    else:
        st1 = (os.stat(out).st_ino, sha(out), os.stat(out).st_mtime_ns)
        seen = 1 if (st0 is not None and st1 == st0) else 2
    strays = [f for f in os.listdir(d) if f.endswith(".delete")]
    return rc, seen, {"args": [a for a in args if not a.startswith("--re") and a not in ("setpriv", "--clear-groups", wild)], "env": env.get("WILD_VERIF_POINT"), "msg": msg, "strays": strays, "ro": ro}


def run(chk, replay=None):
    coq = coq_build(["Cfs", "C18"], ["C18/Props.v"])
    chk.add_coq(coq)
    okw, outw, wild = wild_build()
    if not okw:
        chk.tie_break("wild does not build", outw[-2000:])
        return chk.finish(TRUSTED)
    known = {k["id"] for k in chk.known}
    d = tempfile.mkdtemp(prefix="c18")
    stats = {"runs": 0, "failed_links": 0, "absent": 0, "untouched": 0, "changed_on_failure": 0, "model_mismatch": 0, "killed_runs": 0, "killed_left_file": 0}
    cases = []
    try:
        open(d + "/ok.s", "w").write(OK_SRC)
        open(d + "/undef.s", "w").write(UNDEF_SRC)
        for v in ("ok", "undef"):
            rc, out = sh(f"cd {d} && as --64 {v}.s -o {v}.o", timeout=60)
            if rc != 0:
                chk.tie_break("as failed", out[-400:])
                return chk.finish(TRUSTED)
        matrix = []
        for shared, forced, threads1, nofork, prior, stop in itertools.product((False, True), (0, 1, 2), (False, True), (False, True),
                                                                               ("absent", "present", "busy"), (0, 1, 2, 3, 4)):
            if prior == "busy" and (shared or nofork):
                continue
            matrix.append((shared, forced, threads1, nofork, prior, stop))
        if replay:
            matrix = [tuple(c) for c in json.load(open(replay))["replay"]["cases"]]
        elif chk.tier == "quick":
            chk.rng.shuffle(matrix)
            keep = [m for m in matrix if m[5] in (1, 2, 3)][:70] + [m for m in matrix if m[5] in (0, 4)][:30]
            matrix = keep
        from concurrent.futures import ThreadPoolExecutor

        def work(ix_m):
            ix, m = ix_m
            shared, forced, threads1, nofork, prior, stop = m
            sub = f"{d}/w{ix}"
            os.makedirs(sub, exist_ok=True)
            for v in ("ok", "undef"):
                shutil.copy(f"{d}/{v}.o", f"{sub}/{v}.o")
            res = []
            for how in (STOPS[stop] if chk.tier != "quick" else STOPS[stop][:2]):
                res.append((m, how, None) + one_run(sub, wild, shared, forced, threads1, nofork, prior, stop, how))
            shutil.rmtree(sub, ignore_errors=True)
            return res
        with ThreadPoolExecutor(max_workers=8) as ex:
            for res in ex.map(work, list(enumerate(matrix))):
                cases += res
        # killed links (known finding): a few representative ones
        for ki, (kp, stop) in enumerate(KILLS if chk.tier != "quick" else KILLS[:3]):
            for prior in ("absent", "present"):
                sub = f"{d}/k{ki}{prior}"
                os.makedirs(sub, exist_ok=True)
                shutil.copy(f"{d}/ok.o", f"{sub}/ok.o")
                m = (False, 0, False, False, prior, stop)
                cases.append((m, (None, "ok", 5), kp) + one_run(sub, wild, False, 0, False, False, prior, stop, (None, "ok", 5), kill=kp))
        # a directory wild may not modify (known finding): old output present and writable
        if shutil.which("setpriv") and os.geteuid() == 0:
            os.chmod(d, 0o755)
            for ri, (shared, stop) in enumerate([(True, 2), (False, 2), (True, 1), (True, 4)]):
                sub = f"{d}/r{ri}"
                os.makedirs(sub, exist_ok=True)
                shutil.copy(f"{d}/ok.o", f"{sub}/ok.o")
                os.chmod(f"{sub}/ok.o", 0o644)
                m = (shared, 0, False, False, "present", stop)
                cases.append((m, STOPS[stop][0], "ro") + one_run(sub, wild, shared, 0, False, False, "present", stop, STOPS[stop][0], ro=True))
    finally:
        shutil.rmtree(d, ignore_errors=True)
    # model
    items = []
    for (m, how, kp, rc, seen, det) in cases:
        shared, forced, threads1, nofork, prior, stop = m
        b = lambda x: "true" if x else "false"
        items.append(f"run {b(shared)} {forced} {b(not threads1)} {b(prior == 'busy')} {stop} {b(kp is not None and kp != 'ro')} {b(prior != 'absent')} {b(kp == 'ro')}")
    rc_, out = coq_eval("c18", "Eval vm_compute in [\n" + ";\n".join(items) + "].\n", IMPORTS)
    mres = parse_coq_value(out) if rc_ == 0 else []
    if rc_ != 0 or len(mres) != len(cases):
        chk.tie_break("model evaluation failed", out[-1200:])
        mres = []
    samples = []
    for (m, how, kp, rc, seen, det), mr in zip(cases, mres):
        stats["runs"] += 1
        mseen, mok = mr
        mclass = {0: 0, 1: 1}.get(mseen, 2)
        rep = {"cases": [list(m)], "how": list(how), "kill": kp, "exit": rc, "seen": ["absent", "untouched", "changed"][seen], "model": {"seen": mseen, "exit_zero": mok}, "detail": det}
        failed = rc != 0
        if kp == "ro":
            stats["readonly_dir_runs"] = stats.get("readonly_dir_runs", 0) + 1
            if failed != (not mok) or seen != mclass:
                stats["model_mismatch"] += 1
                chk.tie_break("correspondence C18.link (unwritable directory): outcome of the real run differs from the model", rep)
            if failed and seen == 2:
                if "C18-unwritable-directory" in known:
                    chk.known_hit("C18-unwritable-directory", rep)
                else:
                    chk.violation(f"wild exits {rc} in a directory it may not modify and leaves the old output overwritten ({det['args']})", rep)
            continue
        if kp:
            stats["killed_runs"] += 1
            if failed and seen == 2:
                stats["killed_left_file"] += 1
                if "C18-killed-after-creation" in known:
                    chk.known_hit("C18-killed-after-creation", rep)
                else:
                    chk.violation(f"wild killed at {kp} exits {rc} and leaves a file it created at the output path ({det['args']})", rep)
            continue
        if failed != (not mok) or seen != mclass:
            stats["model_mismatch"] += 1
            chk.tie_break("correspondence C18.link: outcome of the real run differs from the model", rep)
        if failed:
            stats["failed_links"] += 1
            if seen == 0:
                stats["absent"] += 1
            elif seen == 1:
                stats["untouched"] += 1
            else:
                stats["changed_on_failure"] += 1
                chk.violation(f"wild exits {rc} but the output path holds a file created or modified by this link: {' '.join(det['args'])} "
                              f"[WILD_VERIF_POINT={det['env']}] prior={m[4]}", rep)
        if len(samples) < 6 and failed:
            samples.append({"args": det["args"], "point": det["env"], "prior": m[4], "exit": rc, "seen": ["absent", "untouched", "changed"][seen]})
    chk.cov.update({
        "evaluations": stats["runs"], "distinct_nontrivial": stats["failed_links"],
        "rule": "matrix {executable, -shared} x {default, --update-in-place, --no-update-in-place} x {threads default, --threads=1} x {fork, --no-fork} x prior {absent, present, being executed} x "
                "stop {before set_size, after set_size, write phase, after write, success}; quick tier = a seeded sample of 100 cells, thorough = all of them with every way of reaching the stop; "
                "non-trivial = runs that exit non-zero",
        "exhaustive": chk.tier != "quick",
        "stats": stats, "samples": samples,
    })
    return chk.finish(TRUSTED)
