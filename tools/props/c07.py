"""C07 — string merging preserves every referenced string.
Theorems: coq/C07/Props.v (sequential semantics: range-restricted splitting, de-duplication, find_string).
Tie: generated objects with SHF_MERGE|SHF_STRINGS sections are linked by wild with tiny work groups
(--wild-experiments=<parallelism>,256 makes every 256-byte block of the padded linear input space its own group) and
several thread counts; the sections are built so that strings start exactly on, just before and just after group
boundaries, with duplicates, shared suffixes, empty strings and sections longer than many groups.
(1) model vs implementation: the string starts the model's process_all assigns to the groups, cut at the very same
    boundaries, give the set of strings the output's merged section must hold — compared with the real section;
(2) the property on the implementation: every reference (named symbol + addend, section symbol + addend into the
    middle of a string) reads the same bytes up to the NUL as an unmerged copy — checked by the linked program itself,
    and the program behaves identically with --no-string-merge."""
from wvlib import *
import tempfile, shutil
import elfread

TRUSTED = [
    "Coq 8.16.1 kernel incl. vm_compute; axioms: none",
    "C07/Model.v is the sequential semantics only; the hand-off of strings between groups and buckets is C40 (same tiny-group runs); the hash function is irrelevant to the theorems (bucket choice does not appear in them)",
    "output addresses = bucket base + offset is taken from the layout; the linked program compares the bytes itself at run time on this x86-64 host",
    "non-string SHF_MERGE sections (fixed-size entries) are outside the generated inputs",
]

IMPORTS = """From Coq Require Import NArith List Bool Arith. Import ListNotations.
From WV Require Import C07.Model C07.Proofs.
Definition enc (o : option (list (list nat))) : list (list N) := match o with Some ls => map (map N.of_nat) ls | None => [[4294967295%N]] end.
Definition run (data : list N) (cuts : list N) := enc (process_all data (map N.to_nat cuts)).
"""
ALPH = "abcdefghijklmnopqrstuvwxyz0123456789_-/"


def gen_section(rng, pool):
    """list of strings (without NUL); total size steered so that strings start on / next to 256-byte boundaries"""
    out = []
    size = 0
    nblocks = rng.choice([1, 1, 2, 3, 5])
    while size < 256 * nblocks:
        r = rng.random()
        to_boundary = 256 - (size % 256)
        if r < 0.25 and 2 <= to_boundary <= 200:
            # filler that ends exactly at the boundary (the next string starts ON it), or one byte before / after
            n = to_boundary - 1 + rng.choice([0, 0, 0, -1, 1])
            s = "".join(rng.choice(ALPH) for _ in range(max(n, 0)))
        elif r < 0.45 and pool:
            s = rng.choice(pool)
            if rng.random() < 0.4 and len(s) > 1:
                s = s[rng.randrange(len(s)):]           # shared suffix
        elif r < 0.5:
            s = ""
        else:
            s = "".join(rng.choice(ALPH) for _ in range(rng.choice([1, 2, 3, 5, 8, 13, 30, 60, 300])))
        pool.append(s)
        out.append(s)
        size += len(s) + 1
    return out


def build(d, rng, nobj):
    pool = []
    objs = []
    sections = []
    checks = 0
    for k in range(nobj):
        strs = gen_section(rng, pool)
        sections.append(strs)
        s = [f'.section .rodata.str1.1,"aMS",@progbits,1']
        plain = ['.section .data.copies,"aw",@progbits']
        table = ['.section .data.table,"aw",@progbits']
        for i, t in enumerate(strs):
            s.append(f'.globl g{k}_{i}\ng{k}_{i}:\n.Ll{k}_{i}: .string "{t}"')
            plain.append(f'.Lp{k}_{i}: .string "{t}"')
            if rng.random() < 0.6:
                off = rng.randrange(len(t) + 1) if rng.random() < 0.5 else 0
                lab = f"g{k}_{i}" if rng.random() < 0.5 else f".Ll{k}_{i}"       # named symbol vs section symbol + addend
                table.append(f" .quad {lab}+{off}, .Lp{k}_{i}+{off}")
                checks += 1
        open(f"{d}/s{k}.s", "w").write("\n".join(s + plain + table) + "\n")
        rc, out = sh(f"cd {d} && as --64 s{k}.s -o s{k}.o", timeout=60)
        if rc != 0:
            return None
        objs.append(f"s{k}.o")
    main = ['.section .data.table,"aw",@progbits', "table_start:", '.section .data.tableend,"aw",@progbits', " .quad 0, 0",
            '.section .text._start,"ax",@progbits\n.globl _start\n_start:\n lea table_start(%rip),%rbx\n1: mov (%rbx),%rsi\n mov 8(%rbx),%rdi\n test %rsi,%rsi\n jz 8f\n'
            '2: mov (%rsi),%al\n cmp (%rdi),%al\n jne 9f\n inc %rsi\n inc %rdi\n test %al,%al\n jnz 2b\n add $16,%rbx\n jmp 1b\n'
            '8: xor %edi,%edi\n mov $60,%eax\n syscall\n9: mov $1,%edi\n mov $60,%eax\n syscall\n']
    open(f"{d}/main.s", "w").write("\n".join(main) + "\n")
    rc, out = sh(f"cd {d} && as --64 main.s -o main.o", timeout=60)
    if rc != 0:
        return None
    return ["main.o"] + objs, sections, checks


def merged_strings(path):
    e = elfread.Elf(path)
    out = []
    for s in e.shdrs:
        if s["type"] == 1 and (s["flags"] & 0x30) == 0x30 and s.get("name", "").startswith(".rodata"):
            dta = e.data(s)
            out += dta.split(b"\0")[:-1] if dta.endswith(b"\0") else dta.split(b"\0")
    return out


def run(chk, replay=None):
    coq = coq_build(["C07"], ["C07/Props.v"])
    chk.add_coq(coq)
    okw, outw, wild = wild_build()
    if not okw:
        chk.tie_break("wild does not build", outw[-2000:])
        return chk.finish(TRUSTED)
    rng = chk.rng
    nprog = 40 if chk.tier == "quick" else 300
    seeds = [rng.randrange(1 << 30) for _ in range(nprog)]
    if replay:
        seeds = json.load(open(replay))["replay"]["seeds"]
    stats = {"programs": 0, "links": 0, "references_checked": 0, "strings": 0, "strings_on_boundary": 0, "groups": 0, "model_mismatch": 0, "behaviour_mismatch": 0}
    d = tempfile.mkdtemp(prefix="c07")
    items = []
    expect = []
    try:
        for seed in seeds:
            r = random.Random(seed)
            nobj = r.randrange(1, 5)
            sub = f"{d}/p{seed}"
            os.makedirs(sub)
            b = build(sub, r, nobj)
            if b is None:
                chk.tie_break("as failed on a generated object", {"seeds": [seed]})
                continue
            args, sections, checks = b
            stats["programs"] += 1
            stats["references_checked"] += checks
            distinct = sorted({t.encode() for sec in sections for t in sec})
            for sec in sections:
                pos = 0
                for t in sec:
                    stats["strings"] += 1
                    stats["strings_on_boundary"] += int(pos % 256 == 0 and pos > 0)
                    pos += len(t) + 1
            rep = {"seeds": [seed]}
            ref_rc = None
            for threads, par, extra in ((1, 1, []), (4, 2, []), (16, 8, []), (4, 2, ["--no-string-merge"])):
                rc, out = sh(f"cd {sub} && timeout 60 {wild} {' '.join(args)} -o out{threads}{len(extra)} --threads={threads} --wild-experiments={par},256 --no-gc-sections {' '.join(extra)}", timeout=90)
                stats["links"] += 1
                if rc != 0:
                    chk.violation(f"link of a generated string-merge program fails (seed {seed}, threads {threads} {extra}): {out[-200:]}", rep)
                    continue
                prc, pout = sh(f"cd {sub} && timeout 10 ./out{threads}{len(extra)}", timeout=20)
                if extra:
                    ref_rc = prc
                if prc != 0:
                    stats["behaviour_mismatch"] += 1
                    chk.violation(f"a reference into a merged string section reads different bytes than the unmerged copy (seed {seed}, --threads={threads} {' '.join(extra)}): the self-checking program exits {prc}", rep)
                    continue
                if not extra:
                    got = sorted(merged_strings(f"{sub}/out{threads}0"))
                    if got != distinct:
                        missing = [x.decode() for x in distinct if x not in got][:5]
                        dup = [x.decode() for x in set(got) if got.count(x) > 1][:5]
                        chk.violation(f"merged section of the output (seed {seed}, --threads={threads}) does not hold each distinct string exactly once: missing {missing}, repeated {dup}", rep)
            # the model on the same sections, cut at the same 256-byte boundaries
            for sec in sections:
                data = b"".join(t.encode() + b"\0" for t in sec)
                cuts = list(range(0, len(data), 256)) + [len(data)]
                stats["groups"] += len(cuts) - 1
                items.append(f"run [{'; '.join(str(x) for x in data)}]%N [{'; '.join(str(c) for c in cuts)}]%N")
                starts = []
                pos = 0
                for t in sec:
                    starts.append(pos)
                    pos += len(t) + 1
                expect.append((seed, cuts, starts))
            shutil.rmtree(sub, ignore_errors=True)
    finally:
        shutil.rmtree(d, ignore_errors=True)
    if items:
        per = (len(items) + NCPU - 1) // NCPU
        bodies = ["Eval vm_compute in [\n" + ";\n".join(items[k * per:(k + 1) * per]) + "].\n" for k in range(NCPU) if items[k * per:(k + 1) * per]]
        mres = []
        okm = True
        for rc, out in coq_eval_sharded("c07", IMPORTS, bodies, timeout=900):
            if rc != 0:
                chk.tie_break("model evaluation failed (coqc)", out[-1500:])
                okm = False
                continue
            mres += parse_coq_value(out)
        if okm and len(mres) == len(items):
            for (seed, cuts, starts), groups in zip(expect, mres):
                want = [[s for s in starts if cuts[j] <= s < cuts[j + 1]] for j in range(len(cuts) - 1)]
                if groups != want:
                    stats["model_mismatch"] += 1
                    chk.tie_break("correspondence C07.process: the model's groups do not hold the strings that start in their ranges (the strings the output was checked to contain)",
                                  {"seeds": [seed], "cuts": cuts, "model": groups, "expected": want})
        elif okm:
            chk.tie_break("model evaluation: wrong number of answers", {"items": len(items), "answers": len(mres)})
    chk.cov.update({
        "evaluations": stats["links"], "distinct_nontrivial": stats["strings_on_boundary"],
        "rule": "1-4 objects, each with a 1-5 block (256 bytes) string section: fillers that end exactly on / one byte before / after a block boundary, duplicates and suffixes of earlier strings, "
                "empty strings, lengths 1..300; 60% of the strings referenced (half by named symbol, half by section symbol, half at a random offset inside); every program linked with "
                "--threads 1/4/16 and 256-byte groups plus once with --no-string-merge; non-trivial = strings that start exactly on a group boundary",
        "stats": stats,
    })
    return chk.finish(TRUSTED)
