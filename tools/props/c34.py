"""C34 — linker-diff is quiet on equal binaries and catches broken relocations.
Theorems: coq/C34/Props.v (the per-site comparison of positions relative to the original symbol: empty on identical
binaries and whenever every reference agrees; a single redirected reference is reported, and only its sites).
Tie T2 against the real tool: generated assembly programs (functions, data, pointer tables, pc-relative data words,
GOT loads, calls) are linked by wild (static and PIE, with --write-layout); linker-diff is run (a) on each binary
against itself and against a byte-identical copy: exit 0 and `No differences`; (b) against a copy in which ONE
relocated reference — a call, a lea, a data pointer, a .long sym-. word, picked at random among the input relocations —
has been repointed at another symbol or a few bytes off: non-zero exit and a `rel.` report whose ORIG offset is that
relocation.  The model's `report` (evaluated in Coq on the addresses read back from both files) must name the same
site."""
from wvlib import *
import tempfile, shutil, struct
import elfread

TRUSTED = [
    "Coq 8.16.1 kernel incl. vm_compute; axioms: none",
    "the model is the comparison rule of asm_diff for one relocation; instruction decoding, relaxation matching, the section/segment/symbol/eh_frame/version differs of linker-diff are not modelled (they are exercised only by the self-comparison runs)",
    "corruptions are single-site edits of rel32 / abs64 / abs32 fields of non-PIC outputs and rel32 fields of PIE outputs; data pointers of PIE outputs carry dynamic relocations and are not edited",
]

IMPORTS = """From Coq Require Import ZArith List Bool. Import ListNotations.
From WV Require Import C34.Model.
Open Scope Z_scope.
Definition B (syms pts : list Z) := {| sym_addr := fun i => nth i syms 0; points_at := fun i => nth i pts 0 |}.
Definition rep (syms ptsr ptst : list Z) (sites : list (nat * nat)) := map (fun s => Z.of_nat (fst s)) (report (B syms ptsr) (B syms ptst) sites).
"""


def gen_program(rng):
    nf, nd = rng.randrange(3, 7), rng.randrange(3, 6)
    s = ['.section .text.main,"ax",@progbits', ".globl _start", ".type _start,@function", "_start:"]
    sites = 0
    for _ in range(rng.randrange(4, 10)):
        k = rng.random()
        if k < 0.15:
            s.append(rng.choice([f" add dat{rng.randrange(nd)}@GOTPCREL(%rip), %rax", f" push fn{rng.randrange(nf)}@GOTPCREL(%rip)\n pop %rcx", f" cmp dat{rng.randrange(nd)}@GOTPCREL(%rip), %rdx"]))
        elif k < 0.4:
            s.append(f" call fn{rng.randrange(nf)}")
        elif k < 0.7:
            s.append(f" lea dat{rng.randrange(nd)}+{8 * rng.randrange(3)}(%rip), %rax")
        else:
            s.append(f" lea fn{rng.randrange(nf)}(%rip), %rdx")
    s += [" ret", ".size _start, .-_start"]
    for i in range(nf):
        s += [f'.section .text.fn{i},"ax",@progbits', f".globl fn{i}", f".type fn{i},@function", f"fn{i}:"] + [" nop"] * rng.randrange(1, 9) + \
             ([f" call fn{rng.randrange(nf)}"] if rng.random() < 0.5 else []) + [" ret", f".size fn{i}, .-fn{i}"]
    for i in range(nd):
        s += [f'.section .data.dat{i},"aw",@progbits', ".balign 8", f".globl dat{i}", f".type dat{i},@object", f"dat{i}:", f" .quad {i}, {i + 1}, {i + 2}", f".size dat{i}, 24"]
    s += ['.section .data.rel.ro.tab,"aw",@progbits', ".balign 8", ".globl tab", "tab:"]
    for _ in range(rng.randrange(2, 6)):
        s.append(rng.choice([f" .quad fn{rng.randrange(nf)}", f" .quad dat{rng.randrange(nd)}+{8 * rng.randrange(3)}"]))
    s += ['.section .rodata.rel,"a",@progbits', ".balign 4", ".globl reltab", "reltab:"]
    for _ in range(rng.randrange(1, 4)):
        s.append(f" .long dat{rng.randrange(nd)} - .")
    s.append('.section .note.GNU-stack,"",@progbits')
    return "\n".join(s) + "\n", nf, nd


def run(chk, replay=None):
    coq = coq_build(["C34"], ["C34/Props.v"])
    chk.add_coq(coq)
    okw, outw, wild = wild_build()
    rc, out = sh(f"cargo build --offline --manifest-path {REPO}/Cargo.toml -p linker-diff", env=OFFLINE_ENV, timeout=3000)
    ldiff = os.path.join(TARGET, "debug", "linker-diff")
    if not okw or rc != 0 or not os.path.exists(ldiff):
        chk.tie_break("wild / linker-diff do not build", (outw + out)[-2000:])
        return chk.finish(TRUSTED)
    rng = chk.rng
    seeds = [rng.randrange(1 << 30) for _ in range(12 if chk.tier == "quick" else 120)]
    if replay:
        seeds = json.load(open(replay))["replay"]["seeds"]
    known = {k["id"] for k in chk.known}
    stats = {"binaries": 0, "self_runs": 0, "copy_runs": 0, "corruptions": 0, "by_type": {}, "reported": 0, "missed": 0, "spurious": 0, "model_mismatch": 0}
    items, expect = [], []
    d = tempfile.mkdtemp(prefix="c34")
    try:
        for seed in seeds:
            r = random.Random(seed)
            src, nf, nd = gen_program(r)
            open(f"{d}/p.s", "w").write(src)
            rc, out = sh(f"cd {d} && as --64 p.s -o p.o", timeout=60)
            if rc:
                chk.tie_break("as failed", {"seeds": [seed], "msg": out[-300:]})
                continue
            for kind, flags in (("static", ""), ("pie", "-pie --no-dynamic-linker")):
                rep = {"seeds": [seed], "kind": kind}
                rc, out = sh(f"cd {d} && rm -f bin bin.layout && {wild} p.o -o bin {flags} --write-layout --no-gc-sections", timeout=60)
                if rc:
                    chk.violation(f"link fails (seed {seed}, {kind}): {out.strip()[-200:]}", rep)
                    continue
                stats["binaries"] += 1
                # (a) itself and a byte-identical copy
                for name, other in (("itself", "bin"), ("a byte-identical copy", "copy")):
                    if other == "copy":
                        shutil.copy(f"{d}/bin", f"{d}/copy")
                        shutil.copy(f"{d}/bin.layout", f"{d}/copy.layout")
                    rc, out = sh(f"cd {d} && {ldiff} --wild-defaults --colour never --ref bin {other}", timeout=60)
                    stats["self_runs" if other == "bin" else "copy_runs"] += 1
                    if rc != 0 or "No differences" not in out:
                        stats["spurious"] += 1
                        chk.violation(f"linker-diff reports problems when a binary is compared with {name} (seed {seed}, {kind}, exit {rc}): {out.strip()[:300]!r}", dict(rep, output=out[:1500]))
                # (b) one redirected reference
                eo = elfread.Elf(f"{d}/p.o")
                eb = elfread.Elf(f"{d}/bin")
                bsyms = {s["name"]: s["value"] for s in eb.symbols(".symtab") if s["name"]}
                osyms = eo.symbols(".symtab")
                rels = []
                for sh_ in eo.shdrs:
                    if sh_["type"] != 4:
                        continue
                    tsec = eo.shdrs[sh_["info"]]
                    if not (tsec["flags"] & 2):
                        continue
                    # where that input section went: through a symbol defined at its start
                    start = next((s for s in osyms if s["shndx"] == tsec["index"] and s["value"] == 0 and s["name"] and s["type"] != 3), None)
                    if start is None or start["name"] not in bsyms:
                        continue
                    for rr in eo.relas(sh_["name"]):
                        sym = osyms[rr["sym"]]
                        if sym["name"] in bsyms:
                            rels.append((tsec["name"], start["name"], rr, sym["name"]))
                cands = [x for x in rels if x[2]["type"] in (2, 4, 9, 41, 42) or (kind == "static" and x[2]["type"] in (1, 10, 11))]
                # PIE: a data pointer lives in the addend of its R_X86_64_RELATIVE relocation
                if kind == "pie":
                    ptrs = [x for x in rels if x[2]["type"] == 1]
                    rd = eb.section(".rela.dyn")
                    if ptrs and rd is not None:
                        secname, startname, rr, symname = r.choice(ptrs)
                        place = bsyms[startname] + rr["offset"]
                        for i in range(rd["size"] // 24):
                            o, info, add = struct.unpack_from("<QQq", eb.b, rd["offset"] + 24 * i)
                            if o == place and (info & 0xffffffff) == 8:
                                fam = [n for n in sorted(bsyms) if n[:2] == symname[:2] and n != symname]
                                if not fam:
                                    break
                                b = bytearray(eb.b)
                                struct.pack_into("<q", b, rd["offset"] + 24 * i + 16, bsyms[r.choice(fam)] + rr["addend"])
                                open(f"{d}/bad", "wb").write(b)
                                os.chmod(f"{d}/bad", 0o755)
                                shutil.copy(f"{d}/bin.layout", f"{d}/bad.layout")
                                rc, out = sh(f"cd {d} && {ldiff} --wild-defaults --colour never --ref bin bad", timeout=60)
                                stats["corruptions"] += 1
                                stats["by_type"]["R_X86_64_RELATIVE addend"] = stats["by_type"].get("R_X86_64_RELATIVE addend", 0) + 1
                                rep2 = dict(rep, section=secname, offset=rr["offset"], type="R_X86_64_RELATIVE addend", symbol=symname)
                                if rc == 0:
                                    stats["missed"] += 1
                                    if "C34-relative-data-pointer-not-compared" in known:
                                        chk.known_hit("C34-relative-data-pointer-not-compared", rep2)
                                    else:
                                        chk.violation(f"linker-diff does not report a PIE data pointer (R_X86_64_RELATIVE addend) redirected from {symname} ({secname}+{rr['offset']:#x}, seed {seed})", dict(rep2, output=out[:800]))
                                else:
                                    stats["reported"] += 1
                                break
                if not cands:
                    continue
                base_syms = sorted(bsyms)
                for _ in range(2 if chk.tier == "quick" else 4):
                    secname, startname, rr, symname = r.choice(cands)
                    place = bsyms[startname] + rr["offset"]
                    off = eb.vaddr_to_off(place)
                    if off is None:
                        continue
                    width = 8 if rr["type"] == 1 else 4
                    old = int.from_bytes(eb.b[off:off + width], "little", signed=rr["type"] != 1)
                    pcrel = rr["type"] in (2, 4, 9, 41, 42)
                    isgot = rr["type"] in (9, 41, 42)
                    old_target = old + (place if pcrel else 0) - rr["addend"]
                    # the new target: another symbol of the same family, or the same one a few bytes off
                    fam = [n for n in base_syms if n[:2] == symname[:2] and n != symname and not n.startswith(("tab", "rel"))]
                    new_target = bsyms[r.choice(fam)] if fam and r.random() < 0.7 and not isgot else old_target + r.choice([1, 2, 4, 8, -1, -8, 16])
                    if new_target == old_target:
                        continue
                    new = new_target + rr["addend"] - (place if pcrel else 0)
                    try:
                        data = new.to_bytes(width, "little", signed=rr["type"] != 1)
                    except OverflowError:
                        continue
                    b = bytearray(eb.b)
                    b[off:off + width] = data
                    open(f"{d}/bad", "wb").write(b)
                    os.chmod(f"{d}/bad", 0o755)
                    shutil.copy(f"{d}/bin.layout", f"{d}/bad.layout")
                    rc, out = sh(f"cd {d} && {ldiff} --wild-defaults --colour never --ref bin bad", timeout=60)
                    stats["corruptions"] += 1
                    tname = {1: "R_X86_64_64", 2: "R_X86_64_PC32", 4: "R_X86_64_PLT32", 9: "R_X86_64_GOTPCREL", 10: "R_X86_64_32", 11: "R_X86_64_32S", 41: "R_X86_64_GOTPCRELX", 42: "R_X86_64_REX_GOTPCRELX"}[rr["type"]]
                    stats["by_type"][tname] = stats["by_type"].get(tname, 0) + 1
                    rep2 = dict(rep, section=secname, offset=rr["offset"], type=tname, symbol=symname, old_target=hex(old_target), new_target=hex(new_target))
                    blocks = [bk for bk in re.split(r"(?m)^(?=rel\.)", out) if bk.startswith("rel.")]

                    def covers(bk):
                        m = re.search(r"ORIG 0x([0-9a-f]+): \[ ((?:[0-9a-f]{2} )+)\]", bk)
                        return bool(m) and int(m.group(1), 16) <= rr["offset"] < int(m.group(1), 16) + len(m.group(2).split()) and secname in bk
                    hit = [bk for bk in blocks if covers(bk)]
                    if (rc == 0 or not hit) and secname.startswith(".rodata") and "C34-data-word-in-rodata-not-compared" in known:
                        stats["missed"] += 1
                        chk.known_hit("C34-data-word-in-rodata-not-compared", rep2)
                    elif rc == 0 or not hit:
                        stats["missed"] += 1
                        chk.violation(f"linker-diff does not report a reference redirected from {symname} ({old_target:#x}) to {new_target:#x} ({tname} at {secname}+{rr['offset']:#x}, {kind}, seed {seed}): "
                                      f"exit {rc}, {len(blocks)} rel reports", dict(rep2, output=out[:1500]))
                    else:
                        stats["reported"] += 1
                    if len(blocks) > len(hit):
                        chk.violation(f"linker-diff reports {len(blocks) - len(hit)} further relocation differences for a copy that differs at one site only (seed {seed}, {kind})", dict(rep2, output=out[:1500]))
                    # the model on the same numbers: symbols = [the original symbol], sites = every candidate relocation
                    symlist = sorted({x[3] for x in cands})
                    ptsr, ptst, sites = [], [], []
                    for si, (sn, st, r2, sy) in enumerate(cands):
                        pl = bsyms[st] + r2["offset"]
                        o2 = eb.vaddr_to_off(pl)
                        w2 = 8 if r2["type"] == 1 else 4
                        pc2 = r2["type"] in (2, 4, 9, 41, 42)
                        v_ref = int.from_bytes(eb.b[o2:o2 + w2], "little", signed=r2["type"] != 1) + (pl if pc2 else 0) - r2["addend"]
                        v_tst = int.from_bytes(b[o2:o2 + w2], "little", signed=r2["type"] != 1) + (pl if pc2 else 0) - r2["addend"]
                        ptsr.append(v_ref); ptst.append(v_tst); sites.append((si, symlist.index(sy)))
                    victim = cands.index((secname, startname, rr, symname))
                    items.append(f"rep [{'; '.join(str(bsyms[x]) for x in symlist)}] [{'; '.join(map(str, ptsr))}] [{'; '.join(map(str, ptst))}] [{'; '.join(f'({a}%nat, {c}%nat)' for a, c in sites)}]")
                    expect.append((victim, bool(hit), rep2))
    finally:
        shutil.rmtree(d, ignore_errors=True)
    if items:
        per = (len(items) + NCPU - 1) // NCPU
        bodies = ["Eval vm_compute in [\n" + ";\n".join(items[j * per:(j + 1) * per]) + "].\n" for j in range(NCPU) if items[j * per:(j + 1) * per]]
        flat, okm = [], True
        for rc_, o in coq_eval_sharded("c34", IMPORTS, bodies, timeout=600):
            if rc_ != 0:
                chk.tie_break("model evaluation failed (coqc)", o[-1500:])
                okm = False
                continue
            flat += parse_coq_value(o)
        if okm and len(flat) == len(expect):
            for mv, (victim, hit, rep) in zip(flat, expect):
                if not hit and rep["section"].startswith(".rodata") and "C34-data-word-in-rodata-not-compared" in known:
                    continue
                if (mv == [victim]) != hit or (mv not in ([victim], [])):
                    stats["model_mismatch"] += 1
                    chk.tie_break(f"correspondence C34.report: the model reports sites {mv} (victim {victim}), linker-diff {'reported' if hit else 'did not report'} the victim", rep)
        elif okm:
            chk.tie_break("model evaluation: wrong number of answers", {"items": len(expect), "answers": len(flat)})
    chk.cov.update({
        "evaluations": stats["self_runs"] + stats["copy_runs"] + stats["corruptions"], "distinct_nontrivial": stats["corruptions"],
        "rule": "one assembly program per seed (3-6 functions, 3-5 data objects, a pointer table, a table of pc-relative words, calls/lea from _start and between functions), linked static "
                "and as static PIE with --write-layout; per binary: self comparison, identical copy, 2 (thorough: 4) single-site corruptions to another symbol of the same family or a few bytes off",
        "stats": stats,
    })
    return chk.finish(TRUSTED)
