"""C05 — garbage collection keeps everything reachable.
Theorem: C39_terminal_closure (coq/C39/Props.v): for every request graph and every schedule the handled set is exactly the
closure of the roots.  Tie (T2): generated programs with a known reference graph; the set of sections wild keeps (read back
from the output's symbol table) is compared with the closure computed from the generator's own description, and the
programs are executed with and without --gc-sections."""
from wvlib import *
import objgen, elfread, tempfile

TRUSTED = [
    "Coq 8.16.1 kernel incl. vm_compute; axioms: none",
    "theorem = C39_terminal_closure over an abstract successor relation; that the handlers' requests are exactly the relocation targets of a section (load_section / load_symbol) is validated "
    "by this check on generated graphs, not proved",
    "roots exercised: entry point, .init_array, start/stop-referenced C-identifier sections, data reached through section symbols; KEEP/retain/note/exported-symbol roots are exercised only by the linker-script and shared-object variants",
    "tie: wild binary; closure computed independently by tools/objgen.py; x86-64 programs executed on this host",
]


def run(chk, replay=None):
    coq = coq_build(["C39"], ["C39/Props.v"])
    chk.add_coq(coq)
    okw, outw, wild = wild_build()
    if not okw:
        chk.tie_break("wild does not build", outw[-2000:])
        return chk.finish(TRUSTED)
    rng = chk.rng
    d = tempfile.mkdtemp(prefix="wv-c05-")
    stats = {"programs": 0, "links": 0, "functions": 0, "kept": 0, "collected": 0, "executed": 0}
    samples = []
    try:
        nprog = 12 if chk.tier == "quick" else 80
        for pi in range(nprog):
            nobj = rng.choice([1, 2, 4, 9, 20])
            prog = objgen.Program(rng, nobj, rng.choice([2, 3, 5, 8]), density=rng.choice([0.1, 0.25, 0.5]))
            pd = f"{d}/p{pi}"
            os.makedirs(pd)
            objs = []
            for name, text in prog.sources().items():
                open(f"{pd}/{name}", "w").write(text)
                sh(f"as -o {pd}/{name[:-2]}.o {pd}/{name}", check=True)
                objs.append(f"{pd}/{name[:-2]}.o")
            # objects in a shuffled order and some inside an archive-free --start-lib region would change C03's loaded set: keep plain objects
            rng.shuffle(objs)
            keep_f, keep_d, set_live = prog.reachable()
            stats["programs"] += 1
            stats["functions"] += len(prog.funcs)
            results = {}
            for mode, flags in (("gc", ["--gc-sections"]), ("nogc", ["--no-gc-sections"]), ("gc-t1", ["--gc-sections", "--threads=1"])):
                out = f"{pd}/out_{mode}"
                rc, o = sh([wild, "-o", out] + flags + objs, timeout=120, env={"WILD_FILES_PER_GROUP": str(rng.choice([1, 2, 100]))})
                stats["links"] += 1
                rep = {"program_index": pi, "seed": chk.seed, "mode": mode, "nobj": nobj}
                if rc != 0:
                    chk.violation(f"valid program fails to link with {flags}: {o[-300:]}", rep)
                    continue
                e = elfread.Elf(out)
                names = {s["name"] for s in e.symbols(".symtab") if s["shndx"] != 0}
                p = subprocess.run([out], timeout=20)
                stats["executed"] += 1
                results[mode] = (names, p.returncode)
                if mode.startswith("gc"):
                    for f in prog.funcs:
                        n = prog.fname(f)
                        if f in keep_f and n not in names:
                            chk.violation(f"reachable function {n} was garbage-collected ({mode})", dict(rep, missing=n))
                        if f not in keep_f and n in names:
                            # keeping too much is not a violation of the property; it is a model/implementation difference worth knowing
                            chk.tie_break("unreachable function kept: closure computed by the generator differs from wild's kept set", dict(rep, extra=n))
                    for dd in prog.data:
                        n = prog.dname(dd)
                        if dd in keep_d and n not in names:
                            chk.violation(f"reachable data object {n} was garbage-collected ({mode})", dict(rep, missing=n))
                    for (k, i, tgt) in prog.setmembers:
                        if set_live and f"setm_{i}" not in names:
                            chk.violation(f"member setm_{i} of a __start_/__stop_-referenced section was garbage-collected ({mode})", dict(rep))
                    stats["kept"] += len(keep_f)
                    stats["collected"] += len(prog.funcs) - len(keep_f)
            if "gc" in results and "nogc" in results and results["gc"][1] != results["nogc"][1]:
                chk.violation(f"program behaves differently with and without --gc-sections: exit {results['gc'][1]} vs {results['nogc'][1]}", {"program_index": pi, "seed": chk.seed})
            if "gc" in results and "gc-t1" in results and results["gc"][0] != results["gc-t1"][0]:
                chk.violation("kept set depends on the thread count", {"program_index": pi, "seed": chk.seed})
            if len(samples) < 4:
                samples.append({"objects": nobj, "functions": len(prog.funcs), "reachable": len(keep_f), "set_live": set_live,
                                "exit_gc": results.get("gc", (0, None))[1], "exit_nogc": results.get("nogc", (0, None))[1]})
    finally:
        shutil.rmtree(d, ignore_errors=True)
    chk.cov.update({
        "evaluations": stats["links"] + stats["executed"], "distinct_nontrivial": stats["programs"],
        "rule": "generated programs (1..20 objects, per-function sections, random call/data-pointer graphs with cycles, start/stop set, init_array) linked with --gc-sections (default and "
                "--threads=1, random files-per-group) and --no-gc-sections; kept set read from .symtab vs closure computed from the generator's graph; both binaries executed; non-trivial = one program",
        "stats": stats, "samples": samples,
    })
    chk.assumptions = TRUSTED
    return chk.finish(TRUSTED)
