"""C11 — AArch64 long branches reach their intended target.
Theorems: coq/C11/Props.v (thunk-block placement within reach for objects up to the slack; thunk template).
Tie: (i) T2 — libwild's assign_thunk_blocks (guarded hook) against C11.Model.assign_thunk_blocks on random size lists
around multiples of the range (block per object, owner per block);
(ii) end to end — AArch64 objects assembled with clang (callers and callees separated by > 128 MiB of .space padding, in
several objects, forward and backward, repeated targets, a caller in a non-primary section) are linked by wild; every
`bl`/`b` at a generated call site is decoded from the output, followed through its thunk (adrp+add+br) if it lands on
one, and the final address is compared with the intended symbol.  No AArch64 execution is possible here (stated)."""
from wvlib import *
import tempfile, shutil, struct
import elfread

TRUSTED = [
    "Coq 8.16.1 kernel incl. vm_compute; axioms: none",
    "C11/Model.v is the algorithm of assign_thunk_blocks restated over contiguous object sizes with explicit block positions (a block sits at its owner's end); tied to the compiled function by the hook on every run",
    "which relocations get a thunk (provably_in_range, non-primary references) and the thunk bytes are checked only end to end, by decoding wild's output; AArch64 code is analysed statically, never executed (no emulator in this sandbox)",
    "the theorem's premise that no object exceeds the slack (2 MiB of primary text) minus the block's size is outside wild's control; beyond it the model refutes the property (recorded)",
]

IMPORTS = """From Coq Require Import ZArith List Bool. Import ListNotations.
From WV Require Import C11.Model.
Open Scope Z_scope.
Definition run (range offset : Z) (sizes : list Z) :=
  let r := assign_thunk_blocks offset sizes range in (fst r, map (fun x => (e_block x, Z.of_nat (e_owner x))) (snd r)).
"""
MiB = 1 << 20


def flow(path, sites, targets):
    """[(site label, intended symbol, 'ok' | description of where the branch really goes)]"""
    e = elfread.Elf(path)
    syms = {s["name"]: s["value"] for s in e.symbols(".symtab") if s["name"]}
    addr2name = {}
    for s in e.symbols(".symtab"):
        if s["name"] and s["type"] in (0, 2):
            addr2name.setdefault(s["value"], s["name"])

    def insn(a):
        b = e.read_va(a, 4)
        return struct.unpack("<I", b)[0] if b and len(b) == 4 else None

    def sx(v, bits):
        return v - (1 << bits) if v >> (bits - 1) else v
    out = []
    for lab, tgt in zip(sites, targets):
        a = syms.get(lab)
        want = syms.get(tgt)
        if a is None or want is None:
            out.append((lab, tgt, "symbol missing from the output"))
            continue
        w = insn(a)
        if w is None or (w & 0x7c000000) != 0x14000000:
            out.append((lab, tgt, f"not a b/bl instruction: {w}"))
            continue
        dest = a + sx(w & 0x3ffffff, 26) * 4
        hops = 0
        while dest != want and hops < 3:
            i0, i1, i2 = insn(dest), insn(dest + 4), insn(dest + 8)
            if i0 is None or i1 is None or i2 is None:
                break
            # adrp x16, page ; add x16, x16, #lo12 ; br x16
            if (i0 & 0x9f00001f) == 0x90000010 and (i1 & 0xffc003ff) == 0x91000210 and i2 == 0xd61f0200:
                immlo = (i0 >> 29) & 3
                immhi = (i0 >> 5) & 0x7ffff
                page = (dest & ~0xfff) + (sx((immhi << 2) | immlo, 21) << 12)
                dest = page + ((i1 >> 10) & 0xfff)
                hops += 1
            else:
                break
        if dest == want:
            out.append((lab, tgt, "ok"))
        else:
            out.append((lab, tgt, f"reaches {dest:#x} ({addr2name.get(dest, '?')}) instead of {want:#x}"))
    return out


def gen_link(rng, d, big_object):
    """writes objects into d; returns (object list, site labels, intended targets)"""
    objs = []
    sites, targets = [], []
    nfar = rng.randrange(2, 5)
    callers = rng.randrange(2, 4)
    k = 0
    far_names = [f"far{i}" for i in range(nfar)]

    def caller(name, section=".text"):
        nonlocal k
        s = [f'.section {section},"ax",%progbits\n.p2align 6' if section != ".text" else ".text", f".globl {name}", f".type {name},%function", f"{name}:"]
        picks = [rng.choice(far_names + [f"near_{name}"]) for _ in range(rng.randrange(2, 6))]
        if section != ".text":
            picks = [far_names[0], far_names[1], far_names[0]] + picks       # the same far target twice, not adjacent
        for t in picks:
            s += [f".globl site{k}", f"site{k}:", f" {rng.choice(['bl', 'bl', 'b'])} {t}"]
            sites.append(f"site{k}")
            targets.append(t)
            k += 1
        s += [" ret", f".globl near_{name}", f".type near_{name},%function", f"near_{name}: ret"]
        return "\n".join(s) + "\n"

    def pad(name, nbytes):
        return f".text\n .space {nbytes}\n ret\n"           # no symbols: identical pads are assembled once and copied
    plan = []
    plan.append(("c0", caller("c0")))
    if rng.random() < 0.7 or not big_object:
        plan.append(("cx", caller("cx", section=".text.hot64")))      # an over-aligned section: outside the primary text part
    if big_object:
        # block 0 sits at the start; 41 x 3 MiB later the next block is opened by cP (a caller followed by 3 MiB), another
        # 40 x 3 MiB join it, and the 9 MiB object that stretches the span past the range gets the block behind it:
        # 132 MiB from cP's first instruction
        for i in range(41):
            plan.append((f"m{i}", pad(f"m{i}", 3 * MiB + 4096)))
        plan.append(("cP", caller("cP") + f".text\n .space {3 * MiB}\n"))
        for i in range(40):
            plan.append((f"n{i}", pad(f"n{i}", 3 * MiB - 64)))
        plan.append(("big", pad("bigpad", 9 * MiB)))
        plan.append(("tail", pad("tailpad", 10 * MiB)))
    else:
        plan.append(("p0", pad("p0", rng.choice([127, 129, 130, 200]) * MiB)))
        for c in range(1, callers):
            plan.append((f"c{c}", caller(f"c{c}")))
            if rng.random() < 0.6:
                plan.append((f"p{c}", pad(f"p{c}", rng.choice([1, 64, 127, 130]) * MiB)))
    far = [".text"]
    for n in far_names:
        far += [f".globl {n}", f".type {n},%function", f"{n}: ret"]
    pos = len(plan) if big_object else rng.randrange(0, len(plan) + 1)
    plan.insert(pos, ("far", "\n".join(far) + "\n"))
    plan.insert(0, ("start", ".text\n.globl _start\n.type _start,%function\n_start: ret\n"))
    done = {}
    for name, src in plan:
        if src in done:
            shutil.copy(f"{d}/{done[src]}.o", f"{d}/{name}.o")
        else:
            open(f"{d}/{name}.s", "w").write(src)
            rc, out = sh(f"cd {d} && clang --target=aarch64-linux-gnu -c {name}.s -o {name}.o", timeout=300)
            if rc != 0:
                return None, out, None
            done[src] = name
        objs.append(f"{name}.o")
    return objs, sites, targets


def run(chk, replay=None):
    coq = coq_build(["C11"], ["C11/Props.v"])
    chk.add_coq(coq)
    ok, out, binp = harness_build(False)
    okw, outw, wild = wild_build()
    if not ok or not okw:
        chk.tie_break("harness / wild does not build against /repo", (out + outw)[-3000:])
        return chk.finish(TRUSTED)
    rng = chk.rng
    known = {k["id"] for k in chk.known}
    stats = {"assign_cases": 0, "assign_mismatch": 0, "links": 0, "call_sites": 0, "via_thunk_or_direct_ok": 0, "link_failures": 0}
    # ---- (i) assign_thunk_blocks against the model
    cases = []
    for _ in range(300 if chk.tier == "quick" else 5000):
        rangev = rng.choice([500, 1000, 126 * MiB])
        unit = rangev // rng.choice([3, 7, 20, 50])
        n = rng.randrange(1, 30)
        sizes = [max(1, int(unit * rng.choice([0.1, 0.5, 1, 1, 1.5, 3]) * rng.random()) + 1) for _ in range(n)]
        if rng.random() < 0.2:
            sizes[rng.randrange(n)] = rangev + rng.randrange(0, rangev)        # an object larger than the range
        cases.append((rangev, rng.choice([0, 64, 4096]), sizes))
    res = run_impl(binp, "c11", [f"{r} {o} {','.join(map(str, s))}" for r, o, s in cases])
    items = [f"run {r} {o} [{'; '.join(map(str, s))}]" for r, o, s in cases]
    per = (len(items) + NCPU - 1) // NCPU
    bodies = ["Eval vm_compute in [\n" + ";\n".join(items[j * per:(j + 1) * per]) + "].\n" for j in range(NCPU) if items[j * per:(j + 1) * per]]
    mres = []
    okm = True
    for rc, o in coq_eval_sharded("c11", IMPORTS, bodies, timeout=900):
        if rc != 0:
            chk.tie_break("model evaluation failed (coqc)", o[-1500:])
            okm = False
            continue
        mres += parse_coq_value(o)
    if okm and len(mres) == len(cases):
        for (r, o, s), impl, (nb, ents) in zip(cases, res, mres):
            stats["assign_cases"] += 1
            parts = impl.split()
            got = [tuple(int(v) for v in x.split(":")) if x != "-" else None for x in parts[1].split(",")]
            owners = {b: i for i, x in enumerate(got) if x and x[1] for b in [x[0]]}
            want = [(b, ow) for b, ow in ents]
            mine = [(x[0], owners.get(x[0], -1)) if x else None for x in got]
            if int(parts[0]) != nb or mine != want:
                stats["assign_mismatch"] += 1
                chk.tie_break("correspondence C11.assign_thunk_blocks: libwild's assignment differs from the model", {"range": r, "offset": o, "sizes": s, "impl": impl, "model": [nb, ents]})
    elif okm:
        chk.tie_break("model evaluation: wrong number of answers", {"items": len(items), "answers": len(mres)})
    # ---- (ii) end to end
    if shutil.which("clang") is None:
        chk.tie_break("clang is not available to assemble AArch64 objects", "")
    else:
        nlinks = 3 if chk.tier == "quick" else 16
        seeds = [rng.randrange(1 << 30) for _ in range(nlinks)]
        if replay:
            seeds = json.load(open(replay))["replay"]["seeds"]
        for li, seed in enumerate(seeds):
            r = random.Random(seed)
            big = (li == len(seeds) - 1)           # the last link exercises the big-object case
            d = tempfile.mkdtemp(prefix="c11")
            try:
                objs, sites, targets = gen_link(r, d, big)
                if objs is None:
                    chk.tie_break("clang failed on a generated AArch64 object", sites[-300:])
                    continue
                rc, out = sh(f"cd {d} && timeout 300 {wild} -m aarch64linux {' '.join(objs)} -o out --no-gc-sections", timeout=400)
                stats["links"] += 1
                rep = {"seeds": [seed], "big_object": big, "objects": objs}
                if rc != 0:
                    stats["link_failures"] += 1
                    what = f"AArch64 link with far branches fails (seed {seed}{', object larger than the thunk slack' if big else ''}): {out.strip()[-250:]}"
                    if big and "C11-object-larger-than-slack" in known:
                        chk.known_hit("C11-object-larger-than-slack", rep)
                    else:
                        chk.violation(what, rep)
                    continue
                for lab, tgt, verdict in flow(d + "/out", sites, targets):
                    stats["call_sites"] += 1
                    if verdict == "ok":
                        stats["via_thunk_or_direct_ok"] += 1
                    elif big and "C11-object-larger-than-slack" in known:
                        chk.known_hit("C11-object-larger-than-slack", dict(rep, site=lab, target=tgt, verdict=verdict))
                    else:
                        chk.violation(f"branch at {lab} intended for {tgt} {verdict} (seed {seed})", dict(rep, site=lab, target=tgt, verdict=verdict))
            finally:
                shutil.rmtree(d, ignore_errors=True)
    chk.cov.update({
        "evaluations": stats["assign_cases"] + stats["call_sites"], "distinct_nontrivial": stats["call_sites"],
        "rule": "assign_thunk_blocks: 1-29 objects, sizes from a tenth to three times range/k, 20% with one object larger than the range, ranges 500 / 1000 / 126 MiB; "
                "links: 2-3 caller objects (2-5 b/bl each, to far and near targets, repeated targets), 127-200 MiB pads between them, the callees' object at a random position, "
                "sometimes a caller in a non-primary section; the last link of a run has 42 objects of 3 MiB and one of 9 MiB; non-trivial = call sites analysed",
        "stats": stats,
    })
    return chk.finish(TRUSTED)
