"""C35 — jobserver tokens are conserved.
Theorems: coq/C35/Props.v (token accounting of activate_thread_pool / drop(ThreadPool) under an arbitrary environment of
other make jobs: conservation at every step, threads <= held + 1, nothing held after exit on success / error / panic).
Tie T2/T3 against the real binary: a real jobserver (anonymous pipe `--jobserver-auth=R,W` or `fifo:PATH`) with N
tokens is handed to wild through MAKEFLAGS; links that succeed, fail (undefined symbol, injected error) or panic
(injected at a phase boundary) are run forked and with --no-fork, with and without --threads, some with a competing
job taking and returning tokens.  At a pause point (hook WILD_VERIF_POINT=<phase>:pause) the tokens left in the pipe
and the threads of the linking process are counted and compared with the model's held / threads; after wild AND its
background worker are gone (EOF on a liveness pipe they inherit) the pipe must hold exactly N tokens again."""
from wvlib import *
import tempfile, shutil, fcntl, termios, struct, threading, signal

TRUSTED = [
    "Coq 8.16.1 kernel incl. vm_compute; axioms: none",
    "the jobserver crate (Client::from_env, try_acquire, Drop for Acquired) is trusted to read/write one byte per token; rayon's pool size is observed as the number of tasks of the linking process",
    "the environment of the model (other jobs take/give tokens) is exercised by one competing thread of the harness; the theorems quantify over all interleavings",
    "outcomes abort/kill are outside the property's quantifier (tokens are lost with the process: C35_refuted_when_killed)",
]

IMPORTS = """From Coq Require Import List Bool Arith NArith. Import ListNotations.
From WV Require Import C35.Model.
Definition oc (k : nat) := match k with 0 => Success | 1 => LinkError | _ => Panicked end.
Definition cf (th : nat) (js : nat) (k : nat) := {| explicit_threads := (if Nat.eqb th 0 then None else Some th); jobserver := Nat.ltb 0 js; ncpu := 16; result := oc k |}.
Fixpoint until_running (c : cfg) (k : nat) (s : st) : st := match k with 0 => s | S k' => match pc s with Running => s | _ => until_running c k' (wild_step c s) end end.
Definition at_running (c : cfg) (n : nat) := let s := until_running c (n + 3) (init n) in (N.of_nat (held s), N.of_nat (threads s), N.of_nat (pool s)).
Definition at_exit (c : cfg) (n : nat) := let s := wild_n c (n + 4) (init n) in (N.of_nat (held s), N.of_nat (pool s)).
"""


def avail(fd):
    buf = fcntl.ioctl(fd, termios.FIONREAD, struct.pack("i", 0))
    return struct.unpack("i", buf)[0]


def run(chk, replay=None):
    coq = coq_build(["C35"], ["C35/Props.v"])
    chk.add_coq(coq)
    okw, outw, wild = wild_build()
    if not okw:
        chk.tie_break("wild does not build", outw[-2000:])
        return chk.finish(TRUSTED)
    rng = chk.rng
    d = tempfile.mkdtemp(prefix="c35")
    stats = {"runs": 0, "by_outcome": {}, "fork": 0, "nofork": 0, "with_competitor": 0, "pauses": 0, "fifo_style": 0, "explicit_threads": 0, "max_threads_seen": 0, "model_mismatch": 0}
    items, expect = [], []
    try:
        open(d + "/ok.s", "w").write(".globl _start\n_start: ret\n" + "".join(f".section .text.f{i},\"ax\"\nf{i}: .zero 64\n" for i in range(40)))
        open(d + "/bad.s", "w").write(".globl _start\n_start: call missing_fn\n")
        rc, out = sh(f"cd {d} && as --64 ok.s -o ok.o && as --64 bad.s -o bad.o", timeout=60)
        if rc:
            chk.tie_break("as failed", out[-300:])
            return chk.finish(TRUSTED)
        cases = []
        outcomes = [("success", 0, "ok.o", ""), ("undefined-symbol", 1, "bad.o", ""), ("error-at-layout", 1, "ok.o", "layout:error"), ("error-at-written", 1, "ok.o", "written:error"),
                    ("panic-at-resolved", 2, "ok.o", "resolved:panic"), ("panic-at-written", 2, "ok.o", "written:panic"), ("error-after-linked", 1, "ok.o", "linked:error")]
        for n in ([0, 1, 3, 7] if chk.tier == "quick" else [0, 1, 2, 3, 5, 7, 12]):
            for (oname, ok, obj, point) in outcomes:
                for fork in (True, False):
                    if not fork and "linked" in point:
                        continue
                    cases.append({"n": n, "outcome": oname, "ok": ok, "obj": obj, "point": point, "fork": fork, "threads": 0,
                                  "style": rng.choice(["pipe", "pipe", "fifo"]), "competitor": rng.random() < 0.25, "pause": rng.random() < 0.6})
        for n in (2, 5):
            cases.append({"n": n, "outcome": "success", "ok": 0, "obj": "ok.o", "point": "", "fork": True, "threads": 3, "style": "pipe", "competitor": False, "pause": True})
            cases.append({"n": n, "outcome": "undefined-symbol", "ok": 1, "obj": "bad.o", "point": "", "fork": False, "threads": 2, "style": "fifo", "competitor": False, "pause": False})
        if replay:
            cases = [json.load(open(replay))["replay"]["case"]]
        for ci, c in enumerate(cases):
            n = c["n"]
            rep = {"case": c}
            if c["style"] == "fifo":
                fpath = f"{d}/js{ci}.fifo"
                os.mkfifo(fpath)
                r = os.open(fpath, os.O_RDWR | os.O_NONBLOCK)
                w = r
                auth = f"fifo:{fpath}"
                pass_fds = []
                stats["fifo_style"] += 1
            else:
                r, w = os.pipe()
                os.set_inheritable(r, True)
                os.set_inheritable(w, True)
                auth = f"{r},{w}"
                pass_fds = [r, w]
            os.write(w, b"+" * n)
            lr, lw = os.pipe()
            os.set_inheritable(lw, True)
            env = dict(os.environ, MAKEFLAGS=f" -j{n + 1} --jobserver-auth={auth}")
            env.pop("CARGO_MAKEFLAGS", None)
            env.pop("MFLAGS", None)
            points = [c["point"]] if c["point"] else []
            pfifo = None
            if c["pause"] and c["obj"] == "ok.o" and not c["point"].startswith(("resolved", "layout")):
                pfifo = f"{d}/pause{ci}.fifo"
                os.mkfifo(pfifo)
                points.insert(0, f"layout:pause={pfifo}")
            if points:
                env["WILD_VERIF_POINT"] = ",".join(points)
            argv = [wild, c["obj"], "-o", f"{d}/out{ci}"] + ([] if c["fork"] else ["--no-fork"]) + ([f"--threads={c['threads']}"] if c["threads"] else [])
            stop = threading.Event()
            comp = {"taken": 0, "given": 0}

            def competitor():
                rr = random.Random(ci)
                mine = []
                while not stop.is_set():
                    if mine and rr.random() < 0.5:
                        os.write(w, mine.pop())
                        comp["given"] += 1
                    else:
                        try:
                            b = os.read(r, 1)
                            if b:
                                mine.append(b)
                                comp["taken"] += 1
                        except BlockingIOError:
                            pass
                    time.sleep(rr.random() * 0.002)
                while mine:
                    os.write(w, mine.pop())
                    comp["given"] += 1
            th = None
            if c["competitor"] and n > 0:
                os.set_blocking(r, False)
                th = threading.Thread(target=competitor)
                th.start()
                stats["with_competitor"] += 1
            p = subprocess.Popen(argv, env=env, pass_fds=pass_fds + [lw], stdout=subprocess.PIPE, stderr=subprocess.STDOUT, cwd=d)
            os.close(lw)
            stats["runs"] += 1
            stats["by_outcome"][c["outcome"]] = stats["by_outcome"].get(c["outcome"], 0) + 1
            stats["fork" if c["fork"] else "nofork"] += 1
            stats["explicit_threads"] += int(bool(c["threads"]))
            observed = None
            if pfifo:
                # opening the FIFO for writing returns when wild has opened it for reading, i.e. sits at the pause point
                done = {}

                def opener():
                    try:
                        done["fd"] = os.open(pfifo, os.O_WRONLY)
                    except OSError as ex:
                        done["err"] = str(ex)
                to = threading.Thread(target=opener)
                to.start()
                to.join(20)
                if "fd" in done:
                    stats["pauses"] += 1
                    kids = sh(f"pgrep -P {p.pid}")[1].split()
                    pid = int(kids[0]) if (c["fork"] and kids) else p.pid
                    try:
                        tasks = len(os.listdir(f"/proc/{pid}/task"))
                    except OSError:
                        tasks = None
                    if th is None:
                        observed = (n - avail(r), tasks)
                    os.write(done["fd"], b"go")
                    os.close(done["fd"])
                else:
                    # wild never reached the pause point (it failed earlier): unblock a late reader, if any
                    try:
                        fd = os.open(pfifo, os.O_WRONLY | os.O_NONBLOCK)
                        os.close(fd)
                    except OSError:
                        pass
            try:
                out, _ = p.communicate(timeout=120)
            except subprocess.TimeoutExpired:
                p.kill()
                out, _ = p.communicate()
                chk.violation(f"wild did not finish under a jobserver with {n} tokens ({c['outcome']}, {'fork' if c['fork'] else 'no-fork'})", rep)
            # wait until every process that inherited the liveness pipe is gone
            t0 = time.time()
            gone = False
            os.set_blocking(lr, False)
            while time.time() - t0 < 60:
                try:
                    if os.read(lr, 1) == b"":
                        gone = True
                        break
                except BlockingIOError:
                    time.sleep(0.01)
            os.close(lr)
            stop.set()
            if th:
                th.join()
            if not gone:
                chk.violation(f"a wild process is still alive 60 s after the link ended ({c['outcome']})", rep)
            left = avail(r)
            data = b""
            if left:
                os.set_blocking(r, False)
                data = os.read(r, left + 16)
            rc = p.returncode
            text = out.decode("latin1") if isinstance(out, bytes) else (out or "")
            want_rc = {0: [0], 1: [1, 255], 2: [101, -6, 134]}[c["ok"]]
            if rc not in want_rc and not (c["ok"] == 2 and rc != 0):
                chk.tie_break(f"the scenario `{c['outcome']}` did not produce the intended outcome (exit {rc})", dict(rep, output=text[-300:]))
            if len(data) != n or data != b"+" * n:
                chk.violation(f"jobserver started with {n} tokens and holds {len(data)} after wild and its background worker exited "
                              f"({c['outcome']}, {'fork' if c['fork'] else 'no-fork'}, {c['style']} style{', --threads=' + str(c['threads']) if c['threads'] else ''}"
                              f"{', competing job took ' + str(comp['taken']) + ' gave ' + str(comp['given']) if th else ''})", dict(rep, left=len(data), exit=rc))
            if th and comp["taken"] != comp["given"]:
                chk.tie_break("the competing job of the harness did not return what it took", dict(rep, comp=comp))
            items.append(f"(at_running (cf {c['threads']} 1 {c['ok']}) {n}, at_exit (cf {c['threads']} 1 {c['ok']}) {n})")
            expect.append((observed, rep))
            if observed and observed[1]:
                stats["max_threads_seen"] = max(stats["max_threads_seen"], observed[1])
            for fd in {r, w}:
                os.close(fd)
    finally:
        shutil.rmtree(d, ignore_errors=True)
    rc_, out = coq_eval("c35", "Eval vm_compute in [\n" + ";\n".join(items) + "].\n", IMPORTS)
    mres = parse_coq_value(out) if rc_ == 0 else None
    if mres is None or len(mres) != len(items):
        chk.tie_break("model evaluation failed", out[-800:])
    else:
        for mv, (obs, rep) in zip(mres, expect):
            mheld, mthreads, mpool, (eheld, epool) = mv          # Coq prints left-nested tuples flat
            n = rep["case"]["n"]
            if eheld != 0 or epool != n:
                chk.tie_break("the model itself does not return the tokens", dict(rep, model=mv))
            if obs is None:
                continue
            held, tasks = obs
            stats.setdefault("observations", []).append([n, rep["case"]["threads"], held, tasks, mheld, mthreads])
            # rayon: a pool of t > 1 workers next to the (blocked) main thread; t <= 1 runs on the current thread
            want_tasks = mthreads + 1 if mthreads > 1 else 1
            if held != mheld:
                stats["model_mismatch"] += 1
                chk.tie_break(f"correspondence C35.held: at the pause point wild holds {held} of {n} tokens, the model {mheld}", rep)
            if tasks is not None and tasks != want_tasks:
                if tasks > want_tasks and not rep["case"]["threads"]:
                    chk.violation(f"with {held} jobserver tokens held the linking process runs {tasks} threads (a pool of {held + 1} plus the main thread = {want_tasks} expected)", dict(rep, tasks=tasks, held=held))
                else:
                    stats["model_mismatch"] += 1
                    chk.tie_break(f"correspondence C35.threads: {tasks} tasks at the pause point, the model's pool size {mthreads} gives {want_tasks}", rep)
    chk.cov.update({
        "evaluations": stats["runs"], "distinct_nontrivial": stats["pauses"],
        "rule": "tokens N in {0,1,3,7} (thorough: up to 12) x outcomes {success, undefined symbol, injected error at layout/written/after linked, injected panic at resolved/written} x {fork, --no-fork} "
                "x jobserver style {pipe fds, fifo:PATH}, a quarter with a competing job taking/returning tokens, plus --threads=N runs; tokens counted after EOF on a liveness pipe inherited by "
                "every wild process; held tokens and task count sampled at the layout pause point",
        "stats": stats,
    })
    return chk.finish(TRUSTED)
